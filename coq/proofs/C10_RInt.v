(* proofs/C10_RInt.v -- R-level (Coquelicot) integral facts for C10 / C11.  Pure Reals: nothing here depends on the
   rational models, so that the Reals axioms stay out of the Q-level development; proofs/C10_RIntQ.v bridges with Q2R.

   Contents: (1) a small piecewise fundamental theorem of calculus (one polynomial piece + Chasles glue);
   (2) the rectangular and trapezoidal threshold weights w, their antiderivatives g (rows 1/3 of Table B1) and the double
   antiderivatives P = phi/4 (rows 2/4), with  int_x^y w = g y - g x  and
   int_x^y w(t) (t - k) dt = g y (y - k) - g x (x - k) - (P y - P x);
   (3) for ANY triple (w, g, P) with these two properties: the consistent quantile / expectile / Huber scoring functions
   built from g, 4P, 4g are the integral over theta of w(theta) times the Murphy elementary score. *)
From Coq Require Import Reals Lra Psatz.
From Coquelicot Require Import Coquelicot.
Open Scope R_scope.

(* ---------------------------------------------------------------------------------------------------------- *)
(* (1) piecewise FTC                                                                                           *)
(* ---------------------------------------------------------------------------------------------------------- *)
Definition FTC_in (P : R -> Prop) (h H : R -> R) : Prop :=
  forall x y, P x -> P y -> x <= y -> is_RInt h x y (H y - H x).
Definition FTC (h H : R -> R) : Prop := forall x y, x <= y -> is_RInt h x y (H y - H x).

Lemma is_RInt_ext_open (h k : R -> R) x y v : x <= y -> (forall t, x < t < y -> h t = k t) -> is_RInt k x y v -> is_RInt h x y v.
Proof. intros Hxy E I. apply is_RInt_ext with (f := k); auto.
 intros t Ht. rewrite Rmin_left, Rmax_right in Ht by lra. symmetry. apply E. lra. Qed.

Lemma is_RInt_zero_open (h : R -> R) x y : x <= y -> (forall t, x < t < y -> h t = 0) -> is_RInt h x y 0.
Proof. intros Hxy E. apply is_RInt_ext_open with (k := fun _ => 0); auto.
 assert (I : is_RInt (fun _ : R => 0) x y (scal (y - x) 0)) by apply (@is_RInt_const R_CompleteNormedModule).
 replace (scal (y - x) 0) with 0 in I by (unfold scal; simpl; unfold mult; simpl; ring). exact I. Qed.

(* one smooth piece: h = hp inside (x,y), H = Hp at the two end points, Hp' = hp *)
Lemma FTC_on (h H hp Hp : R -> R) x y : x <= y ->
  (forall t, x < t < y -> h t = hp t) -> H x = Hp x -> H y = Hp y ->
  (forall t, x <= t <= y -> is_derive Hp t (hp t)) -> (forall t, x <= t <= y -> ex_derive hp t) ->
  is_RInt h x y (H y - H x).
Proof. intros Hxy E Ex Ey D C. apply is_RInt_ext_open with (k := hp); auto. rewrite Ex, Ey.
 change (Hp y - Hp x) with (minus (Hp y) (Hp x)). apply (is_RInt_derive Hp hp).
 - intros t Ht. rewrite Rmin_left, Rmax_right in Ht by lra. apply D; lra.
 - intros t Ht. rewrite Rmin_left, Rmax_right in Ht by lra. apply (ex_derive_continuous hp). apply C; lra. Qed.

Lemma FTC_glue (A B : R -> Prop) p (h H : R -> R) :
  (forall s t, A s -> s <= t -> A t) -> (forall s t, B t -> s <= t -> B s) ->
  FTC_in (fun t => A t /\ t <= p) h H -> FTC_in (fun t => p <= t /\ B t) h H -> FTC_in (fun t => A t /\ B t) h H.
Proof. intros UA DB F1 F2 x y [Ax Bx] [Ay By] Hxy.
 destruct (Rle_dec y p) as [Hyp|Hyp]; [apply F1; auto; split; auto; lra|].
 destruct (Rle_dec p x) as [Hpx|Hpx]; [apply F2; auto; split; auto; lra|].
 replace (H y - H x) with (plus (H p - H x) (H y - H p)) by (unfold plus; simpl; ring).
 apply (@is_RInt_Chasles R_CompleteNormedModule) with (b := p).
 - apply F1; try lra; split; auto; try lra. apply UA with x; auto; lra.
 - apply F2; try lra; split; auto; try lra. apply DB with y; auto; lra. Qed.

Lemma FTC_in_all (h H : R -> R) : FTC_in (fun _ => True /\ True) h H -> FTC h H.
Proof. intros F x y Hxy. apply F; auto. Qed.

(* ---------------------------------------------------------------------------------------------------------- *)
(* (2) the two weight shapes                                                                                   *)
(* ---------------------------------------------------------------------------------------------------------- *)
(* rectangular: weight 1 on [a,b), 0 elsewhere *)
Definition w_rect (a b t : R) : R := if Rlt_dec t a then 0 else if Rlt_dec t b then 1 else 0.
Definition g_rect (a b x : R) : R := if Rlt_dec x a then 0 else if Rlt_dec x b then x - a else b - a.
Definition P_rect (a b x : R) : R :=
  if Rlt_dec x a then 0 else if Rlt_dec x b then (x - a) * (x - a) / 2 else (b - a) * x + (a * a - b * b) / 2.
(* trapezoidal: 0 up to a, linear ramp up on [a,b), 1 on [b,c), linear ramp down on [c,d), 0 from d *)
Definition w_trap (a b c d t : R) : R :=
  if Rlt_dec t a then 0 else if Rlt_dec t b then (t - a) / (b - a) else if Rlt_dec t c then 1
  else if Rlt_dec t d then (d - t) / (d - c) else 0.
Definition g_trap (a b c d x : R) : R :=
  if Rlt_dec x a then 0
  else if Rlt_dec x b then (x - a) * (x - a) / (2 * (b - a))
  else if Rlt_dec x c then x - (b + a) / 2
  else if Rlt_dec x d then - ((d - x) * (d - x)) / (2 * (d - c)) + (d + c - a - b) / 2
  else (d + c - a - b) / 2.
Definition P_trap (a b c d x : R) : R :=
  if Rlt_dec x a then 0
  else if Rlt_dec x b then (x - a) * (x - a) * (x - a) / (6 * (b - a))
  else if Rlt_dec x c then x * x / 2 - (a + b) * x / 2 + (b - a) * (b - a) / 6 + a * b / 2
  else if Rlt_dec x d then
    (d - x) * (d - x) * (d - x) / (6 * (d - c)) + (d + c - a - b) * x / 2
    + ((b - a) * (b - a) + 3 * a * b - (d - c) * (d - c) - 3 * c * d) / 6
  else (d + c - a - b) * x / 2 + ((b - a) * (b - a) + 3 * a * b - (d - c) * (d - c) - 3 * c * d) / 6.

Ltac undef := unfold w_rect, g_rect, P_rect, w_trap, g_trap, P_trap.
Ltac dec := repeat match goal with |- context [Rlt_dec ?u ?v] => destruct (Rlt_dec u v) end; try lra; try nra.
Ltac atend := try match goal with H1 : ~ ?x < ?p, H2 : ?x <= ?p |- _ => assert (x = p) by lra; subst x end; try (field; lra).
Ltac der := intros; auto_derive; [repeat split; auto; lra | try ring; try (field; lra)].
Ltac cont := intros; auto_derive; repeat split; auto; lra.
Ltac piece hp Hp :=
  match goal with |- FTC_in _ ?h ?H =>
    let x := fresh "x" in let y := fresh "y" in
    intros x y [? ?] [? ?] ?; change (is_RInt h x y (H y - H x)); apply (FTC_on h H hp Hp); auto;
    [ intros ? ?; undef; dec | undef; dec; atend | undef; dec; atend | der | cont ]
  end.

Lemma rect_H1 a b : a < b -> FTC (w_rect a b) (g_rect a b).
Proof. intro Hab. apply FTC_in_all.
 apply (FTC_glue (fun _ => True) (fun _ => True) a); auto. { piece (fun _ : R => 0) (fun _ : R => 0). }
 apply (FTC_glue (fun t => a <= t) (fun _ => True) b); auto; try (intros; lra).
 { piece (fun _ : R => 1) (fun t => t - a). }
 { piece (fun _ : R => 0) (fun _ : R => b - a). }
Qed.

Lemma rect_H2 a b k : a < b ->
  FTC (fun t => w_rect a b t * (t - k)) (fun t => g_rect a b t * (t - k) - P_rect a b t).
Proof. intro Hab. apply FTC_in_all.
 apply (FTC_glue (fun _ => True) (fun _ => True) a); auto. { piece (fun _ : R => 0) (fun _ : R => 0). }
 apply (FTC_glue (fun t => a <= t) (fun _ => True) b); auto; try (intros; lra).
 { piece (fun t => 1 * (t - k)) (fun t => (t - a) * (t - k) - (t - a) * (t - a) / 2). }
 { piece (fun t : R => 0 * (t - k)) (fun t => (b - a) * (t - k) - ((b - a) * t + (a * a - b * b) / 2)). }
Qed.

Lemma trap_H1 a b c d : a < b -> b < c -> c < d -> FTC (w_trap a b c d) (g_trap a b c d).
Proof. intros Hab Hbc Hcd. apply FTC_in_all.
 apply (FTC_glue (fun _ => True) (fun _ => True) a); auto. { piece (fun _ : R => 0) (fun _ : R => 0). }
 apply (FTC_glue (fun t => a <= t) (fun _ => True) b); auto; try (intros; lra).
 { piece (fun t => (t - a) / (b - a)) (fun t => (t - a) * (t - a) / (2 * (b - a))). }
 apply (FTC_glue (fun t => b <= t) (fun _ => True) c); auto; try (intros; lra).
 { piece (fun _ : R => 1) (fun t => t - (b + a) / 2). }
 apply (FTC_glue (fun t => c <= t) (fun _ => True) d); auto; try (intros; lra).
 { piece (fun t => (d - t) / (d - c)) (fun t => - ((d - t) * (d - t)) / (2 * (d - c)) + (d + c - a - b) / 2). }
 { piece (fun _ : R => 0) (fun _ : R => (d + c - a - b) / 2). }
Qed.

Lemma trap_H2 a b c d k : a < b -> b < c -> c < d ->
  FTC (fun t => w_trap a b c d t * (t - k)) (fun t => g_trap a b c d t * (t - k) - P_trap a b c d t).
Proof. intros Hab Hbc Hcd. apply FTC_in_all.
 apply (FTC_glue (fun _ => True) (fun _ => True) a); auto. { piece (fun _ : R => 0) (fun _ : R => 0). }
 apply (FTC_glue (fun t => a <= t) (fun _ => True) b); auto; try (intros; lra).
 { piece (fun t => (t - a) / (b - a) * (t - k))
         (fun t => (t - a) * (t - a) / (2 * (b - a)) * (t - k) - (t - a) * (t - a) * (t - a) / (6 * (b - a))). }
 apply (FTC_glue (fun t => b <= t) (fun _ => True) c); auto; try (intros; lra).
 { piece (fun t => 1 * (t - k))
         (fun t => (t - (b + a) / 2) * (t - k) - (t * t / 2 - (a + b) * t / 2 + (b - a) * (b - a) / 6 + a * b / 2)). }
 apply (FTC_glue (fun t => c <= t) (fun _ => True) d); auto; try (intros; lra).
 { piece (fun t => (d - t) / (d - c) * (t - k))
         (fun t => (- ((d - t) * (d - t)) / (2 * (d - c)) + (d + c - a - b) / 2) * (t - k)
                   - ((d - t) * (d - t) * (d - t) / (6 * (d - c)) + (d + c - a - b) * t / 2
                      + ((b - a) * (b - a) + 3 * a * b - (d - c) * (d - c) - 3 * c * d) / 6)). }
 { piece (fun t : R => 0 * (t - k))
         (fun t => (d + c - a - b) / 2 * (t - k)
                   - ((d + c - a - b) * t / 2 + ((b - a) * (b - a) + 3 * a * b - (d - c) * (d - c) - 3 * c * d) / 6)). }
Qed.

(* int_x^y w(t) (y - t) dt = P y - P x - g x (y - x): P (= phi / 4) is the double antiderivative of the weight *)
Lemma double_antiderivative (w g P : R -> R) :
  (forall k, FTC (fun t => w t * (t - k)) (fun t => g t * (t - k) - P t)) ->
  forall x y, x <= y -> is_RInt (fun t => w t * (y - t)) x y (P y - P x - g x * (y - x)).
Proof. intros H2 x y Hxy. pose proof (H2 y x y Hxy) as I. cbv beta in I.
 apply (@is_RInt_scal R_CompleteNormedModule _ _ _ (-1)) in I.
 apply is_RInt_ext with (g := fun t => w t * (y - t)) in I.
 - replace (P y - P x - g x * (y - x)) with (scal (-1) (g y * (y - y) - P y - (g x * (x - y) - P x))); auto.
   unfold scal; simpl; unfold mult; simpl; ring.
 - intros t _. unfold scal; simpl; unfold mult; simpl; ring. Qed.

(* ---------------------------------------------------------------------------------------------------------- *)
(* (3) integral representation, for any weight with antiderivative g and double antiderivative P               *)
(* ---------------------------------------------------------------------------------------------------------- *)
(* Murphy elementary scores as real functions of theta (the regenerated kernels agree with them at rational
   arguments: proofs/C10_RIntQ.v) *)
Definition ind_over (f o t : R) : R := if Rle_dec o t then (if Rlt_dec t f then 1 else 0) else 0.   (* obs <= theta < fcst *)
Definition ind_under (f o t : R) : R := if Rle_dec f t then (if Rlt_dec t o then 1 else 0) else 0.  (* fcst <= theta < obs *)
Definition esR_quantile (alpha f o t : R) : R := (1 - alpha) * ind_over f o t + alpha * ind_under f o t.
Definition esR_expectile (alpha f o t : R) : R := (1 - alpha) * (t - o) * ind_over f o t + alpha * (o - t) * ind_under f o t.
Definition esR_huber (alpha a f o t : R) : R :=
  (1 - alpha) * Rmin (t - o) a * ind_over f o t + alpha * Rmin (o - t) a * ind_under f o t.
Definition clipR (v x : R) : R := if Rlt_dec x (- v) then - v else if Rlt_dec v x then v else x.

Lemma is_RInt_val (h : R -> R) a b (v v' : R) : is_RInt h a b v -> v = v' -> is_RInt h a b v'.
Proof. intros I E. subst; auto. Qed.
Ltac rring := match goal with |- ?a = ?b => change (@eq R a b) end; cbv beta; try ring; try (field; lra).

(* h vanishes outside (p,q) and equals k inside *)
Lemma RInt_window (h k : R -> R) lo p q hi v : lo <= p -> p <= q -> q <= hi ->
  (forall t, lo < t < p -> h t = 0) -> (forall t, p < t < q -> h t = k t) -> (forall t, q < t < hi -> h t = 0) ->
  is_RInt k p q v -> is_RInt h lo hi v.
Proof. intros H1 H2 H3 Z1 E Z2 I.
 replace v with (plus 0 (plus v 0)) by (unfold plus; simpl; ring).
 apply (@is_RInt_Chasles R_CompleteNormedModule) with (b := p); [apply is_RInt_zero_open; auto|].
 apply (@is_RInt_Chasles R_CompleteNormedModule) with (b := q); [|apply is_RInt_zero_open; auto].
 apply is_RInt_ext_open with (k := k); auto. Qed.

Lemma RInt_scal_l (h : R -> R) c a b v : is_RInt h a b v -> is_RInt (fun t => c * h t) a b (c * v).
Proof. intro I. apply (@is_RInt_scal R_CompleteNormedModule _ _ _ c) in I. exact I. Qed.

Ltac inds := unfold esR_quantile, esR_expectile, esR_huber, ind_over, ind_under;
  repeat match goal with |- context [Rle_dec ?u ?v] => destruct (Rle_dec u v) | |- context [Rlt_dec ?u ?v] => destruct (Rlt_dec u v) end;
  try lra; try ring.

Theorem quantile_is_integral (w g : R -> R) alpha f o lo hi :
  FTC w g -> lo <= f <= hi -> lo <= o <= hi ->
  is_RInt (fun t => w t * esR_quantile alpha f o t) lo hi
          (if Rlt_dec o f then (1 - alpha) * (g f - g o) else alpha * (g o - g f)).
Proof. intros H1 Hf Ho. destruct (Rlt_dec o f) as [L|L].
 - apply RInt_window with (k := fun t => (1 - alpha) * w t) (p := o) (q := f); try lra.
   + intros t Ht. inds.
   + intros t Ht. inds.
   + intros t Ht. inds.
   + apply RInt_scal_l. apply H1. lra.
 - apply RInt_window with (k := fun t => alpha * w t) (p := f) (q := o); try lra.
   + intros t Ht. inds.
   + intros t Ht. inds.
   + intros t Ht. inds.
   + apply RInt_scal_l. apply H1. lra. Qed.

Theorem expectile_is_integral (w g P : R -> R) alpha f o lo hi :
  (forall k, FTC (fun t => w t * (t - k)) (fun t => g t * (t - k) - P t)) -> lo <= f <= hi -> lo <= o <= hi ->
  is_RInt (fun t => w t * esR_expectile alpha f o t) lo hi
          ((if Rlt_dec o f then 1 - alpha else alpha) * (P o - P f - g f * (o - f))).
Proof. intros H2 Hf Ho. destruct (Rlt_dec o f) as [L|L].
 - apply RInt_window with (k := fun t => (1 - alpha) * (w t * (t - o))) (p := o) (q := f); try lra.
   + intros t Ht. inds.
   + intros t Ht. inds.
   + intros t Ht. inds.
   + eapply is_RInt_val; [apply RInt_scal_l; apply (H2 o o f); lra | rring].
 - apply RInt_window with (k := fun t => (- alpha) * (w t * (t - o))) (p := f) (q := o); try lra.
   + intros t Ht. inds.
   + intros t Ht. inds.
   + intros t Ht. inds.
   + eapply is_RInt_val; [apply RInt_scal_l; apply (H2 o f o); lra | rring]. Qed.

Theorem huber_is_integral (w g P : R -> R) alpha a f o lo hi :
  FTC w g -> (forall k, FTC (fun t => w t * (t - k)) (fun t => g t * (t - k) - P t)) ->
  0 <= a -> lo <= f <= hi -> lo <= o <= hi ->
  is_RInt (fun t => w t * esR_huber alpha a f o t) lo hi
          ((if Rlt_dec o f then 1 - alpha else alpha) * (P o - P (clipR a (f - o) + o) + clipR a (f - o) * g f)).
Proof. intros H1 H2 Ha Hf Ho. unfold clipR.
 destruct (Rlt_dec o f) as [L|L]; destruct (Rlt_dec (f - o) (- a)) as [C1|C1]; destruct (Rlt_dec a (f - o)) as [C2|C2]; try lra.
 - (* o < f, far: kappa = a, z = a + o *)
   apply RInt_window with (k := fun t => (1 - alpha) * (w t * Rmin (t - o) a)) (p := o) (q := f); try lra.
   + intros t Ht. inds.
   + intros t Ht. inds.
   + intros t Ht. inds.
   + eapply is_RInt_val.
     * apply (@is_RInt_Chasles R_CompleteNormedModule) with (b := a + o).
       -- apply is_RInt_ext_open with (k := fun t => (1 - alpha) * (w t * (t - o))); [lra | |].
          ++ intros t Ht. rewrite Rmin_left by lra. reflexivity.
          ++ apply RInt_scal_l. apply (H2 o o (a + o)). lra.
       -- apply is_RInt_ext_open with (k := fun t => ((1 - alpha) * a) * w t); [lra | |].
          ++ intros t Ht. rewrite Rmin_right by lra. ring.
          ++ apply RInt_scal_l. apply (H1 (a + o) f). lra.
     * unfold plus; simpl. rring.
 - (* o < f, near: kappa = f - o, z = f *)
   replace (f - o + o) with f by ring.
   apply RInt_window with (k := fun t => (1 - alpha) * (w t * (t - o))) (p := o) (q := f); try lra.
   + intros t Ht. inds.
   + intros t Ht. inds; rewrite (Rmin_left (t - o) a) by lra; ring.
   + intros t Ht. inds.
   + eapply is_RInt_val; [apply RInt_scal_l; apply (H2 o o f); lra | rring].
 - (* f <= o, far: kappa = - a, z = - a + o *)
   apply RInt_window with (k := fun t => alpha * (w t * Rmin (o - t) a)) (p := f) (q := o); try lra.
   + intros t Ht. inds.
   + intros t Ht. inds.
   + intros t Ht. inds.
   + eapply is_RInt_val.
     * apply (@is_RInt_Chasles R_CompleteNormedModule) with (b := - a + o).
       -- apply is_RInt_ext_open with (k := fun t => (alpha * a) * w t); [lra | |].
          ++ intros t Ht. rewrite Rmin_right by lra. ring.
          ++ apply RInt_scal_l. apply (H1 f (- a + o)). lra.
       -- apply is_RInt_ext_open with (k := fun t => (- alpha) * (w t * (t - o))); [lra | |].
          ++ intros t Ht. rewrite Rmin_left by lra. ring.
          ++ apply RInt_scal_l. apply (H2 o (- a + o) o). lra.
     * unfold plus; simpl. rring.
 - (* f <= o, near: kappa = f - o, z = f *)
   replace (f - o + o) with f by ring.
   apply RInt_window with (k := fun t => (- alpha) * (w t * (t - o))) (p := f) (q := o); try lra.
   + intros t Ht. inds.
   + intros t Ht. inds; rewrite (Rmin_left (o - t) a) by lra; ring.
   + intros t Ht. inds.
   + eapply is_RInt_val; [apply RInt_scal_l; apply (H2 o f o); lra | rring].
Qed.

(* ---------------------------------------------------------------------------------------------------------- *)
(* weight one everywhere: w = 1, g = id, P = x^2/2  (C11 murphy_integrates; C10 tw_weight_one)                 *)
(* ---------------------------------------------------------------------------------------------------------- *)
Lemma one_H1 : FTC (fun _ : R => 1) (fun x => x).
Proof. intros x y Hxy. apply (FTC_on (fun _ => 1) (fun x => x) (fun _ => 1) (fun x => x)); auto; [der | cont]. Qed.
Lemma one_H2 k : FTC (fun t : R => 1 * (t - k)) (fun t => t * (t - k) - t * t / 2).
Proof. intros x y Hxy. change (is_RInt (fun t : R => 1 * (t - k)) x y ((fun t => t * (t - k) - t * t / 2) y - (fun t => t * (t - k) - t * t / 2) x)).
 apply (FTC_on (fun t => 1 * (t - k)) (fun t => t * (t - k) - t * t / 2) (fun t => 1 * (t - k)) (fun t => t * (t - k) - t * t / 2)); auto; [der | cont]. Qed.

Definition pinballR (alpha f o : R) : R := if Rlt_dec o f then (1 - alpha) * (f - o) else alpha * (o - f).
Definition asymR (alpha f o : R) : R := if Rlt_dec o f then 1 - alpha else alpha.
Definition huberR (a d : R) : R := if Rle_dec (Rabs d) a then d * d / 2 else a * (Rabs d - a / 2).

Theorem murphy_integrates_quantile alpha f o lo hi : lo <= f <= hi -> lo <= o <= hi ->
  is_RInt (esR_quantile alpha f o) lo hi (pinballR alpha f o).
Proof. intros Hf Ho. pose proof (quantile_is_integral (fun _ => 1) (fun x => x) alpha f o lo hi one_H1 Hf Ho) as I.
 apply is_RInt_ext with (g := esR_quantile alpha f o) in I; [exact I | intros; rring]. Qed.

Theorem murphy_integrates_expectile alpha f o lo hi : lo <= f <= hi -> lo <= o <= hi ->
  is_RInt (esR_expectile alpha f o) lo hi (asymR alpha f o * ((f - o) * (f - o) / 2)).
Proof. intros Hf Ho. pose proof (expectile_is_integral (fun _ => 1) (fun x => x) (fun x => x * x / 2) alpha f o lo hi one_H2 Hf Ho) as I.
 apply is_RInt_ext with (g := esR_expectile alpha f o) in I; [| intros; rring].
 eapply is_RInt_val; [exact I | unfold asymR; destruct (Rlt_dec o f); rring]. Qed.

Theorem murphy_integrates_huber alpha a f o lo hi : 0 <= a -> lo <= f <= hi -> lo <= o <= hi ->
  is_RInt (esR_huber alpha a f o) lo hi (asymR alpha f o * huberR a (f - o)).
Proof. intros Ha Hf Ho.
 pose proof (huber_is_integral (fun _ => 1) (fun x => x) (fun x => x * x / 2) alpha a f o lo hi one_H1 one_H2 Ha Hf Ho) as I.
 apply is_RInt_ext with (g := esR_huber alpha a f o) in I; [| intros; rring].
 eapply is_RInt_val; [exact I |]. unfold asymR, huberR, clipR.
 destruct (Rlt_dec o f); destruct (Rlt_dec (f - o) (- a)); destruct (Rlt_dec a (f - o)); try lra;
 destruct (Rle_dec (Rabs (f - o)) a) as [A|A];
 try (rewrite Rabs_pos_eq in A by lra); try (rewrite Rabs_left1 in A by lra); try lra;
 try (rewrite Rabs_pos_eq by lra); try (rewrite Rabs_left1 by lra); rring. Qed.

(* ---------------------------------------------------------------------------------------------------------- *)
(* admissibility from the integral form: a non-negative weight has a non-decreasing g and a convex P with       *)
(* subgradient g (so the consistent scoring functions built from them are non-negative)                        *)
(* ---------------------------------------------------------------------------------------------------------- *)
Lemma g_nondecreasing (w g : R -> R) : (forall t, 0 <= w t) -> FTC w g -> forall x y, x <= y -> g x <= g y.
Proof. intros Wp H1 x y Hxy. pose proof (is_RInt_ge_0 w x y (g y - g x) Hxy (H1 x y Hxy) (fun t _ => Wp t)). lra. Qed.

Lemma P_subgradient (w g P : R -> R) : (forall t, 0 <= w t) ->
  (forall k, FTC (fun t => w t * (t - k)) (fun t => g t * (t - k) - P t)) ->
  forall x y, g x * (y - x) <= P y - P x.
Proof. intros Wp H2 x y. destruct (Rle_dec x y) as [Hxy|Hxy].
 - pose proof (double_antiderivative w g P H2 x y Hxy) as I.
   apply is_RInt_ge_0 in I; auto; [lra|]. intros t Ht. apply Rmult_le_pos; auto; lra.
 - assert (Hyx : y <= x) by lra. pose proof (H2 y y x Hyx) as I. cbv beta in I.
   apply is_RInt_ge_0 in I; auto; [lra|]. intros t Ht. apply Rmult_le_pos; auto; lra. Qed.

Lemma w_rect_nonneg a b t : 0 <= w_rect a b t.
Proof. unfold w_rect. dec. Qed.
Lemma w_trap_nonneg a b c d t : a < b -> c < d -> 0 <= w_trap a b c d t.
Proof. intros. unfold w_trap. dec.
 - apply Rmult_le_pos; [lra|]. left. apply Rinv_0_lt_compat. lra.
 - apply Rmult_le_pos; [lra|]. left. apply Rinv_0_lt_compat. lra. Qed.
