(* proofs/C17_tools.v -- propagate_nan, observed_cdf and round_values "do what their names say" (property C17). *)
From Coq Require Import QArith Qround Qabs List Bool Lia Lqa ZArith.
From V Require Import lib.Xval lib.Tree model.Cdf.
Import ListNotations.
Open Scope Q_scope.

(* ---- propagate_nan ---- *)
Lemma has_nan_In : forall l, has_nan l = true <-> In XNaN l.
Proof.
  unfold has_nan; intro l; rewrite existsb_exists; split.
  - intros [x [Hi Hx]]; destruct x; try discriminate; exact Hi.
  - intro H; exists XNaN; split; [exact H | reflexivity].
Qed.

Lemma propagate_char : forall l,
  (In XNaN l -> propagate_nan_m l = map (fun _ => XNaN) l) /\
  (~ In XNaN l -> propagate_nan_m l = l) /\
  length (propagate_nan_m l) = length l /\
  propagate_nan_m (propagate_nan_m l) = propagate_nan_m l.
Proof.
  intro l; unfold propagate_nan_m, blank.
  destruct (has_nan l) eqn:E.
  - apply has_nan_In in E. repeat split; intros; try contradiction; try reflexivity.
    + now rewrite map_length.
    + destruct (has_nan (map (fun _ => XNaN) l)); [now rewrite map_map | reflexivity].
  - assert (N : ~ In XNaN l) by (intro H; apply has_nan_In in H; congruence).
    repeat split; intros; try contradiction; try reflexivity. now rewrite E.
Qed.

(* ---- observed_cdf ---- *)
Lemma observed_cdf_char : forall o grid,
  length (observed_cdf_line o grid) = length grid /\
  (o = XNaN -> observed_cdf_line o grid = map (fun _ => XNaN) grid) /\
  (forall y, o = XFin y -> observed_cdf_line o grid = map (fun g => if Qle_bool y g then XFin 1 else XFin 0) grid).
Proof.
  intros o grid; unfold observed_cdf_line; repeat split.
  - now rewrite map_length.
  - intros ->; reflexivity.
  - intros y ->; apply map_ext; intro g; unfold obs_cdf_at, xle, b2x. destruct (Qle_bool y g); reflexivity.
Qed.

(* a CDF: non-decreasing along any non-decreasing grid *)
Lemma observed_cdf_step_monotone : forall y g1 g2, g1 <= g2 ->
  Qle_bool y g1 = true -> Qle_bool y g2 = true.
Proof. intros y g1 g2 H H1; apply Qle_bool_iff in H1; apply Qle_bool_iff; lra. Qed.

(* ---- round_values ---- *)
Lemma round_half_even_near : forall x, Qabs (inject_Z (round_half_even x) - x) <= 1 # 2.
Proof.
  intro x; unfold round_half_even.
  pose proof (Qfloor_le x) as H1. pose proof (Qlt_floor x) as H2.
  assert (E1 : inject_Z (Qfloor x + 1) == inject_Z (Qfloor x) + 1) by (rewrite inject_Z_plus; reflexivity).
  rewrite E1 in H2.
  destruct (Qcompare_spec (x - inject_Z (Qfloor x)) (1 # 2)) as [H|H|H].
  - destruct (Z.even (Qfloor x)); [| rewrite E1]; apply Qabs_case; intros; lra.
  - apply Qabs_case; intros; lra.
  - rewrite E1; apply Qabs_case; intros; lra.
Qed.

Lemma round_half_even_nearest : forall x k, Qabs (inject_Z (round_half_even x) - x) <= Qabs (inject_Z k - x).
Proof.
  intros x k; unfold round_half_even.
  pose proof (Qfloor_le x) as H1. pose proof (Qlt_floor x) as H2.
  assert (E1 : inject_Z (Qfloor x + 1) == inject_Z (Qfloor x) + 1) by (rewrite inject_Z_plus; reflexivity).
  rewrite E1 in H2.
  assert (K : (k <= Qfloor x)%Z \/ (Qfloor x + 1 <= k)%Z) by lia.
  assert (KQ : inject_Z k <= inject_Z (Qfloor x) \/ inject_Z (Qfloor x) + 1 <= inject_Z k).
  { destruct K as [K|K]; [left | right; rewrite <- E1]; rewrite <- Zle_Qle; exact K. }
  destruct (Qcompare_spec (x - inject_Z (Qfloor x)) (1 # 2)) as [H|H|H].
  - destruct (Z.even (Qfloor x)); [| rewrite E1]; apply Qabs_case; intros; apply Qabs_case; intros; destruct KQ; lra.
  - apply Qabs_case; intros; apply Qabs_case; intros; destruct KQ; lra.
  - rewrite E1; apply Qabs_case; intros; apply Qabs_case; intros; destruct KQ; lra.
Qed.

Lemma round_half_even_tie_even : forall x, x - inject_Z (Qfloor x) == 1 # 2 -> Z.even (round_half_even x) = true.
Proof.
  intros x H; unfold round_half_even.
  destruct (Qcompare_spec (x - inject_Z (Qfloor x)) (1 # 2)) as [H'|H'|H']; try lra.
  destruct (Z.even (Qfloor x)) eqn:E; [exact E|].
  rewrite Z.even_add, E; reflexivity.
Qed.

(* the first rounding step of round_values: the nearest multiple of p, at most p/2 away, ties to the even multiple *)
Lemma round_to_char : forall p x, 0 < p ->
  (exists k : Z, round_to p x == inject_Z k * p /\ Qabs (round_to p x - x) <= p / 2 /\
                 forall k' : Z, Qabs (round_to p x - x) <= Qabs (inject_Z k' * p - x)).
Proof.
  intros p x Hp. exists (round_half_even (x / p)). unfold round_to.
  assert (Hp' : ~ p == 0) by lra.
  assert (S : forall k : Z, inject_Z k * p - x == (inject_Z k - x / p) * p) by (intro k; field; exact Hp').
  split; [reflexivity|]. split.
  - rewrite S, Qabs_Qmult, (Qabs_pos p) by lra.
    pose proof (round_half_even_near (x / p)) as N.
    assert (Qabs (inject_Z (round_half_even (x / p)) - x / p) * p <= (1 # 2) * p) by (apply Qmult_le_compat_r; lra).
    assert (E : p / 2 == (1 # 2) * p) by field. rewrite E; exact H.
  - intro k'. rewrite !S, !Qabs_Qmult, (Qabs_pos p) by lra.
    apply Qmult_le_compat_r; [apply round_half_even_nearest | lra].
Qed.

Lemma round_values_char : forall p fin v,
  (p == 0 -> round_values_m p fin v = v) /\
  (forall x, 0 < p -> v = XFin x -> round_values_m p false v = XFin (round_to p x)) /\
  (match v with XFin _ => True | _ => round_values_m p fin v = v end).
Proof.
  intros p fin v; unfold round_values_m; repeat split.
  - intro H. apply Qeq_bool_iff in H. now rewrite H.
  - intros x Hp ->. destruct (Qeq_bool p 0) eqn:E; [apply Qeq_bool_iff in E; lra | reflexivity].
  - destruct v; try exact I; destruct (Qeq_bool p 0); reflexivity.
Qed.

(* the final decimal rounding moves a value by at most half a unit in the 7th decimal *)
Lemma round_values_final_close : forall p x, 0 < p ->
  exists y, round_values_m p true (XFin x) = XFin y /\ Qabs (y - round_to p x) <= 1 # 20000000.
Proof.
  intros p x Hp. unfold round_values_m.
  destruct (Qeq_bool p 0) eqn:E; [apply Qeq_bool_iff in E; lra|].
  eexists; split; [reflexivity|].
  set (r := round_to p x).
  pose proof (round_half_even_near (r * ten7)) as N. unfold ten7 in *.
  assert (S : inject_Z (round_half_even (r * 10000000)) / 10000000 - r == (inject_Z (round_half_even (r * 10000000)) - r * 10000000) * (1 # 10000000)) by field.
  rewrite S, Qabs_Qmult. rewrite (Qabs_pos (1 # 10000000)) by lra.
  assert (Qabs (inject_Z (round_half_even (r * 10000000)) - r * 10000000) * (1 # 10000000) <= (1 # 2) * (1 # 10000000))
    by (apply Qmult_le_compat_r; lra).
  lra.
Qed.
