(* proofs/C15.v -- PAV state machine: termination within the fuel, block invariants for an
   arbitrary solver, pooling of ties, tidy is a sorted permutation, counts. *)
From Coq Require Import Permutation.
From V Require Import lib.Tree model.C15.
Open Scope list_scope.
Open Scope Q_scope.

(* ------------------------------------------------------------------------------------ *)
(* termination: the potential 2 * #blocks + |rest| strictly decreases                     *)
(* ------------------------------------------------------------------------------------ *)
Definition phi (st : state) : nat :=
  let '(done, cur, rest) := st in (2 * (length done + 1 + length rest) + length rest)%nat.

Lemma take_run_length prev rest : forall r s, take_run prev rest = (r, s) -> (length r + length s = length rest)%nat.
Proof. revert prev. induction rest as [|b t IH]; intros prev r s H; simpl in H.
  - inversion H; reflexivity.
  - destruct (Qltb prev (bval b)).
    + inversion H; subst; reflexivity.
    + destruct (take_run (bval b) t) as [r' s'] eqn:E. inversion H; subst. specialize (IH _ _ _ E). simpl. lia.
Qed.
Lemma take_run_app prev rest : forall r s, take_run prev rest = (r, s) -> rest = r ++ s.
Proof. revert prev. induction rest as [|b t IH]; intros prev r s H; simpl in H.
  - inversion H; reflexivity.
  - destruct (Qltb prev (bval b)).
    + inversion H; subst; reflexivity.
    + destruct (take_run (bval b) t) as [r' s'] eqn:E. inversion H; subst. simpl. f_equal. eapply IH; eauto.
Qed.

Lemma step_phi sv st st' : pav_step sv st = Some st' -> (phi st' < phi st)%nat.
Proof.
  destruct st as [[done cur] rest]. unfold pav_step. destruct rest as [|nxt rest']; [discriminate|].
  destruct (Qltb (bval cur) (bval nxt)).
  - intro H; inversion H; subst. simpl. lia.
  - destruct (take_run (bval nxt) rest') as [run rest''] eqn:E.
    pose proof (take_run_length _ _ _ _ E) as L.
    destruct done as [|p done']; intro H; inversion H; subst; simpl; lia.
Qed.
Lemma step_none_iff sv st : pav_step sv st = None <-> snd st = [].
Proof. destruct st as [[done cur] rest]. unfold pav_step. destruct rest as [|nxt rest']; simpl; [tauto|].
  split; [|discriminate]. destruct (Qltb _ _); [discriminate|].
  destruct (take_run _ _); destruct done; discriminate. Qed.

Lemma phi_ge_2 st : (2 <= phi st)%nat.
Proof. destruct st as [[d c] r]. simpl. lia. Qed.

Lemma pav_run_enough sv fuel : forall st, (phi st <= fuel + 2)%nat -> pav_run sv fuel st <> None.
Proof.
  induction fuel as [|f IH]; intros st H; simpl.
  - destruct (pav_step sv st) as [st'|] eqn:E.
    + pose proof (step_phi _ _ _ E). pose proof (phi_ge_2 st'). lia.
    + destruct st as [[d c] r]. discriminate.
  - destruct (pav_step sv st) as [st'|] eqn:E.
    + apply IH. pose proof (step_phi _ _ _ E). lia.
    + destruct st as [[d c] r]. discriminate.
Qed.

(* the out-of-fuel branch of the model is unreachable *)
Lemma pav_fuel_sufficient sv l : pav_blocks sv l <> None.
Proof. unfold pav_blocks. destruct l as [|i t]; [discriminate|]. apply pav_run_enough.
  simpl. rewrite map_length. lia. Qed.

(* ------------------------------------------------------------------------------------ *)
(* running an invariant through the machine                                               *)
(* ------------------------------------------------------------------------------------ *)
Lemma pav_run_inv sv (P : state -> Prop) :
  (forall st st', P st -> pav_step sv st = Some st' -> P st') ->
  forall fuel st bs, P st -> pav_run sv fuel st = Some bs ->
  exists done cur, P (done, cur, []) /\ bs = rev (cur :: done).
Proof.
  intros Hstep. induction fuel as [|f IH]; intros st bs HP H; simpl in H.
  - destruct (pav_step sv st) as [st'|] eqn:E; [discriminate|].
    apply step_none_iff in E. destruct st as [[d c] r]. simpl in E. subst r. inversion H; subst. eauto.
  - destruct (pav_step sv st) as [st'|] eqn:E.
    + apply (IH st' bs); [apply (Hstep st st' HP E) | exact H].
    + apply step_none_iff in E. destruct st as [[d c] r]. simpl in E. subst r. inversion H; subst. eauto.
Qed.

(* ------------------------------------------------------------------------------------ *)
(* the invariants                                                                         *)
(* ------------------------------------------------------------------------------------ *)
(* adjacent elements related by R *)
Fixpoint adj {A} (R : A -> A -> Prop) (l : list A) : Prop :=
  match l with a :: t => match t with b :: _ => R a b /\ adj R t | [] => True end | [] => True end.
Lemma adj_cons {A} (R : A -> A -> Prop) a b t : adj R (a :: b :: t) <-> R a b /\ adj R (b :: t).
Proof. reflexivity. Qed.
Lemma adj_tail {A} (R : A -> A -> Prop) a t : adj R (a :: t) -> adj R t.
Proof. destruct t; simpl; tauto. Qed.
Lemma adj_app_inv {A} (R : A -> A -> Prop) l1 l2 : adj R (l1 ++ l2) -> adj R l1 /\ adj R l2.
Proof. induction l1 as [|a [|b t] IH]; simpl; intro H.
  - tauto.
  - split; [exact I|]. destruct l2; [exact I|]. apply H.
  - destruct H as [H1 H2]. specialize (IH H2). simpl in IH. tauto.
Qed.
Lemma adj_app {A} (R : A -> A -> Prop) l1 a b l2 :
  adj R (l1 ++ [a]) -> R a b -> adj R (b :: l2) -> adj R (l1 ++ a :: b :: l2).
Proof. induction l1 as [|x [|y t] IH]; intros H1 H2 H3.
  - simpl. tauto.
  - simpl in *. tauto.
  - change ((x :: y :: t) ++ [a]) with (x :: (y :: t) ++ [a]) in H1.
    change ((x :: y :: t) ++ a :: b :: l2) with (x :: (y :: t) ++ a :: b :: l2).
    simpl in H1. destruct H1 as [Hxy H1]. simpl. split; [exact Hxy|]. apply IH; assumption.
Qed.
Lemma adj_snoc {A} (R : A -> A -> Prop) l a b : adj R (l ++ [a]) -> R a b -> adj R ((l ++ [a]) ++ [b]).
Proof. intros H1 H2. rewrite <- app_assoc. simpl. apply adj_app; simpl; auto. Qed.
Lemma adj_map {A B} (f : A -> B) (R : B -> B -> Prop) l : adj R (map f l) <-> adj (fun a b => R (f a) (f b)) l.
Proof. induction l as [|a [|b t] IH]; simpl; try tauto. Qed.
Lemma adj_impl {A} (R S : A -> A -> Prop) l : (forall a b, R a b -> S a b) -> adj R l -> adj S l.
Proof. intro H. induction l as [|a [|b t] IH]; simpl; auto. intros [H1 H2]. split; [apply H; exact H1 | apply IH; exact H2]. Qed.

Definition vlt (a b : block) : Prop := bval a < bval b.
Definition first_y (b : block) : Q := fst (hd (0, 0) (bitems b)).
Definition last_y (b : block) : Q := fst (last (bitems b) (0, 0)).
Definition brk (a b : block) : Prop := last_y a < first_y b.
Definition is_single (b : block) : Prop := exists i, b = single i.
Definition linked (a b : block) : Prop := brk a b \/ (is_single a /\ is_single b).
Definition valid_block (sv : list item -> Q) (b : block) : Prop :=
  bitems b <> [] /\ (is_single b \/ bval b = sv (bitems b)).

Definition all_blocks (st : state) : list block := let '(done, cur, rest) := st in rev done ++ cur :: rest.

Record inv (sv : list item -> Q) (l : list item) (st : state) : Prop := {
  inv_items : flat_map bitems (all_blocks st) = l;
  inv_valid : Forall (valid_block sv) (all_blocks st);
  inv_strict : adj vlt (rev (snd (fst st) :: fst (fst st)));          (* rev done ++ [cur] strictly increasing *)
  inv_brk : adj brk (rev (snd (fst st) :: fst (fst st)));
  inv_linked : adj linked (snd (fst st) :: snd st) }.

Lemma flat_map_single t : flat_map bitems (map single t) = t.
Proof. induction t; simpl; congruence. Qed.
Lemma single_valid sv i : valid_block sv (single i).
Proof. split; [discriminate | left; exists i; reflexivity]. Qed.

Lemma inv_init sv i t : inv sv (i :: t) ([], single i, map single t).
Proof. constructor; simpl.
  - f_equal. apply flat_map_single.
  - constructor; [apply single_valid|]. induction t; simpl; constructor; auto. apply single_valid.
  - exact I.
  - exact I.
  - change (adj linked (map single (i :: t))). apply adj_map.
    generalize (i :: t). intro l. induction l as [|a [|b r] IH]; simpl; auto. split; [|exact IH].
    right. split; eexists; reflexivity.
Qed.

(* what take_run guarantees *)
Lemma last_cons_gen {A} (x d : A) l : last (x :: l) d = last l x.
Proof. revert x d. induction l as [|y t IH]; intros x d; [reflexivity|].
  change (last (x :: y :: t) d) with (last (y :: t) d). rewrite !IH. reflexivity. Qed.
Lemma take_run_last prev rest r s : take_run prev rest = (r, s) ->
  match s with b :: _ => last (map bval r) prev < bval b | [] => True end.
Proof. revert prev r s. induction rest as [|b t IH]; intros prev r s H; simpl in H.
  - inversion H; subst. exact I.
  - pose proof (Qltb_spec prev (bval b)) as Hc. destruct (Qltb prev (bval b)).
    + inversion H; subst. simpl. exact Hc.
    + destruct (take_run (bval b) t) as [r' s'] eqn:E. inversion H; subst. specialize (IH _ _ _ E).
      destruct s; [exact I|]. change (map bval (b :: r')) with (bval b :: map bval r'). rewrite last_cons_gen. exact IH.
Qed.

Lemma last_app_nonempty {A} (l1 l2 : list A) d : l2 <> [] -> last (l1 ++ l2) d = last l2 d.
Proof. intro H. induction l1 as [|x t IH]; simpl; auto. destruct (t ++ l2) eqn:E; [|exact IH].
  apply app_eq_nil in E. tauto. Qed.
Lemma last_flat_map (bs : list block) (b : block) :
  bitems b <> [] -> last (flat_map bitems (bs ++ [b])) (0, 0) = last (bitems b) (0, 0).
Proof. intro H. rewrite flat_map_app. simpl. rewrite app_nil_r. apply last_app_nonempty. exact H. Qed.

Lemma valid_nonempty sv b : valid_block sv b -> bitems b <> [].
Proof. intros [H _]. exact H. Qed.

Lemma removelast_last_blocks (l : list block) : l <> [] -> exists l' b, l = l' ++ [b].
Proof. intro H. exists (removelast l), (last l (mkB [] 0)). apply app_removelast_last. exact H. Qed.

(* the merge step: brk/linked towards the following block *)
Lemma merge_linked sv cur nxt run s items :
  Forall (valid_block sv) (cur :: nxt :: run ++ s) ->
  adj linked (nxt :: run ++ s) ->
  take_run (bval nxt) (run ++ s) = (run, s) ->
  items = bitems cur ++ flat_map bitems (nxt :: run) ->
  adj linked (mkB items (sv items) :: s).
Proof.
  intros Hv Hl Ht Hi. destruct s as [|b s']; [exact I|].
  split; [|apply (adj_app_inv linked (nxt :: run) (b :: s')); exact Hl].
  left. unfold brk, last_y. simpl bitems. subst items.
  (* the last item of the merged block is the last item of the last absorbed block L *)
  destruct (removelast_last_blocks (nxt :: run) ltac:(discriminate)) as [pre [L EL]].
  assert (HL : bitems L <> []).
  { rewrite Forall_forall in Hv. apply (valid_nonempty sv). apply Hv. right.
    change (nxt :: run ++ b :: s') with ((nxt :: run) ++ b :: s'). apply in_or_app. left. rewrite EL. apply in_or_app. right. left. reflexivity. }
  rewrite EL, last_app_nonempty.
  2:{ rewrite flat_map_app. simpl. rewrite app_nil_r. intro E. apply app_eq_nil in E. tauto. }
  rewrite (last_flat_map pre L HL).
  (* L and b are linked; if both are singles use the run's stopping condition *)
  assert (HLb : linked L b).
  { change (nxt :: run ++ b :: s') with ((nxt :: run) ++ b :: s') in Hl. rewrite EL in Hl. rewrite <- app_assoc in Hl. simpl in Hl.
    apply adj_app_inv in Hl. destruct Hl as [_ Hl]. apply Hl. }
  destruct HLb as [Hb|[[iL EiL] [ib Eib]]]; [exact Hb|].
  pose proof (take_run_last _ _ _ _ Ht) as Hlast. simpl in Hlast.
  assert (ELv : last (map bval run) (bval nxt) = bval L).
  { rewrite <- (last_cons_gen (bval nxt) 0 (map bval run)). change (bval nxt :: map bval run) with (map bval (nxt :: run)).
    rewrite EL, map_app. simpl. apply last_last. }
  rewrite ELv in Hlast. subst L b. unfold first_y. simpl in *. exact Hlast.
Qed.

Lemma inv_step sv l st st' : inv sv l st -> pav_step sv st = Some st' -> inv sv l st'.
Proof.
  destruct st as [[done cur] rest]. intros [Hi Hv Hs Hb Hl] H. unfold pav_step in H.
  destruct rest as [|nxt rest']; [discriminate|]. simpl in *.
  pose proof (Qltb_spec (bval cur) (bval nxt)) as Hc. destruct (Qltb (bval cur) (bval nxt)).
  - (* advance *)
    injection H as <-. constructor; simpl.
    + rewrite <- Hi. rewrite <- app_assoc. reflexivity.
    + rewrite <- app_assoc. exact Hv.
    + apply adj_snoc; [exact Hs | exact Hc].
    + apply adj_snoc; [exact Hb|]. destruct Hl as [[Hk|[[i Ei] [j Ej]]] _]; [exact Hk|].
      subst cur nxt. unfold brk, last_y, first_y. simpl in *. exact Hc.
    + exact (proj2 Hl).
  - (* merge *)
    destruct (take_run (bval nxt) rest') as [run rest''] eqn:E.
    pose proof (take_run_app _ _ _ _ E) as Er. subst rest'.
    set (items := bitems cur ++ flat_map bitems (nxt :: run)) in *.
    assert (Hv2 : Forall (valid_block sv) (cur :: nxt :: run ++ rest'')) by (apply Forall_app in Hv; tauto).
    pose proof (Forall_inv Hv2) as Hvc.
    assert (Hvr : Forall (valid_block sv) rest'').
    { pose proof (Forall_inv_tail (Forall_inv_tail Hv2)) as X. apply Forall_app in X. tauto. }
    assert (Hvm : valid_block sv (mkB items (sv items))).
    { split; [|right; reflexivity]. simpl. unfold items. intro X. apply app_eq_nil in X. destruct X as [X _].
      destruct Hvc as [N _]. contradiction. }
    assert (Hml : adj linked (mkB items (sv items) :: rest'')).
    { eapply merge_linked; eauto. exact (proj2 Hl). }
    assert (Hitems : flat_map bitems (mkB items (sv items) :: rest'') = flat_map bitems (cur :: nxt :: run ++ rest'')).
    { simpl. unfold items. simpl. rewrite flat_map_app. rewrite <- !app_assoc. reflexivity. }
    destruct done as [|p done']; injection H as <-; constructor.
    + simpl all_blocks. rewrite <- Hi. exact Hitems.
    + simpl all_blocks. constructor; assumption.
    + exact I.
    + exact I.
    + exact Hml.
    + simpl all_blocks. rewrite <- Hi. simpl rev. rewrite <- !app_assoc. rewrite !flat_map_app. f_equal.
      rewrite <- Hitems. change (flat_map bitems [p]) with (bitems p ++ []). rewrite app_nil_r. reflexivity.
    + simpl all_blocks. simpl rev in Hv. rewrite <- app_assoc in Hv. apply Forall_app in Hv. destruct Hv as [Hv1 Hv].
      apply Forall_app. split; [exact Hv1|]. constructor; [exact (Forall_inv Hv)|]. constructor; assumption.
    + simpl fst. simpl snd. simpl rev in Hs. apply adj_app_inv in Hs. tauto.
    + simpl fst. simpl snd. simpl rev in Hb. apply adj_app_inv in Hb. tauto.
    + simpl fst. simpl snd. split; [|exact Hml]. left.
      (* brk p cur carries over to the merged block, whose first item is cur's *)
      assert (Hpc : brk p cur).
      { simpl rev in Hb. rewrite <- app_assoc in Hb. simpl in Hb. apply adj_app_inv in Hb. destruct Hb as [_ Hb]. apply Hb. }
      unfold brk, first_y in *. simpl. unfold items. destruct Hvc as [N _].
      destruct (bitems cur); [contradiction|]. exact Hpc.
Qed.

(* ------------------------------------------------------------------------------------ *)
(* consequences for the result                                                            *)
(* ------------------------------------------------------------------------------------ *)
Record pav_result (sv : list item -> Q) (l : list item) (bs : list block) : Prop := {
  pr_items : flat_map bitems bs = l;                      (* the blocks partition the input, in order *)
  pr_valid : Forall (valid_block sv) bs;                   (* never-merged single or solver(block) *)
  pr_strict : adj vlt bs;                                  (* adjacent blocks strictly increase *)
  pr_brk : adj brk bs }.                                   (* block boundaries only at strict rises of y *)

Lemma pav_blocks_result sv l bs : pav_blocks sv l = Some bs -> pav_result sv l bs.
Proof.
  unfold pav_blocks. destruct l as [|i t].
  - intro H; inversion H; subst. constructor; simpl; auto.
  - intro H. destruct (pav_run_inv sv (inv sv (i :: t)) (inv_step sv (i :: t)) _ _ _ (inv_init sv i t) H) as [done [cur [[Hi Hv Hs Hb _] E]]].
    subst bs. simpl in *. constructor; auto.
Qed.

Lemma pav_total sv l : exists bs, pav_blocks sv l = Some bs /\ pav sv l = expand bs /\ pav_result sv l bs.
Proof. destruct (pav_blocks sv l) as [bs|] eqn:E; [|exfalso; exact (pav_fuel_sufficient sv l E)].
  exists bs. split; [reflexivity|]. split; [unfold pav; rewrite E; reflexivity | apply pav_blocks_result; exact E]. Qed.

Lemma expand_length bs : length (expand bs) = length (flat_map bitems bs).
Proof. unfold expand. induction bs as [|b t IH]; simpl; auto. rewrite !app_length, map_length, IH. reflexivity. Qed.
Lemma pav_length sv l : length (pav sv l) = length l.
Proof. destruct (pav_total sv l) as [bs [_ [E [Hi _ _ _]]]]. rewrite E, expand_length, Hi. reflexivity. Qed.

(* non-decreasing output *)
Fixpoint nondecr (l : list Q) : Prop :=
  match l with a :: t => match t with b :: _ => a <= b /\ nondecr t | [] => True end | [] => True end.

Lemma nondecr_const_app c n l : nondecr l -> (match l with x :: _ => c <= x | [] => True end) -> nondecr (repeat c n ++ l).
Proof. intros H1 H2. induction n as [|n IH]; simpl; auto. destruct (repeat c n ++ l) eqn:E; [exact I|].
  split; [|exact IH]. destruct n; simpl in E; [subst l; exact H2 | inversion E; apply Qle_refl]. Qed.
Lemma map_const_repeat {A} (c : Q) (l : list A) : map (fun _ => c) l = repeat c (length l).
Proof. induction l; simpl; congruence. Qed.

Lemma expand_nondecr sv bs : Forall (valid_block sv) bs -> adj vlt bs -> nondecr (expand bs).
Proof.
  induction bs as [|b t IH]; intros Hv Hs; [exact I|].
  unfold expand in *. simpl. rewrite map_const_repeat.
  apply nondecr_const_app; [apply IH; [exact (Forall_inv_tail Hv) | apply (adj_tail _ _ _ Hs)]|].
  destruct t as [|b' t']; [exact I|]. simpl. rewrite map_const_repeat.
  destruct (Forall_inv (Forall_inv_tail Hv)) as [N _]. destruct (bitems b'); [contradiction|]. simpl.
  destruct Hs as [Hs _]. apply Qlt_le_weak. exact Hs.
Qed.

Lemma pav_nondecr sv l : nondecr (pav sv l).
Proof. destruct (pav_total sv l) as [bs [_ [E [_ Hv Hs _]]]]. rewrite E. eapply expand_nondecr; eauto. Qed.

(* each item paired with the value of its block *)
Definition expand_items (bs : list block) : list (item * Q) := flat_map (fun b => map (fun i => (i, bval b)) (bitems b)) bs.
Lemma expand_items_fst bs : map fst (expand_items bs) = flat_map bitems bs.
Proof. unfold expand_items. induction bs as [|b t IH]; simpl; auto. rewrite map_app, IH, map_map. simpl. rewrite map_id. reflexivity. Qed.
Lemma expand_items_snd bs : map snd (expand_items bs) = expand bs.
Proof. unfold expand_items, expand. induction bs as [|b t IH]; simpl; auto. rewrite map_app, IH, map_map. reflexivity. Qed.
Lemma expand_items_combine sv l bs : pav_result sv l bs -> expand_items bs = combine l (expand bs).
Proof. intros [Hi _ _ _]. rewrite <- Hi, <- expand_items_fst, <- expand_items_snd.
  generalize (expand_items bs). intro x. induction x as [|[a b] t IH]; simpl; congruence. Qed.

(* ties: adjacent items either share the block value or the observation strictly rises *)
Definition tie_ok (p q : item * Q) : Prop := snd p = snd q \/ fst (fst p) < fst (fst q).

Lemma adj_const_items (v : Q) items : adj tie_ok (map (fun i : item => (i, v)) items).
Proof. induction items as [|a [|b t] IH]; simpl; auto. split; [left; reflexivity | exact IH]. Qed.
Lemma adj_app2 {A} (R : A -> A -> Prop) l1 l2 :
  adj R l1 -> adj R l2 -> (forall a b, l1 <> [] -> l2 <> [] -> a = last l1 a -> b = hd b l2 -> R a b) -> adj R (l1 ++ l2).
Proof. intros H1 H2 H. destruct l2 as [|b l2']; [rewrite app_nil_r; exact H1|].
  destruct l1 as [|a0 l1']; [exact H2|].
  destruct (@exists_last _ (a0 :: l1') ltac:(discriminate)) as [pre [a E]]. rewrite E in *. rewrite <- app_assoc. simpl.
  apply adj_app; auto. apply H.
  - intro X. apply app_eq_nil in X. destruct X; discriminate.
  - discriminate.
  - rewrite last_last. reflexivity.
  - reflexivity.
Qed.

Lemma last_map_pair (v : Q) (items : list item) (p : item * Q) : items <> [] ->
  fst (last (map (fun i : item => (i, v)) items) p) = last items (0, 0).
Proof. intro N. revert p. induction items as [|x r IHr]; [contradiction|]. intro p.
  destruct r as [|y r']; [reflexivity|].
  change (map (fun i : item => (i, v)) (x :: y :: r')) with ((x, v) :: map (fun i : item => (i, v)) (y :: r')).
  rewrite last_cons_gen. rewrite (IHr ltac:(discriminate)). reflexivity. Qed.

Lemma expand_items_ties sv bs : Forall (valid_block sv) bs -> adj brk bs -> adj tie_ok (expand_items bs).
Proof.
  induction bs as [|b t IH]; intros Hv Hb; [exact I|].
  unfold expand_items in *. simpl.
  apply adj_app2; [apply adj_const_items | apply IH; [exact (Forall_inv_tail Hv) | apply (adj_tail _ _ _ Hb)] |].
  intros p q N1 N2 Ep Eq. right.
  destruct t as [|b' t']; [simpl in N2; congruence|]. destruct Hb as [Hb _]. unfold brk, last_y, first_y in Hb.
  destruct (Forall_inv Hv) as [Nb _]. destruct (Forall_inv (Forall_inv_tail Hv)) as [Nb' _].
  assert (X : fst p = last (bitems b) (0, 0)) by (rewrite Ep; apply last_map_pair; exact Nb).
  assert (Y : fst q = hd (0, 0) (bitems b')).
  { rewrite Eq. simpl. destruct (bitems b'); [contradiction|]. reflexivity. }
  rewrite X, Y. exact Hb.
Qed.

Lemma pav_ties sv l : adj tie_ok (combine l (pav sv l)).
Proof. destruct (pav_total sv l) as [bs [_ [E R]]]. rewrite E, <- (expand_items_combine sv l bs R).
  destruct R. eapply expand_items_ties; eauto. Qed.

(* ------------------------------------------------------------------------------------ *)
(* sorting: ssort yields a sorted permutation (for a total relation)                      *)
(* ------------------------------------------------------------------------------------ *)
Section SortFacts.
  Context {A : Type} (le : A -> A -> bool).
  Hypothesis le_total : forall a b, le a b = false -> le b a = true.

  Lemma sinsert_perm x l : Permutation (sinsert le x l) (x :: l).
  Proof. induction l as [|y t IH]; simpl; auto. destruct (le x y); auto.
    eapply perm_trans; [apply perm_skip; exact IH | apply perm_swap]. Qed.
  Lemma ssort_perm l : Permutation (ssort le l) l.
  Proof. induction l as [|x t IH]; simpl; auto. eapply perm_trans; [apply sinsert_perm | apply perm_skip; exact IH]. Qed.

  Definition led (a b : A) : Prop := le a b = true.
  Lemma sinsert_sorted x l : adj led l -> adj led (sinsert le x l).
  Proof. induction l as [|y t IH]; intro H; simpl; auto. destruct (le x y) eqn:E.
    - split; [exact E | exact H].
    - specialize (IH (adj_tail _ _ _ H)). destruct t as [|z t']; simpl in *.
      + split; [apply le_total; exact E | exact I].
      + destruct (le x z) eqn:E2.
        * split; [apply le_total; exact E | exact IH].
        * destruct H as [Hyz H]. split; [exact Hyz | exact IH].
  Qed.
  Lemma ssort_sorted l : adj led (ssort le l).
  Proof. induction l as [|x t IH]; simpl; auto. apply sinsert_sorted. exact IH. Qed.
End SortFacts.

Lemma key_le_total a b : key_le a b = false -> key_le b a = true.
Proof. unfold key_le. pose proof (Qltb_spec (tf a) (tf b)). pose proof (Qltb_spec (tf b) (tf a)).
  pose proof (Qeq_bool_spec (tf a) (tf b)). pose proof (Qeq_bool_spec (tf b) (tf a)).
  pose proof (Qle_bool_spec (to b) (to a)). pose proof (Qle_bool_spec (to a) (to b)).
  destruct (Qltb (tf a) (tf b)), (Qltb (tf b) (tf a)), (Qeq_bool (tf a) (tf b)), (Qeq_bool (tf b) (tf a)),
    (Qle_bool (to b) (to a)), (Qle_bool (to a) (to b)); simpl; intros; try reflexivity; try discriminate; exfalso; lra. Qed.

Lemma tsort_perm l : Permutation (tsort l) l.
Proof. apply ssort_perm. Qed.
Lemma tsort_sorted l : adj (led key_le) (tsort l).
Proof. apply ssort_sorted. exact key_le_total. Qed.

(* forecasts ascending; within equal forecasts observations descending *)
Lemma key_le_spec a b : key_le a b = true -> tf a <= tf b /\ (tf a == tf b -> to b <= to a).
Proof. unfold key_le. pose proof (Qltb_spec (tf a) (tf b)). pose proof (Qeq_bool_spec (tf a) (tf b)).
  pose proof (Qle_bool_spec (to b) (to a)).
  destruct (Qltb (tf a) (tf b)), (Qeq_bool (tf a) (tf b)), (Qle_bool (to b) (to a)); simpl; intro; try discriminate; split; intros; lra. Qed.

(* tied forecasts share one fitted value *)
Lemma tidy_ties_pooled sv (t : list triple) :
  adj (led key_le) t ->
  adj (fun p q : triple * Q => tf (fst p) == tf (fst q) -> snd p = snd q) (combine t (pav sv (map titem t))).
Proof.
  intro Hs. pose proof (pav_ties sv (map titem t)) as Ht.
  pose proof (pav_length sv (map titem t)) as L. rewrite map_length in L.
  revert Hs Ht L. generalize (pav sv (map titem t)). intro v. revert v.
  induction t as [|a [|b r] IH]; intros v Hs Ht L.
  - exact I.
  - destruct v as [|x [|y v']]; simpl in *; auto; discriminate.
  - destruct v as [|x [|y v']]; try discriminate. simpl in Hs, Ht. destruct Hs as [Hab Hs]. destruct Ht as [Hxy Ht].
    split.
    + simpl. intro E. destruct Hxy as [Hxy|Hxy]; [exact Hxy|]. simpl in Hxy.
      apply key_le_spec in Hab. destruct Hab as [_ Hab]. specialize (Hab E). unfold titem in Hxy. simpl in Hxy. lra.
    + apply (IH (y :: v')); auto.
Qed.

(* ------------------------------------------------------------------------------------ *)
(* counts                                                                                 *)
(* ------------------------------------------------------------------------------------ *)
Fixpoint sum_counts (u : list (Q * nat * Q)) : nat := match u with [] => O | (_, c, _) :: r => (c + sum_counts r)%nat end.
Lemma uniq_counts xs : forall vs, length vs = length xs -> sum_counts (uniq xs vs) = length xs.
Proof. induction xs as [|x xs' IH]; intros vs L; destruct vs as [|v vs']; simpl in *; try discriminate; auto.
  specialize (IH vs' ltac:(lia)). destruct (uniq xs' vs') as [|[[x' c] v'] r]; simpl in *.
  - lia.
  - destruct (Qeq_bool x x'); simpl; lia.
Qed.

Lemma valid_triples_length fs os ws : (length (valid_triples fs os ws) <= length fs)%nat.
Proof. revert os ws. induction fs as [|f fs' IH]; intros os ws; simpl; [lia|].
  destruct os as [|o os']; simpl; [lia|].
  set (w := match ws with None => XFin 1 | Some (w :: _) => w | Some [] => XNaN end).
  set (ws' := match ws with None => None | Some l => Some (tl l) end).
  specialize (IH os' ws'). destruct f, o, w; simpl; lia. Qed.

Lemma counts_sum_fit a r : isotonic_fit_m a = Ok r ->
  sum_counts (fit_summary r) = length (valid_triples (a_fcst a) (a_obs a) (a_w a)).
Proof.
  unfold isotonic_fit_m. destruct (arg_checks a) as [f|e]; simpl; [|discriminate].
  destruct (tidy (a_fcst a) (a_obs a) (a_w a)) eqn:E; simpl; [discriminate|].
  intro H; inversion H; subst; clear H. unfold fit_summary. simpl f_tidy. simpl f_vals.
  rewrite uniq_counts.
  - rewrite map_length, <- E. unfold tidy. apply Permutation_length. apply tsort_perm.
  - unfold do_ir. rewrite pav_length, !map_length. reflexivity.
Qed.

(* ------------------------------------------------------------------------------------ *)
(* statements in unfolded form                                                            *)
(* ------------------------------------------------------------------------------------ *)
Lemma pav_blocks_thm sv l : exists bs,
  pav_blocks sv l = Some bs /\ pav sv l = expand bs /\
  flat_map bitems bs = l /\
  Forall (fun b => bitems b <> [] /\ ((exists i, b = single i) \/ bval b = sv (bitems b))) bs /\
  adj (fun a b => bval a < bval b) bs /\
  adj (fun a b => fst (last (bitems a) (0, 0)) < fst (hd (0, 0) (bitems b))) bs.
Proof. destruct (pav_total sv l) as [bs [E [Ex [Hi Hv Hs Hb]]]]. exists bs. repeat split; assumption. Qed.

Lemma pav_block_values sv l bs : (forall i, sv [i] == fst i) -> pav_blocks sv l = Some bs ->
  Forall (fun b => bval b == sv (bitems b)) bs.
Proof. intros Hsv E. destruct (pav_blocks_result sv l bs E) as [_ Hv _ _]. rewrite Forall_forall in *. intros b Hb.
  destruct (Hv b Hb) as [_ [[i Ei]|Ev]]; [rewrite Ei; simpl; symmetry; apply Hsv | rewrite Ev; reflexivity]. Qed.

Lemma tsort_thm l : Permutation (tsort l) l /\ adj (fun a b => tf a <= tf b /\ (tf a == tf b -> to b <= to a)) (tsort l).
Proof. split; [apply tsort_perm|]. eapply adj_impl; [|apply tsort_sorted]. intros a b E. apply key_le_spec. exact E. Qed.

Lemma tidy_ties_thm sv l :
  adj (fun p q : triple * Q => tf (fst p) == tf (fst q) -> snd p = snd q) (combine (tsort l) (pav sv (map titem (tsort l)))).
Proof. apply tidy_ties_pooled. apply tsort_sorted. Qed.
