(* proofs/C14_array.v -- every output cell of the array model of roc_curve_data is the list-level ROC point of the
   (forecast, observation, weight) triples of its own group, at its own threshold. *)
From V Require Import lib.Tree lib.C08_aux gen.Gen_C08_discretise gen.Gen_C09_binary model.C08 model.C09 model.C14 proofs.C09 proofs.C14.
From Coq Require Import Morphisms Setoid.

Lemma envs_preserve size R : forall e e' d, In e' (envs size R e) -> ~ In d R -> e' d = e d.
Proof.
  induction R as [|x R IH]; intros e e' d H N.
  - destruct H as [<- | []]. reflexivity.
  - cbn [envs] in H. apply in_flat_map in H. destruct H as [n [_ H]].
    rewrite (IH _ _ d H) by (intro; apply N; right; auto).
    unfold upd. destruct (String.eqb_spec d x); auto. subst. exfalso. apply N. left; auto.
Qed.
Lemma dinter_sub a R d : In d (dinter a R) -> In d R.
Proof. unfold dinter. intro H. apply filter_In in H. destruct H as [_ H]. apply mem_In. exact H. Qed.

Lemma nansum_xeq l l' : Forall2 xeq l l' -> nansum l =x= nansum l'.
Proof.
  induction 1 as [|a b l l' E H IH]. reflexivity.
  destruct a, b; simpl in E; try contradiction.
  - exact IH.
  - change (nansum (XFin q :: l)) with (xadd (XFin q) (nansum l)). change (nansum (XFin q0 :: l')) with (xadd (XFin q0) (nansum l')).
    rewrite IH. apply xadd_Proper; simpl; auto. reflexivity.
  - subst. change (nansum (XInf pos0 :: l)) with (xadd (XInf pos0) (nansum l)). change (nansum (XInf pos0 :: l')) with (xadd (XInf pos0) (nansum l')).
    rewrite IH. reflexivity.
Qed.

Section Cell.
  Variables (fcst obs : larr) (ts : list xv) (R : list dim).
  Hypothesis notR : ~ In "threshold" R.

  Definition disc_arr : larr := lzip (discretise_cell (MOp OpGe) X0) fcst (thresholds_arr ts).
  Definition threshold_at (e : env) : xv := nth (e "threshold") ts XNaN.

  Lemma thresholds_get e : lget (thresholds_arr ts) e = threshold_at e.
  Proof. unfold thresholds_arr, threshold_at. cbn [of_flat lget flat_index fold_right]. f_equal. lia. Qed.

  (* weighted *)
  Section Weighted.
    Variable w : larr.
    Definition wmap (m : xv -> xv -> xv) : larr := lzip xmul (lzip m disc_arr obs) w.
    Definition triples (e : env) : list triple :=
      map (fun e' => (lget fcst e', lget obs e', lget w e'))
          (envs (lsize (wmap (fun a _ => a))) (dinter (ldims (wmap (fun a _ => a))) R) e).

    Lemma wsum_cell (m : xv -> xv -> xv) (mw : xv -> triple -> xv) e :
      (forall t c, mw t c = xmul (m (disc_ge t (t_f c)) (t_o c)) (t_w c)) ->
      lget (lreduce nansum R (wmap m)) e = nansum (map (mw (threshold_at e)) (triples e)).
    Proof.
      intro Hm. cbn [lreduce lget]. unfold triples. rewrite map_map. f_equal. apply map_ext_in. intros e' He'.
      rewrite Hm. unfold wmap, disc_arr, disc_ge, t_f, t_o, t_w. cbn [lzip lget fst snd]. rewrite thresholds_get.
      unfold threshold_at. rewrite (envs_preserve _ _ e e' "threshold" He'). reflexivity.
      intro H. apply notR. eapply dinter_sub; eauto.
    Qed.

    (* the POD / POFD arrays of the model (ratio_of_maps with weights, reduction set R) *)
    Definition pod_arr : larr :=
      lzip gen_pod_ratio (sum_score (lzip (fun f o => fst (gen_pod_maps f o)) disc_arr obs) (Some w) R)
                         (sum_score (lzip (fun f o => snd (gen_pod_maps f o)) disc_arr obs) (Some w) R).
    Definition pofd_arr : larr :=
      lzip gen_pofd_ratio (sum_score (lzip (fun f o => fst (gen_pofd_maps f o)) disc_arr obs) (Some w) R)
                          (sum_score (lzip (fun f o => snd (gen_pofd_maps f o)) disc_arr obs) (Some w) R).

    Lemma pod_cell e : lget pod_arr e = pod_at (triples e) (threshold_at e).
    Proof.
      change (lget pod_arr e) with (gen_pod_ratio (lget (lreduce nansum R (wmap (fun f o => fst (gen_pod_maps f o)))) e)
                                                  (lget (lreduce nansum R (wmap (fun f o => snd (gen_pod_maps f o)))) e)).
      unfold pod_at.
      rewrite (wsum_cell (fun f o => fst (gen_pod_maps f o)) hit_w e) by reflexivity.
      rewrite (wsum_cell (fun f o => snd (gen_pod_maps f o)) miss_w e) by reflexivity. reflexivity.
    Qed.
    Lemma pofd_cell e : lget pofd_arr e = pofd_at (triples e) (threshold_at e).
    Proof.
      change (lget pofd_arr e) with (gen_pofd_ratio (lget (lreduce nansum R (wmap (fun f o => fst (gen_pofd_maps f o)))) e)
                                                    (lget (lreduce nansum R (wmap (fun f o => snd (gen_pofd_maps f o)))) e)).
      unfold pofd_at.
      rewrite (wsum_cell (fun f o => fst (gen_pofd_maps f o)) fa_w e) by reflexivity.
      rewrite (wsum_cell (fun f o => snd (gen_pofd_maps f o)) cn_w e) by reflexivity. reflexivity.
    Qed.
  End Weighted.

  (* unweighted: apply_weights is the identity; the list-level triples carry weight 1 *)
  Section Unweighted.
    Definition umap (m : xv -> xv -> xv) : larr := lzip m disc_arr obs.
    Definition triples1 (e : env) : list triple :=
      map (fun e' => (lget fcst e', lget obs e', XFin 1))
          (envs (lsize (umap (fun a _ => a))) (dinter (ldims (umap (fun a _ => a))) R) e).
    Lemma xmul_one v : xmul v (XFin 1) =x= v.
    Proof. destruct v as [|q|s]; cbn; try reflexivity. ring. Qed.
    Lemma usum_cell (m : xv -> xv -> xv) (mw : xv -> triple -> xv) e :
      (forall t c, mw t c = xmul (m (disc_ge t (t_f c)) (t_o c)) (t_w c)) ->
      lget (lreduce nansum R (umap m)) e =x= nansum (map (mw (threshold_at e)) (triples1 e)).
    Proof.
      intro Hm. cbn [lreduce lget]. unfold triples1. rewrite map_map. apply nansum_xeq.
      set (l := envs _ _ e). assert (Hl : forall e', In e' l -> In e' l) by auto. revert Hl. generalize l at 1 3 4.
      induction l0 as [|e' l0 IH]; intro Hl; cbn [map]; constructor.
      - rewrite Hm. unfold umap, disc_arr, disc_ge, t_f, t_o, t_w. cbn [lzip lget fst snd]. rewrite thresholds_get.
        unfold threshold_at. rewrite (envs_preserve _ _ e e' "threshold" (Hl e' (or_introl eq_refl))).
        symmetry. apply xmul_one. intro H. apply notR. eapply dinter_sub; eauto.
      - apply IH. intros; apply Hl; right; auto.
    Qed.
    Definition pod_arr1 : larr :=
      lzip gen_pod_ratio (sum_score (lzip (fun f o => fst (gen_pod_maps f o)) disc_arr obs) None R)
                         (sum_score (lzip (fun f o => snd (gen_pod_maps f o)) disc_arr obs) None R).
    Definition pofd_arr1 : larr :=
      lzip gen_pofd_ratio (sum_score (lzip (fun f o => fst (gen_pofd_maps f o)) disc_arr obs) None R)
                          (sum_score (lzip (fun f o => snd (gen_pofd_maps f o)) disc_arr obs) None R).
    Lemma pod_cell1 e : lget pod_arr1 e =x= pod_at (triples1 e) (threshold_at e).
    Proof.
      change (lget pod_arr1 e) with (gen_pod_ratio (lget (lreduce nansum R (umap (fun f o => fst (gen_pod_maps f o)))) e)
                                                   (lget (lreduce nansum R (umap (fun f o => snd (gen_pod_maps f o)))) e)).
      unfold pod_at, gen_pod_ratio.
      rewrite (usum_cell (fun f o => fst (gen_pod_maps f o)) hit_w e) by reflexivity.
      rewrite (usum_cell (fun f o => snd (gen_pod_maps f o)) miss_w e) by reflexivity. reflexivity.
    Qed.
    Lemma pofd_cell1 e : lget pofd_arr1 e =x= pofd_at (triples1 e) (threshold_at e).
    Proof.
      change (lget pofd_arr1 e) with (gen_pofd_ratio (lget (lreduce nansum R (umap (fun f o => fst (gen_pofd_maps f o)))) e)
                                                     (lget (lreduce nansum R (umap (fun f o => snd (gen_pofd_maps f o)))) e)).
      unfold pofd_at, gen_pofd_ratio.
      rewrite (usum_cell (fun f o => fst (gen_pofd_maps f o)) fa_w e) by reflexivity.
      rewrite (usum_cell (fun f o => snd (gen_pofd_maps f o)) cn_w e) by reflexivity. reflexivity.
    Qed.
  End Unweighted.
End Cell.

(* what the model's roc_curve_data_m returns, when it returns: the POD / POFD arrays above for the reduction set the dimension
   rule yields (which never contains 'threshold'), and the AUC of each cell is the trapezoid fold along 'threshold' *)
Lemma ratio_of_maps_ok m1 m2 fin fc ob rd pd w ca p :
  ratio_of_maps m1 m2 fin fc ob rd pd w ca = Ok p ->
  exists R, gather (ldims fc) (ldims ob) None rd pd DNone = Ok R /\
            p = lzip fin (sum_score (lzip m1 fc ob) w R) (sum_score (lzip m2 fc ob) w R).
Proof.
  unfold ratio_of_maps. destruct (if ca then _ else _); cbn [rbind]; [| discriminate].
  destruct (gather _ _ _ _ _ _) as [R | err]; cbn [rbind]; [| discriminate].
  intro H. inversion H. exists R. split; reflexivity.
Qed.
Lemma gather_keep_excludes fd od keep R d :
  gather fd od None DNone (DList keep) DNone = Ok R -> In d keep -> ~ In d R.
Proof.
  unfold gather. cbn [is_none negb andb truthy is_all as_list].
  destruct keep as [|k keep']; [intros _ []|]. cbn [disempty negb andb].
  destruct (negb (dsubset _ _)); [discriminate|]. intro H. inversion H. subst. intros Hin Hr.
  apply mem_In in Hr. rewrite mem_ddiff in Hr. apply mem_In in Hin. rewrite Hin in Hr. rewrite andb_false_r in Hr. discriminate.
Qed.

Theorem roc_model_cells fcst obs ts rd pd w ca pod pofd auc :
  roc_curve_data_m fcst obs ts rd pd (Some w) ca = Ok [pod; pofd; auc] ->
  exists R, ~ In "threshold" R /\
    (forall e, lget pod e = pod_at (triples fcst obs ts R w e) (threshold_at ts e)) /\
    (forall e, lget pofd e = pofd_at (triples fcst obs ts R w e) (threshold_at ts e)) /\
    (forall e, lget auc e = auc_of (along pod "threshold" e) (along pofd "threshold" e)).
Proof.
  unfold roc_curve_data_m. destruct (if ca then _ else _); cbn [rbind]; [| discriminate].
  unfold binary_discretise_m. destruct (mem "threshold" (ldims fcst)); [discriminate|].
  cbn [orb andb]. destruct (negb (monotonic ts)); [discriminate|].
  unfold comparative_discretise_m. cbn [gen_discretise_tolerance rbind].
  destruct (valid_mode (MOp OpGe)); [| discriminate]. cbn [rbind].
  destruct (gather (ldims fcst) (ldims obs) None rd pd DNone) as [R0 | err]; cbn [rbind]; [| discriminate].
  destruct (binary_pod_m _ _ _ _ _ _) as [p |] eqn:Ep; cbn [rbind]; [| discriminate].
  destruct (binary_pofd_m _ _ _ _ _ _) as [q |] eqn:Eq; cbn [rbind]; [| discriminate].
  destruct (negb (dsubset _ _)); [discriminate|]. intro H. inversion H. subst. clear H.
  apply ratio_of_maps_ok in Ep. destruct Ep as [R [G ->]].
  apply ratio_of_maps_ok in Eq. destruct Eq as [R' [G' ->]]. rewrite G in G'. inversion G'. subst R'.
  assert (N : ~ In "threshold" R) by (eapply gather_keep_excludes; [exact G | apply in_or_app; right; left; reflexivity]).
  exists R. split; [exact N|]. split; [| split].
  - intro e. apply (pod_cell fcst obs ts R N w e).
  - intro e. apply (pofd_cell fcst obs ts R N w e).
  - intro e. reflexivity.
Qed.

Theorem roc_model_cells_unweighted fcst obs ts rd pd ca pod pofd auc :
  roc_curve_data_m fcst obs ts rd pd None ca = Ok [pod; pofd; auc] ->
  exists R, ~ In "threshold" R /\
    (forall e, lget pod e =x= pod_at (triples1 fcst obs ts R e) (threshold_at ts e)) /\
    (forall e, lget pofd e =x= pofd_at (triples1 fcst obs ts R e) (threshold_at ts e)) /\
    (forall e, lget auc e = auc_of (along pod "threshold" e) (along pofd "threshold" e)).
Proof.
  unfold roc_curve_data_m. destruct (if ca then _ else _); cbn [rbind]; [| discriminate].
  unfold binary_discretise_m. destruct (mem "threshold" (ldims fcst)); [discriminate|].
  cbn [orb andb]. destruct (negb (monotonic ts)); [discriminate|].
  unfold comparative_discretise_m. cbn [gen_discretise_tolerance rbind].
  destruct (valid_mode (MOp OpGe)); [| discriminate]. cbn [rbind].
  destruct (gather (ldims fcst) (ldims obs) None rd pd DNone) as [R0 | err]; cbn [rbind]; [| discriminate].
  destruct (binary_pod_m _ _ _ _ _ _) as [p |] eqn:Ep; cbn [rbind]; [| discriminate].
  destruct (binary_pofd_m _ _ _ _ _ _) as [q |] eqn:Eq; cbn [rbind]; [| discriminate].
  destruct (negb (dsubset _ _)); [discriminate|]. intro H. inversion H. subst. clear H.
  apply ratio_of_maps_ok in Ep. destruct Ep as [R [G ->]].
  apply ratio_of_maps_ok in Eq. destruct Eq as [R' [G' ->]]. rewrite G in G'. inversion G'. subst R'.
  assert (N : ~ In "threshold" R) by (eapply gather_keep_excludes; [exact G | apply in_or_app; right; left; reflexivity]).
  exists R. split; [exact N|]. split; [| split].
  - intro e. apply (pod_cell1 fcst obs ts R N e).
  - intro e. apply (pofd_cell1 fcst obs ts R N e).
  - intro e. reflexivity.
Qed.
