(* proofs/C12_scaling.v -- declarative characterisation of the warning-scaling algorithm
   (_scaling_to_weight_matrix): for each warning level, the assessment weight goes to exactly those
   columns whose crossover row index is positive, below the initial limit, and strictly lower than the
   non-zero crossover index of every column to their left. *)
From V Require Import lib.Tree model.C12.

(* column c (counted from column a) receives the weight of the level *)
Definition receives (pi : nat -> nat) (L a c : nat) : bool :=
  (0 <? pi c)%nat && (pi c <? L)%nat && forallb (fun c' => (pi c' =? 0)%nat || (pi c <? pi c')%nat) (seq a (c - a)).

Fixpoint picks (pi : nat -> nat) (L : nat) (cols : list nat) : list nat :=
  match cols with
  | [] => []
  | c :: r => if (0 <? pi c)%nat && (pi c <? L)%nat then c :: picks pi (pi c) r else picks pi L r
  end.

Lemma level_fold_picks M aw level cols : forall L acc,
  snd (fold_left (level_step M aw level) cols (L, acc)) = (acc ++ map (place M aw level) (picks (cross M level) L cols))%list.
Proof.
  induction cols as [|c r IH]; intros L acc; simpl.
  - rewrite app_nil_r. reflexivity.
  - fold (cross M level c).
    destruct (L <=? cross M level c)%nat eqn:E1.
    + apply Nat.leb_le in E1. simpl. replace (cross M level c <? L)%nat with false by (symmetry; apply Nat.ltb_ge; lia).
      rewrite andb_false_r. apply IH.
    + apply Nat.leb_gt in E1. replace (cross M level c <? L)%nat with true by (symmetry; apply Nat.ltb_lt; lia).
      rewrite andb_true_r. destruct (0 <? cross M level c)%nat eqn:E2.
      * rewrite IH. simpl. rewrite <- app_assoc. reflexivity.
      * apply IH.
Qed.

Lemma picks_receives pi n : forall a L,
  picks pi L (seq a n) = filter (receives pi L a) (seq a n).
Proof.
  induction n as [|n IH]; intros a L; [reflexivity|].
  cbn [seq picks filter]. unfold receives at 1. rewrite Nat.sub_diag. cbn [seq forallb]. rewrite andb_true_r.
  assert (Hext : forall L', ((0 <? pi a)%nat && (pi a <? L)%nat = true -> L' = pi a) ->
                            ((0 <? pi a)%nat && (pi a <? L)%nat = false -> L' = L) ->
                            filter (receives pi L' (S a)) (seq (S a) n) = filter (receives pi L a) (seq (S a) n)).
  { intros L' H1 H2. apply filter_ext_in. intros c Hc. apply in_seq in Hc. unfold receives.
    replace (c - a)%nat with (S (c - S a)) by lia. cbn [seq forallb].
    set (F := forallb _ (seq (S a) (c - S a))).
    destruct (0 <? pi c)%nat eqn:A1; [|reflexivity]. cbn [andb].
    destruct F; rewrite ?andb_true_r, ?andb_false_r; [|reflexivity].
    apply eq_true_iff_eq. rewrite andb_true_iff, orb_true_iff, !Nat.ltb_lt, Nat.eqb_eq.
    destruct ((0 <? pi a)%nat && (pi a <? L)%nat) eqn:E.
    - rewrite (H1 eq_refl). apply andb_true_iff in E. rewrite !Nat.ltb_lt in E. lia.
    - rewrite (H2 eq_refl). apply andb_false_iff in E. rewrite !Nat.ltb_ge in E. lia. }
  destruct ((0 <? pi a)%nat && (pi a <? L)%nat) eqn:E.
  - rewrite IH. f_equal. apply Hext; auto. discriminate.
  - rewrite IH. apply Hext; auto. discriminate.
Qed.

(* scaling_matrix_spec: the placements made by the algorithm, for any initial limit `init` *)
Theorem placements_spec init M aw :
  placements init M aw =
  flat_map (fun level => map (place M aw level) (filter (receives (cross M level) init 1) (seq 1 (length (hd [] M) - 1))))
           (seq 1 (max_level M aw)).
Proof.
  unfold placements. apply flat_map_ext. intro level. rewrite level_fold_picks, picks_receives. reflexivity.
Qed.

(* with the specification's limit (number of rows = n_prob + 1) the condition `cross < init` is vacuous *)
Lemma cross_lt_rows M level c : M <> [] -> (cross M level c < length M)%nat.
Proof. intro H. unfold cross, argmax_ge. destruct (first_ge _ _) eqn:E.
  - assert (forall l lvl k, first_ge l lvl = Some k -> (k < length l)%nat) as F.
    { induction l as [|x t IH]; simpl; [discriminate|]. intros lvl k. destruct (lvl <=? x)%Z.
      intro H0; inversion H0; lia. destruct (first_ge t lvl) eqn:E'; simpl; [|discriminate].
      intro H0; inversion H0. specialize (IH lvl n0 E'). lia. }
    apply F in E. unfold colz in E. rewrite rev_length, map_length in E. exact E.
  - destruct M; [congruence|]. simpl. lia. Qed.
Theorem receives_spec M level a c : M <> [] ->
  receives (cross M level) (length M) a c =
  (0 <? cross M level c)%nat && forallb (fun c' => (cross M level c' =? 0)%nat || (cross M level c <? cross M level c')%nat) (seq a (c - a)).
Proof. intro H. unfold receives. pose proof (cross_lt_rows M level c H) as Hl.
  replace (cross M level c <? length M)%nat with true by (symmetry; apply Nat.ltb_lt; auto). rewrite andb_true_r. reflexivity. Qed.

(* meaning of the crossover index: going up the column from the bottom row, position k is the first one whose
   level is >= the given level (None: the column never reaches the level; the algorithm then uses 0) *)
Lemma first_ge_spec l lvl :
  match first_ge l lvl with
  | Some k => (k < length l)%nat /\ (lvl <= nth k l 0)%Z /\ forall j, (j < k)%nat -> (nth j l 0 < lvl)%Z
  | None => forall j, (j < length l)%nat -> (nth j l 0 < lvl)%Z
  end.
Proof.
  induction l as [|x t IH]; simpl. intros; lia.
  destruct (lvl <=? x)%Z eqn:E.
  - apply Z.leb_le in E. repeat split; try lia. 
  - apply Z.leb_gt in E. destruct (first_ge t lvl) as [k|]; simpl.
    + destruct IH as [A [B C]]. repeat split; try lia; auto. intros [|j] Hj; auto. apply C. lia.
    + intros [|j] Hj; auto. apply IH. lia.
Qed.

(* scaling_matrix_spec: the line-by-line model of _scaling_to_weight_matrix (lowest_prob_index starting at n_prob + 1)
   IS the declarative specification, for every scaling matrix and every list of assessment weights *)
Lemma code_placements_spec M aw : M <> [] -> placements (length M - 1 + 1) M aw = spec_placements M aw.
Proof.
  intro H. replace (length M - 1 + 1)%nat with (length M) by (destruct M; [congruence | simpl; lia]).
  rewrite placements_spec. unfold spec_placements. apply flat_map_ext. intro level. f_equal.
  apply filter_ext. intro c. rewrite (receives_spec M level 1 c H). reflexivity.
Qed.
Theorem scaling_to_wm_is_spec M aw : scaling_to_wm M aw = scaling_to_wm_spec M aw.
Proof.
  destruct M as [|r M']; [reflexivity|].
  unfold scaling_to_wm, scaling_to_wm_spec, scaling_to_wm_with. rewrite code_placements_spec by discriminate. reflexivity.
Qed.
(* every entry of the resulting weight matrix (before the rows are attached to decreasing probabilities): the sum of
   the assessment weights of the levels whose weight the decision point receives *)
Lemma scaling_entry M aw r' c :
  (r' < length M - 1)%nat -> (c < length (hd [] M) - 1)%nat ->
  nth c (nth r' (scaling_to_wm M aw) []) 0 = wts_entry (spec_placements M aw) (length M - 1 - 1 - r')%nat c.
Proof.
  intros Hr Hc. rewrite scaling_to_wm_is_spec. unfold scaling_to_wm_spec.
  set (f := fun r0 => map (fun c0 => wts_entry (spec_placements M aw) (length M - 1 - 1 - r0)%nat c0) (seq 0 (length (hd [] M) - 1))).
  change (nth c (nth r' (map f (seq 0 (length M - 1))) []) 0 = wts_entry (spec_placements M aw) (length M - 1 - 1 - r')%nat c).
  rewrite (nth_indep _ [] (f 0%nat)) by (rewrite map_length, seq_length; exact Hr).
  rewrite map_nth, seq_nth by exact Hr. unfold f. simpl plus.
  set (g := fun c0 => wts_entry (spec_placements M aw) (length M - 1 - 1 - r')%nat c0).
  rewrite (nth_indep _ 0 (g 0%nat)) by (rewrite map_length, seq_length; exact Hc).
  rewrite map_nth, seq_nth by exact Hc. reflexivity.
Qed.
