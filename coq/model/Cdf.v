(* model/Cdf.v -- executable per-line models of scores.processing.cdf (cdf_functions.py) and of the
   CRPS-for-CDF pipeline of scores.probability.crps_impl (shared by C07 and C17).
   A "line" is one forecast case: the values of an array along the threshold dimension, in
   increasing threshold order.  Thresholds are rationals, ordinates extended values (NaN).
   The closed-form piece integral and the per-threshold Brier score are regenerated from the
   source (gen.Gen_C07_kern); everything else is a hand model tied by the correspondence check. *)
From V Require Import lib.Tree gen.Gen_C07_kern.
Open Scope Q_scope.
Open Scope list_scope.

(* ------------------------------------------------------------------------------------------ *)
(* thresholds                                                                                   *)
(* ------------------------------------------------------------------------------------------ *)
(* np.sort(pd.unique(...)) of finite values *)
Fixpoint qinsert (x : Q) (l : list Q) : list Q :=
  match l with
  | [] => [x]
  | h :: t => match Qcompare x h with Lt => x :: h :: t | Eq => h :: t | Gt => h :: qinsert x t end
  end.
Definition qsort_uniq (l : list Q) : list Q := fold_right qinsert [] l.
(* thresholds[~np.isnan(thresholds)]  (the generators never produce infinite thresholds) *)
Definition fin_of (l : list xv) : list Q := flat_map (fun v => match v with XFin q => [q] | _ => [] end) l.
(* checks.coords_increasing: (da[dim].diff(dim) > 0).all() *)
Fixpoint increasing (l : list Q) : bool :=
  match l with a :: ((b :: _) as t) => Qltb a b && increasing t | _ => true end.
Definition qmem (x : Q) (l : list Q) : bool := existsb (Qeq_bool x) l.

(* re-indexing a line given at thresholds ts onto a grid (xr.broadcast outer join): NaN where absent *)
Fixpoint lookup (g : Q) (ts : list Q) (ys : list xv) : xv :=
  match ts, ys with
  | t :: ts', y :: ys' => if Qeq_bool g t then y else lookup g ts' ys'
  | _, _ => XNaN
  end.
Definition reindex (ts : list Q) (ys : list xv) (grid : list Q) : list xv := map (fun g => lookup g ts ys) grid.

(* ------------------------------------------------------------------------------------------ *)
(* propagate_nan, observed_cdf, round_values                                                    *)
(* ------------------------------------------------------------------------------------------ *)
Definition has_nan (l : list xv) : bool := existsb xisnan l.
Definition blank (l : list xv) : list xv := map (fun _ => XNaN) l.
Definition propagate_nan_m (l : list xv) : list xv := if has_nan l then blank l else l.

(* 1 if threshold >= obs else 0; NaN for a NaN observation *)
Definition obs_cdf_at (obs : xv) (g : Q) : xv :=
  match obs with XNaN => XNaN | _ => b2x (xle obs (XFin g)) end.
Definition observed_cdf_line (obs : xv) (grid : list Q) : list xv := map (obs_cdf_at obs) grid.

(* numpy round: half to even *)
Definition round_half_even (x : Q) : Z :=
  let f := Qfloor x in
  let r := x - inject_Z f in
  match Qcompare r (1 # 2) with
  | Lt => f | Gt => (f + 1)%Z
  | Eq => if Z.even f then f else (f + 1)%Z end.
Definition round_to (p : Q) (x : Q) : Q := inject_Z (round_half_even (x / p)) * p.
Definition ten7 : Q := 10000000.
(* (array / p).round() * p, then .round(decimals=7); p = 0: unchanged *)
Definition round_values_m (p : Q) (final : bool) (v : xv) : xv :=
  if Qeq_bool p 0 then v else
  match v with
  | XFin x => let y := round_to p x in XFin (if final then inject_Z (round_half_even (y * ten7)) / ten7 else y)
  | _ => v end.

(* ------------------------------------------------------------------------------------------ *)
(* fill_cdf                                                                                     *)
(* ------------------------------------------------------------------------------------------ *)
Inductive fillm := FLinear | FStep | FForward | FBackward.

Fixpoint ffill_from (last : xv) (ys : list xv) : list xv :=
  match ys with [] => [] | y :: t => let v := xfillna y last in v :: ffill_from v t end.
Definition ffill (ys : list xv) : list xv := ffill_from XNaN ys.
Definition bfill (ys : list xv) : list xv := rev (ffill (rev ys)).

(* the non-NaN points of a line *)
Definition known (ts : list Q) (ys : list xv) : list (Q * Q) :=
  flat_map (fun p => match snd p with XFin y => [(fst p, y)] | _ => [] end) (combine ts ys).
Definition line (x0 y0 x1 y1 x : Q) : Q := y0 + (y1 - y0) * (x - x0) / (x1 - x0).
(* interpolate_na(method="linear", fill_value="extrapolate"): the segment of consecutive known points
   containing x; left of the first / right of the last known point the first / last segment is extended *)
Fixpoint interp_known (k : list (Q * Q)) (x : Q) : xv :=
  match k with
  | (x0, y0) :: (((x1, y1) :: rest) as tl) =>
      match rest with
      | [] => XFin (line x0 y0 x1 y1 x)
      | _ => if Qle_bool x x1 then XFin (line x0 y0 x1 y1 x) else interp_known tl x
      end
  | _ => XNaN
  end.
Definition clip01 (v : xv) : xv := xclip_max (xclip_min v X0) X1.
Definition fill_linear (ts : list Q) (ys : list xv) : list xv :=
  let k := known ts ys in
  map (fun p => clip01 (match snd p with XNaN => interp_known k (fst p) | v => v end)) (combine ts ys).

Definition fill_line (m : fillm) (min_nonnan : nat) (ts : list Q) (ys : list xv) : list xv :=
  if Nat.ltb (nancount ys) min_nonnan then blank ys else
  match m with
  | FLinear => fill_linear ts ys
  | FStep => map (fun v => xfillna v X0) (ffill ys)
  | FForward => bfill (ffill ys)
  | FBackward => ffill (bfill ys)
  end.

(* checks.cdf_values_within_bounds over a whole array: NaN ignored *)
Definition in01 (v : xv) : bool := match v with XNaN => true | _ => xle X0 v && xle v X1 end.
Definition bounds_ok (lines : list (list xv)) : bool := forallb (forallb in01) lines.

(* the argument checks of fill_cdf *)
Definition fill_guard (m : fillm) (min_nonnan : Z) (lines : list (list xv)) : bool :=   (* true = raises *)
  negb (bounds_ok lines)
  || match m with FLinear => Z.ltb min_nonnan 2 | _ => Z.ltb min_nonnan 1 end.

(* add_thresholds for one line: union grid, re-index, fill *)
Definition add_grid (ts : list Q) (new : list xv) : list Q := qsort_uniq (ts ++ fin_of new).

(* ------------------------------------------------------------------------------------------ *)
(* integrate_square_piecewise_linear                                                            *)
(* ------------------------------------------------------------------------------------------ *)
(* piece integrals between consecutive thresholds (the first entry of the code's array, made NaN by
   shift, never contributes and is omitted) *)
Fixpoint pieces (pts : list (Q * xv)) : list xv :=
  match pts with
  | (t0, v0) :: (((t1, v1) :: _) as tl) => gen_piece_integral (XFin (t1 - t0)) (xsub v1 v0) v0 :: pieces tl
  | _ => []
  end.
(* .sum(dim, min_count=1): NaN-skipping, NaN when nothing is left *)
Definition sum_min1 (l : list xv) : xv := match nancount l with O => XNaN | _ => nansum l end.
Definition xmul2 (a b : list xv) : list xv := map (fun p => xmul (fst p) (snd p)) (combine a b).
(* piece_weight = weight.shift(1): the piece between thresholds i and i+1 is multiplied by w[i] *)
Definition ispl (ts : list Q) (vs : list xv) (pw : option (list xv)) : xv :=
  let ps := pieces (combine ts vs) in
  sum_min1 (match pw with None => ps | Some w => xmul2 ps w end).

(* ------------------------------------------------------------------------------------------ *)
(* crps_cdf_exact, crps_cdf_trapz, Brier decomposition: one case on a common grid               *)
(* ------------------------------------------------------------------------------------------ *)
(* (v == c) | (v.shift(1) == c) *)
Fixpoint here_or_prev (test : xv -> bool) (prev : xv) (l : list xv) : list bool :=
  match l with [] => [] | v :: t => (test v || test prev) :: here_or_prev test v t end.
Definition where_list (mask : list bool) (vs : list xv) : list xv :=
  map (fun p => xwhere (fst p) (snd p)) (combine mask vs).

Definition crps_exact_line (ts : list Q) (f o w : list xv) : xv * xv * xv :=
  let ok := negb (has_nan f) && negb (has_nan o) && negb (has_nan w) in
  let obs_one := map (fun v => xeqv v X1) o in
  let obs_zero := here_or_prev (fun v => xeqv v X0) XNaN o in
  let fin v := xwhere ok (if xisnan v then X0 else v) in
  let over := fin (ispl ts (where_list obs_one (map (fun v => xsub v X1) f)) (Some w)) in
  let under := fin (ispl ts (where_list obs_zero f) (Some w)) in
  (xadd over under, under, over).

(* .integrate(dim): trapezoidal rule, NaN-propagating *)
Fixpoint trapz (pts : list (Q * xv)) : xv :=
  match pts with
  | (t0, g0) :: (((t1, g1) :: _) as tl) => xadd (xmul (XFin (t1 - t0)) (xmul (XFin (1 # 2)) (xadd g1 g0))) (trapz tl)
  | _ => X0
  end.
Definition map3 (h : xv -> xv -> xv -> xv) (a b c : list xv) : list xv :=
  map (fun p => h (fst (fst p)) (snd (fst p)) (snd p)) (combine (combine a b) c).
Definition crps_trapz_line (ts : list Q) (f o w : list xv) : xv * xv * xv :=
  let ok := negb (has_nan f) && negb (has_nan o) && negb (has_nan w) in
  let total := xwhere ok (trapz (combine ts (map3 (fun f o w => xmul w (xpow2 (xsub f o))) f o w))) in
  let over := xwhere ok (trapz (combine ts (map3 (fun f o w => xmul (xmul o w) (xpow2 (xsub f o))) f o w))) in
  (total, xsub total over, over).

(* per-threshold Brier decomposition of one case: (total, under, over) at each threshold *)
Definition brier_at (f o : xv) : xv * xv * xv :=
  let b := gen_bscore f o in
  let nn := xnotnull b in
  let over := xwhere nn (xwhere3 (xeqv o X1) b X0) in
  let under := xwhere nn (xwhere3 (xeqv o X0) b X0) in
  (xadd over under, under, over).
Definition brier_line (f o : list xv) : list (xv * xv * xv) := map (fun p => brier_at (fst p) (snd p)) (combine f o).

(* ------------------------------------------------------------------------------------------ *)
(* the public pipeline (crps_cdf / crps_cdf_brier_decomposition) on a list of forecast cases   *)
(* ------------------------------------------------------------------------------------------ *)
(* one forecast case: forecast ordinates at the forecast thresholds, the observation, and (when a
   threshold weight is supplied) the weight ordinates at the weight thresholds *)
Definition fcase := (list xv * xv * option (list xv))%type.
Definition c_f (c : fcase) := fst (fst c).
Definition c_o (c : fcase) := snd (fst c).
Definition c_w (c : fcase) := snd c.

Record cdfopts := { o_ffm : fillm; o_wfm : fillm; o_exact : bool; o_prop : bool }.

Definition union_grid (ft : list Q) (wt : option (list Q)) (cases : list fcase) (add : list xv) : list Q :=
  qsort_uniq ((match wt with Some l => l | None => [] end) ++ ft ++ fin_of (map c_o cases) ++ fin_of add).

Definition prep_f (prop : bool) (c : fcase) : list xv := if prop then propagate_nan_m (c_f c) else c_f c.
Definition prep_w (prop : bool) (c : fcase) : option (list xv) :=
  match c_w c with Some w => Some (if prop then propagate_nan_m w else w) | None => None end.

(* the three arrays crps_cdf_reformat_inputs returns, for one case *)
Definition reformat_case (grid ft : list Q) (wt : option (list Q)) (op : cdfopts) (c : fcase) : list xv * list xv * list xv :=
  let f := fill_line (o_ffm op) 2 grid (reindex ft (prep_f (o_prop op) c) grid) in
  let o := observed_cdf_line (c_o c) grid in
  let w := match wt, prep_w (o_prop op) c with
           | Some wt, Some w => fill_line (o_wfm op) 2 grid (reindex wt w grid)
           | _, _ => map (fun _ => X1) grid end in
  (f, o, w).

Definition crps_case (grid ft : list Q) (wt : option (list Q)) (op : cdfopts) (c : fcase) : xv * xv * xv :=
  let '(f, o, w) := reformat_case grid ft wt op c in
  if o_exact op then crps_exact_line grid f o w else crps_trapz_line grid f o w.

Definition has_neg (l : list xv) : bool := existsb (fun v => xlt v X0) l.
Definition wlines (cases : list fcase) : list (list xv) := flat_map (fun c => match c_w c with Some w => [w] | None => [] end) cases.

(* check_crps_cdf_inputs (value-dependent part) and the bound checks inside fill_cdf; every failure is a ValueError *)
Definition crps_guard (ft : list Q) (wt : option (list Q)) (cases : list fcase) (op : cdfopts) : bool :=
  Nat.ltb (length ft) 2
  || negb (increasing ft)
  || match wt with Some l => negb (increasing l) | None => false end
  || existsb has_neg (wlines cases)
  || negb (bounds_ok (map (prep_f (o_prop op)) cases))
  || negb (bounds_ok (flat_map (fun c => match prep_w (o_prop op) c with Some w => [w] | None => [] end) cases)).

Definition crps_cdf_cases (ft : list Q) (wt : option (list Q)) (cases : list fcase) (add : list xv) (op : cdfopts)
  : result (list (xv * xv * xv)) :=
  if crps_guard ft wt cases op then Err ValueError else
  let grid := union_grid ft wt cases add in
  Ok (map (crps_case grid ft wt op) cases).

(* crps_cdf_brier_decomposition: NaNs always propagated, no weight; result per case and threshold *)
Definition brier_guard (ft : list Q) (cases : list fcase) : bool :=
  negb (increasing ft) || negb (bounds_ok (map (prep_f true) cases)).
Definition brier_case (grid ft : list Q) (ffm : fillm) (c : fcase) : list (xv * xv * xv) :=
  let f := fill_line ffm 2 grid (reindex ft (propagate_nan_m (c_f c)) grid) in
  brier_line f (observed_cdf_line (c_o c) grid).
Definition brier_cases (ft : list Q) (cases : list fcase) (add : list xv) (ffm : fillm)
  : result (list Q * list (list (xv * xv * xv))) :=
  if brier_guard ft cases then Err ValueError else
  let grid := union_grid ft None cases add in
  Ok (grid, map (brier_case grid ft ffm) cases).

(* ------------------------------------------------------------------------------------------ *)
(* cdf_envelope, decreasing_cdfs                                                                *)
(* ------------------------------------------------------------------------------------------ *)
(* np.fmax.accumulate *)
Fixpoint fmax_acc (acc : xv) (l : list xv) : list xv :=
  match l with [] => [] | v :: t => let a := xfmax acc v in a :: fmax_acc a t end.
Definition cummax (l : list xv) : list xv := fmax_acc XNaN l.
(* np.where(~np.isnan(cdf), x, nan) *)
Definition mask_like (orig l : list xv) : list xv :=
  map (fun p => if xisnan (fst p) then XNaN else snd p) (combine orig l).
Definition one_minus (l : list xv) : list xv := map (fun v => xsub X1 v) l.
Definition env_upper (l : list xv) : list xv := mask_like l (cummax l).
Definition env_lower (l : list xv) : list xv := mask_like l (rev (one_minus (cummax (one_minus (rev l))))).

(* diff.clip(max=0).sum(dim) < -tolerance *)
Fixpoint diffs (l : list xv) : list xv :=
  match l with a :: ((b :: _) as t) => xsub b a :: diffs t | _ => [] end.
Definition total_decrease (l : list xv) : xv := nansum (map (fun d => xclip_max d X0) (diffs l)).
Definition decreasing_line (tol : Q) (l : list xv) : bool := xlt (total_decrease l) (XFin (- tol)).
(* check_nan_decreasing_inputs: every line all-NaN or NaN-free *)
Definition all_or_none (l : list xv) : bool := forallb xisnan l || negb (has_nan l).
Definition decreasing_guard (tol : Q) (ts : list Q) (lines : list (list xv)) : bool :=
  Qltb tol 0 || negb (increasing ts) || negb (forallb all_or_none lines).

(* ------------------------------------------------------------------------------------------ *)
(* adjust_fcst_for_crps                                                                         *)
(* ------------------------------------------------------------------------------------------ *)
(* idxmax over ("original","upper","lower"), NaN skipped, first maximum wins; None when all NaN *)
Definition pick3 (a b c : xv) : option nat :=
  let best (cur : option (nat * xv)) (i : nat) (v : xv) :=
    match v with XNaN => cur | _ =>
      match cur with None => Some (i, v) | Some (_, m) => if xlt m v then Some (i, v) else cur end end in
  match best (best (best None 0%nat a) 1%nat b) 2%nat c with Some (i, _) => Some i | None => None end.

Definition adjust_cases (tol : Q) (ft : list Q) (cases : list (list xv * xv)) (add : list xv) (ffm : fillm) (exact : bool)
  : result (list (list xv)) :=
  if Qltb tol 0 then Err ValueError else
  let fs := map (fun c => propagate_nan_m (fst c)) cases in
  if negb (increasing ft) then Err ValueError else
  let dec := map (decreasing_line tol) fs in
  if negb (existsb (fun b => b) dec) then Ok fs else
  let op := {| o_ffm := ffm; o_wfm := FForward; o_exact := exact; o_prop := true |} in
  let mk (g : list xv -> list xv) := map (fun p => (g (fst p), snd (snd p), @None (list xv))) (combine fs cases) in
  let all3 := mk (fun l => l) ++ mk env_upper ++ mk env_lower in
  if crps_guard ft None all3 op then Err ValueError else
  let grid := union_grid ft None all3 add in
  let tot (c : fcase) := fst (fst (crps_case grid ft None op c)) in
  Ok (map (fun p =>
        let '(f, d, c) := p in
        if (d : bool) then
          match pick3 (tot (f, snd c, None)) (tot (env_upper f, snd c, None)) (tot (env_lower f, snd c, None)) with
          | Some 0%nat => f | Some 1%nat => env_upper f | Some _ => env_lower f | None => f end
        else f) (combine (combine fs dec) cases)).
