(* model/C18.v -- executable models for C18 (flip-flop index).
   continuous/flip_flop_impl.py: _flip_flop_index, flip_flop_index (selections),
   encompassing_sector_size / _encompassing_sector_size_np, flip_flop_index_proportion_exceeding;
   processing/discretise.py as used by proportion_exceeding.  The angular difference is the
   kernel regenerated from functions.py (site S1). *)
From V Require Import lib.Tree gen.Gen_functions gen.Gen_C18_kern.
Open Scope string_scope.

(* ------------------------------------------------------------------------------------ *)
(* linear index on a list                                                                 *)
(* ------------------------------------------------------------------------------------ *)
(* data.shift(1) <op> data, without the leading NaN slot: [f x0 x1; f x1 x2; ...] *)
Fixpoint sdiffs (f : xv -> xv -> xv) (l : list xv) : list xv :=
  match l with
  | a :: t => match t with b :: _ => f a b :: sdiffs f t | [] => [] end
  | [] => []
  end.

Definition zq (z : Z) : Q := inject_Z z.
Definition nm2 (n : nat) : Q := zq (Z.of_nat n - 2).

(* _flip_flop_index, is_angular=False, on the sequence along sampling_dim:
   abs(shift - data).sum() skips the NaN slot(s); max/min with skipna=False propagate NaN *)
Definition ff_linear (l : list xv) : xv :=
  let tv := nansum (XNaN :: map xabs (sdiffs xsub l)) in
  let range := xsub (xmaxl l) (xminl l) in
  xdiv (xsub tv range) (XFin (nm2 (length l))).

(* ------------------------------------------------------------------------------------ *)
(* the sector routine (_encompassing_sector_size_np) on one sequence                       *)
(* ------------------------------------------------------------------------------------ *)
Definition qmod360 (x : Q) : Q := x - 360 * zq (Qfloor (x / 360)).

Fixpoint qinsert (x : Q) (l : list Q) : list Q :=
  match l with
  | [] => [x]
  | y :: t => if Qle_bool x y then x :: l else y :: qinsert x t
  end.
Definition qsort (l : list Q) : list Q := fold_right qinsert [] l.

Definition qmaxl (d : Q) (l : list Q) : Q := fold_right (fun x m => if Qle_bool x m then m else x) d l.
Definition qmax_list (l : list Q) : Q := match l with [] => 0 | x :: t => qmaxl x t end.

(* np.roll(data, -1) *)
Definition rollq (d : list Q) : list Q := match d with [] => [] | x :: t => t ++ [x] end.
(* np.where(x > 180, 360 - x, x): the fold used by angular_difference *)
Definition fold180 (x : Q) : Q := if Qltb 180 x then 360 - x else x.

(* the body from `data_rolled = ...` on (repaired routine, /repo abf9f57), for data already reduced mod 360 and
   sorted (or, for skipna, rotated with zeros appended):
     gaps = (data_rolled - data) % 360 ; largest = max(gaps) ; where(largest == 0, 0, 360 - largest) *)
Definition sector_core (d : list Q) : Q :=
  match d with
  | [] => 0
  | _ :: _ =>
    let gaps := map (fun p : Q * Q => qmod360 (snd p - fst p)) (combine d (rollq d)) in
    let largest := qmax_list gaps in
    if Qeq_bool largest 0 then 0 else 360 - largest
  end.

Definition finq (v : xv) : list Q := match v with XFin q => [q] | _ => [] end.
Definition finite_qs (l : list xv) : list Q := flat_map finq l.
Definition nbad (l : list xv) : nat := length (filter (fun v => negb (xisfin v)) l).

(* skipna=False: any NaN (or inf, whose `% 360` is NaN) makes every intermediate NaN.
   skipna=True : sort (NaN last), rotate by the first angle, NaN -> 0 (unless all NaN). *)
Definition sector_x (skipna : bool) (l : list xv) : xv :=
  let s := qsort (map qmod360 (finite_qs l)) in
  if skipna then
    match s with
    | [] => XNaN
    | s0 :: _ => XFin (sector_core (map (fun x => qmod360 (x - s0)) s ++ repeat 0 (nbad l)))
    end
  else if (0 <? nbad l)%nat then XNaN
  else match s with [] => XNaN | _ => XFin (sector_core s) end.

(* ---- the specification: 360 minus the largest gap between circularly adjacent directions ---- *)
Fixpoint gaps_from (first prev : Q) (l : list Q) : list Q :=
  match l with
  | [] => [first + 360 - prev]
  | x :: t => (x - prev) :: gaps_from first x t
  end.
(* circular gaps of a sorted list of angles in [0,360) *)
Definition cgaps (s : list Q) : list Q := match s with [] => [] | x :: t => gaps_from x x t end.
Definition sector_spec_sorted (s : list Q) : Q := 360 - qmax_list (cgaps s).
Definition sector_spec (l : list Q) : Q := sector_spec_sorted (qsort (map qmod360 l)).

(* a second, order-free reading: the smallest arc that starts at one of the directions and,
   going anticlockwise, covers all of them *)
Definition cw (p q : Q) : Q := qmod360 (q - p).
Definition qminl (d : Q) (l : list Q) : Q := fold_right (fun x m => if Qle_bool x m then x else m) d l.
Definition qmin_list (l : list Q) : Q := match l with [] => 0 | x :: t => qminl x t end.
Definition sector_arc (l : list Q) : Q := qmin_list (map (fun p => qmax_list (map (cw p) l)) l).

(* ------------------------------------------------------------------------------------ *)
(* angular index                                                                          *)
(* ------------------------------------------------------------------------------------ *)
Definition ff_angular (l : list xv) : xv :=
  let tv := nansum (XNaN :: map xabs (sdiffs gen_angular_difference l)) in
  let range := xclip_max (sector_x false l) (XFin 180) in
  xdiv (xsub tv range) (XFin (nm2 (length l))).

(* ---- proved specification of the angular index (coq/proofs/C18_ang.v: ff_angular_formula) ---- *)
Definition angdiff_q (a b : Q) : Q := fold180 (qmod360 (Qabs (a - b))).
Fixpoint tv_ang (l : list Q) : Q :=
  match l with a :: t => match t with b :: _ => angdiff_q a b + tv_ang t | [] => 0 end | [] => 0 end.
Definition qmin2 (a b : Q) : Q := if Qle_bool a b then a else b.
Definition ff_angular_spec (l : list Q) : Q := (tv_ang l - qmin2 (sector_spec l) 180) / nm2 (length l).

Definition ff_seq (angular : bool) : list xv -> xv := if angular then ff_angular else ff_linear.

(* ---- proved specification of the linear index (coq/proofs/C18.v: ff_formula) ---- *)
Fixpoint tvq (l : list Q) : Q :=
  match l with
  | a :: t => match t with b :: _ => Qabs (a - b) + tvq t | [] => 0 end
  | [] => 0
  end.
Definition qrange (l : list Q) : Q := qmax_list l - qmin_list l.
Definition ff_spec (l : list Q) : Q := (tvq l - qrange l) / nm2 (length l).
Definition ff_spec_x (l : list xv) : xv :=
  if (0 <? nbad l)%nat then XNaN
  else if (length l =? 2)%nat then XNaN else XFin (ff_spec (finite_qs l)).

(* ------------------------------------------------------------------------------------ *)
(* arrays: the index along sampling_dim, selections, sector size, proportion exceeding    *)
(* ------------------------------------------------------------------------------------ *)
(* check_dims(data, [sampling_dim], mode="superset") *)
Definition ff_array (a : larr) (sd : dim) (angular : bool) : result larr :=
  do _ <- check_dims (ldims a) (DList [sd]) MSuperset ;;
  Ok (lreduce (ff_seq angular) [sd] a).

(* data.sel({sampling_dim: values}): positions of the requested labels, KeyError if one is absent *)
Fixpoint zindex (labels : list Z) (v : Z) (i : nat) : option nat :=
  match labels with
  | [] => None
  | x :: t => if Z.eqb x v then Some i else zindex t v (S i)
  end.
Fixpoint sel_positions (labels : list Z) (vals : list Z) : result (list nat) :=
  match vals with
  | [] => Ok []
  | v :: t => match zindex labels v O with
              | None => Err KeyError
              | Some i => do r <- sel_positions labels t ;; Ok (i :: r) end
  end.
Definition lselect (a : larr) (sd : dim) (pos : list nat) : larr :=
  {| ldims := ldims a;
     lsize := fun d => if String.eqb d sd then length pos else lsize a d;
     lget := fun e => lget a (upd e sd (nth (e sd) pos O)) |}.

Fixpoint rmapM {A B} (f : A -> result B) (l : list A) : result (list B) :=
  match l with
  | [] => Ok []
  | x :: t => do y <- f x ;; do r <- rmapM f t ;; Ok (y :: r)
  end.

(* flip_flop_index with selections: iter_selections checks the dim first, then selects *)
Definition ff_selections (a : larr) (sd : dim) (angular : bool) (labels : list Z) (sels : list (list Z))
  : result (list larr) :=
  rmapM (fun vals =>
           do _ <- check_dims (ldims a) (DList [sd]) MSuperset ;;
           do pos <- sel_positions labels vals ;;
           ff_array (lselect a sd pos) sd angular) sels.

(* encompassing_sector_size(data, dims, skipna) *)
Definition sector_array (a : larr) (keep : list dim) (skipna : bool) : result larr :=
  do _ <- check_dims (ldims a) (DList keep) MProperSuperset ;;
  let collapse := ddiff (ldims a) keep in
  match collapse with
  | [d] => Ok (lreduce (sector_x skipna) [d] a)
  | _ => Err ValueError
  end.

(* binary_discretise(data, thresholds, ">=") followed by the mean over the gathered dims *)
Fixpoint thr_monotone (t : list xv) : bool :=
  match t with
  | a :: r => match r with b :: _ => xge (xsub b a) (XFin 0) && thr_monotone r | [] => true end
  | [] => true
  end.
(* the per-cell comparison of proportion_exceeding, regenerated from processing/discretise.py (site C18.exceed):
   xwhere (notnull x && notnull t) (b2x (x >= t + 0 * (-1))) on the unchanged source *)
Definition exceed (x t : xv) : xv := gen_c18_exceed x t.
Definition discretise_ge (a : larr) (thr : list xv) : larr :=
  {| ldims := ldims a ++ ["threshold"];
     lsize := fun d => if String.eqb d "threshold" then length thr else lsize a d;
     lget := fun e => exceed (lget a e) (nth (e "threshold") thr XNaN) |}.
Definition proportion_exceeding_m (a : larr) (thr : list xv) (rd pd : dimspec) : result larr :=
  do _ <- guard (mem "threshold" (ldims a)) ValueError ;;
  do _ <- guard (negb (thr_monotone thr)) ValueError ;;
  do R <- gather (ldims a) (ldims a) None rd pd DNone ;;
  Ok (lreduce nanmean R (discretise_ge a thr)).

(* `sampling_dim in list(preserve_dims)`: list() of a bare string is its characters *)
Fixpoint chars (s : string) : list string :=
  match s with EmptyString => [] | String c t => String c EmptyString :: chars t end.
Definition in_pylist (sd : dim) (s : dimspec) : bool :=
  match s with DNone => false | DStr s => mem sd (chars s) | DList l => mem sd l end.

Definition ff_prop_exceeding (a : larr) (sd : dim) (thr : list xv) (angular : bool) (rd pd : dimspec)
    (labels : list Z) (sels : list (list Z)) : result (list larr) :=
  do _ <- guard (in_pylist sd pd) ValueError ;;
  do _ <- guard (in_pylist sd rd) ValueError ;;
  match sels with
  | [] => do f <- ff_array a sd angular ;; do p <- proportion_exceeding_m f thr rd pd ;; Ok [p]
  | _ => do fs <- ff_selections a sd angular labels sels ;;
         rmapM (fun f => proportion_exceeding_m f thr rd pd) fs
  end.

(* proved specification of the proportion (coq/proofs/C18.v): among the valid (non-NaN) values,
   the fraction that is >= the threshold; NaN when there is no valid value *)
Definition prop_ge_spec (vals : list xv) (t : Q) : xv :=
  let v := valids vals in
  match v with
  | [] => XNaN
  | _ => XFin (zq (Z.of_nat (length (filter (fun x => xge x (XFin t)) v))) / zq (Z.of_nat (length v)))
  end.

(* the same for a threshold that may be infinite (a catch-all bin edge): every valid value is >= -inf, a valid value is
   >= +inf only when it is +inf itself.  Only NaN is missing.  (coq/proofs/C18_inf.v) *)
Definition prop_ge_spec_x (vals : list xv) (t : xv) : xv :=
  let v := valids vals in
  match v, t with
  | [], _ | _, XNaN => XNaN
  | _, _ => XFin (zq (Z.of_nat (length (filter (fun x => xge x t) v))) / zq (Z.of_nat (length v)))
  end.

(* ------------------------------------------------------------------------------------ *)
(* entries                                                                                *)
(* ------------------------------------------------------------------------------------ *)
Definition d_zs := d_list d_z.
Definition d_strs := d_list d_str.
Definition e_larrs (l : list larr) : raw := RL (map e_larr l).

Definition entries_C18 : list entry := [
  (* ( arr 'sd angular ) -> arr *)
  ("c18_ff", fun r => orun (
     match r with RL [a; sd; ang] =>
       let? a := d_larr a in let? sd := d_str sd in let? ang := d_bool ang in
       Some (e_result e_larr (ff_array a sd ang))
     | _ => None end));
  (* ( arr 'sd angular (labels) ((vals) (vals) ...) ) -> ( arr ... ) *)
  ("c18_ff_sel", fun r => orun (
     match r with RL [a; sd; ang; labels; sels] =>
       let? a := d_larr a in let? sd := d_str sd in let? ang := d_bool ang in
       let? labels := d_zs labels in let? sels := d_list d_zs sels in
       Some (e_result e_larrs (ff_selections a sd ang labels sels))
     | _ => None end));
  (* ( arr ('keep ...) skipna ) -> arr *)
  ("c18_sector", fun r => orun (
     match r with RL [a; keep; skipna] =>
       let? a := d_larr a in let? keep := d_strs keep in let? skipna := d_bool skipna in
       Some (e_result e_larr (sector_array a keep skipna))
     | _ => None end));
  (* ( arr 'sd (thresholds) angular rd pd (labels) (sels) ) -> ( arr ... ) *)
  ("c18_prop_exc", fun r => orun (
     match r with RL [a; sd; thr; ang; rd; pd; labels; sels] =>
       let? a := d_larr a in let? sd := d_str sd in let? thr := d_xvs thr in let? ang := d_bool ang in
       let? rd := d_dimspec rd in let? pd := d_dimspec pd in
       let? labels := d_zs labels in let? sels := d_list d_zs sels in
       Some (e_result e_larrs (ff_prop_exceeding a sd thr ang rd pd labels sels))
     | _ => None end));
  (* sequence level: ( (values) ) -> ( model_linear spec_linear model_angular sector_code sector_gap_spec sector_arc_spec spec_angular ) *)
  ("c18_seq", fun r => orun (
     match r with RL [l] =>
       let? l := d_xvs l in
       let q := finite_qs l in
       let okq := (nbad l =? 0)%nat && negb (length l =? 0)%nat in
       Some (RL [e_xv (ff_linear l); e_xv (ff_spec_x l); e_xv (ff_angular l); e_xv (sector_x false l);
                 e_xv (if okq then XFin (sector_spec q) else XNaN);
                 e_xv (if okq then XFin (sector_arc q) else XNaN);
                 e_xv (if okq && negb (length l =? 2)%nat then XFin (ff_angular_spec q) else XNaN)])
     | _ => None end));
  (* ( x t ) -> regenerated per-cell comparison of proportion_exceeding *)
  ("c18_k_exceed", fun r => orun (
     match r with RL [x; t] =>
       let? x := d_xv x in let? t := d_xv t in Some (e_xv (exceed x t))
     | _ => None end));
  (* ( (values) t ) -> proportion of valid values >= t  (t rational or +-inf; prop_ge_spec_x l (XFin t) = prop_ge_spec l t) *)
  ("c18_prop_spec", fun r => orun (
     match r with RL [l; t] =>
       let? l := d_xvs l in let? t := d_xv t in Some (e_xv (prop_ge_spec_x l t))
     | _ => None end))
].
