(* model/C08_views.v -- the views of a contingency manager (C08, round 4).
   Regenerated from source (coq/gen/Gen_C08_views.v, site C08.views): how BasicContingencyManager._make_xr_table labels the
   'contingency' dimension of the xarray table as a function of the counts dict (given as its item list, in the dict's own
   order), which cells of that table format_table puts into the 2x2 frame, and the key order of the dict that
   BinaryContingencyManager._get_counts builds.  Kept apart from model/C08.v so that a change of the views does not take the
   discretisation / counting model (shared with C09 and C14) down with it. *)
From V Require Import lib.Tree lib.C08_aux gen.Gen_C08_views.
Open Scope string_scope.

Definition d_item (r : raw) : option (string * xv) :=
  match r with RL [k; v] => let? k := d_str k in let? v := d_xv v in Some (k, v) | _ => None end.

Definition entries_C08_views : list entry := [
  (* (items of the counts dict, in its own order) -> (labels of the table, values of the table, the four cells of format_table) *)
  ("c08_views", fun r => orun (
     let? items := d_list d_item r in
     let table := gen_table_of_counts items in
     Some (RL [RL (map (fun p => e_str (fst p)) table); RL (map (fun p => e_xv (snd p)) table);
               RL (map (e_opt e_xv) (gen_format_cells table)); RL (map e_str gen_count_keys); e_bool gen_format_reads_by_label])))
].
