(* model/C11_spec.v -- specification functions of C11 over Q (no dependency on the regenerated kernels, so that the
   R-level files and C10 can refer to them even when a C11 translator site breaks). *)
From V Require Export lib.Xval.

(* ------------------------------------------------------------------------------------------ *)
(* proved-specification functions over Q (Ehm et al. 2016 Theorem 1; Taggart 2022 Theorem 5.3) *)
(* ------------------------------------------------------------------------------------------ *)
Definition Qmin' (a b : Q) : Q := if Qle_bool a b then a else b.
Definition in_over (f o t : Q) : bool := Qle_bool o t && Qltb t f.      (* obs <= theta < fcst *)
Definition in_under (f o t : Q) : bool := Qle_bool f t && Qltb t o.     (* fcst <= theta < obs *)
(* penalty sizes *)
Definition es_quantile_over (alpha f o t : Q) : Q := if in_over f o t then 1 - alpha else 0.
Definition es_quantile_under (alpha f o t : Q) : Q := if in_under f o t then alpha else 0.
Definition es_huber_over (alpha a f o t : Q) : Q := if in_over f o t then (1 - alpha) * Qmin' (t - o) a else 0.
Definition es_huber_under (alpha a f o t : Q) : Q := if in_under f o t then alpha * Qmin' (o - t) a else 0.
Definition es_expectile_over (alpha f o t : Q) : Q := if in_over f o t then (1 - alpha) * (t - o) else 0.
Definition es_expectile_under (alpha f o t : Q) : Q := if in_under f o t then alpha * (o - t) else 0.
Definition es_quantile (alpha f o t : Q) : Q := es_quantile_over alpha f o t + es_quantile_under alpha f o t.
Definition es_huber (alpha a f o t : Q) : Q := es_huber_over alpha a f o t + es_huber_under alpha a f o t.
Definition es_expectile (alpha f o t : Q) : Q := es_expectile_over alpha f o t + es_expectile_under alpha f o t.

(* the losses the Murphy curves integrate to: pinball, half asymmetric squared error, asymmetric Huber loss *)
Definition loss_quantile (alpha f o : Q) : Q := if Qltb o f then (1 - alpha) * (f - o) else alpha * (o - f).
Definition loss_expectile (alpha f o : Q) : Q := (if Qltb o f then 1 - alpha else alpha) * ((f - o) * (f - o)) / 2.
Definition loss_huber (alpha a f o : Q) : Q :=
  (if Qltb o f then 1 - alpha else alpha)
  * (if Qle_bool (Qabs (f - o)) a then (1 # 2) * ((f - o) * (f - o)) else a * (Qabs (f - o) - (1 # 2) * a)).


(* ------------------------------------------------------------------------------------------ *)
(* the same definition on the extended reals: forecasts, observations and thetas may be +-inf. *)
(* The regions are read with the order of the extended reals (-inf < every rational < +inf),   *)
(* the penalty sizes with IEEE arithmetic: theta - obs = +inf for obs = -inf and a finite      *)
(* theta, min(+inf, a) = a.  The only undefined size is theta - obs with obs = theta = -inf.    *)
(* ------------------------------------------------------------------------------------------ *)
Definition xin_over (f o t : xv) : bool := xle o t && xlt t f.       (* obs <= theta < fcst *)
Definition xin_under (f o t : xv) : bool := xle f t && xlt t o.      (* fcst <= theta < obs *)
Definition xpen (c : bool) (w : Q) (size : xv) : xv := if c then xmul (XFin w) size else X0.
Definition esx_quantile_over (alpha : Q) (f o t : xv) : xv := xpen (xin_over f o t) (1 - alpha) X1.
Definition esx_quantile_under (alpha : Q) (f o t : xv) : xv := xpen (xin_under f o t) alpha X1.
Definition esx_huber_over (alpha a : Q) (f o t : xv) : xv := xpen (xin_over f o t) (1 - alpha) (xmin (xsub t o) (XFin a)).
Definition esx_huber_under (alpha a : Q) (f o t : xv) : xv := xpen (xin_under f o t) alpha (xmin (xsub o t) (XFin a)).
Definition esx_expectile_over (alpha : Q) (f o t : xv) : xv := xpen (xin_over f o t) (1 - alpha) (xsub t o).
Definition esx_expectile_under (alpha : Q) (f o t : xv) : xv := xpen (xin_under f o t) alpha (xsub o t).
(* theta - obs is defined (not inf - inf): every case except obs = theta = -inf (obs = theta = +inf lies in no region) *)
Definition size_defined (o t : xv) : bool := negb (match o, t with XInf false, XInf false => true | _, _ => false end).
