(* model/C07.v -- entry table of property C07 (CRPS for CDF forecasts).  The models live in model/Cdf.v. *)
From V Require Import lib.Tree gen.Gen_C07_kern model.Cdf.
Open Scope string_scope.

Definition d_fillm (r : raw) : option (option fillm) :=      (* Some None = an unknown method name *)
  match d_str r with
  | Some s => Some (if String.eqb s "linear" then Some FLinear else if String.eqb s "step" then Some FStep
                    else if String.eqb s "forward" then Some FForward else if String.eqb s "backward" then Some FBackward
                    else None)
  | None => None end.
Definition d_qs := d_list d_q.
Definition d_fcase (r : raw) : option fcase :=
  match r with
  | RL [f; o; w] => let? f := d_xvs f in let? o := d_xv o in let? w := d_opt d_xvs w in Some (f, o, w)
  | _ => None end.
Definition e_triple (t : xv * xv * xv) : raw := RL [e_xv (fst (fst t)); e_xv (snd (fst t)); e_xv (snd t)].
Definition e_q (q : Q) : raw := e_xv (XFin q).

(* the specification value of the exact method, proved to be the integral (proofs/C07_int.v):
   on [t0,t1) the weight is w0 and F is linear from f0 to f1; the piece counts as under-forecast
   when it lies left of the observation, as over-forecast otherwise.
   int_{t0}^{t1} (linear a -> b)^2 = (t1-t0)(a^2+ab+b^2)/3 *)
Definition sq_piece (d a b : Q) : Q := d * (a * a + a * b + b * b) / 3.
Fixpoint spec_exact (pts : list (Q * Q * Q)) (y : Q) : Q * Q :=      (* points (t, F, w); -> (under, over) *)
  match pts with
  | (t0, f0, w0) :: (((t1, f1, _) :: _) as tl) =>
      let '(u, o) := spec_exact tl y in
      if Qltb t0 y then (u + w0 * sq_piece (t1 - t0) f0 f1, o)
      else (u, o + w0 * sq_piece (t1 - t0) (f0 - 1) (f1 - 1))
  | _ => (0, 0)
  end%Q.

(* a forecast case on the common grid as a list of points (threshold, ordinate, weight) *)
Definition pt := (Q * Q * Q)%type.
Definition tq (p : pt) : Q := fst (fst p).
Definition fq (p : pt) : Q := snd (fst p).
Definition wq (p : pt) : Q := snd p.

(* specification of the trapezoidal method: trapezoid rule applied to w (F - H)^2, H w (F - H)^2, (1 - H) w (F - H)^2
   with H the observation CDF *)
Fixpoint tsum {A} (t : A -> Q) (g : A -> Q) (pts : list A) : Q :=
  match pts with
  | p0 :: ((p1 :: _) as tl) => (t p1 - t p0) * ((1 # 2) * (g p1 + g p0)) + tsum t g tl
  | _ => 0
  end%Q.
Definition hq (y t : Q) : Q := if Qle_bool y t then 1 else 0.
Definition g_total (y : Q) (p : pt) : Q := (wq p * ((fq p - hq y (tq p)) * (fq p - hq y (tq p))))%Q.
Definition g_over (y : Q) (p : pt) : Q := (hq y (tq p) * wq p * ((fq p - hq y (tq p)) * (fq p - hq y (tq p))))%Q.
Definition g_under (y : Q) (p : pt) : Q := ((1 - hq y (tq p)) * wq p * ((fq p - hq y (tq p)) * (fq p - hq y (tq p))))%Q.
Definition spec_trapz (pts : list pt) (y : Q) : Q * Q * Q := (tsum tq (g_total y) pts, tsum tq (g_under y) pts, tsum tq (g_over y) pts).

Definition q_of (v : xv) : option Q := match v with XFin q => Some q | _ => None end.
Definition spec_x (exact : bool) (ts : list Q) (f w : list xv) (y : xv) : xv * xv * xv :=
  match omap q_of f, omap q_of w, y with
  | Some f, Some w, XFin y =>
      let pts := combine (combine ts f) w in
      if exact then let '(u, o) := spec_exact pts y in (XFin (u + o)%Q, XFin u, XFin o)
      else let '(t, u, o) := spec_trapz pts y in (XFin t, XFin u, XFin o)
  | _, _, _ => (XNaN, XNaN, XNaN) end.
(* the specification of one case: same grid and fills as the code, value from spec_exact / spec_trapz *)
Definition spec_case (grid ft : list Q) (wt : option (list Q)) (op : cdfopts) (c : fcase) : xv * xv * xv :=
  let '(f, _, w) := reformat_case grid ft wt op c in spec_x (o_exact op) grid f w (c_o c).

(* dimension part of check_crps_cdf_inputs *)
Definition crps_dims_guard (fd od : list dim) (wd : option (list dim)) (tdim : dim) : bool :=    (* true = raises *)
  negb (mem tdim fd)
  || match wd with Some wd => negb (mem tdim wd) | None => false end
  || mem tdim od
  || negb (dsubset od fd)
  || match wd with Some wd => negb (dsubset wd fd) | None => false end.
(* gather_dimensions, weights, mean over the resolved dimensions (the threshold dimension never reduced again) *)
Definition crps_reduce (fd od : list dim) (wd : option (list dim)) (tdim : dim) (vals : list larr) (w : option larr)
                       (rd pd : dimspec) : result (list larr) :=
  do R <- gather fd od None rd pd DNone ;;
  if crps_dims_guard fd od wd tdim then Err ValueError else
  Ok (map (fun v => mean_score v w (ddiff R [tdim])) vals).

Definition entries_C07 : list entry := [
  (* ( fcst_thresholds weight_thresholds|none (case...) additional 'ffm 'wfm 'integration propagate ) *)
  ("c07_crps_cases", fun r => orun (
     match r with RL [ft; wt; cs; add; ffm; wfm; im; pr] =>
       let? ft := d_qs ft in let? wt := d_opt d_qs wt in let? cs := d_list d_fcase cs in let? add := d_xvs add in
       let? ffm := d_fillm ffm in let? wfm := d_fillm wfm in let? im := d_str im in let? pr := d_bool pr in
       let ex := String.eqb im "exact" in
       match ffm, (match wt with Some _ => wfm | None => Some FForward end), (ex || String.eqb im "trapz") with
       | Some ffm, Some wfm, true =>
           let op := {| o_ffm := ffm; o_wfm := wfm; o_exact := ex; o_prop := pr |} in
           Some (RL [e_result (fun l => RL (map e_triple l)) (crps_cdf_cases ft wt cs add op);
                     (* specification values (exact method) on the same grid *)
                     (if negb (crps_guard ft wt cs op) then
                        let grid := union_grid ft wt cs add in RL (map (fun c => e_triple (spec_case grid ft wt op c)) cs)
                      else RA "none");
                     RL (map e_q (union_grid ft wt cs add))])
       | _, _, _ => Some (RL [e_err ValueError; RA "none"; RL []]) end
     | _ => None end));
  (* ( fcst_thresholds (case...) additional 'ffm ) -> ( grid ((total under over) per threshold) per case ) *)
  ("c07_brier_cases", fun r => orun (
     match r with RL [ft; cs; add; ffm] =>
       let? ft := d_qs ft in let? cs := d_list d_fcase cs in let? add := d_xvs add in let? ffm := d_fillm ffm in
       match ffm with
       | Some ffm => Some (e_result (fun p => RL [RL (map e_q (fst p)); RL (map (fun l => RL (map e_triple l)) (snd p))])
                                   (brier_cases ft cs add ffm))
       | None => Some (e_err ValueError) end
     | _ => None end));
  (* ( fcst_dims obs_dims weight_dims|none 'threshold_dim (arrays...) weights|none reduce_dims preserve_dims ) *)
  ("c07_reduce", fun r => orun (
     match r with RL [fd; od; wd; td; vals; w; rd; pd] =>
       let? fd := d_list d_str fd in let? od := d_list d_str od in let? wd := d_opt (d_list d_str) wd in let? td := d_str td in
       let? vals := d_list d_larr vals in let? w := d_opt d_larr w in let? rd := d_dimspec rd in let? pd := d_dimspec pd in
       Some (e_result (fun l => RL (map e_larr l)) (crps_reduce fd od wd td vals w rd pd))
     | _ => None end));
  (* kernels: ( dx dy b ) -> piece integral ; ( f o ) -> Brier score *)
  ("c07_k_piece", fun r => orun (
     match r with RL [a; b; c] => let? a := d_xv a in let? b := d_xv b in let? c := d_xv c in
       Some (e_xv (gen_piece_integral a b c)) | _ => None end));
  (* ( thresholds values ) -> trapezoid integral of the values over the thresholds *)
  ("c07_trapz", fun r => orun (
     match r with RL [ts; vs] => let? ts := d_qs ts in let? vs := d_xvs vs in Some (e_xv (trapz (combine ts vs))) | _ => None end))
].
