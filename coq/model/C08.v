(* model/C08.v -- discretisation and contingency counts (C08).
   Regenerated from source (coq/gen/Gen_C08_discretise.v, Gen_C08_contingency.v): the two mode tables,
   the tolerance sanitising and the whole mode chain of comparative_discretise, the four boolean maps of
   BinaryContingencyManager.__init__ and the event tables of ThresholdEventOperator (threshold / operator
   fallback included).  Hand-written here: the array plumbing around them (broadcast against the
   thresholds, the 'threshold' dimension, squeeze, proportion = mean, counts = NaN-skipping sums over the
   gathered dims), validated by the correspondence check; and the specification functions. *)
From V Require Import lib.Tree lib.C08_aux gen.Gen_C08_discretise gen.Gen_C08_contingency.
Open Scope string_scope.

(* ---- specification of the six relations with an absolute tolerance ---- *)
Definition rel_holds (r : cmpop) (x c tol : Q) : Prop :=
  match r with
  | OpGe => c <= x \/ Qabs (x - c) <= tol
  | OpGt => c < x /\ tol < Qabs (x - c)
  | OpLe => x <= c \/ Qabs (x - c) <= tol
  | OpLt => x < c /\ tol < Qabs (x - c)
  | OpEq => Qabs (x - c) <= tol
  | OpNe => tol < Qabs (x - c)
  end.
Definition rel_holdsb (r : cmpop) (x c tol : Q) : bool :=
  match r with
  | OpGe => Qle_bool c x || Qle_bool (Qabs (x - c)) tol
  | OpGt => Qltb c x && Qltb tol (Qabs (x - c))
  | OpLe => Qle_bool x c || Qle_bool (Qabs (x - c)) tol
  | OpLt => Qltb x c && Qltb tol (Qabs (x - c))
  | OpEq => Qle_bool (Qabs (x - c)) tol
  | OpNe => Qltb tol (Qabs (x - c))
  end.
(* 1 where the relation holds, 0 where it does not, NaN where data or threshold is NaN (finite values) *)
Definition discretise_spec (r : cmpop) (d c : xv) (tol : Q) : xv :=
  match d, c with
  | XFin x, XFin y => b2x (rel_holdsb r x y tol)
  | _, _ => XNaN
  end.
Definition mode_name (r : cmpop) : string :=
  match r with OpGe => ">=" | OpGt => ">" | OpLe => "<=" | OpLt => "<" | OpEq => "==" | OpNe => "!=" end.
Definition complement (r : cmpop) : cmpop :=
  match r with OpGe => OpLt | OpLt => OpGe | OpGt => OpLe | OpLe => OpGt | OpEq => OpNe | OpNe => OpEq end.
Definition all_ops : list cmpop := [OpGe; OpGt; OpLe; OpLt; OpEq; OpNe].

(* ---- comparative_discretise / binary_discretise / binary_discretise_proportion ---- *)
Definition valid_mode (m : pmode) : bool :=
  match gen_comparative_discretise X0 X0 m X0 with Some _ => true | None => false end.
Definition discretise_cell (m : pmode) (tol : xv) (d c : xv) : xv :=
  match gen_comparative_discretise d c m tol with Some v => v | None => XNaN end.

Definition comparative_discretise_m (data comparison : larr) (m : pmode) (tol : option xv) : result larr :=
  do tol <- gen_discretise_tolerance tol ;;
  if valid_mode m then Ok (lzip (discretise_cell m tol) data comparison) else Err ValueError.

Fixpoint monotonic (l : list xv) : bool :=
  match l with
  | a :: (b :: _) as t => xge (xsub b a) X0 && monotonic t
  | _ => true
  end.
Definition thresholds_arr (ts : list xv) : larr := of_flat [("threshold", List.length ts)] ts.

Definition binary_discretise_m (data : larr) (ts : list xv) (scalar : bool) (m : pmode) (tol : option xv)
    (autosqueeze : bool) : result larr :=
  if mem "threshold" (ldims data) then Err ValueError else
  let autosqueeze := scalar || autosqueeze in
  if negb (monotonic ts) then Err ValueError else
  if autosqueeze && Nat.eqb (List.length ts) 1 then
    comparative_discretise_m data (lscalar (hd XNaN ts)) m tol
  else comparative_discretise_m data (thresholds_arr ts) m tol.

Definition binary_discretise_proportion_m (data : larr) (ts : list xv) (scalar : bool) (m : pmode) (tol : option xv)
    (autosqueeze : bool) (rd pd : dimspec) : result larr :=
  do disc <- binary_discretise_m data ts scalar m tol autosqueeze ;;
  do R <- gather (ldims data) (ldims data) None rd pd DNone ;;
  Ok (lreduce nanmean R disc).

(* ---- contingency managers ---- *)
Definition map_tp (f o : xv) : xv := let '(tp, _, _, _) := gen_contingency_maps f o in tp.
Definition map_tn (f o : xv) : xv := let '(_, tn, _, _) := gen_contingency_maps f o in tn.
Definition map_fp (f o : xv) : xv := let '(_, _, fp, _) := gen_contingency_maps f o in fp.
Definition map_fn (f o : xv) : xv := let '(_, _, _, fn) := gen_contingency_maps f o in fn.

(* BinaryContingencyManager(fcst_events, obs_events).transform(reduce_dims, preserve_dims).get_counts():
   tp, tn, fp, fn, total *)
(* xarray: .sum(dim=[]) is the identity (NaN stays NaN); a real reduction skips NaN *)
Definition lsum (R : list dim) (a : larr) : larr :=
  if disempty (dinter (ldims a) R) then a else lreduce nansum R a.
Definition manager_counts (fe oe : larr) (rd pd : dimspec) : result (list larr) :=
  do R <- gather (ldims fe) (ldims oe) None rd pd DNone ;;
  let cnt (m : xv -> xv -> xv) := lsum R (lzip m fe oe) in
  let tp := cnt map_tp in let tn := cnt map_tn in let fp := cnt map_fp in let fn := cnt map_fn in
  Ok [tp; tn; fp; fn; lzip xadd (lzip xadd (lzip xadd tp tn) fp) fn].

(* ThresholdEventOperator(default_event_threshold, default_op_fn).make_contingency_manager(fcst, obs, event_threshold, op_fn) *)
Definition event_arrays (evt : xv -> cmpop -> xv -> xv -> option xv -> option cmpop -> xv * xv)
    (dt : xv) (dop : cmpop) (fcst obs : larr) (t : option xv) (op : option cmpop) : larr * larr :=
  (lmap (fun f => fst (evt dt dop f XNaN t op)) fcst, lmap (fun o => snd (evt dt dop XNaN o t op)) obs).

(* direct counting, the specification of the counts: number of cells (pairs valid in both) in each class *)
Definition cell := (xv * xv)%type.
Definition cvalid (c : cell) : bool := xnotnull (fst c) && xnotnull (snd c).
Definition count_if (p : cell -> bool) (l : list cell) : nat := List.length (filter p l).
Definition is_event (op : cmpop) (t : xv) (v : xv) : bool := apply_op op v t.

(* ---- wire helpers ---- *)
Definition d_op (r : raw) : option cmpop :=
  match r with
  | RA s => if String.eqb s "ge" then Some OpGe else if String.eqb s "gt" then Some OpGt
            else if String.eqb s "le" then Some OpLe else if String.eqb s "lt" then Some OpLt
            else if String.eqb s "eq" then Some OpEq else if String.eqb s "ne" then Some OpNe else None
  | _ => None end.
Definition d_mode (r : raw) : option pmode :=
  match d_str r with
  | Some s => Some (MStr s)
  | None => match d_op r with Some o => Some (MOp o) | None => None end
  end.
Definition e_larrs (l : list larr) : raw := RL (map e_larr l).

Definition entries_C08 : list entry := [
  (* kernel: (data comparison mode tol) -> (regenerated value | err , specification value for the six relations) *)
  ("c08_discretise_k", fun r => orun (
     match r with RL [d; c; m; tol] =>
       let? d := d_xv d in let? c := d_xv c in let? m := d_mode m in let? tol := d_xv tol in
       Some (RL [match gen_comparative_discretise d c m tol with Some v => e_xv v | None => e_err ValueError end;
                 match m, tol with
                 | MOp o, XFin q => e_xv (discretise_spec o d c q)
                 | MStr s, XFin q => match filter (fun o => String.eqb (mode_name o) s) all_ops with
                                     | o :: _ => e_xv (discretise_spec o d c q) | [] => e_err ValueError end
                 | _, _ => RA "none" end])
     | _ => None end));
  ("c08_comparative_discretise", fun r => orun (
     match r with RL [d; c; m; tol] =>
       let? d := d_larr d in let? c := d_larr c in let? m := d_mode m in let? tol := d_opt d_xv tol in
       Some (e_result e_larr (comparative_discretise_m d c m tol))
     | _ => None end));
  ("c08_binary_discretise", fun r => orun (
     match r with RL [d; ts; sc; m; tol; sq] =>
       let? d := d_larr d in let? ts := d_xvs ts in let? sc := d_bool sc in let? m := d_mode m in
       let? tol := d_opt d_xv tol in let? sq := d_bool sq in
       Some (e_result e_larr (binary_discretise_m d ts sc m tol sq))
     | _ => None end));
  ("c08_proportion", fun r => orun (
     match r with RL [d; ts; sc; m; tol; sq; rd; pd] =>
       let? d := d_larr d in let? ts := d_xvs ts in let? sc := d_bool sc in let? m := d_mode m in
       let? tol := d_opt d_xv tol in let? sq := d_bool sq in let? rd := d_dimspec rd in let? pd := d_dimspec pd in
       Some (e_result e_larr (binary_discretise_proportion_m d ts sc m tol sq rd pd))
     | _ => None end));
  (* BinaryContingencyManager on given event arrays *)
  ("c08_manager_counts", fun r => orun (
     match r with RL [fe; oe; rd; pd] =>
       let? fe := d_larr fe in let? oe := d_larr oe in let? rd := d_dimspec rd in let? pd := d_dimspec pd in
       Some (e_result e_larrs (manager_counts fe oe rd pd))
     | _ => None end));
  (* ThresholdEventOperator: (which constructor_threshold|none constructor_op|none fcst obs threshold op rd pd)
     -> ( (fcst_events obs_events) , counts | err ) ; which = tables | manager *)
  ("c08_threshold_operator", fun r => orun (
     match r with RL [which; dt; dop; f; o; t; op; rd; pd] =>
       let? which := d_str which in
       let? dt := d_opt d_xv dt in let? dop := d_opt d_op dop in let? f := d_larr f in let? o := d_larr o in
       let dt := gen_init_event_threshold dt in let dop := gen_init_op_fn dop in
       let? t := d_opt d_xv t in let? op := d_opt d_op op in let? rd := d_dimspec rd in let? pd := d_dimspec pd in
       let evt := if String.eqb which "tables" then gen_make_event_tables else gen_make_contingency_manager in
       let '(fe, oe) := event_arrays evt dt dop f o t op in
       Some (RL [RL [e_larr fe; e_larr oe]; e_result e_larrs (manager_counts fe oe rd pd)])
     | _ => None end));
  (* direct counting over a list of cells: (cells threshold op) -> (valid tp tn fp fn) *)
  ("c08_direct_counts", fun r => orun (
     match r with RL [cells; t; op] =>
       let? cells := d_list (fun p => match p with RL [a; b] => let? a := d_xv a in let? b := d_xv b in Some (a, b) | _ => None end) cells in
       let? t := d_xv t in let? op := d_op op in
       let ev := is_event op t in
       Some (RL (map e_nat [count_if cvalid cells;
                            count_if (fun c => cvalid c && ev (fst c) && ev (snd c)) cells;
                            count_if (fun c => cvalid c && negb (ev (fst c)) && negb (ev (snd c))) cells;
                            count_if (fun c => cvalid c && ev (fst c) && negb (ev (snd c))) cells;
                            count_if (fun c => cvalid c && negb (ev (fst c)) && ev (snd c)) cells]))
     | _ => None end))
].
