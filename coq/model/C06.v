(* model/C06.v -- executable model of the ensemble CRPS family (C06):
     probability/crps_impl.py :: crps_for_ensemble, tw_crps_for_ensemble, tail_tw_crps_for_ensemble,
                                 interval_tw_crps_for_ensemble
     probability/brier_impl.py :: brier_score_for_ensemble (one cell, for the threshold-integral statement)
   Every elementwise expression (|x - y|, the ecdf / fair normalisation, the component masks, the chaining
   functions max / min / clip, the guards) is regenerated from the source (coq/gen/Gen_C06_crps.v); the reduction
   skeleton around them -- NaN-skipping sum over member pairs, non-NaN member count, NaN-skipping mean over
   members, broadcasting of thresholds, weights, dims rule, final mean -- is the hand model below, validated by the
   correspondence check.  No proofs here. *)
From V Require Import lib.Tree gen.Gen_C06_crps.
Open Scope string_scope.

(* ------------------------------------------------------------------------------------------------ *)
(* one forecast case: members X (NaN = missing member), observation y                                  *)
(* ------------------------------------------------------------------------------------------------ *)
(* the reduction over the member dimension named by the source (xarray semantics: sum / mean skip NaN; sum of nothing = 0,
   mean of nothing = NaN; count = number of non-NaN; sizes[m] = number of slots) *)
Definition red (k : string) (l : list xv) : xv :=
  if String.eqb k "sum" then nansum l
  else if String.eqb k "mean" then nanmean l
  else if String.eqb k "count" then xcount l
  else if String.eqb k "size" then xofnat (length l)
  else XNaN.

(* fcst_spread_term = 0; for i: fcst_spread_term += abs(fcst - fcst.isel(m=i)).sum(dim=m)   [sum skips NaN] *)
Definition ens_pair_sum (X : list xv) : xv :=
  xsum (map (fun xi => red gen_crps_pair_red (map (fun xj => gen_crps_pair_cell xj xi) X)) X).
(* ens_count = fcst.count(m) *)
Definition ens_count (X : list xv) : xv := red gen_crps_count_red X.
(* fcst_obs_term = abs(fcst - obs).mean(dim=m)                                             [mean skips NaN] *)
Definition ens_obs_term (X : list xv) (y : xv) : xv := red gen_crps_obs_red (map (fun x => gen_crps_obs_cell x y) X).
Definition ens_spread (meth : string) (X : list xv) : xv := gen_crps_norm meth (ens_pair_sum X) (ens_count X).

Definition crps_case (meth : string) (X : list xv) (y : xv) : xv :=
  gen_crps_total (ens_obs_term X y) (ens_spread meth X).
Definition crps_under (X : list xv) (y : xv) : xv := red gen_crps_under_red (map (fun x => gen_crps_under_cell x y) X).
Definition crps_over (X : list xv) (y : xv) : xv := red gen_crps_over_red (map (fun x => gen_crps_over_cell x y) X).
Definition crps_spread_c (meth : string) (X : list xv) (y : xv) : xv :=
  gen_crps_spread_mask (ens_spread meth X) (ens_obs_term X y).

(* threshold-weighted cases: the chaining function is applied to every member and to the observation *)
Definition tw_tail_case (meth tail : string) (X : list xv) (y t : xv) : xv :=
  crps_case meth (map (fun x => gen_chain_tail tail x t) X) (gen_chain_tail tail y t).
Definition tw_interval_case (meth : string) (X : list xv) (y lo hi : xv) : xv :=
  crps_case meth (map (fun x => gen_chain_interval x lo hi) X) (gen_chain_interval y lo hi).

(* brier_score_for_ensemble, one (case, threshold) cell, operator.ge.  Which members count in m, the score and the fair
   correction are the regenerated expressions (site C06.brier); that i and m are sums over the member dimension, that the
   event is taken with the caller's operator, and binary_discretise (NaN observation stays NaN) are the hand model *)
Definition brier_ens_cell (fair : bool) (X : list xv) (y t : xv) : xv :=
  let i := xsum (map (fun x => b2x (xge x t)) X) in
  let m := xsum (map (fun x => b2x (gen_brier_member_valid x)) X) in
  let bo := xwhere (xnotnull y) (b2x (xge y t)) in
  let r := gen_brier_score i m bo in
  if fair then xsub r (gen_brier_fair_fill (gen_brier_fair_corr i m)) else r.

(* ------------------------------------------------------------------------------------------------ *)
(* proved specifications (coq/proofs/C06*.v): the textbook kernel forms over exact rationals           *)
(* ------------------------------------------------------------------------------------------------ *)
Definition qlen (X : list Q) : Q := inject_Z (Z.of_nat (length X)).
Definition q_obs_sum (X : list Q) (y : Q) : Q := qsum (map (fun x => Qabs (x - y)) X).
Definition q_pair_sum (X : list Q) : Q := qsum (map (fun xi => qsum (map (fun xj => Qabs (xj - xi)) X)) X).
(* (1/m) sum |x_i - y|  -  (1/(2 m^2)) sum sum |x_i - x_j| *)
Definition crps_ecdf (X : list Q) (y : Q) : Q := q_obs_sum X y / qlen X - q_pair_sum X / (2 * qlen X * qlen X).
(* (1/m) sum |x_i - y|  -  (1/(2 m (m-1))) sum sum |x_i - x_j| *)
Definition crps_fair (X : list Q) (y : Q) : Q := q_obs_sum X y / qlen X - q_pair_sum X / (2 * qlen X * (qlen X - 1)).
Definition Qpos_part (x : Q) : Q := if Qle_bool 0 x then x else 0.
Definition q_under (X : list Q) (y : Q) : Q := qsum (map (fun x => Qpos_part (y - x)) X) / qlen X.
Definition q_over (X : list Q) (y : Q) : Q := qsum (map (fun x => Qpos_part (x - y)) X) / qlen X.
Definition Qmx (a b : Q) : Q := if Qle_bool a b then b else a.
Definition Qmn (a b : Q) : Q := if Qle_bool a b then a else b.
Definition Qclip (lo hi x : Q) : Q := Qmn (Qmx x lo) hi.
(* ensemble Brier score at one threshold (operator.ge), with / without the fair correction; x/0 = 0 in Q, which is the
   code's fillna(0) for a single member *)
Definition q_ind_ge (a t : Q) : Q := if Qle_bool t a then 1 else 0.
Definition brier_q (fair : bool) (X : list Q) (y t : Q) : Q :=
  let i := qsum (map (fun x => q_ind_ge x t) X) in
  let m := qlen X in
  (i / m - q_ind_ge y t) * (i / m - q_ind_ge y t) - (if fair then i * (m - i) / (m * m * (m - 1)) else 0).
(* the finite members of a case *)
Fixpoint qvals (X : list xv) : list Q :=
  match X with [] => [] | XFin q :: t => q :: qvals t | _ :: t => qvals t end.
Definition spec_case (meth : string) (X : list xv) (y : xv) : xv :=
  match y, qvals X with
  | XFin y, (_ :: _) as Q' =>
      if String.eqb meth "ecdf" then XFin (crps_ecdf Q' y)
      else match Q' with [_] => XNaN | _ => XFin (crps_fair Q' y) end
  | _, _ => XNaN end.

(* ------------------------------------------------------------------------------------------------ *)
(* labelled arrays                                                                                     *)
(* ------------------------------------------------------------------------------------------------ *)
Definition c06_of_guard (g : option err) : result unit := match g with Some e => Err e | None => Ok tt end.

Definition members (f : larr) (m : dim) (e : env) : list xv :=
  map (fun i => lget f (upd e m i)) (seq 0 (lsize f m)).
(* apply a per-case function along the member dimension; obs broadcast by name *)
Definition case_arr (f o : larr) (m : dim) (k : list xv -> xv -> xv) : larr :=
  {| ldims := dunion (ddiff (ldims f) [m]) (ldims o);
     lsize := fun d => if mem d (ldims f) then lsize f d else lsize o d;
     lget := fun e => k (members f m e) (lget o e) |}.

Inductive twmode := TwPlain | TwTail (tail : string) (t : larr) | TwInterval (scalars : bool) (lo hi : larr).

(* both thresholds Python scalars: `lower >= upper`; otherwise `(lower >= upper).any()` over the broadcast of the two *)
Definition interval_bad (scalars : bool) (lo hi : larr) : bool :=
  if scalars then gen_guard_interval (lget lo env0) (lget hi env0) else
  let z := lzip (fun a b => b2x (gen_guard_interval_arr a b)) lo hi in
  existsb (fun e => gen_guard_interval_arr (lget lo e) (lget hi e)) (envs (lsize z) (ldims z) env0).

Definition chain (mode : twmode) (f o : larr) : result (larr * larr) :=
  match mode with
  | TwPlain => Ok (f, o)
  | TwTail tail t =>
      do _ <- c06_of_guard (gen_guard_tail tail) ;;
      Ok (lzip (gen_chain_tail tail) f t, lzip (gen_chain_tail tail) o t)
  | TwInterval sc lo hi =>
      if interval_bad sc lo hi then Err ValueError
      else Ok (lzip3 gen_chain_interval f lo hi, lzip3 gen_chain_interval o lo hi)
  end.

(* the public functions; result = [total] or [total; underforecast; overforecast; spread] *)
Definition crps_ens_m (f o : larr) (m : dim) (mode : twmode) (meth : string) (rd pd : dimspec)
                      (w : option larr) (comps : bool) : result (list larr) :=
  do fo <- chain mode f o ;;
  let f := fst fo in let o := snd fo in
  do _ <- c06_of_guard (gen_guard_crps_method meth) ;;
  do R <- gather (ldims f) (ldims o) (option_map ldims w) rd pd (DStr m) ;;
  let mk := fun k => mean_score (case_arr f o m k) w R in
  Ok (if comps then [mk (crps_case meth); mk crps_under; mk crps_over; mk (crps_spread_c meth)]
      else [mk (crps_case meth)]).

(* ------------------------------------------------------------------------------------------------ *)
(* entries                                                                                             *)
(* ------------------------------------------------------------------------------------------------ *)
Definition d_twmode (r : raw) : option twmode :=
  match r with
  | RL [k] => let? k := d_str k in if String.eqb k "plain" then Some TwPlain else None
  | RL [k; a; b] =>
      let? k := d_str k in
      if String.eqb k "tail" then (let? tail := d_str a in let? t := d_larr b in Some (TwTail tail t))
      else if String.eqb k "interval" then (let? lo := d_larr a in let? hi := d_larr b in Some (TwInterval false lo hi))
      else if String.eqb k "interval_s" then (let? lo := d_larr a in let? hi := d_larr b in Some (TwInterval true lo hi))
      else None
  | _ => None end.

Definition entries_C06 : list entry := [
  ("c06_crps", fun r => orun (
     match r with RL [f; o; m; mode; meth; rd; pd; w; comps] =>
       let? f := d_larr f in let? o := d_larr o in let? m := d_str m in let? mode := d_twmode mode in
       let? meth := d_str meth in let? rd := d_dimspec rd in let? pd := d_dimspec pd in
       let? w := d_opt d_larr w in let? comps := d_bool comps in
       Some (e_result (fun l => RL (map e_larr l)) (crps_ens_m f o m mode meth rd pd w comps))
     | _ => None end));
  (* one case: [total under over spread spec] *)
  ("c06_case", fun r => orun (
     match r with RL [X; y; meth] =>
       let? X := d_xvs X in let? y := d_xv y in let? meth := d_str meth in
       Some (e_xvs [crps_case meth X y; crps_under X y; crps_over X y; crps_spread_c meth X y; spec_case meth X y])
     | _ => None end));
  (* one case, threshold-weighted: [lower-tail interval upper-tail unweighted] *)
  ("c06_tw_case", fun r => orun (
     match r with RL [X; y; lo; hi; meth] =>
       let? X := d_xvs X in let? y := d_xv y in let? lo := d_xv lo in let? hi := d_xv hi in let? meth := d_str meth in
       Some (e_xvs [tw_tail_case meth "lower" X y lo; tw_interval_case meth X y lo hi; tw_tail_case meth "upper" X y hi;
                    crps_case meth X y])
     | _ => None end));
  ("c06_brier_cell", fun r => orun (
     match r with RL [X; y; t; fair] =>
       let? X := d_xvs X in let? y := d_xv y in let? t := d_xv t in let? fair := d_bool fair in
       Some (e_xv (brier_ens_cell fair X y t))
     | _ => None end))
].
