(* model/C01.v -- entry points for the dimension-resolution rule itself. *)
From V Require Import lib.Tree.
Open Scope string_scope.

Definition d_dims (r : raw) : option (list dim) := d_list d_str r.

Definition entries_C01 : list entry := [
  ("gather", fun r => orun (
     match r with RL [f; o; w; rd; pd; sp] =>
       let? f := d_dims f in let? o := d_dims o in let? w := d_opt d_dims w in
       let? rd := d_dimspec rd in let? pd := d_dimspec pd in let? sp := d_dimspec sp in
       Some (e_result e_dims (gather f o w rd pd sp))
     | _ => None end))
].
