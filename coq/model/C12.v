(* model/C12.v -- executable models of firm, risk_matrix_score, matrix_weights_to_array and
   weights_from_warning_scaling (C12).  The per-case kernels (FIRM single category, risk-matrix cell,
   Murphy elementary scores) and the scalar guards are regenerated from source
   (coq/gen/Gen_C12_kern.v); the sums over thresholds / decision points, the Murphy NaN merge, the
   weight-matrix orientation, the warning-scaling algorithm, the remaining guards and the plumbing
   (dims rule, weights, NaN-skipping mean) are hand models validated by the correspondence check. *)
From V Require Import lib.Tree gen.Gen_C12_kern.
Open Scope string_scope.

Definition of_guard12 (g : option err) : result unit := match g with Some e => Err e | None => Ok tt end.
Definition lvalues12 (a : larr) : list xv := snd (to_flat a).

(* ================================ FIRM ================================ *)
Inductive fcomp := FTotal | FOver | FUnder.
Definition firm_comp (c : fcomp) (r : xv * xv * xv) : xv :=
  let '(t, o, u) := r in match c with FTotal => t | FOver => o | FUnder => u end.
Definition fcomp_name (c : fcomp) : string :=
  match c with FTotal => "firm_score" | FOver => "overforecast_penalty" | FUnder => "underforecast_penalty" end.

(* `sum(weight_j * _single_category_score(..., threshold_j, ...))` at one forecast case;
   tws = [(threshold_j, weight_j)] *)
Definition firm_point (c : fcomp) (f o alpha d : xv) (assign : string) (tws : list (xv * xv)) : xv :=
  xsum (map (fun tw => xmul (snd tw) (firm_comp c (gen_firm_single f o alpha (fst tw) d assign))) tws).

Definition firm_pointwise (c : fcomp) (fcst obs : larr) (alpha : xv) (ths wts : list larr) (d : xv) (assign : string) : larr :=
  {| ldims := ldims fcst; lsize := lsize fcst;
     lget := fun e => firm_point c (lget fcst e) (lget obs e) alpha d assign
                        (combine (map (fun t => lget t e) ths) (map (fun w => lget w e) wts)) |}.

(* discount_distance=None is documented to mean no discounting: the guard skips it, `if discount_distance:` is False *)
Definition firm_disc (dopt : option xv) : xv := match dopt with Some d => d | None => X0 end.
Definition firm_m (c : fcomp) (fcst obs : larr) (alpha : xv) (ths wts : list larr) (dopt : option xv)
    (rd pd : dimspec) (w : option larr) (assign : string) : result larr :=
  let d := firm_disc dopt in
  (* _check_firm_inputs: all ValueError (DimensionError is a subclass), so their order is immaterial *)
  do _ <- guard (Nat.ltb (length ths) 1) ValueError ;;
  do _ <- guard (negb (Nat.eqb (length ths) (length wts))) ValueError ;;
  do _ <- of_guard12 (gen_guard_firm alpha d assign) ;;
  do _ <- guard (xlt d X0) ValueError ;;      (* `discount_distance < 0`, also in the generated chain as long as it is a plain comparison *)
  (* each threshold weight: dims within obs dims, no value <= 0 (NaN passes) *)
  do _ <- guard (existsb (fun wt => negb (dsubset (ldims wt) (ldims obs)) || existsb (fun v => xle v X0) (lvalues12 wt)) wts) ValueError ;;
  (* `score.transpose( *fcst.dims)`: every dim of obs and of each threshold must be a forecast dim *)
  do _ <- guard (negb (forallb (fun a => dsubset (ldims a) (ldims fcst)) (obs :: ths))) ValueError ;;
  do R <- gather (ldims fcst) (ldims obs) None rd pd DNone ;;
  Ok (mean_score (firm_pointwise c fcst obs alpha ths wts d assign) w R).

(* ---- proved specification of the single-category kernel (coq/proofs/C12.v: firm_single_ok) ---- *)
Inductive disc := DNo | DFin (d : Q) | DInf.
Definition xdisc (d : disc) : xv := match d with DNo => XFin 0 | DFin d => XFin d | DInf => XInf true end.
Definition Qmin2 (a b : Q) : Q := if Qle_bool a b then a else b.
Definition fscale (d : disc) (x : Q) : Q := match d with DNo => 1 | DFin d => Qmin2 x d | DInf => x end.
(* false alarm: obs in the lower category, forecast in the upper one; the threshold belongs to the lower
   category ("lower": o <= t < f) or to the upper one ("upper": o < t <= f) *)
Definition firm_fa (lower : bool) (f o t : Q) : bool :=
  if lower then Qle_bool o t && Qltb t f else Qltb o t && Qle_bool t f.
Definition firm_miss (lower : bool) (f o t : Q) : bool :=
  if lower then Qle_bool f t && Qltb t o else Qltb f t && Qle_bool t o.
Definition firm_over_q (lower : bool) (a : Q) (d : disc) (f o t : Q) : Q :=
  if firm_fa lower f o t then (1 - a) * fscale d (t - o) else 0.
Definition firm_under_q (lower : bool) (a : Q) (d : disc) (f o t : Q) : Q :=
  if firm_miss lower f o t then a * fscale d (o - t) else 0.

(* ---- the same specification on EXTENDED values: +inf / -inf are valid forecasts, observations and thresholds
        (they compare like any other value); the distance from the observation to the threshold is taken in the
        extended reals: +-inf when exactly one of them is infinite or they are infinite of opposite signs, and 0 when
        they are EQUAL (also when both are the same infinity: the observation then sits on the threshold).
        Proved equal to the regenerated kernel in coq/proofs/C12_inf.v (firm_single_x_ok), and equal to the
        rational specification above on finite values (firm_spec_x_fin). ---- *)
Definition xfa (lower : bool) (f o t : xv) : bool :=
  if lower then xle o t && xlt t f else xlt o t && xle t f.
Definition xmiss (lower : bool) (f o t : xv) : bool :=
  if lower then xle f t && xlt t o else xlt f t && xle t o.
Definition xdist (t o : xv) : xv :=      (* t - o *)
  match t, o with XInf a, XInf b => if Bool.eqb a b then X0 else xsub t o | _, _ => xsub t o end.
Definition xfscale (d : disc) (x : xv) : xv := match d with DNo => X1 | DFin d => xmin x (XFin d) | DInf => x end.
Definition firm_over_x (lower : bool) (a : Q) (d : disc) (f o t : xv) : xv :=
  if xfa lower f o t then xmul (XFin (1 - a)) (xfscale d (xdist t o)) else X0.
Definition firm_under_x (lower : bool) (a : Q) (d : disc) (f o t : xv) : xv :=
  if xmiss lower f o t then xmul (XFin a) (xfscale d (xdist o t)) else X0.

(* ---- Murphy elementary scores with the NaN matching / merge of murphy_score (hand model):
        broadcast_and_match_nan, then over.combine_first(under).fillna(0).where(~isnan(fcst1)) ---- *)
Definition murphy_point (kern : xv -> xv -> xv -> xv * xv) (f o t : xv) : xv * xv * xv :=
  let bad := xisnan f || xisnan o || xisnan t in
  let f1 := if bad then XNaN else f in let o1 := if bad then XNaN else o in let t1 := if bad then XNaN else t in
  let '(over, under) := kern f1 o1 t1 in
  let keep := negb (xisnan f1) in
  (xwhere keep (xfillna (match over with XNaN => under | _ => over end) X0),
   xwhere keep (xfillna over X0), xwhere keep (xfillna under X0)).
Definition murphy_kern (functional : string) (alpha huber_a : xv) : xv -> xv -> xv -> xv * xv :=
  if String.eqb functional "quantile" then fun f o t => gen_c12_murphy_quantile f o t alpha
  else if String.eqb functional "huber" then fun f o t => gen_c12_murphy_huber f o t alpha huber_a
  else fun f o t => gen_c12_murphy_expectile f o t alpha.

(* ================================ risk matrix score ================================ *)
(* one forecast case: rows = per severity category (f_i, o_i, [(p_j, w_ij)]); plain sum (skipna=False) *)
Definition rms_case (assign : string) (rows : list (xv * xv * list (xv * xv))) : xv :=
  xsum (flat_map (fun r => map (fun pw => gen_rms_cell (fst (fst r)) (snd (fst r)) (fst pw) (snd pw) assign) (snd r)) rows).

(* specification: sum_i sum_j w_ij * s_j(f_i, y_i) *)
Definition rms_above (lower : bool) (f p : Q) : bool := if lower then Qle_bool p f else Qltb p f.
Definition rms_s (lower : bool) (f o p : Q) : Q :=
  if Qeq_bool o 0 && rms_above lower f p then p
  else if Qeq_bool o 1 && negb (rms_above lower f p) then 1 - p else 0.
Definition rms_spec_q (lower : bool) (rows : list (Q * Q * list (Q * Q))) : Q :=
  qsum (flat_map (fun r => map (fun pw => snd pw * rms_s lower (fst (fst r)) (snd (fst r)) (fst pw)) (snd r)) rows).

Definition rms_rows (fcst obs dw thr : larr) (sev prob : dim) (e : env) : list (xv * xv * list (xv * xv)) :=
  map (fun i => let e1 := upd e sev i in
         (lget fcst e1, lget obs e1,
          map (fun j => let e2 := upd e1 prob j in (lget thr e2, lget dw e2)) (seq 0 (lsize dw prob))))
      (seq 0 (lsize dw sev)).

Definition rms_pointwise (fcst obs dw thr : larr) (sev prob : dim) (assign : string) : larr :=
  {| ldims := ddiff (dunion (ldims fcst) (ldims obs)) [sev];
     lsize := fun d => if mem d (ldims fcst) then lsize fcst d else lsize obs d;
     lget := fun e => rms_case assign (rms_rows fcst obs dw thr sev prob e) |}.

(* insertion sort, descending *)
Fixpoint insert_desc (x : Q) (l : list Q) : list Q :=
  match l with [] => [x] | y :: t => if Qle_bool y x then x :: l else y :: insert_desc x t end.
Definition sort_desc (l : list Q) : list Q := fold_right insert_desc [] l.
Fixpoint list_eqb (a b : list Q) : bool :=
  match a, b with [] , [] => true | x :: s, y :: t => Qeq_bool x y && list_eqb s t | _, _ => false end.

Definition obs_allowed (v : xv) : bool := xisnan v || xeqv v X0 || xeqv v X1.

(* sev_f / sev_o / sev_w: the severity coordinate labels (as numbers) of fcst, obs and decision_weights *)
Definition rms_m (fcst obs dw thr : larr) (sev prob : dim) (sev_f sev_o sev_w : list Q) (assign : string)
    (rd pd : dimspec) (w : option larr) : result larr :=
  let wd := match w with Some w => ldims w | None => [] end in
  do _ <- guard (negb (mem sev (ldims fcst))) ValueError ;;
  do _ <- guard (negb (mem sev (ldims obs))) ValueError ;;
  do _ <- guard (negb (mem sev (ldims dw))) ValueError ;;
  do _ <- guard (mem sev wd) ValueError ;;
  do _ <- guard (mem prob (ldims fcst)) ValueError ;;
  do _ <- guard (mem prob (ldims obs)) ValueError ;;
  do _ <- guard (negb (mem prob (ldims dw))) ValueError ;;
  do _ <- guard (mem prob wd) ValueError ;;
  do _ <- guard (negb (Nat.eqb (length (ldims dw)) 2)) ValueError ;;
  do _ <- of_guard12 (gen_guard_rms (nanmax (lvalues12 fcst)) (nanmin (lvalues12 fcst))
                                    (nanmax (lvalues12 thr)) (nanmin (lvalues12 thr)) assign) ;;
  do _ <- guard (negb (forallb obs_allowed (lvalues12 obs))) ValueError ;;
  do _ <- guard (negb (list_eqb (sort_desc sev_w) (sort_desc sev_f))) ValueError ;;
  do _ <- guard (negb (list_eqb (sort_desc sev_w) (sort_desc sev_o))) ValueError ;;
  do R <- gather (ddiff (ldims fcst) [sev]) (ddiff (ldims obs) [sev]) (option_map ldims w) rd pd DNone ;;
  Ok (mean_score (rms_pointwise fcst obs dw thr sev prob assign) w R).

(* ================================ weight matrices ================================ *)
(* matrix_weights_to_array: rows are attached, in the order given, to the probability thresholds sorted
   in DEcreasing order; the data are not touched.  Result: (threshold coordinate, rows). *)
Definition qmaxl (l : list Q) : option Q :=
  match l with [] => None | x :: t => Some (fold_right (fun a b => if Qle_bool a b then b else a) x t) end.
Definition qminl (l : list Q) : option Q :=
  match l with [] => None | x :: t => Some (fold_right (fun a b => if Qle_bool a b then a else b) x t) end.
Definition probs_bad (ps : list Q) : bool :=
  match qmaxl ps, qminl ps with
  | Some mx, Some mn => Qle_bool 1 mx || Qle_bool mn 0
  | _, _ => true (* np.max of an empty sequence raises ValueError *) end.

Definition mwa_m {A} (M : list (list A)) (n_sev : nat) (ps : list Q) : result (list Q * list (list A)) :=
  do _ <- guard (negb (Nat.eqb (length M) (length ps))) ValueError ;;
  do _ <- guard (negb (forallb (fun r => Nat.eqb (length r) n_sev) M)) ValueError ;;
  do _ <- guard (probs_bad ps) ValueError ;;
  Ok (sort_desc ps, M).

(* _scaling_to_weight_matrix, line by line.  Scaling matrix: rows top (highest certainty) to bottom,
   entries are warning levels.  `init` is the initial value of lowest_prob_index: the code uses
   max_level + 1; the specification variant n_prob + 1 (larger than every possible crossover index). *)
Definition colz (M : list (list Z)) (c : nat) : list Z := map (fun r => nth c r 0%Z) M.
(* np.argmax(column_rev >= level): index of the first True, 0 when there is none *)
Fixpoint first_ge (l : list Z) (level : Z) : option nat :=
  match l with [] => None | x :: t => if (level <=? x)%Z then Some O else option_map S (first_ge t level) end.
Definition argmax_ge (l : list Z) (level : Z) : nat := match first_ge l level with Some k => k | None => O end.
Definition zmaxl (l : list Z) : Z := fold_right Z.max 0%Z l.
Definition max_level (M : list (list Z)) (aw : list Q) : nat :=
  Nat.max (Z.to_nat (zmaxl (concat M))) (length aw).
(* one level: columns 1..n_sev left to right; state = (lowest_prob_index, placements (row, col, weight)) *)
Definition level_step (M : list (list Z)) (aw : list Q) (level : nat) (st : nat * list (nat * nat * Q)) (column : nat)
    : nat * list (nat * nat * Q) :=
  let '(lowest, acc) := st in
  let pi := argmax_ge (rev (colz M column)) (Z.of_nat level) in
  let pi := if (lowest <=? pi)%nat then O else pi in
  if (0 <? pi)%nat then (pi, (acc ++ [((pi - 1)%nat, (column - 1)%nat, nth (level - 1) aw 0)])%list) else (lowest, acc).
Definition placements (init : nat) (M : list (list Z)) (aw : list Q) : list (nat * nat * Q) :=
  let n_sev := (length (hd [] M) - 1)%nat in
  flat_map (fun level => snd (fold_left (level_step M aw level) (seq 1 n_sev) (init, []))) (seq 1 (max_level M aw)).
Definition wts_entry (pl : list (nat * nat * Q)) (r c : nat) : Q :=
  qsum (map snd (filter (fun p => Nat.eqb (fst (fst p)) r && Nat.eqb (snd (fst p)) c) pl)).
Definition scaling_to_wm_with (init : nat) (M : list (list Z)) (aw : list Q) : list (list Q) :=
  let n_sev := (length (hd [] M) - 1)%nat in let n_prob := (length M - 1)%nat in
  let pl := placements init M aw in
  (* np.flip(wts, axis=0) *)
  map (fun r' => map (fun c => wts_entry pl (n_prob - 1 - r')%nat c) (seq 0 n_sev)) (seq 0 n_prob).
(* the code: `lowest_prob_index = n_prob + 1` with n_prob = rows - 1 *)
Definition scaling_to_wm (M : list (list Z)) (aw : list Q) : list (list Q) :=
  scaling_to_wm_with (length M - 1 + 1) M aw.

(* declarative specification (coq/proofs/C12_scaling.v: scaling_to_wm_is_spec).
   cross M l c = crossover index of level l in column c: position, counted from the bottom row, of the first entry >= l
   (0: the column never reaches the level).  The weight of level l goes to (row cross - 1, column c - 1) for exactly the
   columns c whose crossover exists and is strictly lower than that of every column to the left that has one. *)
Definition cross (M : list (list Z)) (level c : nat) : nat := argmax_ge (rev (colz M c)) (Z.of_nat level).
Definition place (M : list (list Z)) (aw : list Q) (level c : nat) : nat * nat * Q :=
  ((cross M level c - 1)%nat, (c - 1)%nat, nth (level - 1) aw 0).
Definition gets_weight (M : list (list Z)) (level c : nat) : bool :=
  (0 <? cross M level c)%nat &&
  forallb (fun c' => (cross M level c' =? 0)%nat || (cross M level c <? cross M level c')%nat) (seq 1 (c - 1)).
Definition spec_placements (M : list (list Z)) (aw : list Q) : list (nat * nat * Q) :=
  flat_map (fun level => map (place M aw level) (filter (gets_weight M level) (seq 1 (length (hd [] M) - 1))))
           (seq 1 (max_level M aw)).
Definition scaling_to_wm_spec (M : list (list Z)) (aw : list Q) : list (list Q) :=
  let n_sev := (length (hd [] M) - 1)%nat in let n_prob := (length M - 1)%nat in
  let pl := spec_placements M aw in
  map (fun r' => map (fun c => wts_entry pl (n_prob - 1 - r')%nat c) (seq 0 n_sev)) (seq 0 n_prob).

(* weights_from_warning_scaling: the checks (all ValueError), then the two functions above *)
Fixpoint nondecr (l : list Z) : bool :=
  match l with a :: ((b :: _) as r) => (a <=? b)%Z && nondecr r | _ => true end.
Definition rect (M : list (list Z)) : bool :=
  match M with [] => false | r :: t => forallb (fun x => Nat.eqb (length x) (length r)) t end.
Definition wfs_m (use_spec : bool) (M : list (list Z)) (aw ps : list Q) (n_sev : nat) : result (list Q * list (list Q)) :=
  let ncol := length (hd [] M) in
  do _ <- guard (negb (rect M) || Nat.eqb ncol 0) ValueError ;;
  do _ <- guard (existsb (fun v => (v <? 0)%Z) (concat M)) ValueError ;;
  do _ <- guard (negb (forallb (fun v => (v =? 0)%Z) (colz M 0))) ValueError ;;
  do _ <- guard (negb (forallb (fun v => (v =? 0)%Z) (last M []))) ValueError ;;
  do _ <- guard (negb (forallb nondecr M)) ValueError ;;
  do _ <- guard (negb (forallb (fun c => nondecr (rev (colz M c))) (seq 0 ncol))) ValueError ;;
  do _ <- guard (negb (Nat.eqb (length M - 1) (length ps))) ValueError ;;
  do _ <- guard (negb (Nat.eqb (ncol - 1) n_sev)) ValueError ;;
  do _ <- guard (Nat.ltb (length aw) (Z.to_nat (zmaxl (concat M)))) ValueError ;;
  do _ <- guard (probs_bad ps) ValueError ;;
  do _ <- guard (match qminl aw with Some mn => Qle_bool mn 0 | None => true end) ValueError ;;
  mwa_m ((if use_spec then scaling_to_wm_spec else scaling_to_wm) M aw) n_sev ps.

(* ================================ entries ================================ *)
Definition d_fcomp (r : raw) : option fcomp :=
  let? s := d_str r in
  if String.eqb s "firm_score" then Some FTotal else if String.eqb s "overforecast_penalty" then Some FOver
  else if String.eqb s "underforecast_penalty" then Some FUnder else None.
Definition e_q (q : Q) : raw := e_xv (XFin q).
Definition d_qs := d_list d_q.
Definition d_zs := d_list d_z.
Definition e_mat {A} (f : A -> raw) (p : list Q * list (list A)) : raw :=
  RL [RL (map e_q (fst p)); RL (map (fun r => RL (map f r)) (snd p))].
Definition firm_spec_x (lower : bool) (a : xv) (d : xv) (f o t : xv) : list xv :=
  let dd := match d with XFin q => if Qeq_bool q 0 then DNo else DFin q | XInf true => DInf | _ => DNo end in
  match a, f, o, t with
  | XFin a, XFin f, XFin o, XFin t =>
      let ov := firm_over_q lower a dd f o t in let un := firm_under_q lower a dd f o t in
      [XFin (ov + un); XFin ov; XFin un]
  | XFin _, XNaN, _, _ | XFin _, _, XNaN, _ | XFin _, _, _, XNaN => [XNaN; XNaN; XNaN]
  | XFin a, _, _, _ =>      (* an infinite forecast, observation or threshold: the specification on extended values *)
      let ov := firm_over_x lower a dd f o t in let un := firm_under_x lower a dd f o t in
      [xadd ov un; ov; un]
  | _, _, _, _ => [XNaN; XNaN; XNaN] end.
Definition e_triple (r : xv * xv * xv) : raw := RL [e_xv (fst (fst r)); e_xv (snd (fst r)); e_xv (snd r)].
Definition d_row (r : raw) : option (xv * xv * list (xv * xv)) :=
  match r with RL [f; o; pws] =>
    let? f := d_xv f in let? o := d_xv o in
    let? pws := d_list (fun x => match x with RL [p; w] => let? p := d_xv p in let? w := d_xv w in Some (p, w) | _ => None end) pws in
    Some (f, o, pws)
  | _ => None end.
Definition row_q (r : xv * xv * list (xv * xv)) : option (Q * Q * list (Q * Q)) :=
  match r with
  | (XFin f, XFin o, pws) =>
      let? pws := omap (fun pw => match pw with (XFin p, XFin w) => Some (p, w) | _ => None end) pws in Some (f, o, pws)
  | _ => None end.

Definition entries_C12 : list entry := [
  (* [fcst; obs; alpha; thresholds; threshold_weights; discount; rd; pd; weights; 'assignment] -> the three variables *)
  ("c12_firm", fun r => orun (
     match r with RL [f; o; a; ths; wts; d; rd; pd; w; s] =>
       let? f := d_larr f in let? o := d_larr o in let? a := d_xv a in let? ths := d_list d_larr ths in
       let? wts := d_list d_larr wts in let? d := d_opt d_xv d in let? rd := d_dimspec rd in let? pd := d_dimspec pd in
       let? w := d_opt d_larr w in let? s := d_str s in
       Some (match firm_m FTotal f o a ths wts d rd pd w s, firm_m FOver f o a ths wts d rd pd w s,
                   firm_m FUnder f o a ths wts d rd pd w s with
             | Ok x, Ok y, Ok z => RL [e_larr x; e_larr y; e_larr z]
             | Err e, _, _ | _, Err e, _ | _, _, Err e => e_err e end)
     | _ => None end));
  (* one case, one threshold: [f; o; alpha; t; d; 'assignment] -> [generated triple; specification triple] *)
  ("c12_firm_single", fun r => orun (
     match r with RL [f; o; a; t; d; s] =>
       let? f := d_xv f in let? o := d_xv o in let? a := d_xv a in let? t := d_xv t in let? d := d_xv d in let? s := d_str s in
       Some (RL [e_triple (gen_firm_single f o a t d s); e_xvs (firm_spec_x (String.eqb s "lower") a d f o t)])
     | _ => None end));
  (* Murphy elementary score with the NaN merge: [f; o; theta; alpha; huber_a; 'functional] -> (total, over, under) *)
  ("c12_murphy_point", fun r => orun (
     match r with RL [f; o; t; a; h; fn] =>
       let? f := d_xv f in let? o := d_xv o in let? t := d_xv t in let? a := d_xv a in let? h := d_xv h in let? fn := d_str fn in
       Some (e_triple (murphy_point (murphy_kern fn a h) f o t))
     | _ => None end));
  (* [fcst; obs; dw; thr; 'sev; 'prob; sev_f; sev_o; sev_w; 'assignment; rd; pd; weights] *)
  ("c12_rms", fun r => orun (
     match r with RL [f; o; dw; thr; sev; prob; sf; so; sw; s; rd; pd; w] =>
       let? f := d_larr f in let? o := d_larr o in let? dw := d_larr dw in let? thr := d_larr thr in
       let? sev := d_str sev in let? prob := d_str prob in let? sf := d_qs sf in let? so := d_qs so in let? sw := d_qs sw in
       let? s := d_str s in let? rd := d_dimspec rd in let? pd := d_dimspec pd in let? w := d_opt d_larr w in
       Some (e_result e_larr (rms_m f o dw thr sev prob sf so sw s rd pd w))
     | _ => None end));
  (* one case: [rows; 'assignment] -> [generated sum; specification (nan when an input is not finite)] *)
  ("c12_rms_case", fun r => orun (
     match r with RL [rows; s] =>
       let? rows := d_list d_row rows in let? s := d_str s in
       Some (RL [e_xv (rms_case s rows);
                 e_xv (match omap row_q rows with Some q => XFin (rms_spec_q (String.eqb s "lower") q) | None => XNaN end)])
     | _ => None end));
  (* [matrix (rows of numbers); n_sev; probs] -> (coords, rows) *)
  ("c12_mwa", fun r => orun (
     match r with RL [M; n; ps] =>
       let? M := d_list d_xvs M in let? n := d_nat n in let? ps := d_qs ps in
       Some (e_result (e_mat e_xv) (mwa_m M n ps))
     | _ => None end));
  (* [scaling matrix (integers); assessment weights; probs; n_sev; use_spec] -> (coords, rows) *)
  ("c12_wfs", fun r => orun (
     match r with RL [M; aw; ps; n; sp] =>
       let? M := d_list d_zs M in let? aw := d_qs aw in let? ps := d_qs ps in let? n := d_nat n in let? sp := d_bool sp in
       Some (e_result (e_mat e_q) (wfs_m sp M aw ps n))
     | _ => None end))
].
