(* model/C16.v -- executable models of the Fractions Skill Score (C16).

   Two models of the window counts of one 2-D field pair:
     * the SPECIFICATION  (variant = VDef): direct counting of events in every window position
       inside the field, or inside the field zero-extended by floor(w/2) cells on each side
       when zero padding is on;
     * the CODE-FAITHFUL model (variant = VSat) of fast/fss/fss_numpy.py::_compute_integral_field:
       cumsum(1).cumsum(0), the zero column (hstack) and zero row (vstack), the tl/br index
       meshes of both padding branches including the np.clip calls, and D - B - C + A.
   On top of either: _compute_fss_components (means of squares), compute_fss,
   _aggregate_fss_decomposed (component-wise aggregation, zero denominator, clamping) and the
   xarray plumbing of fss_2d / fss_2d_binary (broadcast of extra dims, gather_dimensions).
   No proofs here (coq/proofs/C16*.v). *)
From V Require Import lib.Tree.
Open Scope string_scope.
Open Scope Q_scope.

(* ------------------------------------------------------------------------------------------ *)
(* sums over index ranges                                                                      *)
(* ------------------------------------------------------------------------------------------ *)
Fixpoint zsum (n : nat) (f : nat -> Z) : Z := match n with O => 0%Z | S k => (zsum k f + f k)%Z end.

Definition field := nat -> nat -> Z.
(* number of events in the h x w window whose top-left cell is (i, j) *)
Definition wsum (F : field) (i j h w : nat) : Z :=
  zsum h (fun r => zsum w (fun c => F (i + r)%nat (j + c)%nat)).
(* summed-area value: rows < i, columns < j *)
Definition sat (F : field) (i j : nat) : Z := wsum F 0 0 i j.
Definition grid_sum (nr nc : nat) (g : nat -> nat -> Z) : Z := zsum nr (fun r => zsum nc (fun c => g r c)).

(* a field stored as rows; cells outside the stored block read 0 *)
Definition fld (rows : list (list Z)) : field := fun i j => nth j (nth i rows []) 0%Z.
Definition nrows (rows : list (list Z)) : nat := length rows.
Definition ncols (rows : list (list Z)) : nat := match rows with [] => O | r :: _ => length r end.

(* the H x W field F placed at offset (pt, pl) in an all-zero plane: zero padding *)
Definition inband (lo len i : nat) : bool := (lo <=? i)%nat && (i <? lo + len)%nat.
Definition ext (F : field) (H W pt pl : nat) : field :=
  fun i j => if inband pt H i && inband pl W j then F (i - pt)%nat (j - pl)%nat else 0%Z.

(* ------------------------------------------------------------------------------------------ *)
(* thresholding: backend.py::_apply_event_threshold with utils.NumpyThresholdOperator          *)
(* ------------------------------------------------------------------------------------------ *)
Inductive top := OpGt | OpGe | OpLt | OpLe | OpId.
Definition top_of_string (s : string) : option top :=
  if String.eqb s "gt" then Some OpGt else if String.eqb s "ge" then Some OpGe
  else if String.eqb s "lt" then Some OpLt else if String.eqb s "le" then Some OpLe
  else if String.eqb s "id" then Some OpId else None.
(* numpy comparisons are False on NaN; left_identity_operator passes a binary (0/1) cell through *)
Definition thr (op : top) (th v : xv) : Z :=
  let b := match op with
           | OpGt => xgt v th | OpGe => xge v th | OpLt => xlt v th | OpLe => xle v th
           | OpId => xeqv v X1 end in
  if b then 1%Z else 0%Z.

(* ------------------------------------------------------------------------------------------ *)
(* window counts: specification                                                                *)
(* ------------------------------------------------------------------------------------------ *)
Definition half (w : nat) : nat := Nat.div2 w.          (* int(w / 2) *)

(* number of window positions along one axis of length n *)
Definition npos_def (pad : bool) (n w : nat) : nat :=
  if pad then (n + 2 * half w + 1 - w)%nat else (n + 1 - w)%nat.
Definition win_def (pad : bool) (F : field) (H W wh ww : nat) : nat -> nat -> Z :=
  if pad then fun r c => wsum (ext F H W (half wh) (half ww)) r c wh ww
  else fun r c => wsum F r c wh ww.

(* ------------------------------------------------------------------------------------------ *)
(* window counts: code-faithful summed-area-table model                                        *)
(* ------------------------------------------------------------------------------------------ *)
(* np.cumsum along a list *)
Fixpoint cumsum_from (acc : Z) (l : list Z) : list Z :=
  match l with [] => [] | x :: t => (acc + x)%Z :: cumsum_from (acc + x)%Z t end.
Definition cumsum (l : list Z) : list Z := cumsum_from 0%Z l.
Fixpoint vadd (a b : list Z) : list Z :=
  match a, b with x :: a', y :: b' => (x + y)%Z :: vadd a' b' | _, _ => [] end.
(* cumsum(0): running sum of the rows *)
Fixpoint cumrows (acc : list Z) (rows : list (list Z)) : list (list Z) :=
  match rows with [] => [] | r :: t => let a := vadd acc r in a :: cumrows a t end.
(* pop.cumsum(1).cumsum(0), then hstack of a zero column and vstack of a zero row *)
Definition sat_table (rows : list (list Z)) : list (list Z) :=
  let W := ncols rows in
  let c1 := map cumsum rows in
  let c0 := cumrows (repeat 0%Z W) c1 in
  let h := map (cons 0%Z) c0 in
  repeat 0%Z (S W) :: h.
(* numpy integer indexing (all indices are proved to be within bounds: proofs/C16.v mesh_in_bounds) *)
Definition tbl_get (T : list (list Z)) (i j : Z) : Z := nth (Z.to_nat j) (nth (Z.to_nat i) T []) 0%Z.

Definition clipz (x lo hi : Z) : Z := Z.min (Z.max x lo) hi.      (* np.clip(x, lo, hi) *)

(* the index meshes: per axis, the top-left and bottom-right table index of window position k *)
Record axis := { a_n : nat; a_tl : nat -> Z; a_br : nat -> Z }.
Definition sat_axis (pad : bool) (n w : nat) : axis :=
  if pad then
    let half_w := Z.of_nat (half w) in                   (* int(w / 2) *)
    let im := (Z.of_nat n + 1)%Z in                      (* partial_sums.shape *)
    let rem := (Z.of_nat w - half_w)%Z in
    {| a_n := S n;                                       (* np.arange(-half, im - half): im entries *)
       a_tl := fun k => clipz (Z.of_nat k - half_w) 0 (im - 1);
       a_br := fun k => clipz (Z.of_nat k + rem) 1 (im - 1) |}
  else
    {| a_n := (S n - w)%nat;                             (* np.mgrid[0:im_h, 0:im_w], im = shape - window *)
       a_tl := fun k => Z.of_nat k;
       a_br := fun k => (Z.of_nat k + Z.of_nat w)%Z |}.
(* area = D - B - C + A *)
Definition win_area (P : Z -> Z -> Z) (ar ac : axis) : nat -> nat -> Z :=
  fun r c => (P (a_br ar r) (a_br ac c) - P (a_tl ar r) (a_br ac c) - P (a_br ar r) (a_tl ac c) + P (a_tl ar r) (a_tl ac c))%Z.
Definition win_sat (pad : bool) (rows : list (list Z)) (wh ww : nat) : nat -> nat -> Z :=
  win_area (tbl_get (sat_table rows)) (sat_axis pad (nrows rows) wh) (sat_axis pad (ncols rows) ww).

(* ------------------------------------------------------------------------------------------ *)
(* components and score                                                                        *)
(* ------------------------------------------------------------------------------------------ *)
Record comps := { cf : Q; co : Q; cd : Q }.        (* (fcst, obs, diff) of typing.f8x3 *)
Definition sqz (z : Z) : Z := (z * z)%Z.
Definition qz (z : Z) : Q := inject_Z z.
(* _compute_fss_components: np.nanmean of the squared images (integer images: nothing is NaN) *)
Definition comps_of (nr nc : nat) (wf wo : nat -> nat -> Z) : comps :=
  let N := qz (Z.of_nat (nr * nc)) in
  {| cf := qz (grid_sum nr nc (fun r c => sqz (wf r c))) / N;
     co := qz (grid_sum nr nc (fun r c => sqz (wo r c))) / N;
     cd := qz (grid_sum nr nc (fun r c => sqz (wo r c - wf r c))) / N |}.

Definition qmin (a b : Q) : Q := if Qle_bool a b then a else b.
Definition qmax (a b : Q) : Q := if Qle_bool b a then a else b.
(* compute_fss / tail of _aggregate_fss_decomposed *)
Definition fss_of_comps (c : comps) : Q :=
  let denom := cf c + co c in
  let fss := if Qltb 0 denom then 1 - cd c / denom else 0 in
  qmax (qmin fss 1) 0.
(* _aggregate_fss_decomposed on an array of l decomposed scores *)
Definition agg_comps (l : list comps) : comps :=
  let n := qz (Z.of_nat (length l)) in
  {| cf := qsum (map (fun c => cf c / n) l);
     co := qsum (map (fun c => co c / n) l);
     cd := qsum (map (fun c => cd c / n) l) |}.
Definition aggregate (l : list comps) : Q :=
  match l with [] => 0 | _ => fss_of_comps (agg_comps l) end.

(* the N-free form the theorems reduce to: 1 - Sd / (Sf + So), 0 for a zero denominator *)
Definition fss_sums (sf so sd : Q) : Q :=
  if Qltb 0 (sf + so) then qmax (qmin (1 - sd / (sf + so)) 1) 0 else 0.
Definition fss_raw (sf so sd : Q) : Q := 1 - sd / (sf + so).

(* ------------------------------------------------------------------------------------------ *)
(* one field pair                                                                              *)
(* ------------------------------------------------------------------------------------------ *)
Inductive variant := VDef | VSat.

Definition comps_field (v : variant) (pad : bool) (rf ro : list (list Z)) (wh ww : nat) : comps :=
  let H := nrows rf in let W := ncols rf in
  match v with
  | VDef => comps_of (npos_def pad H wh) (npos_def pad W ww)
                     (win_def pad (fld rf) H W wh ww) (win_def pad (fld ro) H W wh ww)
  | VSat => comps_of (a_n (sat_axis pad H wh)) (a_n (sat_axis pad W ww))
                     (win_sat pad rf wh ww) (win_sat pad ro wh ww)
  end.

(* backend.py::_check_dims *)
Definition check_window (H W : nat) (wh ww : Z) : bool :=
  negb ((Z.of_nat H <? wh)%Z || (Z.of_nat W <? ww)%Z || (wh <? 1)%Z || (ww <? 1)%Z).
Definition same_shape (a b : list (list Z)) : bool :=
  Nat.eqb (nrows a) (nrows b) && Nat.eqb (ncols a) (ncols b).

Definition threshold_rows (op : top) (th : xv) (rows : list (list xv)) : list (list Z) :=
  map (map (thr op th)) rows.

(* spatial/fss_impl.py::fss_2d_single_field *)
Definition fss_single (v : variant) (pad : bool) (op : option top) (th : xv)
           (fcst obs : list (list xv)) (wh ww : Z) : result Q :=
  match op with None => Err ValueError | Some op =>
  let rf := threshold_rows op th fcst in let ro := threshold_rows op th obs in
  if negb (same_shape rf ro) then Err ValueError else
  if negb (check_window (nrows rf) (ncols rf) wh ww) then Err ValueError else
  Ok (fss_of_comps (comps_field v pad rf ro (Z.to_nat wh) (Z.to_nat ww)))
  end.

(* ------------------------------------------------------------------------------------------ *)
(* fss_2d: every 2-D slice over the spatial dims, aggregated over the gathered dims            *)
(* ------------------------------------------------------------------------------------------ *)
Definition slice_rows (op : top) (th : xv) (a : larr) (sx sy : dim) (H W : nat) (e : env) : list (list Z) :=
  map (fun i => map (fun j => thr op th (lget a (upd (upd e sx i) sy j))) (seq 0 W)) (seq 0 H).

Definition fss_2d_m (v : variant) (pad : bool) (op : option top) (th : xv) (fcst obs : larr)
           (wh ww : Z) (spatial : list dim) (rd pd : dimspec) : result larr :=
  match op with None => Err ValueError | Some op =>
  match spatial with
  | [sx; sy] =>
      if negb (mem sx (ldims fcst) && mem sy (ldims fcst)) then Err ValueError else
      if negb (mem sx (ldims obs) && mem sy (ldims obs)) then Err ValueError else
      if negb (Nat.eqb (lsize fcst sx) (lsize obs sx) && Nat.eqb (lsize fcst sy) (lsize obs sy)) then Err ValueError else
      let H := lsize fcst sx in let W := lsize fcst sy in
      if negb (check_window H W wh ww) then Err ValueError else
      do G <- gather (ldims fcst) (ldims obs) None rd pd DNone ;;
      let alld := dunion (ldims fcst) (ldims obs) in
      let extra := ddiff alld spatial in
      let R := ddiff G spatial in
      let size := fun d => if mem d (ldims fcst) then lsize fcst d else lsize obs d in
      let cmp := fun e => comps_field v pad (slice_rows op th fcst sx sy H W e) (slice_rows op th obs sx sy H W e)
                                      (Z.to_nat wh) (Z.to_nat ww) in
      Ok {| ldims := ddiff extra R; lsize := size;
            lget := fun e => XFin (aggregate (map cmp (envs size (dinter extra R) e))) |}
  | _ => Err ValueError
  end end.

(* fss_2d_binary: the fields are already binary; check_boolean is decided by the harness (dtype) *)
Definition fss_2d_binary_m (v : variant) (pad : bool) (is_bool check_boolean : bool) (fcst obs : larr)
           (wh ww : Z) (spatial : list dim) (rd pd : dimspec) : result larr :=
  if check_boolean && negb is_bool then Err TypeError
  else fss_2d_m v pad (Some OpId) (XFin (-999 # 1)) fcst obs wh ww spatial rd pd.

(* ------------------------------------------------------------------------------------------ *)
(* entry table                                                                                 *)
(* ------------------------------------------------------------------------------------------ *)
Definition d_rows (r : raw) : option (list (list xv)) := d_list d_xvs r.
Definition d_op (r : raw) : option (option top) := match d_str r with Some s => Some (top_of_string s) | None => None end.
Definition c16_e_q (q : Q) : raw := e_xv (XFin q).
Definition odd3 (w : Z) : bool := Z.odd w && (3 <=? w)%Z.

Definition entries_C16 : list entry := [
  (* ( fcst-rows obs-rows th 'op wh ww pad ) -> ( sat def ) *)
  ("c16_single", fun r => orun (
     match r with RL [f; o; th; op; wh; ww; pad] =>
       let? f := d_rows f in let? o := d_rows o in let? th := d_xv th in let? op := d_op op in
       let? wh := d_z wh in let? ww := d_z ww in let? pad := d_bool pad in
       Some (RL [e_result c16_e_q (fss_single VSat pad op th f o wh ww);
                 e_result c16_e_q (fss_single VDef pad op th f o wh ww)])
     | _ => None end));
  (* ( fcst obs th 'op wh ww ( 'sx 'sy ) pad rd pd ) -> ( sat def ) *)
  ("c16_fss2d", fun r => orun (
     match r with RL [f; o; th; op; wh; ww; sp; pad; rd; pd] =>
       let? f := d_larr f in let? o := d_larr o in let? th := d_xv th in let? op := d_op op in
       let? wh := d_z wh in let? ww := d_z ww in let? sp := d_list d_str sp in let? pad := d_bool pad in
       let? rd := d_dimspec rd in let? pd := d_dimspec pd in
       Some (RL [e_result e_larr (fss_2d_m VSat pad op th f o wh ww sp rd pd);
                 e_result e_larr (fss_2d_m VDef pad op th f o wh ww sp rd pd)])
     | _ => None end));
  (* ( fcst obs is_bool check_boolean wh ww ( 'sx 'sy ) pad rd pd ) -> ( sat def ) *)
  ("c16_binary", fun r => orun (
     match r with RL [f; o; isb; chk; wh; ww; sp; pad; rd; pd] =>
       let? f := d_larr f in let? o := d_larr o in let? isb := d_bool isb in let? chk := d_bool chk in
       let? wh := d_z wh in let? ww := d_z ww in let? sp := d_list d_str sp in let? pad := d_bool pad in
       let? rd := d_dimspec rd in let? pd := d_dimspec pd in
       Some (RL [e_result e_larr (fss_2d_binary_m VSat pad isb chk f o wh ww sp rd pd);
                 e_result e_larr (fss_2d_binary_m VDef pad isb chk f o wh ww sp rd pd)])
     | _ => None end));
  (* ( ( (f o d) ... ) ) -> aggregate : _aggregate_fss_decomposed on explicit components *)
  ("c16_aggregate", fun r => orun (
     match r with RL [l] =>
       let? l := d_list (fun t => match t with RL [a; b; c] =>
                   let? a := d_q a in let? b := d_q b in let? c := d_q c in Some {| cf := a; co := b; cd := c |}
                 | _ => None end) l in
       Some (c16_e_q (aggregate l))
     | _ => None end))
].
