(* model/C14.v -- ROC curve data (C14): probability/roc_impl.py :: roc_curve_data.
   Built from regenerated kernels: the `>=` discretisation (Gen_C08_discretise, tolerance 0), the hit / miss /
   false-alarm / correct-negative maps and final ratios of the standalone POD / POFD (Gen_C09_binary).
   Hand-written: argument checks, the threshold dimension, the call structure, numpy's trapezoid as a list
   fold -- validated by the correspondence check. *)
From V Require Import lib.Tree lib.C08_aux gen.Gen_C08_discretise gen.Gen_C09_binary model.C08 model.C09.
Open Scope string_scope.

(* np.trapezoid(y, x) along one axis: sum of (x[i+1]-x[i]) * (y[i+1]+y[i]) / 2 *)
Fixpoint trapz (ys xs : list xv) : xv :=
  match ys, xs with
  | y0 :: ((y1 :: _) as ys'), x0 :: ((x1 :: _) as xs') =>
      xadd (xdiv (xmul (xsub x1 x0) (xadd y1 y0)) (XFin 2)) (trapz ys' xs')
  | _, _ => X0
  end.
Definition auc_of (pods pofds : list xv) : xv := xmul (XFin (-1)) (trapz pods pofds).

Definition along (a : larr) (d : dim) (e : env) : list xv :=
  map (fun i => lget a (upd e d i)) (seq 0 (lsize a d)).

Definition roc_checks (fcst : larr) (ts : list xv) : result unit :=
  let v := values fcst in
  if xgt (nanmax v) (XFin 1) || xlt (nanmin v) X0 then Err ValueError else
  match ts with [] => Err ValueError | _ =>
  if xgt (xmaxl ts) (XFin 1) || xlt (xminl ts) X0 then Err ValueError else
  if negb (monotonic ts) then Err ValueError else Ok tt end.

Definition roc_curve_data_m (fcst obs : larr) (ts : list xv) (rd pd : dimspec) (w : option larr) (check_args : bool)
    : result (list larr) :=
  do _ <- (if check_args then roc_checks fcst ts else Ok tt) ;;
  do disc <- binary_discretise_m fcst ts false (MOp OpGe) None false ;;
  let all_dims := dunion (ldims fcst) (ldims obs) in
  do R <- gather (ldims fcst) (ldims obs) None rd pd DNone ;;
  let auc_dims := ddiff all_dims R in
  let keep := DList (auc_dims ++ ["threshold"]) in
  do pod <- binary_pod_m disc obs DNone keep w check_args ;;
  do pofd <- binary_pofd_m disc obs DNone keep w check_args ;;
  (* the final transpose onto final_preserve_dims requires exactly these dims: a weights-only dimension is an error *)
  if negb (dsubset (ldims pod) (auc_dims ++ ["threshold"])) then Err ValueError else
  let auc := {| ldims := auc_dims; lsize := lsize pod;
                lget := fun e => auc_of (along pod "threshold" e) (along pofd "threshold" e) |} in
  Ok [pod; pofd; auc].

(* ---- list-level specification: one output cell of POD / POFD sees a list of (forecast, observation, weight) triples ---- *)
Definition triple := (xv * xv * xv)%type.
Definition t_f (c : triple) := fst (fst c).
Definition t_o (c : triple) := snd (fst c).
Definition t_w (c : triple) := snd c.
(* the discretised forecast `fcst >= t` with tolerance 0 *)
Definition disc_ge (t f : xv) : xv := discretise_cell (MOp OpGe) X0 f t.
Definition hit_w (t : xv) (c : triple) := xmul (fst (gen_pod_maps (disc_ge t (t_f c)) (t_o c))) (t_w c).
Definition miss_w (t : xv) (c : triple) := xmul (snd (gen_pod_maps (disc_ge t (t_f c)) (t_o c))) (t_w c).
Definition fa_w (t : xv) (c : triple) := xmul (fst (gen_pofd_maps (disc_ge t (t_f c)) (t_o c))) (t_w c).
Definition cn_w (t : xv) (c : triple) := xmul (snd (gen_pofd_maps (disc_ge t (t_f c)) (t_o c))) (t_w c).
Definition pod_at (cells : list triple) (t : xv) : xv :=
  gen_pod_ratio (nansum (map (hit_w t) cells)) (nansum (map (miss_w t) cells)).
Definition pofd_at (cells : list triple) (t : xv) : xv :=
  gen_pofd_ratio (nansum (map (fa_w t) cells)) (nansum (map (cn_w t) cells)).
Definition auc_at (cells : list triple) (ts : list xv) : xv :=
  auc_of (map (pod_at cells) ts) (map (pofd_at cells) ts).

(* the documented meaning: weighted fraction of observed events (non-events) whose forecast is >= t *)
Definition tvalid (c : triple) : bool := xnotnull (t_f c) && xnotnull (t_o c) && xnotnull (t_w c).
Definition qv (v : xv) : Q := match v with XFin q => q | _ => 0 end.
Definition wsum (p : triple -> bool) (cells : list triple) : Q :=
  qsum (map (fun c => if p c then qv (t_w c) else 0) cells).
Definition obs_is (k : Q) (c : triple) : bool := xeqv (t_o c) (XFin k).
Definition fc_ge (t : Q) (c : triple) : bool := xge (t_f c) (XFin t).
Definition pod_spec (cells : list triple) (t : Q) : xv :=
  ratio (wsum (fun c => tvalid c && obs_is 1 c && fc_ge t c) cells) (wsum (fun c => tvalid c && obs_is 1 c) cells).
Definition pofd_spec (cells : list triple) (t : Q) : xv :=
  ratio (wsum (fun c => tvalid c && obs_is 0 c && fc_ge t c) cells) (wsum (fun c => tvalid c && obs_is 0 c) cells).

(* Mann-Whitney: probability that a random event has a higher forecast than a random non-event, ties one half *)
Definition mw_pair (a b : Q) : Q := if Qltb b a then 1 else if Qeq_bool a b then 1 # 2 else 0.
Definition mw_sum (ev ne : list Q) : Q := qsum (map (fun a => qsum (map (mw_pair a) ne)) ev).
Definition mann_whitney (ev ne : list Q) : xv :=
  ratio (mw_sum ev ne) (inject_Z (Z.of_nat (List.length ev)) * inject_Z (Z.of_nat (List.length ne))).

Definition d_triple (r : raw) : option triple :=
  match r with RL [f; o; w] => let? f := d_xv f in let? o := d_xv o in let? w := d_xv w in Some (f, o, w) | _ => None end.

Definition entries_C14 : list entry := [
  ("c14_roc_curve_data", fun r => orun (
     match r with RL [f; o; ts; rd; pd; w; ca] =>
       let? f := d_larr f in let? o := d_larr o in let? ts := d_xvs ts in let? rd := d_dimspec rd in
       let? pd := d_dimspec pd in let? w := d_opt d_larr w in let? ca := d_bool ca in
       Some (e_result e_larrs (roc_curve_data_m f o ts rd pd w ca))
     | _ => None end));
  (* list level: (cells thresholds) -> ( code-structured POD, POFD per threshold ; specification POD, POFD ; AUC ) *)
  ("c14_roc_cells", fun r => orun (
     match r with RL [cells; ts] =>
       let? cells := d_list d_triple cells in let? ts := d_xvs ts in
       Some (RL [e_xvs (map (pod_at cells) ts); e_xvs (map (pofd_at cells) ts);
                 e_xvs (map (fun t => pod_spec cells (qv t)) ts); e_xvs (map (fun t => pofd_spec cells (qv t)) ts);
                 e_xv (auc_at cells ts)])
     | _ => None end));
  ("c14_mann_whitney", fun r => orun (
     match r with RL [ev; ne] =>
       let? ev := d_list d_q ev in let? ne := d_list d_q ne in Some (e_xv (mann_whitney ev ne))
     | _ => None end))
].
