(* model/C13.v -- executable models of brier_score and brier_score_for_ensemble (C13).
   The per-case ensemble formula (incl. the fair correction) and the squared-error kernel are
   regenerated from source (coq/gen/Gen_C13_kern.v); member counting, the observed event, the
   guards and the plumbing (threshold dimension, dims rule, weights, NaN-skipping mean) are hand
   models validated by the correspondence check. *)
From V Require Import lib.Tree gen.Gen_C13_kern.
Open Scope string_scope.

(* ---- the event relation: operator.ge / gt / le / lt ---- *)
Inductive evop := OpGe | OpGt | OpLe | OpLt.
Definition evop_test (op : evop) (x t : xv) : bool :=
  match op with OpGe => xge x t | OpGt => xgt x t | OpLe => xle x t | OpLt => xlt x t end.
Definition evop_of_string (s : string) : option evop :=
  if String.eqb s "ge" then Some OpGe else if String.eqb s "gt" then Some OpGt
  else if String.eqb s "le" then Some OpLe else if String.eqb s "lt" then Some OpLt else None.

(* ---- member counting as list folds (any ensemble size) ---- *)
Definition countb (p : xv -> bool) (l : list xv) : nat := length (filter p l).
(* `event_threshold_operator(fcst, thresholds_xr).sum(dim=ensemble_member_dim)`: NaN members compare False *)
Definition member_event_count (op : evop) (t : xv) (ms : list xv) : nat := countb (fun x => evop_test op x t) ms.
(* `fcst.notnull().sum(dim=ensemble_member_dim)` *)
Definition total_member_count (ms : list xv) : nat := nancount ms.
(* `binary_discretise(obs, event_thresholds, op)` with tolerance 0: 1/0, NaN where obs or threshold is NaN *)
Definition binary_obs (op : evop) (t o : xv) : xv :=
  xwhere (negb (xisnan o) && negb (xisnan t)) (b2x (evop_test op o t)).

(* one (forecast case, threshold) cell: counts fed to the regenerated formula *)
Definition brier_ens_case (op : evop) (fair : bool) (t : xv) (ms : list xv) (o : xv) : xv :=
  gen_brier_ens_cell (xofnat (member_event_count op t ms)) (xofnat (total_member_count ms)) (binary_obs op t o) fair.

(* ---- the proved specification (coq/proofs/C13.v: brier_ens_case_spec) ---- *)
Definition qnat (n : nat) : Q := inject_Z (Z.of_nat n).
Definition brier_spec_q (i m : nat) (y : Q) (fair : bool) : xv :=
  match m with
  | O => XNaN
  | _ => XFin ((qnat i / qnat m - y) * (qnat i / qnat m - y)
               - (if fair && (1 <? m)%nat then qnat i * (qnat m - qnat i) / (qnat m * qnat m * (qnat m - 1)) else 0))
  end.
Definition brier_ens_spec (op : evop) (fair : bool) (t : xv) (ms : list xv) (o : xv) : xv :=
  if xisnan o || xisnan t then XNaN
  else brier_spec_q (member_event_count op t ms) (total_member_count ms) (if evop_test op o t then 1 else 0) fair.

(* ---- brier_score_for_ensemble ---- *)
Definition members (fcst : larr) (ens : dim) (e : env) : list xv :=
  map (fun k => lget fcst (upd e ens k)) (seq 0 (lsize fcst ens)).

Definition brier_ens_pointwise (cell : evop -> bool -> xv -> list xv -> xv -> xv)
    (fcst obs : larr) (ens tdim : dim) (ts : list xv) (op : evop) (fair : bool) : larr :=
  {| ldims := dunion (dunion (ddiff (ldims fcst) [ens]) [tdim]) (ldims obs);
     lsize := fun d => if String.eqb d tdim then length ts
                       else if mem d (ldims fcst) then lsize fcst d else lsize obs d;
     lget := fun e => cell op fair (nth (e tdim) ts XNaN) (members fcst ens e) (lget obs e) |}.

(* `thresholds[1:] - thresholds[:-1] >= 0` must hold everywhere (NaN fails it) *)
Fixpoint monotone_inc (ts : list xv) : bool :=
  match ts with
  | a :: ((b :: _) as r) => xge (xsub b a) X0 && monotone_inc r
  | _ => true end.

Definition brier_ens_m (cell : evop -> bool -> xv -> list xv -> xv -> xv)
    (fcst obs : larr) (ens : dim) (ts : list xv) (rd pd : dimspec) (w : option larr)
    (fair : bool) (op : option evop) (tdim : dim) : result larr :=
  do op <- (match op with Some o => Ok o | None => Err ValueError end) ;;
  do _ <- guard (mem tdim (ldims fcst)) ValueError ;;
  do _ <- guard (mem tdim (ldims obs)) ValueError ;;
  do _ <- guard (match w with Some w => mem tdim (ldims w) | None => false end) ValueError ;;
  do R <- gather (ldims fcst) (ldims obs) (option_map ldims w) rd pd (DStr ens) ;;
  (* binary_discretise: its own dimension is always called "threshold" *)
  do _ <- guard (mem "threshold" (ldims obs)) ValueError ;;
  do _ <- guard (negb (monotone_inc ts)) ValueError ;;
  Ok (mean_score (brier_ens_pointwise cell fcst obs ens tdim ts op fair) w R).

(* ---- brier_score = argument checks + MSE ---- *)
Definition lvalues (a : larr) : list xv := snd (to_flat a).
Definition is01 (v : xv) : bool := xisnan v || xeqv v X0 || xeqv v X1.
(* check_args: `fcst.max() > 1 or fcst.min() < 0` (NaN-skipping max/min), then check_binary(obs) *)
Definition brier_guard (fcst obs : larr) : option err :=
  if xgt (nanmax (lvalues fcst)) X1 || xlt (nanmin (lvalues fcst)) X0 then Some ValueError
  else if negb (forallb is01 (lvalues obs)) then Some ValueError else None.
Definition of_guard13 (g : option err) : result unit := match g with Some e => Err e | None => Ok tt end.

Definition mse_with (k : xv -> xv -> xv) (fcst obs : larr) (rd pd : dimspec) (w : option larr) : result larr :=
  do R <- gather (ldims fcst) (ldims obs) None rd pd DNone ;;
  Ok (mean_score (lzip k fcst obs) w R).
Definition mse_m := mse_with gen_c13_sqerr.
Definition brier_score_with (k : xv -> xv -> xv) (fcst obs : larr) (rd pd : dimspec) (w : option larr) (check_args : bool) : result larr :=
  do _ <- (if check_args then of_guard13 (brier_guard fcst obs) else Ok tt) ;;
  mse_with k fcst obs rd pd w.
Definition brier_score_m := brier_score_with gen_c13_sqerr.
(* the proved specification of the kernel (coq/proofs/C13.v: sqerr_spec): (f - o)^2 on finite values *)
Definition sqerr_spec_x (f o : xv) : xv :=
  match f, o with XFin f, XFin o => XFin ((f - o) * (f - o)) | _, _ => xmul (xsub f o) (xsub f o) end.

Definition entries_C13 : list entry := [
  (* [fcst; obs; 'ens; thresholds; rd; pd; weights; fair; 'op; 'threshold_dim; use_spec] *)
  ("c13_brier_ens", fun r => orun (
     match r with RL [f; o; ens; ts; rd; pd; w; fair; op; tdim; sp] =>
       let? f := d_larr f in let? o := d_larr o in let? ens := d_str ens in let? ts := d_xvs ts in
       let? rd := d_dimspec rd in let? pd := d_dimspec pd in let? w := d_opt d_larr w in
       let? fair := d_bool fair in let? op := d_str op in let? tdim := d_str tdim in let? sp := d_bool sp in
       Some (e_result e_larr (brier_ens_m (if sp then brier_ens_spec else brier_ens_case)
                                          f o ens ts rd pd w fair (evop_of_string op) tdim))
     | _ => None end));
  (* one cell: [members; obs; threshold; 'op; fair] -> [generated; specification; i; m] *)
  ("c13_brier_ens_case", fun r => orun (
     match r with RL [ms; o; t; op; fair] =>
       let? ms := d_xvs ms in let? o := d_xv o in let? t := d_xv t in let? op := d_str op in let? fair := d_bool fair in
       let? op := evop_of_string op in
       Some (RL [e_xv (brier_ens_case op fair t ms o); e_xv (brier_ens_spec op fair t ms o);
                 e_nat (member_event_count op t ms); e_nat (total_member_count ms)])
     | _ => None end));
  ("c13_brier_score", fun r => orun (
     match r with RL [f; o; rd; pd; w; chk; sp] =>
       let? f := d_larr f in let? o := d_larr o in let? rd := d_dimspec rd in let? pd := d_dimspec pd in
       let? w := d_opt d_larr w in let? chk := d_bool chk in let? sp := d_bool sp in
       Some (e_result e_larr (brier_score_with (if sp then sqerr_spec_x else gen_c13_sqerr) f o rd pd w chk))
     | _ => None end))
].
