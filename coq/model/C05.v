(* model/C05.v -- executable models of the point scores (C05).  Kernels come from coq/gen
   (regenerated from source); the surrounding plumbing is a hand model validated by the
   correspondence check. *)
From V Require Import lib.Tree gen.Gen_quantile_loss gen.Gen_functions.
Open Scope string_scope.

Definition of_guard (g : option err) : result unit := match g with Some e => Err e | None => Ok tt end.

(* continuous/quantile_loss_impl.py :: quantile_score *)
Definition quantile_score_m (fcst obs : larr) (alpha : xv) (rd pd : dimspec) (w : option larr) : result larr :=
  let specified := if truthy rd then rd else pd in
  do _ <- (if is_none specified || is_all specified then Ok tt
           else check_dims (ldims fcst) (DList (as_list specified)) MSuperset) ;;
  do _ <- check_dims (ldims obs) (DList (ldims fcst)) MSubset ;;
  do _ <- of_guard (gen_guard_quantile_score alpha) ;;
  do R <- gather (ldims fcst) (ldims obs) None rd pd DNone ;;
  Ok (mean_score (lzip (fun f o => gen_quantile_score f o alpha) fcst obs) w R).

(* the proved specification of the pinball kernel (coq/proofs/C05.v: pinball_ok) *)
Definition Qmax0 (x : Q) : Q := if Qle_bool 0 x then x else 0.
Definition pinball_spec (alpha f o : Q) : Q := alpha * Qmax0 (o - f) + (1 - alpha) * Qmax0 (f - o).
Definition pinball_spec_x (alpha f o : xv) : xv :=
  match alpha, f, o with XFin a, XFin f, XFin o => XFin (pinball_spec a f o) | _, _, _ => XNaN end.

Definition entries_C05 : list entry := [
  ("quantile_score", fun r => orun (
     match r with RL [f; o; a; rd; pd; w] =>
       let? f := d_larr f in let? o := d_larr o in let? a := d_xv a in
       let? rd := d_dimspec rd in let? pd := d_dimspec pd in let? w := d_opt d_larr w in
       Some (e_result e_larr (quantile_score_m f o a rd pd w))
     | _ => None end));
  ("k_quantile_score", fun r => orun (
     match r with RL [f; o; a] =>
       let? f := d_xv f in let? o := d_xv o in let? a := d_xv a in
       Some (RL [e_xv (gen_quantile_score f o a); e_xv (pinball_spec_x a f o)])
     | _ => None end));
  ("k_angular_difference", fun r => orun (
     match r with RL [a; b] =>
       let? a := d_xv a in let? b := d_xv b in Some (e_xv (gen_angular_difference a b))
     | _ => None end))
].
