(* model/C05.v -- executable models of the point and interval scores (C05; reused by C01-C03).
   Kernels come from coq/gen (regenerated from source on every run); the plumbing around them
   (pre-checks, dimension rule, weights, NaN-skipping mean, NaN matching) is a hand model validated
   by the correspondence check. *)
From V Require Import lib.Tree gen.Gen_quantile_loss gen.Gen_functions gen.Gen_interval gen.Gen_standard.
Open Scope string_scope.

Definition of_guard (g : option err) : result unit := match g with Some e => Err e | None => Ok tt end.

(* the duplicate pre-check of quantile_score / quantile_interval_score (after the fix: commit) *)
Definition precheck_specified (fd : list dim) (rd pd : dimspec) : result unit :=
  let specified := if truthy rd then rd else pd in
  if is_none specified || is_all specified then Ok tt
  else check_dims fd (DList (as_list specified)) MSuperset.

(* continuous/quantile_loss_impl.py :: quantile_score *)
Definition quantile_score_m (fcst obs : larr) (alpha : xv) (rd pd : dimspec) (w : option larr) : result larr :=
  do _ <- precheck_specified (ldims fcst) rd pd ;;
  do _ <- check_dims (ldims obs) (DList (ldims fcst)) MSubset ;;
  do _ <- of_guard (gen_guard_quantile_score alpha) ;;
  do R <- gather (ldims fcst) (ldims obs) None rd pd DNone ;;
  Ok (mean_score (lzip (fun f o => gen_quantile_score f o alpha) fcst obs) w R).

(* continuous/interval_impl.py :: quantile_interval_score -- four components *)
Definition any_true (a : larr) : bool :=      (* (cond).any() over the whole array *)
  existsb (fun v => xeqb v X1) (snd (to_flat a)).
Definition qis_m (lo hi obs : larr) (ll ul : xv) (rd pd : dimspec) (w : option larr) : result (list larr) :=
  do _ <- of_guard (gen_guard_qis ll ul) ;;
  do _ <- check_dims (ldims hi) (DList (ldims lo)) MEqual ;;
  do _ <- precheck_specified (ldims lo) rd pd ;;
  do _ <- check_dims (ldims obs) (DList (ldims lo)) MSubset ;;
  do _ <- guard (any_true (lzip (fun a b => b2x (xgt a b)) lo hi)) ValueError ;;
  do R <- gather (ldims lo) (ldims obs) None rd pd DNone ;;
  let comp (sel : xv * xv * xv * xv -> xv) :=
    mean_score (lzip3 (fun a b o => sel (gen_qis a b o ll ul)) lo hi obs) w R in
  Ok [comp (fun t => fst (fst (fst t))); comp (fun t => snd (fst (fst t))); comp (fun t => snd (fst t)); comp snd].
Definition interval_score_m (lo hi obs : larr) (ir : xv) (rd pd : dimspec) (w : option larr) : result (list larr) :=
  do _ <- of_guard (gen_guard_interval_score ir) ;;
  let '(lq, uq) := gen_interval_levels ir in
  qis_m lo hi obs lq uq rd pd w.

(* continuous/standard_impl.py :: mse, mae, additive_bias (xarray inputs) *)
Definition simple_mean_m (k : xv -> xv -> xv) (fcst obs : larr) (rd pd : dimspec) (w : option larr) : result larr :=
  do R <- gather (ldims fcst) (ldims obs) None rd pd DNone ;;
  Ok (mean_score (lzip k fcst obs) w R).
Definition mse_m f o rd pd w (ang : bool) := simple_mean_m (fun a b => gen_mse_kernel a b ang) f o rd pd w.
Definition mae_m f o rd pd w (ang : bool) := simple_mean_m (fun a b => gen_mae_kernel a b ang) f o rd pd w.
Definition bias_m f o rd pd w := simple_mean_m gen_bias_kernel f o rd pd w.

(* processing/matching.py :: broadcast_and_match_nan for two arrays *)
Definition both_valid (a b : xv) : bool := xnotnull a && xnotnull b.
Definition match_fst (f o : larr) : larr := lzip (fun a b => xwhere (both_valid a b) a) f o.
Definition match_snd (f o : larr) : larr := lzip (fun a b => xwhere (both_valid a b) b) f o.

(* multiplicative_bias, pbias: weights multiply fcst and obs separately, then NaN matching, then ratio of means *)
Definition ratio_m (pb : bool) (fcst obs : larr) (rd pd : dimspec) (w : option larr) : result larr :=
  do R <- gather (ldims fcst) (ldims obs) None rd pd DNone ;;
  let f := apply_weights w fcst in
  let o := apply_weights w obs in
  let fm := match_fst f o in
  let om := match_snd f o in
  if pb then
    Ok (lzip xdiv (lmap (xmul (XFin 100)) (lreduce nanmean R (lzip xsub fm om))) (lreduce nanmean R om))
  else Ok (lzip xdiv (lreduce nanmean R fm) (lreduce nanmean R om)).

(* moments on jointly valid pairs, as xr.corr / .std(ddof=0) / .mean compute them:
   (count, mean_f, mean_o, var_f, var_o, cov).  Square roots are applied by the host. *)
Definition moments (l : list (xv * xv)) : list xv :=
  let v := filter (fun p => both_valid (fst p) (snd p)) l in
  let fs := map fst v in let os := map snd v in
  let mf := nanmean fs in let mo := nanmean os in
  let df := map (fun x => xsub x mf) fs in let do_ := map (fun x => xsub x mo) os in
  [ xofnat (length v); mf; mo;
    nanmean (map (fun x => xmul x x) df); nanmean (map (fun x => xmul x x) do_);
    nanmean (map (fun p => xmul (fst p) (snd p)) (combine df do_)) ].
Definition lreduce_pairs (g : list (xv * xv) -> xv) (R : list dim) (f o : larr) : larr :=
  let z := lzip (fun a _ => a) f o in
  let R' := dinter (ldims z) R in
  {| ldims := ddiff (ldims z) R; lsize := lsize z;
     lget := fun e => g (map (fun e' => (lget f e', lget o e')) (envs (lsize z) R' e)) |}.
Definition moments_m (fcst obs : larr) (rd pd : dimspec) : result (list larr) :=
  do R <- gather (ldims fcst) (ldims obs) None rd pd DNone ;;
  Ok (map (fun i => lreduce_pairs (fun l => nth i (moments l) XNaN) R fcst obs) (seq 0 6)).

(* ---- proved specifications (coq/proofs/C05.v) ---- *)
Definition Qmax0 (x : Q) : Q := if Qle_bool 0 x then x else 0.
Definition pinball_spec (alpha f o : Q) : Q := alpha * Qmax0 (o - f) + (1 - alpha) * Qmax0 (f - o).
Definition pinball_spec_x (alpha f o : xv) : xv :=
  match alpha, f, o with XFin a, XFin f, XFin o => XFin (pinball_spec a f o) | _, _, _ => XNaN end.
(* quantile interval score: width + (1/ll)(lo - y)^+ + (1/(1-ul))(y - hi)^+ *)
Definition qis_spec (ll ul lo hi y : Q) : Q * Q * Q * Q :=
  let w := hi - lo in let ov := Qmax0 (lo - y) / ll in let un := Qmax0 (y - hi) / (1 - ul) in
  (w, ov, un, w + ov + un).

(* ---- entries ---- *)
Definition d_common (f o rd pd w : raw) :=
  let? f := d_larr f in let? o := d_larr o in let? rd := d_dimspec rd in let? pd := d_dimspec pd in
  let? w := d_opt d_larr w in Some (f, o, rd, pd, w).
Definition e_larrs (l : list larr) : raw := RL (map e_larr l).

Definition entries_C05 : list entry := [
  ("quantile_score", fun r => orun (
     match r with RL [f; o; a; rd; pd; w] =>
       let? (f, o, rd, pd, w) := d_common f o rd pd w in let? a := d_xv a in
       Some (e_result e_larr (quantile_score_m f o a rd pd w))
     | _ => None end));
  ("quantile_interval_score", fun r => orun (
     match r with RL [lo; hi; o; ll; ul; rd; pd; w] =>
       let? (lo, o, rd, pd, w) := d_common lo o rd pd w in let? hi := d_larr hi in
       let? ll := d_xv ll in let? ul := d_xv ul in
       Some (e_result e_larrs (qis_m lo hi o ll ul rd pd w))
     | _ => None end));
  ("interval_score", fun r => orun (
     match r with RL [lo; hi; o; ir; rd; pd; w] =>
       let? (lo, o, rd, pd, w) := d_common lo o rd pd w in let? hi := d_larr hi in let? ir := d_xv ir in
       Some (e_result e_larrs (interval_score_m lo hi o ir rd pd w))
     | _ => None end));
  ("mse", fun r => orun (
     match r with RL [f; o; rd; pd; w; ang] =>
       let? (f, o, rd, pd, w) := d_common f o rd pd w in let? ang := d_bool ang in
       Some (e_result e_larr (mse_m f o rd pd w ang)) | _ => None end));
  ("mae", fun r => orun (
     match r with RL [f; o; rd; pd; w; ang] =>
       let? (f, o, rd, pd, w) := d_common f o rd pd w in let? ang := d_bool ang in
       Some (e_result e_larr (mae_m f o rd pd w ang)) | _ => None end));
  ("additive_bias", fun r => orun (
     match r with RL [f; o; rd; pd; w] =>
       let? (f, o, rd, pd, w) := d_common f o rd pd w in
       Some (e_result e_larr (bias_m f o rd pd w)) | _ => None end));
  ("multiplicative_bias", fun r => orun (
     match r with RL [f; o; rd; pd; w] =>
       let? (f, o, rd, pd, w) := d_common f o rd pd w in
       Some (e_result e_larr (ratio_m false f o rd pd w)) | _ => None end));
  ("pbias", fun r => orun (
     match r with RL [f; o; rd; pd; w] =>
       let? (f, o, rd, pd, w) := d_common f o rd pd w in
       Some (e_result e_larr (ratio_m true f o rd pd w)) | _ => None end));
  ("moments", fun r => orun (
     match r with RL [f; o; rd; pd] =>
       let? f := d_larr f in let? o := d_larr o in let? rd := d_dimspec rd in let? pd := d_dimspec pd in
       Some (e_result e_larrs (moments_m f o rd pd)) | _ => None end));
  ("k_quantile_score", fun r => orun (
     match r with RL [f; o; a] =>
       let? f := d_xv f in let? o := d_xv o in let? a := d_xv a in
       Some (RL [e_xv (gen_quantile_score f o a); e_xv (pinball_spec_x a f o)])
     | _ => None end));
  ("k_qis", fun r => orun (
     match r with RL [lo; hi; y; ll; ul] =>
       let? lo := d_q lo in let? hi := d_q hi in let? y := d_q y in let? ll := d_q ll in let? ul := d_q ul in
       let '(a, b, c, d) := gen_qis (XFin lo) (XFin hi) (XFin y) (XFin ll) (XFin ul) in
       let '(a', b', c', d') := qis_spec ll ul lo hi y in
       Some (RL [e_xvs [a; b; c; d]; e_xvs [XFin a'; XFin b'; XFin c'; XFin d']])
     | _ => None end));
  ("k_angular_difference", fun r => orun (
     match r with RL [a; b] =>
       let? a := d_xv a in let? b := d_xv b in Some (e_xv (gen_angular_difference a b))
     | _ => None end))
].
