(* model/C15.v -- executable model of processing/isoreg_impl.py (isotonic_fit) for C15.
   tidy (drop NaN pairs, stable sort by forecast ascending then observation descending), the PAV
   state machine that mirrors the merge order of _contiguous_ir, named block solvers, the
   reduction to unique forecasts, the interpolating function, bootstrap fits for given resampling
   indices, _nanquantile / _confidence_band, and the max-min oracle for the mean functional.
   scipy.optimize.isotonic_regression (mean functional) is external: modelled by PAV with the
   weighted-mean solver; np.quantile by the linear-interpolation quantile; np.interp (inside
   scipy's interp1d) by `interp`.  All tied by the correspondence check only. *)
From V Require Import lib.Tree.
Open Scope string_scope.
Open Scope list_scope.

Definition zq (z : Z) : Q := inject_Z z.
Definition nq (n : nat) : Q := inject_Z (Z.of_nat n).

(* ------------------------------------------------------------------------------------ *)
(* sorting (stable insertion sort w.r.t. a boolean "may stay in front of" relation)       *)
(* ------------------------------------------------------------------------------------ *)
Section Sort.
  Context {A : Type} (le : A -> A -> bool).
  Fixpoint sinsert (x : A) (l : list A) : list A :=
    match l with
    | [] => [x]
    | y :: t => if le x y then x :: l else y :: sinsert x t
    end.
  (* fold from the right: an earlier element is inserted later and lands in front of its equals *)
  Definition ssort (l : list A) : list A := fold_right sinsert [] l.
End Sort.
Definition isort : list Q -> list Q := ssort Qle_bool.

(* ------------------------------------------------------------------------------------ *)
(* block solvers                                                                          *)
(* ------------------------------------------------------------------------------------ *)
Definition item := (Q * Q)%type.                 (* (observation, weight) *)
Definition ys (l : list item) : list Q := map fst l.
Fixpoint sum_w (l : list item) : Q := match l with [] => 0 | (y, w) :: t => w + sum_w t end.
Fixpoint sum_wy (l : list item) : Q := match l with [] => 0 | (y, w) :: t => w * y + sum_wy t end.
Definition wmean (l : list item) : Q := sum_wy l / sum_w l.

Definition lmax (l : list Q) : Q := match l with [] => 0 | x :: t => fold_right (fun a m => if Qle_bool a m then m else a) x t end.
Definition lmin (l : list Q) : Q := match l with [] => 0 | x :: t => fold_right (fun a m => if Qle_bool a m then a else m) x t end.

(* np.quantile(a, q) (method "linear") on an already sorted list *)
Definition lin_quantile (s : list Q) (q : Q) : Q :=
  let pos := zq (Z.of_nat (length s) - 1) * q in
  let fl := Qfloor pos in
  let lo := nth (Z.to_nat fl) s 0 in
  let hi := nth (Z.to_nat (fl + 1)) s lo in
  lo + (hi - lo) * (pos - zq fl).

Inductive solver :=
  | SMean                    (* np.mean / np.average(y, weights=w); also the model of scipy's isotonic_regression *)
  | SQuantile (q : Q)        (* partial(np.quantile, q=alpha): ignores weights *)
  | SMax | SMin
  | SFirstMinusLen           (* a[0] - len(a): depends on the order inside the block *)
  | SSumOverLen              (* sum(w*y)/len(y) *)
  | SConst (c : Q).

Definition solve (s : solver) (l : list item) : Q :=
  match s with
  | SMean => wmean l
  | SQuantile q => lin_quantile (isort (ys l)) q
  | SMax => lmax (ys l)
  | SMin => lmin (ys l)
  | SFirstMinusLen => hd 0 (ys l) - nq (length l)
  | SSumOverLen => sum_wy l / nq (length l)
  | SConst c => c
  end.

(* storing a float into an integer array truncates toward zero (known finding: integer `obs`) *)
Definition qtrunc (x : Q) : Q := zq (Z.quot (Qnum x) (Zpos (Qden x))).
Definition solve_t (trunc : bool) (s : solver) (l : list item) : Q :=
  if trunc then qtrunc (solve s l) else solve s l.

(* ------------------------------------------------------------------------------------ *)
(* PAV: the state machine (done, cur, rest) of _contiguous_ir                             *)
(* ------------------------------------------------------------------------------------ *)
Record block := mkB { bitems : list item; bval : Q }.
Definition single (i : item) : block := mkB [i] (fst i).

(* the inner `while True`: absorb following blocks while not (prev < next) *)
Fixpoint take_run (prev : Q) (rest : list block) : list block * list block :=
  match rest with
  | [] => ([], [])
  | b :: t => if Qltb prev (bval b) then ([], rest)
              else let (r, s) := take_run (bval b) t in (b :: r, s)
  end.

Definition state := (list block * block * list block)%type.     (* done is stored reversed *)

Definition pav_step (sv : list item -> Q) (st : state) : option state :=
  let '(done, cur, rest) := st in
  match rest with
  | [] => None
  | nxt :: rest' =>
      if Qltb (bval cur) (bval nxt) then Some (cur :: done, nxt, rest')
      else
        let (run, rest'') := take_run (bval nxt) rest' in
        let items := bitems cur ++ flat_map bitems (nxt :: run) in
        let merged := mkB items (sv items) in
        match done with
        | [] => Some ([], merged, rest'')
        | p :: done' => Some (done', p, merged :: rest'')       (* backtrack one block *)
        end
  end.

Fixpoint pav_run (sv : list item -> Q) (fuel : nat) (st : state) : option (list block) :=
  match pav_step sv st with
  | None => let '(done, cur, _) := st in Some (rev (cur :: done))
  | Some st' => match fuel with O => None | S f => pav_run sv f st' end
  end.

Definition pav_blocks (sv : list item -> Q) (l : list item) : option (list block) :=
  match l with
  | [] => Some []
  | i :: t => pav_run sv (3 * length l) ([], single i, map single t)
  end.
Definition expand (bs : list block) : list Q := flat_map (fun b => map (fun _ => bval b) (bitems b)) bs.
(* out of fuel is unreachable (coq/proofs/C15.v: pav_fuel_sufficient); the empty list marks it *)
Definition pav (sv : list item -> Q) (l : list item) : list Q :=
  match pav_blocks sv l with Some bs => expand bs | None => [] end.

(* ------------------------------------------------------------------------------------ *)
(* _tidy_ir_inputs                                                                        *)
(* ------------------------------------------------------------------------------------ *)
Definition triple := (Q * Q * Q)%type.           (* forecast, observation, weight *)
Definition tf (t : triple) : Q := fst (fst t).
Definition to (t : triple) : Q := snd (fst t).
Definition tw (t : triple) : Q := snd t.
Definition titem (t : triple) : item := (to t, tw t).

Fixpoint valid_triples (fs os : list xv) (ws : option (list xv)) : list triple :=
  match fs, os with
  | f :: fs', o :: os' =>
      let w := match ws with None => XFin 1 | Some (w :: _) => w | Some [] => XNaN end in
      let ws' := match ws with None => None | Some l => Some (tl l) end in
      match f, o, w with
      | XFin f, XFin o, XFin w => (f, o, w) :: valid_triples fs' os' ws'
      | _, _, _ => valid_triples fs' os' ws'
      end
  | _, _ => []
  end.
(* np.lexsort((-obs, fcst)): forecast ascending, then observation descending; stable *)
Definition key_le (a b : triple) : bool :=
  Qltb (tf a) (tf b) || (Qeq_bool (tf a) (tf b) && Qle_bool (to b) (to a)).
Definition tsort : list triple -> list triple := ssort key_le.
Definition tidy (fs os : list xv) (ws : option (list xv)) : list triple := tsort (valid_triples fs os ws).

(* ------------------------------------------------------------------------------------ *)
(* _do_ir, unique forecasts, interpolation                                                *)
(* ------------------------------------------------------------------------------------ *)
Inductive functional := FMean | FQuantile (q : Q) | FSolver (s : solver).
Definition fsolver (trunc : bool) (f : functional) : list item -> Q :=
  match f with
  | FMean => solve SMean                       (* scipy allocates a float result: no truncation *)
  | FQuantile q => solve_t trunc (SQuantile q)
  | FSolver s => solve_t trunc s
  end.
Definition do_ir (trunc : bool) (f : functional) (t : list triple) : list Q := pav (fsolver trunc f) (map titem t).

(* np.unique(fcst_tidied, return_counts=True) together with the value at the last duplicate *)
Fixpoint uniq (xs vs : list Q) : list (Q * nat * Q) :=
  match xs, vs with
  | x :: xs', v :: vs' =>
      match uniq xs' vs' with
      | (x', c, v') :: r => if Qeq_bool x x' then (x', S c, v') :: r else (x, 1%nat, v) :: (x', c, v') :: r
      | [] => [(x, 1%nat, v)]
      end
  | _, _ => []
  end.

(* np.interp inside interp1d(bounds_error=False): NaN outside [x_first, x_last]; at a data
   point the value stored there (the last duplicate); linear in between *)
Fixpoint interp_at (xs ys : list Q) (x : Q) : xv :=
  match xs, ys with
  | x0 :: xs', y0 :: ys' =>
      match xs', ys' with
      | x1 :: _, y1 :: _ =>
          if Qle_bool x1 x then interp_at xs' ys' x
          else if Qeq_bool x x0 then XFin y0
          else XFin ((y1 - y0) / (x1 - x0) * (x - x0) + y0)
      | _, _ => if Qeq_bool x x0 then XFin y0 else XNaN
      end
  | _, _ => XNaN
  end.
Definition interp (xs ys : list Q) (x : Q) : xv :=
  match xs with [] => XNaN | x0 :: _ => if Qltb x x0 then XNaN else interp_at xs ys x end.

(* ------------------------------------------------------------------------------------ *)
(* bootstrap for given resampling indices, _nanquantile, _confidence_band                 *)
(* ------------------------------------------------------------------------------------ *)
Definition boot_row (trunc : bool) (f : functional) (t : list triple) (sel : list nat) : list xv :=
  match t with
  | [] => []
  | t0 :: _ =>
      let sample := tsort (map (fun i => nth i t t0) sel) in
      let fit := do_ir trunc f sample in
      map (fun p => interp (map tf sample) fit (tf p)) t
  end.

Definition zget (l : list Q) (i : Z) : Q :=               (* python indexing, negative from the end *)
  if (i <? 0)%Z then nth (Z.to_nat (Z.of_nat (length l) + i)) l 0 else nth (Z.to_nat i) l 0.
Definition finq (v : xv) : list Q := match v with XFin q => [q] | _ => [] end.
Definition nq_col (col : list xv) (m : option Q) (quant : Q) : xv :=
  match m with
  | None => XNaN                                          (* the whole matrix is NaN *)
  | Some m =>
      let cnt := length (flat_map finq col) in
      let s := isort (map (fun v => match v with XFin q => q | _ => m end) col) in
      let pos := zq (Z.of_nat cnt - 1) * quant in
      let fl := Qfloor pos in let ce := Qceiling pos in
      if (fl =? ce)%Z then XFin (zget s fl)
      else XFin (zget s fl * (zq ce - pos) + zget s ce * (pos - zq fl))
  end.
Definition columns (rows : list (list xv)) : list (list xv) :=
  match rows with
  | [] => []
  | r :: _ => map (fun j => map (fun row => nth j row XNaN) rows) (seq 0 (length r))
  end.
Definition nanquantile (rows : list (list xv)) (quant : Q) : list xv :=
  let fin := flat_map finq (concat rows) in
  let m := match fin with [] => None | _ => Some (lmax fin) end in
  map (fun col => nq_col col m quant) (columns rows).
Definition confidence_band (rows : list (list xv)) (conf : Q) (min_non_nan : Z) : list xv * list xv :=
  let sig := 1 - conf in
  let upper := nanquantile rows (1 - sig / 2) in
  let lower := nanquantile rows (sig / 2) in
  let ok := map (fun col => (min_non_nan <=? Z.of_nat (length (filter xnotnull col)))%Z) (columns rows) in
  let mask := fun vals : list xv => map (fun p : bool * xv => if fst p then snd p else XNaN) (combine ok vals) in
  (mask lower, mask upper).

(* ------------------------------------------------------------------------------------ *)
(* _iso_arg_checks and isotonic_fit                                                       *)
(* ------------------------------------------------------------------------------------ *)
Record args := mkArgs {
  a_fshape : list nat; a_oshape : list nat; a_wshape : option (list nat);
  a_fcst : list xv; a_obs : list xv; a_w : option (list xv);
  a_functional : option string; a_solver : option solver; a_q : option xv;
  a_boot : option Z; a_conf : option xv; a_intobs : bool }.

Definition shape_eqb (a b : list nat) : bool := if list_eq_dec Nat.eq_dec a b then true else false.
(* `not 0 < x < 1`: TypeError when x is None *)
Definition unit_open (x : option xv) : result bool :=
  match x with None => Err TypeError | Some v => Ok (xlt (XFin 0) v && xlt v (XFin 1)) end.

Definition arg_checks (a : args) : result functional :=
  do _ <- guard (negb (shape_eqb (a_fshape a) (a_oshape a))) ValueError ;;
  do _ <- match a_wshape a, a_w a with
          | Some ws, Some w =>
              do _ <- guard (negb (shape_eqb (a_fshape a) ws)) ValueError ;;
              guard (existsb (fun v => xle v (XFin 0)) w) ValueError
          | _, _ => Ok tt end ;;
  let f := a_functional a in
  let is := fun s => match f with Some x => String.eqb x s | None => false end in
  do _ <- guard (match f with None => false | Some _ => negb (is "mean" || is "quantile") end) ValueError ;;
  do _ <- (if is "quantile" then do ok <- unit_open (a_q a) ;; guard (negb ok) ValueError else Ok tt) ;;
  do _ <- guard (is "quantile" && match a_w a with Some _ => true | None => false end) ValueError ;;
  do _ <- guard (match f, a_solver a with None, None => true | _, _ => false end) ValueError ;;
  do _ <- guard (match f, a_solver a with Some _, Some _ => true | _, _ => false end) ValueError ;;
  do _ <- match a_boot a with
          | None => Ok tt
          | Some b => do _ <- guard (b <? 1)%Z ValueError ;;
                      do ok <- unit_open (a_conf a) ;; guard (negb ok) ValueError
          end ;;
  match f, a_solver a, a_q a with
  | Some _, _, Some (XFin q) => if is "quantile" then Ok (FQuantile q) else Ok FMean
  | Some _, _, _ => Ok FMean
  | None, Some s, _ => Ok (FSolver s)
  | None, None, _ => Err ValueError
  end.

Record fit := mkFit { f_tidy : list triple; f_func : functional; f_vals : list Q }.
Definition isotonic_fit_m (a : args) : result fit :=
  do f <- arg_checks a ;;
  let t := tidy (a_fcst a) (a_obs a) (a_w a) in
  do _ <- guard (match t with [] => true | _ => false end) ValueError ;;
  Ok (mkFit t f (do_ir (a_intobs a) f t)).

Definition fit_summary (r : fit) : list (Q * nat * Q) := uniq (map tf (f_tidy r)) (f_vals r).

(* bands at the unique forecasts: the value stored at the last duplicate *)
Fixpoint at_uniq (xs : list Q) (vs : list xv) : list xv :=
  match xs, vs with
  | x :: xs', v :: vs' =>
      match xs' with
      | x' :: _ => if Qeq_bool x x' then at_uniq xs' vs' else v :: at_uniq xs' vs'
      | [] => [v]
      end
  | _, _ => []
  end.

(* ------------------------------------------------------------------------------------ *)
(* the max-min oracle for the mean functional                                             *)
(* ------------------------------------------------------------------------------------ *)
(* pooled (forecast, sum of weights, sum of weight*obs) per distinct forecast, ascending *)
Fixpoint pool (t : list triple) : list (Q * Q * Q) :=
  match t with
  | [] => []
  | x :: t' =>
      match pool t' with
      | (f, sw, swy) :: r => if Qeq_bool (tf x) f then (f, sw + tw x, swy + tw x * to x) :: r
                             else (tf x, tw x, tw x * to x) :: (f, sw, swy) :: r
      | [] => [(tf x, tw x, tw x * to x)]
      end
  end.
(* averages of the segments starting at the head: A(1,1), A(1,2), ... *)
Fixpoint seg_means (sw swy : Q) (g : list (Q * Q * Q)) : list Q :=
  match g with
  | [] => []
  | (_, w, wy) :: r => ((swy + wy) / (sw + w)) :: seg_means (sw + w) (swy + wy) r
  end.
(* for the group at position i (0-based) of g: max over j <= i of min over k >= i of A(j,k) *)
Fixpoint maxmin_at (g : list (Q * Q * Q)) (i : nat) : option Q :=
  match g with
  | [] => None
  | _ :: r =>
      let here := lmin (skipn i (seg_means 0 0 g)) in          (* j = head: min over k >= i *)
      match i with
      | O => Some here
      | S i' => match maxmin_at r i' with
                | Some m => Some (if Qle_bool here m then m else here)
                | None => Some here end
      end
  end.
Definition maxmin_fit (t : list triple) : list Q :=
  let g := pool t in
  flat_map (fun i => match maxmin_at g i with Some v => [v] | None => [] end) (seq 0 (length g)).

(* the same oracle on the tidied sequence itself (no pooling): for position i,
   max over j <= i of min over k >= i of the weighted mean of items j..k  (coq/proofs/C15_maxmin.v) *)
Definition seg (l : list item) (j k : nat) : list item := firstn (k - j + 1) (skipn j l).
Definition maxmin_item (l : list item) (i : nat) : Q :=
  lmax (map (fun j => lmin (map (fun k => wmean (seg l j k)) (seq i (length l - i)))) (seq 0 (i + 1))).
Definition maxmin_items (l : list item) : list Q := map (maxmin_item l) (seq 0 (length l)).

(* ------------------------------------------------------------------------------------ *)
(* entries                                                                                *)
(* ------------------------------------------------------------------------------------ *)
Definition d_solver (r : raw) : option solver :=
  match r with
  | RL [n; p] =>
      let? n := d_str n in
      if String.eqb n "mean" then Some SMean
      else if String.eqb n "max" then Some SMax
      else if String.eqb n "min" then Some SMin
      else if String.eqb n "first_minus_len" then Some SFirstMinusLen
      else if String.eqb n "sum_over_len" then Some SSumOverLen
      else if String.eqb n "quantile" then (let? q := d_q p in Some (SQuantile q))
      else if String.eqb n "const" then (let? q := d_q p in Some (SConst q))
      else None
  | _ => None
  end.
Definition d_nats := d_list d_nat.
Definition e_q (q : Q) : raw := e_xv (XFin q).
Definition e_qs (l : list Q) : raw := RL (map e_q l).

Definition d_args (r : raw) : option args :=
  match r with
  | RL [fsh; osh; wsh; f; o; w; fn; sv; q; b; c; io] =>
      let? fsh := d_nats fsh in let? osh := d_nats osh in let? wsh := d_opt d_nats wsh in
      let? f := d_xvs f in let? o := d_xvs o in let? w := d_opt d_xvs w in
      let? fn := d_opt d_str fn in let? sv := d_opt d_solver sv in let? q := d_opt d_xv q in
      let? b := d_opt d_z b in let? c := d_opt d_xv c in let? io := d_bool io in
      Some (mkArgs fsh osh wsh f o w fn sv q b c io)
  | _ => None
  end.
Definition e_summary (s : list (Q * nat * Q)) : raw :=
  RL [e_qs (map (fun p => fst (fst p)) s); RL (map (fun p => e_nat (snd (fst p))) s); e_qs (map snd s)].

(* ------------------------------------------------------------------------------------ *)
(* infinite forecasts / observations / weights                                            *)
(* ------------------------------------------------------------------------------------ *)
(* For the code an infinite forecast is simply the largest / smallest explanatory value (np.lexsort, np.unique and the
   comparisons of PAV order +-inf like any other float; only NaN pairs are dropped).  The fit depends on the forecasts only
   through their ORDER (coq/proofs/C15_order.v: the tidy step, the fitted values and the counts commute with every strictly
   increasing relabelling of the forecasts), so the rational model is run on a relabelled problem: +inf |-> m, -inf |-> -m
   with m beyond every finite forecast, and the labels are mapped back in the summary.  Observations are treated the same
   way; this is faithful for the solvers max / min (they commute with increasing maps) and for quantile blocks whose
   interpolation never reads an infinite order statistic -- the harness sends infinite observations only for those.  An
   infinite weight is replaced by 1: only sent for solvers that ignore the weights. *)
Definition qbound (l : list xv) : Q :=
  fold_right (fun v m => match v with XFin q => let a := Qabs q + 1 in if Qle_bool a m then m else a | _ => m end) 1 l.
Definition emb (m : Q) (v : xv) : xv := match v with XInf true => XFin m | XInf false => XFin (- m) | _ => v end.
Definition unemb (m : Q) (q : Q) : xv :=
  if Qeq_bool q m then XInf true else if Qeq_bool q (- m) then XInf false else XFin q.
Definition emb_w (v : xv) : xv := match v with XInf true => XFin 1 | _ => v end.
Definition has_inf (l : list xv) : bool := existsb xisinf l.
Definition embed_args (mf mo : Q) (a : args) : args :=
  mkArgs (a_fshape a) (a_oshape a) (a_wshape a) (map (emb mf) (a_fcst a)) (map (emb mo) (a_obs a))
         (match a_w a with Some w => Some (map emb_w w) | None => None end)
         (a_functional a) (a_solver a) (a_q a) (a_boot a) (a_conf a) (a_intobs a).
(* fitted values are mapped back only when an observation was infinite (a finite fit may equal the bound by accident) *)
Definition unemb_o (oinf : bool) (mo : Q) (v : Q) : xv := if oinf then unemb mo v else XFin v.
Definition e_summary_x (mf : Q) (oinf : bool) (mo : Q) (s : list (Q * nat * Q)) : raw :=
  RL [e_xvs (map (fun p => unemb mf (fst (fst p))) s); RL (map (fun p => e_nat (snd (fst p))) s);
      e_xvs (map (fun p => unemb_o oinf mo (snd p)) s)].
Definition xv_bind (f : Q -> xv) (v : xv) : xv := match v with XFin q => f q | _ => XNaN end.

Definition entries_C15 : list entry := [
  (* args -> err | ( (unique fcst) (counts) (regression values) ) *)
  ("c15_fit", fun r => orun (
     let? a := d_args r in
     let mf := qbound (a_fcst a) in let mo := qbound (a_obs a) in
     Some (e_result (fun x => e_summary_x mf (has_inf (a_obs a)) mo (fit_summary x)) (isotonic_fit_m (embed_args mf mo a)))));
  (* ( args (x ...) ) -> regression_func at the given points (finite, -inf or +inf; the harness does not ask for finite
     points between a finite and an infinite forecast: interpolation is not invariant under relabelling) *)
  ("c15_func", fun r => orun (
     match r with RL [a; xs] =>
       let? a := d_args a in let? xs := d_xvs xs in
       let mf := qbound (a_fcst a ++ xs) in let mo := qbound (a_obs a) in
       Some (e_result (fun x => e_xvs (map (fun v => xv_bind (unemb_o (has_inf (a_obs a)) mo)
                                                      (xv_bind (interp (map tf (f_tidy x)) (f_vals x)) (emb mf v))) xs))
                      (isotonic_fit_m (embed_args mf mo a)))
     | _ => None end));
  (* ( args ((i ...) ...) min_non_nan ) -> ( (rows) (lower at unique) (upper at unique) ) *)
  ("c15_boot", fun r => orun (
     match r with RL [a; sels; mnn] =>
       let? a := d_args a in let? sels := d_list d_nats sels in let? mnn := d_z mnn in
       Some (e_result (fun x =>
               let rows := map (boot_row (a_intobs a) (f_func x) (f_tidy x)) sels in
               let conf := match a_conf a with Some (XFin c) => c | _ => 0 end in
               let '(lo, up) := confidence_band rows conf mnn in
               let fx := map tf (f_tidy x) in
               RL [RL (map e_xvs rows); e_xvs (at_uniq fx lo); e_xvs (at_uniq fx up)])
             (isotonic_fit_m a))
     | _ => None end));
  (* ( (y ...) (w ...)|none solver ) -> _contiguous_ir *)
  ("c15_pav", fun r => orun (
     match r with RL [y; w; sv] =>
       let? y := d_list d_q y in let? w := d_opt (d_list d_q) w in let? sv := d_solver sv in
       let items := match w with Some w => combine y w | None => map (fun v => (v, 1)) y end in
       Some (e_qs (pav (solve sv) items))
     | _ => None end));
  (* ( (fcst) (obs) (w)|none ) -> ( (unique fcst) (max-min of pooled block averages) (max-min on the tidied sequence) ) *)
  ("c15_maxmin", fun r => orun (
     match r with RL [f; o; w] =>
       let? f := d_xvs f in let? o := d_xvs o in let? w := d_opt d_xvs w in
       let mf := qbound f in
       let t := tidy (map (emb mf) f) o w in
       Some (RL [e_xvs (map (fun p => unemb mf (fst (fst p))) (pool t)); e_qs (maxmin_fit t);
                 e_qs (map snd (uniq (map tf t) (maxmin_items (map titem t))))])
     | _ => None end));
  (* ( ((row) ...) quant ) -> _nanquantile ;  ( ((row) ...) conf min_non_nan ) -> _confidence_band *)
  ("c15_nanquantile", fun r => orun (
     match r with RL [rows; q] =>
       let? rows := d_list d_xvs rows in let? q := d_q q in Some (e_xvs (nanquantile rows q))
     | _ => None end));
  ("c15_band", fun r => orun (
     match r with RL [rows; c; mnn] =>
       let? rows := d_list d_xvs rows in let? c := d_q c in let? mnn := d_z mnn in
       let '(lo, up) := confidence_band rows c mnn in Some (RL [e_xvs lo; e_xvs up])
     | _ => None end))
].
