(* model/C09.v -- contingency-table metrics (C09).
   The metric formulas themselves are regenerated from the source (coq/gen/Gen_C09_metrics.v:
   one definition per method of BasicContingencyManager, over the four counts, the natural
   logarithm a parameter).  This file holds
     - the documented formulas as specification functions over exact rationals (`spec_*`),
     - the hand model of the standalone probability_of_detection / probability_of_false_detection
       of categorical/binary_impl.py around the regenerated maps (Gen_C09_binary.v),
     - the entry table for the correspondence check. *)
From V Require Import lib.Tree gen.Gen_C09_metrics gen.Gen_C09_binary.
Open Scope string_scope.

(* ---- the IEEE value of a / b for finite a, b (a zero denominator is +0): the meaning of a
        documented quotient on a table with zero cells ---- *)
Definition ratio (a b : Q) : xv :=
  if Qeq_bool b 0 then (if Qeq_bool a 0 then XNaN else if Qle_bool 0 a then XInf true else XInf false)
  else XFin (a / b).

(* a count as a rational *)
Definition qn (n : nat) : Q := inject_Z (Z.of_nat n).

(* ---- documented formulas (docstrings of BasicContingencyManager), counts as rationals ---- *)
Definition total (tp fp fn tn : Q) := tp + fp + fn + tn.
Definition spec_accuracy (tp fp fn tn : Q) := ratio (tp + tn) (total tp fp fn tn).
Definition spec_base_rate (tp fp fn tn : Q) := ratio (tp + fn) (total tp fp fn tn).
Definition spec_forecast_rate (tp fp fn tn : Q) := ratio (tp + fp) (total tp fp fn tn).
Definition spec_frequency_bias (tp fp fn tn : Q) := ratio (tp + fp) (tp + fn).
Definition spec_pod (tp fp fn tn : Q) := ratio tp (tp + fn).
Definition spec_false_alarm_ratio (tp fp fn tn : Q) := ratio fp (tp + fp).
Definition spec_pofd (tp fp fn tn : Q) := ratio fp (tn + fp).
Definition spec_success_ratio (tp fp fn tn : Q) := ratio tp (tp + fp).
Definition spec_threat_score (tp fp fn tn : Q) := ratio tp (tp + fp + fn).
Definition spec_specificity (tp fp fn tn : Q) := ratio tn (tn + fp).
Definition spec_npv (tp fp fn tn : Q) := ratio tn (tn + fn).
Definition spec_f1 (tp fp fn tn : Q) := ratio (2 * tp) (2 * tp + fp + fn).
Definition spec_orss (tp fp fn tn : Q) := ratio (tp * tn - fn * fp) (tp * tn + fn * fp).
(* POD - POFD; undefined (NaN) as soon as one of the two observed classes is empty *)
Definition spec_peirce (tp fp fn tn : Q) :=
  if Qeq_bool (tp + fn) 0 || Qeq_bool (fp + tn) 0 then XNaN else XFin (tp / (tp + fn) - fp / (fp + tn)).
(* (tp - r) / (tp + fn + fp - r),  r = (tp+fn)(tp+fp)/total; NaN for the empty table *)
Definition hits_random (tp fp fn tn : Q) := (tp + fn) * (tp + fp) / total tp fp fn tn.
Definition spec_ets (tp fp fn tn : Q) :=
  if Qeq_bool (total tp fp fn tn) 0 then XNaN
  else ratio (tp - hits_random tp fp fn tn) (tp + fn + fp - hits_random tp fp fn tn).
(* (tp + tn - E) / (total - E),  E = ((tp+fn)(tp+fp) + (tn+fn)(tn+fp))/total; NaN for the empty table *)
Definition exp_correct (tp fp fn tn : Q) := ((tp + fn) * (tp + fp) + (tn + fn) * (tn + fp)) / total tp fp fn tn.
Definition spec_heidke (tp fp fn tn : Q) :=
  if Qeq_bool (total tp fp fn tn) 0 then XNaN
  else ratio (tp + tn - exp_correct tp fp fn tn) (total tp fp fn tn - exp_correct tp fp fn tn).
(* the documented closed form of the odds ratio *)
Definition spec_odds_ratio (tp fp fn tn : Q) := ratio (tp * tn) (fp * fn).
(* SEDI relative to a logarithm: the four log-arguments and their combination *)
Definition one_minus (v : xv) : xv := xsub (XFin 1) v.
Definition sedi_args (tp fp fn tn : Q) : list xv :=
  [spec_pofd tp fp fn tn; spec_pod tp fp fn tn; one_minus (spec_pod tp fp fn tn); one_minus (spec_pofd tp fp fn tn)].
Definition spec_sedi (tp fp fn tn : Q) (ln : xv -> xv) : xv :=
  let a := ln (spec_pofd tp fp fn tn) in let b := ln (spec_pod tp fp fn tn) in
  let c := ln (one_minus (spec_pod tp fp fn tn)) in let d := ln (one_minus (spec_pofd tp fp fn tn)) in
  xdiv (xsub (xadd (xsub a b) c) d) (xadd (xadd (xadd a b) c) d).

(* ---- name tables: every public metric method, and the documented formula it must equal ---- *)
Definition metric_fn := (xv -> xv) -> xv -> xv -> xv -> xv -> xv.
Definition gen_metrics : list (string * metric_fn) := [
  ("accuracy", gen_metric_accuracy); ("base_rate", gen_metric_base_rate); ("forecast_rate", gen_metric_forecast_rate);
  ("fraction_correct", gen_metric_fraction_correct); ("frequency_bias", gen_metric_frequency_bias);
  ("bias_score", gen_metric_bias_score); ("hit_rate", gen_metric_hit_rate);
  ("probability_of_detection", gen_metric_probability_of_detection); ("true_positive_rate", gen_metric_true_positive_rate);
  ("false_alarm_ratio", gen_metric_false_alarm_ratio); ("false_alarm_rate", gen_metric_false_alarm_rate);
  ("probability_of_false_detection", gen_metric_probability_of_false_detection); ("success_ratio", gen_metric_success_ratio);
  ("threat_score", gen_metric_threat_score); ("critical_success_index", gen_metric_critical_success_index);
  ("peirce_skill_score", gen_metric_peirce_skill_score); ("true_skill_statistic", gen_metric_true_skill_statistic);
  ("hanssen_and_kuipers_discriminant", gen_metric_hanssen_and_kuipers_discriminant); ("sensitivity", gen_metric_sensitivity);
  ("specificity", gen_metric_specificity); ("true_negative_rate", gen_metric_true_negative_rate); ("recall", gen_metric_recall);
  ("precision", gen_metric_precision); ("positive_predictive_value", gen_metric_positive_predictive_value);
  ("negative_predictive_value", gen_metric_negative_predictive_value); ("f1_score", gen_metric_f1_score);
  ("equitable_threat_score", gen_metric_equitable_threat_score); ("gilberts_skill_score", gen_metric_gilberts_skill_score);
  ("heidke_skill_score", gen_metric_heidke_skill_score); ("cohens_kappa", gen_metric_cohens_kappa);
  ("odds_ratio", gen_metric_odds_ratio); ("odds_ratio_skill_score", gen_metric_odds_ratio_skill_score);
  ("yules_q", gen_metric_yules_q);
  ("symmetric_extremal_dependence_index", gen_metric_symmetric_extremal_dependence_index) ].

Definition spec_fn := Q -> Q -> Q -> Q -> xv.
Definition spec_metrics : list (string * spec_fn) := [
  ("accuracy", spec_accuracy); ("base_rate", spec_base_rate); ("forecast_rate", spec_forecast_rate);
  ("fraction_correct", spec_accuracy); ("frequency_bias", spec_frequency_bias); ("bias_score", spec_frequency_bias);
  ("hit_rate", spec_pod); ("probability_of_detection", spec_pod); ("true_positive_rate", spec_pod);
  ("false_alarm_ratio", spec_false_alarm_ratio); ("false_alarm_rate", spec_pofd);
  ("probability_of_false_detection", spec_pofd); ("success_ratio", spec_success_ratio);
  ("threat_score", spec_threat_score); ("critical_success_index", spec_threat_score);
  ("peirce_skill_score", spec_peirce); ("true_skill_statistic", spec_peirce);
  ("hanssen_and_kuipers_discriminant", spec_peirce); ("sensitivity", spec_pod);
  ("specificity", spec_specificity); ("true_negative_rate", spec_specificity); ("recall", spec_pod);
  ("precision", spec_success_ratio); ("positive_predictive_value", spec_success_ratio);
  ("negative_predictive_value", spec_npv); ("f1_score", spec_f1);
  ("equitable_threat_score", spec_ets); ("gilberts_skill_score", spec_ets);
  ("heidke_skill_score", spec_heidke); ("cohens_kappa", spec_heidke);
  ("odds_ratio", spec_odds_ratio); ("odds_ratio_skill_score", spec_orss); ("yules_q", spec_orss) ].

(* a logarithm given by a finite table computed by the host (math.log on the model's exact arguments):
   anything not in the table is NaN, so a wrong argument shows up as a disagreement *)
Fixpoint lookup_log (tbl : list (xv * xv)) (x : xv) : xv :=
  match tbl with
  | [] => XNaN
  | (a, v) :: t => if xeqb a x then v else lookup_log t x
  end.
Definition no_log : xv -> xv := fun _ => XNaN.

(* ---- standalone POD / POFD (categorical/binary_impl.py) ---- *)
Definition is_binary_or_nan (v : xv) : bool :=
  match v with XNaN => true | XFin q => Qeq_bool q 0 || Qeq_bool q 1 | XInf _ => false end.
Definition values (a : larr) : list xv := snd (to_flat a).
Definition check_binary (a : larr) : result unit :=
  if forallb is_binary_or_nan (values a) then Ok tt else Err ValueError.

Definition ratio_of_maps (m1 m2 : xv -> xv -> xv) (fin : xv -> xv -> xv)
    (fcst obs : larr) (rd pd : dimspec) (w : option larr) (check_args : bool) : result larr :=
  do _ <- (if check_args then rbind (check_binary fcst) (fun _ => check_binary obs) else Ok tt) ;;
  do R <- gather (ldims fcst) (ldims obs) None rd pd DNone ;;
  let a := sum_score (lzip m1 fcst obs) w R in
  let b := sum_score (lzip m2 fcst obs) w R in
  Ok (lzip fin a b).

Definition binary_pod_m := ratio_of_maps (fun f o => fst (gen_pod_maps f o)) (fun f o => snd (gen_pod_maps f o)) gen_pod_ratio.
Definition binary_pofd_m := ratio_of_maps (fun f o => fst (gen_pofd_maps f o)) (fun f o => snd (gen_pofd_maps f o)) gen_pofd_ratio.

(* ---- entries ---- *)
Definition d_table (r : raw) : option (xv * xv * xv * xv) :=
  match r with RL [a; b; c; d] =>
    let? a := d_xv a in let? b := d_xv b in let? c := d_xv c in let? d := d_xv d in Some (a, b, c, d)
  | _ => None end.
Definition q_of (v : xv) : Q := match v with XFin q => q | _ => 0 end.
Definition named (n : string) (v : xv) : raw := RL [e_str n; e_xv v].

Definition run_gen (ln : xv -> xv) (t : xv * xv * xv * xv) : raw :=
  let '(tp, fp, fn, tn) := t in RL (map (fun p => named (fst p) (snd p ln tp fp fn tn)) gen_metrics).
Definition run_spec (t : xv * xv * xv * xv) : raw :=
  let '(tp, fp, fn, tn) := t in
  RL (map (fun p => named (fst p) (snd p (q_of tp) (q_of fp) (q_of fn) (q_of tn))) spec_metrics).

Definition entries_C09 : list entry := [
  (* list of tables (tp fp fn tn) -> per table the (name value) pairs of the regenerated methods and of the formulas *)
  ("c09_metrics", fun r => orun (
     let? ts := d_list d_table r in
     Some (RL (map (fun t => RL [run_gen no_log t; run_spec t]) ts))));
  (* the four arguments SEDI applies the logarithm to *)
  ("c09_sedi_args", fun r => orun (
     let? t := d_table r in let '(tp, fp, fn, tn) := t in
     Some (e_xvs (sedi_args (q_of tp) (q_of fp) (q_of fn) (q_of tn)))));
  (* table + host-evaluated logarithm table, a list of (arg value) pairs, -> (regenerated SEDI, specification SEDI) *)
  ("c09_sedi", fun r => orun (
     match r with RL [t; tbl] =>
       let? t := d_table t in
       let? tbl := d_list (fun p => match p with RL [a; v] => let? a := d_xv a in let? v := d_xv v in Some (a, v) | _ => None end) tbl in
       let '(tp, fp, fn, tn) := t in
       let ln := lookup_log tbl in
       Some (RL [e_xv (gen_metric_symmetric_extremal_dependence_index ln tp fp fn tn);
                 e_xv (spec_sedi (q_of tp) (q_of fp) (q_of fn) (q_of tn) ln)])
     | _ => None end));
  ("c09_binary_pod_pofd", fun r => orun (
     match r with RL [f; o; rd; pd; w; ca] =>
       let? f := d_larr f in let? o := d_larr o in let? rd := d_dimspec rd in let? pd := d_dimspec pd in
       let? w := d_opt d_larr w in let? ca := d_bool ca in
       Some (RL [e_result e_larr (binary_pod_m f o rd pd w ca); e_result e_larr (binary_pofd_m f o rd pd w ca)])
     | _ => None end))
].
