(* model/C17.v -- entry table of property C17 (CDF repair tools, adjust_fcst_for_crps).  Models: model/Cdf.v. *)
From V Require Import lib.Tree model.Cdf model.C07.
Open Scope string_scope.

Definition d_lines := d_list d_xvs.
Definition e_lines (l : list (list xv)) : raw := RL (map e_xvs l).
Definition d_case2 (r : raw) : option (list xv * xv) :=
  match r with RL [f; o] => let? f := d_xvs f in let? o := d_xv o in Some (f, o) | _ => None end.

Definition entries_C17 : list entry := [
  (* ( lines ) -> ( (original upper lower) per line ) *)
  ("c17_envelope", fun r => orun (
     let? ls := d_lines r in Some (RL (map (fun l => RL [e_xvs l; e_xvs (env_upper l); e_xvs (env_lower l)]) ls))));
  (* ( thresholds lines 'method min_nonnan ) *)
  ("c17_fill", fun r => orun (
     match r with RL [ts; ls; m; mn] =>
       let? ts := d_qs ts in let? ls := d_lines ls in let? m := d_fillm m in let? mn := d_z mn in
       match m with
       | Some m => Some (if fill_guard m mn ls then e_err ValueError else e_lines (map (fill_line m (Z.to_nat mn) ts) ls))
       | None => Some (e_err ValueError) end
     | _ => None end));
  (* ( thresholds lines new_thresholds 'method|'none min_nonnan ) -> ( grid lines ) *)
  ("c17_add_thresholds", fun r => orun (
     match r with RL [ts; ls; new; m; mn] =>
       let? ts := d_qs ts in let? ls := d_lines ls in let? new := d_xvs new in let? ms := d_str m in let? m := d_fillm m in let? mn := d_z mn in
       let grid := add_grid ts new in
       let re := map (fun l => reindex ts l grid) ls in
       if String.eqb ms "none" then Some (RL [RL (map e_q grid); e_lines re]) else
       match m with
       | Some m => Some (if fill_guard m mn re then e_err ValueError
                         else RL [RL (map e_q grid); e_lines (map (fill_line m (Z.to_nat mn) grid) re)])
       | None => Some (e_err ValueError) end
     | _ => None end));
  (* ( thresholds lines tolerance ) -> ( bool per line ) *)
  ("c17_decreasing", fun r => orun (
     match r with RL [ts; ls; tol] =>
       let? ts := d_qs ts in let? ls := d_lines ls in let? tol := d_q tol in
       Some (if decreasing_guard tol ts ls then e_err ValueError else RL (map (fun l => e_bool (decreasing_line tol l)) ls))
     | _ => None end));
  ("c17_propagate", fun r => orun (let? ls := d_lines r in Some (e_lines (map propagate_nan_m ls))));
  (* ( obs_values thresholds ) -> ( line per obs ) on the given (sorted, finite) grid *)
  ("c17_observed_cdf", fun r => orun (
     match r with RL [os; ts] => let? os := d_xvs os in let? ts := d_qs ts in
       Some (e_lines (map (fun o => observed_cdf_line o ts) os)) | _ => None end));
  (* ( values precision final ) *)
  ("c17_round", fun r => orun (
     match r with RL [vs; p; fin] => let? vs := d_xvs vs in let? p := d_q p in let? fin := d_bool fin in
       Some (if Qltb p 0 then e_err ValueError else e_xvs (map (round_values_m p fin) vs)) | _ => None end));
  (* ( thresholds ((fcst_line obs) per case) additional 'ffm 'integration tolerance ) -> adjusted lines *)
  ("c17_adjust", fun r => orun (
     match r with RL [ts; cs; add; ffm; im; tol] =>
       let? ts := d_qs ts in let? cs := d_list d_case2 cs in let? add := d_xvs add in let? ffm := d_fillm ffm in
       let? im := d_str im in let? tol := d_q tol in
       match ffm, (String.eqb im "exact" || String.eqb im "trapz") with
       | Some ffm, true => Some (e_result e_lines (adjust_cases tol ts cs add ffm (String.eqb im "exact")))
       | _, _ => Some (RA "err:BadOption") end
     | _ => None end))
].
