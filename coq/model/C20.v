(* model/C20.v -- entry points evaluating the regenerated guard clauses (C20). *)
From V Require Import lib.Tree gen.Gen_C20_guards.
Open Scope string_scope.

Definition e_guard (g : option err) : raw := match g with None => RA "ok" | Some e => e_err e end.
Definition g1 (f : xv -> option err) : raw -> raw :=
  fun r => orun (match r with RL [a] => let? a := d_xv a in Some (e_guard (f a)) | _ => None end).
Definition gs1 (f : string -> option err) : raw -> raw :=
  fun r => orun (match r with RL [a] => let? a := d_str a in Some (e_guard (f a)) | _ => None end).

Definition entries_C20 : list entry := [
  ("g_quantile_score", g1 gen_guard_quantile_score);
  ("g_interval_score", g1 gen_guard_interval_score);
  ("g_consistent_expectile", g1 gen_guard_consistent_expectile);
  ("g_consistent_quantile", g1 gen_guard_consistent_quantile);
  ("g_consistent_huber", g1 gen_guard_consistent_huber);
  ("g_tw_quantile", g1 gen_guard_tw_quantile);
  ("g_tw_expectile", g1 gen_guard_tw_expectile);
  ("g_tw_huber", g1 gen_guard_tw_huber);
  ("g_round_values", g1 gen_guard_round_values);
  ("g_observed_cdf", g1 gen_guard_observed_cdf);
  ("g_adjust_fcst", g1 gen_guard_adjust_fcst_for_crps);
  ("g_nan_decreasing", g1 gen_guard_check_nan_decreasing_inputs);
  ("g_crps_ensemble", gs1 gen_guard_crps_for_ensemble);
  ("g_tail", gs1 gen_guard_tail_tw_crps);
  ("g_qis", fun r => orun (match r with RL [a; b] =>
      let? a := d_xv a in let? b := d_xv b in Some (e_guard (gen_guard_qis a b)) | _ => None end));
  ("g_discretise", fun r => orun (match r with RL [a] =>
      let? a := d_opt d_xv a in Some (e_guard (gen_guard_comparative_discretise a)) | _ => None end));
  ("g_firm", fun r => orun (match r with RL [a; b; c] =>
      let? a := d_xv a in let? b := d_xv b in let? c := d_str c in Some (e_guard (gen_guard_firm a b c)) | _ => None end));
  ("g_dm", fun r => orun (match r with RL [a; b; c] =>
      let? a := d_xv a in let? b := d_str b in let? c := d_str c in Some (e_guard (gen_guard_diebold_mariano a b c)) | _ => None end));
  ("g_murphy_score", fun r => orun (match r with RL [a; b; c] =>
      let? a := d_xv a in let? b := d_str b in let? c := d_opt d_xv c in Some (e_guard (gen_guard_murphy_score a b c)) | _ => None end));
  ("g_murphy_thetas", fun r => orun (match r with RL [a; b; c] =>
      let? a := d_str a in let? b := d_opt d_xv b in let? c := d_opt d_xv c in Some (e_guard (gen_guard_murphy_thetas a b c)) | _ => None end));
  ("g_fill_cdf", fun r => orun (match r with RL [a; b] =>
      let? a := d_xv a in let? b := d_str b in Some (e_guard (gen_guard_fill_cdf a b)) | _ => None end));
  ("g_iso", fun r => orun (match r with RL [a; b; c] =>
      let? a := d_opt d_str a in let? b := d_xv b in let? c := d_xv c in Some (e_guard (gen_guard_iso_arg_checks a b c)) | _ => None end));
  ("g_iso_weight", fun r => orun (match r with RL [a] =>
      let? a := d_xvs a in Some (e_guard (gen_guard_iso_weight a)) | _ => None end));
  ("g_crps_cdf_inputs", fun r => orun (match r with RL [a; b; c] =>
      let? a := d_xvs a in let? b := d_str b in let? c := d_str c in Some (e_guard (gen_guard_crps_cdf_inputs a b c)) | _ => None end))
].
