(* model/C19.v -- executable model of the modified Diebold-Mariano statistics (C19).
   stats/statistical_tests/diebold_mariano_impl.py: per series (NaN removed) the mean, the direct
   biased autocovariances, V_hat from lags 0..h-1, the Harvey-Leybourne-Newbold factor, the
   degenerate all-zero branch and the confidence-interval formulas.  Square roots are not
   computable over Q: the statistic is carried as its SIGNED SQUARE  sign(mean) * mean^2 * factor / V_hat
   (the harness applies the host's sqrt); the HG statistic needs scipy's least_squares and is carried
   as the exact inputs of the fit.  No proofs here (coq/proofs/C19*.v). *)
From V Require Import lib.Tree.
Open Scope string_scope.
Open Scope Q_scope.

Definition qn (n : nat) : Q := inject_Z (Z.of_nat n).
Definition qlen (d : list Q) : Q := qn (length d).
Definition qmean (d : list Q) : Q := qsum d / qlen d.

(* diffs[k:n] paired with diffs[0:n-k] *)
Definition lag_pairs (d : list Q) (k : nat) : list (Q * Q) := combine (skipn k d) (firstn (length d - k) d).
(* _dm_gamma_hat_k: (n - k) * gamma_hat_star_k = sum (d[t] - m) (d[t-k] - m) *)
Definition gamma (d : list Q) (m : Q) (k : nat) : Q :=
  qsum (map (fun p => (fst p - m) * (snd p - m)) (lag_pairs d k)).

(* _dm_v_hat before the sign test: (gamma_0 + 2 * sum_{k=1}^{h-1} gamma_k) / n^2 *)
Definition v_hat_q (d : list Q) (m : Q) (h : nat) : Q :=
  let n := qlen d in
  (gamma d m 0 + 2 * qsum (map (fun k => gamma d m (S k)) (seq 0 (h - 1)))) / (n * n).
(* `if result <= 0: result = np.nan` *)
Definition v_hat (d : list Q) (m : Q) (h : nat) : xv :=
  let r := v_hat_q d m h in if Qle_bool r 0 then XNaN else XFin r.

(* Harvey (1997) equation (9) *)
Definition hln_factor (n h : Q) : Q := (n + 1 - 2 * h + h * (h - 1) / n) / n.

(* _hln_method_stat, as the signed square of  mean / V^0.5 * factor^0.5  *)
Definition hln_sq (d : list Q) (h : nat) : xv :=
  let m := qmean d in
  match v_hat d m h with
  | XFin v => XFin (m * Qabs m * hln_factor (qlen d) (qn h) / v)
  | _ => XNaN
  end.
(* squared standard error  (mean / statistic)^2 = V_hat / factor  (defined whenever V_hat is) *)
Definition hln_se_sq (d : list Q) (h : nat) : xv :=
  match v_hat d (qmean d) h with
  | XFin v => XFin (v / hln_factor (qlen d) (qn h))
  | _ => XNaN
  end.

Definition all_zero (d : list Q) : bool := forallb (fun x => Qeq_bool x 0) d.
(* _dm_test_statistic, method HLN (after NaN removal and the h check) *)
Definition dm_stat_hln (d : list Q) (h : nat) : xv := if all_zero d then XNaN else hln_sq d h.

(* acovf: the direct biased estimator the FFT routine must reproduce, lag k *)
Definition acov (d : list Q) (k : nat) : Q := gamma d (qmean d) k / qlen d.
(* _hg_method_stat: max_lag = int(max(floor((n - 1) / 2), h)); sample_autocvs = acovf(diffs)[0:max_lag] *)
Definition hg_max_lag (n h : nat) : nat := Nat.max (Nat.div2 (n - 1)) h.
Definition hg_sample (d : list Q) (h : nat) : list Q := map (acov d) (seq 0 (Nat.min (hg_max_lag (length d) h) (length d))).

(* confidence interval formulas, faithful IEEE-style evaluation *)
Definition ci_upper_m (m q s : xv) : xv := xmul m (xadd X1 (xdiv q s)).
Definition ci_lower_m (m q s : xv) : xv := xmul m (xsub X1 (xdiv q s)).

(* ---- the public function: guards and the per-series loop ---- *)
Definition qvalids (l : list xv) : list Q := flat_map (fun v => match v with XFin q => [q] | _ => [] end) l.
Definition is_int_x (v : xv) : bool :=          (* h % 1 == 0 *)
  match v with XFin q => Qeq_bool (inject_Z (Qfloor q)) q | _ => false end.
Definition h_nat (v : xv) : nat := match v with XFin q => Z.to_nat (Qfloor q) | _ => O end.

Record dm_row := { r_mean : xv; r_stat_sq : xv; r_len : nat; r_se_sq : xv; r_allzero : bool;
                   r_gammas : list Q; r_hg_sample : list Q }.

Definition dm_row_of (series : list xv) (hv : xv) : dm_row :=
  let d := qvalids series in
  let h := h_nat hv in
  {| r_mean := nanmean series;
     r_stat_sq := dm_stat_hln d h;
     r_len := length d;
     r_se_sq := if all_zero d then XNaN else hln_se_sq d h;
     r_allzero := all_zero d;
     r_gammas := map (gamma d (qmean d)) (seq 0 (length d));
     r_hg_sample := hg_sample d h |}.

Definition str_in (s : string) (l : list string) : bool := existsb (String.eqb s) l.

Definition diebold_mariano_m (rows : list (list xv)) (hs : list xv) (method : string) (cl : xv) (dist : string)
  : result (list dm_row) :=
  if negb (str_in method ["HLN"; "HG"]) then Err ValueError else
  if negb (str_in dist ["normal"; "t"]) then Err ValueError else
  if negb (xlt X0 cl && xlt cl X1) then Err ValueError else
  if existsb (fun h => negb (is_int_x h)) hs then Err ValueError else
  if existsb (fun h => xle h X0) hs then Err ValueError else
  if existsb (fun p => xle (xofnat (nancount (fst p))) (snd p)) (combine rows hs) then Err ValueError else
  Ok (map (fun p => dm_row_of (fst p) (snd p)) (combine rows hs)).

(* ---- entry table ---- *)
Definition c19_e_q (q : Q) : raw := e_xv (XFin q).
Definition e_row (r : dm_row) : raw :=
  RL [e_xv (r_mean r); e_xv (r_stat_sq r); e_nat (r_len r); e_xv (r_se_sq r); e_bool (r_allzero r);
      RL (map c19_e_q (r_gammas r)); RL (map c19_e_q (r_hg_sample r))].

Definition entries_C19 : list entry := [
  (* ( ( series ... ) ( h ... ) 'method cl 'dist ) -> ( row ... ) | err *)
  ("c19_dm", fun r => orun (
     match r with RL [rows; hs; me; cl; di] =>
       let? rows := d_list d_xvs rows in let? hs := d_xvs hs in let? me := d_str me in
       let? cl := d_xv cl in let? di := d_str di in
       Some (e_result (fun l => RL (map e_row l)) (diebold_mariano_m rows hs me cl di))
     | _ => None end));
  (* ( mean q stat ) -> ( ci_upper ci_lower ) *)
  ("c19_ci", fun r => orun (
     match r with RL [m; q; s] =>
       let? m := d_xv m in let? q := d_xv q in let? s := d_xv s in
       Some (RL [e_xv (ci_upper_m m q s); e_xv (ci_lower_m m q s)])
     | _ => None end))
].
