(* model/C11.v -- executable models for C11 (Murphy scores and murphy_thetas).
   The three elementary scores and the NaN merge pipeline come from coq/gen (regenerated from source);
   `_check_murphy_inputs`, the broadcasting / NaN matching, the mean and `murphy_thetas` (sorted unique union of
   forecasts, left-limit points, observations, obs +- a, NaN dropped) are a hand model validated by the
   correspondence check.  No proofs here (coq/proofs/C11*.v). *)
From Coq Require Import Ascii.
From V Require Import lib.Tree gen.Gen_C11_kern.
From V Require Export model.C11_spec.
Open Scope string_scope.

(* ------------------------------------------------------------------------------------------ *)
(* murphy_score                                                                                *)
(* ------------------------------------------------------------------------------------------ *)
Definition lower_char (c : ascii) : ascii :=
  let n := nat_of_ascii c in if (Nat.leb 65 n && Nat.leb n 90)%bool then ascii_of_nat (n + 32) else c.
Fixpoint lower_str (s : string) : string :=
  match s with EmptyString => EmptyString | String c t => String (lower_char c) (lower_str t) end.

Definition valid_functional (s : string) : bool := String.eqb s "quantile" || String.eqb s "huber" || String.eqb s "expectile".

(* _check_murphy_inputs: keyword-only alpha, functional, huber_a, left_limit_delta, each optional *)
Definition check_murphy_inputs (alpha : option xv) (functional : option string) (huber_a delta : option xv) : result unit :=
  if match alpha with Some a => negb (xlt X0 a && xlt a X1) | None => false end then Err ValueError else
  if match functional with Some s => negb (valid_functional s) | None => false end then Err ValueError else
  if match functional with Some s => String.eqb s "huber" | None => false end
     && match huber_a with None => true | Some a => xle a X0 end then Err ValueError else
  if match delta with Some d => xlt d X0 | None => false end then Err ValueError else
  Ok tt.

Definition murphy_kernel (functional : string) (f o t alpha : xv) (huber_a : option xv) : xv * xv :=
  if String.eqb functional "quantile" then gen_murphy_quantile f o t alpha
  else if String.eqb functional "huber" then gen_murphy_huber f o t alpha (opt_get huber_a)
  else gen_murphy_expectile f o t alpha.

(* broadcast_and_match_nan: a NaN in any of the three arrays is forced onto all *)
Definition matched (t f o : xv) : xv * xv * xv :=
  if xisnan t || xisnan f || xisnan o then (XNaN, XNaN, XNaN) else (t, f, o).

(* pointwise (total, part2, part3) in the order of gen_murphy_merge_names *)
Definition murphy_point (functional : string) (alpha : xv) (huber_a : option xv) (t f o : xv) : xv * xv * xv :=
  let '(t1, f1, o1) := matched t f o in
  let '(over, under) := murphy_kernel functional f1 o1 t1 alpha huber_a in
  gen_murphy_merge over under f1.

Definition larr3 (theta fcst obs : larr) (g : env -> xv) : larr :=
  {| ldims := dunion (dunion (ldims theta) (ldims fcst)) (ldims obs);
     lsize := fun d => if mem d (ldims theta) then lsize theta d else if mem d (ldims fcst) then lsize fcst d else lsize obs d;
     lget := g |}.

Definition murphy_score_m (fcst obs theta : larr) (functional : string) (alpha : xv) (huber_a : option xv)
                          (decomposition : bool) (rd pd : dimspec) : result (list (string * larr)) :=
  let fl := lower_str functional in
  do _ <- check_murphy_inputs (Some alpha) (Some fl) huber_a None ;;
  let pt e := murphy_point fl alpha huber_a (lget theta e) (lget fcst e) (lget obs e) in
  let v1 := larr3 theta fcst obs (fun e => fst (fst (pt e))) in
  let v2 := larr3 theta fcst obs (fun e => snd (fst (pt e))) in
  let v3 := larr3 theta fcst obs (fun e => snd (pt e)) in
  do R <- gather (ldims fcst) (ldims obs) None rd pd DNone ;;
  let vars := if decomposition then [v1; v2; v3] else [v1] in
  Ok (combine gen_murphy_merge_names (map (lreduce nanmean R) vars)).

(* ------------------------------------------------------------------------------------------ *)
(* murphy_thetas                                                                               *)
(* ------------------------------------------------------------------------------------------ *)
(* insertion into a strictly increasing list (np.unique: sorted, duplicates collapsed) *)
Fixpoint xinsert (x : xv) (l : list xv) : list xv :=
  match l with
  | [] => [x]
  | y :: t => if xeqv x y then l else if xlt x y then x :: l else y :: xinsert x t
  end.
Definition xsort_uniq (l : list xv) : list xv := fold_right xinsert [] (filter xnotnull l).

Definition theta_points (functional : string) (fcsts : list (list xv)) (obs : list xv) (huber_a : xv) (delta : xv) : list xv :=
  let fc := concat fcsts in
  if String.eqb functional "quantile" then fc ++ obs
  else if String.eqb functional "huber" then
    fc ++ map (fun v => xsub v delta) fc ++ obs ++ map (fun v => xsub v huber_a) obs ++ map (fun v => xadd v huber_a) obs
  else fc ++ map (fun v => xsub v delta) fc ++ obs.

Definition murphy_thetas_m (fcsts : list (list xv)) (obs : list xv) (functional : string)
                           (huber_a delta : option xv) : result (list xv) :=
  do _ <- check_murphy_inputs None (Some functional) huber_a delta ;;
  let delta' := match delta with None => X0 | Some d => d end in       (* None is treated as 0 *)
  Ok (xsort_uniq (theta_points functional fcsts obs (opt_get huber_a) delta')).

Definition e_named (p : string * larr) : raw := RL [e_str (fst p); e_larr (snd p)].

Definition entries_C11 : list entry := [
  (* the three generated elementary scores (over, under), the merged (total, under, over) and the specification values *)
  ("c11_k_elementary", fun r => orun (
     match r with RL [fn; f; o; t; alpha; a] =>
       let? fn := d_str fn in let? f := d_xv f in let? o := d_xv o in let? t := d_xv t in let? alpha := d_xv alpha in let? a := d_xv a in
       let '(over, under) := murphy_kernel fn f o t alpha (Some a) in
       let '(tot, p2, p3) := gen_murphy_merge over under f in
       (* specification values (total, under, over) on the extended reals: whenever no argument is NaN and the penalty size
          is defined (model/C11_spec.v); on rational arguments these are the es_* values (C11_extended_agrees_on_rationals) *)
       let spec := match alpha, a with
                   | XFin al, XFin a =>
                       if xisnan f || xisnan o || xisnan t then []
                       else if String.eqb fn "quantile" then
                         [xadd (esx_quantile_over al f o t) (esx_quantile_under al f o t); esx_quantile_under al f o t; esx_quantile_over al f o t]
                       else if negb (size_defined o t) then []
                       else if String.eqb fn "huber" then
                         [xadd (esx_huber_over al a f o t) (esx_huber_under al a f o t); esx_huber_under al a f o t; esx_huber_over al a f o t]
                       else [xadd (esx_expectile_over al f o t) (esx_expectile_under al f o t); esx_expectile_under al f o t; esx_expectile_over al f o t]
                   | _, _ => [] end in
       Some (RL [e_xvs [over; under]; e_xvs [tot; p2; p3]; e_xvs spec])
     | _ => None end));
  ("c11_murphy_score", fun r => orun (
     match r with RL [f; o; th; fn; alpha; a; dec; rd; pd] =>
       let? f := d_larr f in let? o := d_larr o in let? th := d_larr th in let? fn := d_str fn in let? alpha := d_xv alpha in
       let? a := d_opt d_xv a in let? dec := d_bool dec in let? rd := d_dimspec rd in let? pd := d_dimspec pd in
       Some (e_result (fun l => RL (map e_named l)) (murphy_score_m f o th fn alpha a dec rd pd))
     | _ => None end));
  ("c11_murphy_thetas", fun r => orun (
     match r with RL [fs; o; fn; a; dl] =>
       let? fs := d_list d_xvs fs in let? o := d_xvs o in let? fn := d_str fn in let? a := d_opt d_xv a in let? dl := d_opt d_xv dl in
       Some (e_result e_xvs (murphy_thetas_m fs o fn a dl))
     | _ => None end))
].
