(* model/C10.v -- executable models for C10 (threshold-weighted and consistent scores).
   Kernels (the three consistent scoring kernels and the rows of Table B1) come from coq/gen
   (regenerated from source); `_check_tws_args`, `_auxiliary_funcs` (end-point checks and the
   replacement of +-inf end points by finite points beyond the data range), the five tw_* wrappers
   and the dims / weights / mean plumbing are a hand model validated by the correspondence check.
   No proofs here (coq/proofs/C10*.v). *)
From V Require Import lib.Tree gen.Gen_C10_kern.
Open Scope string_scope.

(* ------------------------------------------------------------------------------------------ *)
(* proved-specification functions over Q (the documented formulas, Taggart 2022 Table B1)       *)
(* ------------------------------------------------------------------------------------------ *)
Definition qg_rect (a b x : Q) : Q :=
  if Qltb x a then 0 else if Qltb x b then x - a else b - a.
Definition qphi_rect (a b x : Q) : Q :=
  if Qltb x a then 0 else if Qltb x b then 2 * ((x - a) * (x - a))
  else 4 * (b - a) * x + 2 * (a * a - b * b).
Definition qphip_rect (a b x : Q) : Q := 4 * qg_rect a b x.

Definition qg_trap (a b c d x : Q) : Q :=
  if Qltb x a then 0
  else if Qltb x b then (x - a) * (x - a) / (2 * (b - a))
  else if Qltb x c then x - (b + a) / 2
  else if Qltb x d then - ((d - x) * (d - x)) / (2 * (d - c)) + (d + c - a - b) / 2
  else (d + c - a - b) / 2.
Definition qphi_trap (a b c d x : Q) : Q :=
  if Qltb x a then 0
  else if Qltb x b then 2 * ((x - a) * (x - a) * (x - a)) / (3 * (b - a))
  else if Qltb x c then 2 * (x * x) - 2 * (a + b) * x + 2 * ((b - a) * (b - a)) / 3 + 2 * a * b
  else if Qltb x d then
    2 * ((d - x) * (d - x) * (d - x)) / (3 * (d - c)) + 2 * (d + c - a - b) * x
    + 2 * ((b - a) * (b - a) + 3 * a * b - (d - c) * (d - c) - 3 * c * d) / 3
  else 2 * (d + c - a - b) * x + 2 * ((b - a) * (b - a) + 3 * a * b - (d - c) * (d - c) - 3 * c * d) / 3.
Definition qphip_trap (a b c d x : Q) : Q := 4 * qg_trap a b c d x.

(* the three consistent scoring functions (Gneiting 2011; Taggart 2022 eq. 8, 10, 11) for given g / phi / phi' *)
Definition qcq (g : Q -> Q) (alpha f o : Q) : Q :=
  if Qltb o f then (1 - alpha) * (g f - g o) else alpha * (g o - g f).
Definition qce (phi phi' : Q -> Q) (alpha f o : Q) : Q :=
  (if Qltb o f then 1 - alpha else alpha) * (phi o - phi f - phi' f * (o - f)).
Definition qclip (v x : Q) : Q := if Qltb x (- v) then - v else if Qltb v x then v else x.
Definition qch (phi phi' : Q -> Q) (v f o : Q) : Q :=
  let k := qclip v (f - o) in (1 # 2) * (phi o - phi (k + o) + k * phi' f).

(* the standard (unweighted) losses *)
Definition q_pinball (alpha f o : Q) : Q := if Qltb o f then (1 - alpha) * (f - o) else alpha * (o - f).
Definition q_asym_sq (alpha f o : Q) : Q := (if Qltb o f then 1 - alpha else alpha) * ((f - o) * (f - o)).
Definition q_sq_err (f o : Q) : Q := (f - o) * (f - o).
Definition q_abs_err (f o : Q) : Q := Qabs (f - o).
Definition q_huber (v f o : Q) : Q :=
  if Qle_bool (Qabs (f - o)) v then (1 # 2) * ((f - o) * (f - o)) else v * (Qabs (f - o) - (1 # 2) * v).

(* pointwise values of the five public functions for a rectangular / trapezoidal weight with finite end points *)
Definition q_tw_quantile_rect (a b alpha f o : Q) : Q := qcq (qg_rect a b) alpha f o.
Definition q_tw_abs_rect (a b f o : Q) : Q := 2 * qcq (qg_rect a b) (1 # 2) f o.
Definition q_tw_sq_rect (a b f o : Q) : Q := qce (qphi_rect a b) (qphip_rect a b) (1 # 2) f o.
Definition q_tw_expectile_rect (a b alpha f o : Q) : Q := (1 # 2) * qce (qphi_rect a b) (qphip_rect a b) alpha f o.
Definition q_tw_huber_rect (a b v f o : Q) : Q := (1 # 2) * qch (qphi_rect a b) (qphip_rect a b) v f o.
Definition q_tw_quantile_trap (a b c d alpha f o : Q) : Q := qcq (qg_trap a b c d) alpha f o.
Definition q_tw_abs_trap (a b c d f o : Q) : Q := 2 * qcq (qg_trap a b c d) (1 # 2) f o.
Definition q_tw_sq_trap (a b c d f o : Q) : Q := qce (qphi_trap a b c d) (qphip_trap a b c d) (1 # 2) f o.
Definition q_tw_expectile_trap (a b c d alpha f o : Q) : Q := (1 # 2) * qce (qphi_trap a b c d) (qphip_trap a b c d) alpha f o.
Definition q_tw_huber_trap (a b c d v f o : Q) : Q := (1 # 2) * qch (qphi_trap a b c d) (qphip_trap a b c d) v f o.

Definition lift1 (g : Q -> Q) (x : xv) : xv := match x with XFin q => XFin (g q) | _ => XNaN end.

(* ------------------------------------------------------------------------------------------ *)
(* hand model of the array-level code                                                          *)
(* ------------------------------------------------------------------------------------------ *)
Definition c10_of_guard (g : option err) : result unit := match g with Some e => Err e | None => Ok tt end.

(* pointwise array over the union of the dims of `arrs` *)
Fixpoint size_in (arrs : list larr) (d : dim) : nat :=
  match arrs with [] => O | a :: t => if mem d (ldims a) then lsize a d else size_in t d end.
Definition dims_of (arrs : list larr) : list dim := fold_left (fun acc a => dunion acc (ldims a)) arrs [].
Definition lpoint (arrs : list larr) (f : env -> xv) : larr :=
  {| ldims := dims_of arrs; lsize := size_in arrs; lget := f |}.
Definition all_envs (arrs : list larr) : list env := envs (size_in arrs) (dims_of arrs) env0.
Definition lany (arrs : list larr) (p : env -> bool) : bool := existsb p (all_envs arrs).
Definition lall (arrs : list larr) (p : env -> bool) : bool := forallb p (all_envs arrs).

(* DataArray.min() / .max(): skipna, NaN for an all-NaN array *)
Definition lvals (a : larr) : list xv := map (lget a) (envs (lsize a) (ldims a) env0).
Definition lminv (a : larr) : xv := nanmin (lvals a).
Definition lmaxv (a : larr) : xv := nanmax (lvals a).
(* Python builtins min(x, y, z) / max(x, y, z) on 0-d arrays: keep the current value unless `item < cur` *)
Definition pymin2 (cur item : xv) : xv := if xlt item cur then item else cur.
Definition pymax2 (cur item : xv) : xv := if xgt item cur then item else cur.
Definition pymin3 (a b c : xv) : xv := pymin2 (pymin2 a b) c.
Definition pymax3 (a b c : xv) : xv := pymax2 (pymax2 a b) c.

(* a.where(a > -inf, v) / b.where(b < inf, v) *)
Definition repl_neginf (v : xv) (a : larr) : larr := lmap (fun x => xwhere3 (xgt x (XInf false)) x v) a.
Definition repl_posinf (v : xv) (b : larr) : larr := lmap (fun x => xwhere3 (xlt x (XInf true)) x v) b.

(* the three auxiliary functions, pointwise in the index environment (end points may be arrays) *)
Record auxf := { ax_arrs : list larr; ax_g : env -> xv -> xv; ax_phi : env -> xv -> xv; ax_phip : env -> xv -> xv }.

(* the finite replacements of the end points (threshold_weighted_impl.py l.135-139 and l.176-179) *)
Definition rect_ends (fcst obs a b : larr) : larr * larr :=
  let a' := repl_neginf (xsub (pymin3 (lminv fcst) (lminv obs) (lminv b)) X1) a in
  let b' := repl_posinf (xadd (pymax3 (lmaxv fcst) (lmaxv obs) (lmaxv a')) X1) b in
  (a', b').
Definition trap_ends (fcst obs a b c d : larr) : larr * larr * larr * larr :=
  let b' := repl_neginf (xsub (pymin3 (lminv fcst) (lminv obs) (lminv c)) X1) b in
  let a' := repl_neginf (xsub (lminv b') X1) a in
  let c' := repl_posinf (xadd (pymax3 (lmaxv fcst) (lmaxv obs) (lmaxv b')) X1) c in
  let d' := repl_posinf (xadd (lmaxv c') X1) d in
  (a', b', c', d').

Definition aux_rect (fcst obs a b : larr) : result auxf :=
  if lany [a; b] (fun e => xge (lget a e) (lget b e)) then Err ValueError else
  let '(a', b') := rect_ends fcst obs a b in
  Ok {| ax_arrs := [a'; b'];
        ax_g := fun e => gen_g_rect (lget a' e) (lget b' e);
        ax_phi := fun e => gen_phi_rect (lget a' e) (lget b' e);
        ax_phip := fun e => gen_phi_prime_rect (lget a' e) (lget b' e) |}.

Definition aux_trap (fcst obs a b c d : larr) : result auxf :=
  if lany [b; c] (fun e => xge (lget b e) (lget c e)) then Err ValueError else
  if lany [a; b] (fun e => xisinf (lget a e) && xnev (lget a e) (lget b e))
     || lany [c; d] (fun e => xisinf (lget d e) && xnev (lget c e) (lget d e)) then Err ValueError else
  if negb (lall [a; b] (fun e => xlt (lget a e) (lget b e) || (xeqv (lget a e) (lget b e) && xisinf (lget a e)))) then Err ValueError else
  if negb (lall [c; d] (fun e => xlt (lget c e) (lget d e) || (xeqv (lget c e) (lget d e) && xisinf (lget c e)))) then Err ValueError else
  let '(a', b', c', d') := trap_ends fcst obs a b c d in
  Ok {| ax_arrs := [a'; b'; c'; d'];
        ax_g := fun e => gen_g_trap (lget a' e) (lget b' e) (lget c' e) (lget d' e);
        ax_phi := fun e => gen_phi_trap (lget a' e) (lget b' e) (lget c' e) (lget d' e);
        ax_phip := fun e => gen_phi_prime_trap (lget a' e) (lget b' e) (lget c' e) (lget d' e) |}.

(* _check_tws_args + _auxiliary_funcs *)
Definition aux_funcs (fcst obs : larr) (one : list larr) (pos : option (list larr)) : result auxf :=
  match one with
  | [b; c] =>
      match pos with
      | None => aux_rect fcst obs b c
      | Some [a; d] => aux_trap fcst obs a b c d
      | Some _ => Err ValueError
      end
  | _ => Err ValueError
  end.

(* consistent_*_score: pointwise kernel (before weights and mean) and the full function *)
Definition cq_point (fcst obs : larr) (alpha : xv) (F : auxf) : larr :=
  lpoint ([fcst; obs] ++ ax_arrs F) (fun e => gen_consistent_quantile (ax_g F e) (lget fcst e) (lget obs e) alpha).
Definition ce_point (fcst obs : larr) (alpha : xv) (F : auxf) : larr :=
  lpoint ([fcst; obs] ++ ax_arrs F) (fun e => gen_consistent_expectile (ax_phi F e) (ax_phip F e) (lget fcst e) (lget obs e) alpha).
Definition ch_point (fcst obs : larr) (v : xv) (F : auxf) : larr :=
  lpoint ([fcst; obs] ++ ax_arrs F) (fun e => gen_consistent_huber (ax_phi F e) (ax_phip F e) (lget fcst e) (lget obs e) v).

Definition consistent_m (kind : string) (fcst obs : larr) (param : xv) (F : auxf) (rd pd : dimspec) (w : option larr) : result larr :=
  do _ <- c10_of_guard (if String.eqb kind "huber" then gen_guard_check_huber_param param else gen_guard_check_alpha param) ;;
  do R <- gather (ldims fcst) (ldims obs) None rd pd DNone ;;
  let s := if String.eqb kind "quantile" then cq_point fcst obs param F
           else if String.eqb kind "expectile" then ce_point fcst obs param F
           else ch_point fcst obs param F in
  Ok (mean_score s w R).

Definition lscale (k : xv) (a : larr) : larr := lmap (fun v => xmul k v) a.

(* the five public wrappers; `fn` is the Python name *)
Definition tw_m (fn : string) (fcst obs : larr) (param : xv) (one : list larr) (pos : option (list larr))
                (rd pd : dimspec) (w : option larr) : result larr :=
  let half := XFin (1 # 2) in
  if String.eqb fn "tw_squared_error" then
    do F <- aux_funcs fcst obs one pos ;; consistent_m "expectile" fcst obs half F rd pd w
  else if String.eqb fn "tw_absolute_error" then
    do F <- aux_funcs fcst obs one pos ;; rmap (lscale (XFin 2)) (consistent_m "quantile" fcst obs half F rd pd w)
  else if String.eqb fn "tw_quantile_score" then
    do _ <- c10_of_guard (gen_guard_check_alpha param) ;;
    do F <- aux_funcs fcst obs one pos ;; consistent_m "quantile" fcst obs param F rd pd w
  else if String.eqb fn "tw_expectile_score" then
    do _ <- c10_of_guard (gen_guard_check_alpha param) ;;
    do F <- aux_funcs fcst obs one pos ;; rmap (lscale half) (consistent_m "expectile" fcst obs param F rd pd w)
  else if String.eqb fn "tw_huber_loss" then
    do _ <- c10_of_guard (gen_guard_check_huber_param param) ;;
    do F <- aux_funcs fcst obs one pos ;; rmap (lscale half) (consistent_m "huber" fcst obs param F rd pd w)
  else Err OtherError.

(* user-supplied callables for the public consistent_* functions: a small vocabulary of elementwise
   functions the harness builds identically on the Python side (code, parameters) *)
Definition fcode (name : string) (ps : list xv) : option (xv -> xv) :=
  let p i := nth i ps XNaN in
  if String.eqb name "id" then Some (fun x => x)
  else if String.eqb name "lin" then Some (fun x => xmul (p 0%nat) x)
  else if String.eqb name "sq" then Some (fun x => xmul (p 0%nat) (xpow2 x))
  else if String.eqb name "cube" then Some (fun x => xpow3 x)
  else if String.eqb name "quart" then Some (fun x => xpow2 (xpow2 x))
  else if String.eqb name "step" then Some (fun x => xwhere (negb (xisnan x)) (b2x (xge x (p 0%nat))))
  else if String.eqb name "hinge" then Some (fun x => xmax (xsub x (p 0%nat)) X0)
  else if String.eqb name "hinge2" then Some (fun x => xpow2 (xmax (xsub x (p 0%nat)) X0))
  else if String.eqb name "abs" then Some (fun x => xabs x)
  else if String.eqb name "sign" then Some (fun x => xwhere (negb (xisnan x)) (xwhere3 (xge x X0) X1 (XFin (-1))))
  else if String.eqb name "g_rect" then Some (gen_g_rect (p 0%nat) (p 1%nat))
  else if String.eqb name "phi_rect" then Some (gen_phi_rect (p 0%nat) (p 1%nat))
  else if String.eqb name "phip_rect" then Some (gen_phi_prime_rect (p 0%nat) (p 1%nat))
  else if String.eqb name "g_trap" then Some (gen_g_trap (p 0%nat) (p 1%nat) (p 2%nat) (p 3%nat))
  else if String.eqb name "phi_trap" then Some (gen_phi_trap (p 0%nat) (p 1%nat) (p 2%nat) (p 3%nat))
  else if String.eqb name "phip_trap" then Some (gen_phi_prime_trap (p 0%nat) (p 1%nat) (p 2%nat) (p 3%nat))
  else None.
Definition d_fcode (r : raw) : option (xv -> xv) :=
  match r with
  | RL (n :: ps) => let? n := d_str n in let? ps := omap d_xv ps in fcode n ps
  | _ => None end.
Definition user_aux (g phi phip : xv -> xv) : auxf :=
  {| ax_arrs := []; ax_g := fun _ => g; ax_phi := fun _ => phi; ax_phip := fun _ => phip |}.


Definition entries_C10 : list entry := [
  (* rows 1-2 of Table B1: generated g, phi, phi' and their specifications *)
  ("c10_k_rect", fun r => orun (
     match r with RL [a; b; x] =>
       let? a := d_xv a in let? b := d_xv b in let? x := d_xv x in
       Some (RL [e_xv (gen_g_rect a b x); e_xv (gen_phi_rect a b x); e_xv (gen_phi_prime_rect a b x);
                 e_xv (match a, b with XFin a, XFin b => lift1 (qg_rect a b) x | _, _ => XNaN end);
                 e_xv (match a, b with XFin a, XFin b => lift1 (qphi_rect a b) x | _, _ => XNaN end)])
     | _ => None end));
  ("c10_k_trap", fun r => orun (
     match r with RL [a; b; c; d; x] =>
       let? a := d_xv a in let? b := d_xv b in let? c := d_xv c in let? d := d_xv d in let? x := d_xv x in
       Some (RL [e_xv (gen_g_trap a b c d x); e_xv (gen_phi_trap a b c d x); e_xv (gen_phi_prime_trap a b c d x);
                 e_xv (match a, b, c, d with XFin a, XFin b, XFin c, XFin d => lift1 (qg_trap a b c d) x | _, _, _, _ => XNaN end);
                 e_xv (match a, b, c, d with XFin a, XFin b, XFin c, XFin d => lift1 (qphi_trap a b c d) x | _, _, _, _ => XNaN end)])
     | _ => None end));
  (* the three consistent kernels applied to a coded g / (phi, phi') *)
  ("c10_k_consistent", fun r => orun (
     match r with RL [kind; g; phi; phip; f; o; p] =>
       let? kind := d_str kind in let? g := d_fcode g in let? phi := d_fcode phi in let? phip := d_fcode phip in
       let? f := d_xv f in let? o := d_xv o in let? p := d_xv p in
       Some (e_xv (if String.eqb kind "quantile" then gen_consistent_quantile g f o p
                   else if String.eqb kind "expectile" then gen_consistent_expectile phi phip f o p
                   else gen_consistent_huber phi phip f o p))
     | _ => None end));
  (* specification values of the five tw_* functions at one point, finite end points: rect (a b) or trap (a b c d);
     plus the unweighted losses *)
  ("c10_spec_point", fun r => orun (
     match r with RL [ends; f; o; alpha; v] =>
       let? ends := d_list d_q ends in let? f := d_q f in let? o := d_q o in let? alpha := d_q alpha in let? v := d_q v in
       match ends with
       | [a; b] => Some (e_xvs (map XFin [q_tw_sq_rect a b f o; q_tw_abs_rect a b f o; q_tw_quantile_rect a b alpha f o;
                                          q_tw_expectile_rect a b alpha f o; q_tw_huber_rect a b v f o]))
       | [a; b; c; d] => Some (e_xvs (map XFin [q_tw_sq_trap a b c d f o; q_tw_abs_trap a b c d f o; q_tw_quantile_trap a b c d alpha f o;
                                                q_tw_expectile_trap a b c d alpha f o; q_tw_huber_trap a b c d v f o]))
       | [] => Some (e_xvs (map XFin [q_sq_err f o; q_abs_err f o; q_pinball alpha f o; q_asym_sq alpha f o; q_huber v f o]))
       | _ => None end
     | _ => None end));
  (* the five public tw_* functions *)
  ("c10_tw", fun r => orun (
     match r with RL [fn; f; o; p; one; pos; rd; pd; w] =>
       let? fn := d_str fn in let? f := d_larr f in let? o := d_larr o in let? p := d_xv p in
       let? one := d_list d_larr one in let? pos := d_opt (d_list d_larr) pos in
       let? rd := d_dimspec rd in let? pd := d_dimspec pd in let? w := d_opt d_larr w in
       Some (e_result e_larr (tw_m fn f o p one pos rd pd w))
     | _ => None end));
  (* the finite replacements of the end points chosen by _auxiliary_funcs *)
  ("c10_ends", fun r => orun (
     match r with RL [f; o; one; pos] =>
       let? f := d_larr f in let? o := d_larr o in
       let? one := d_list d_larr one in let? pos := d_opt (d_list d_larr) pos in
       match one, pos with
       | [a; b], None => let '(a', b') := rect_ends f o a b in Some (RL [e_larr a'; e_larr b'])
       | [b; c], Some [a; d] => let '(a', b', c', d') := trap_ends f o a b c d in Some (RL [e_larr a'; e_larr b'; e_larr c'; e_larr d'])
       | _, _ => None end
     | _ => None end));
  (* the three public consistent_* functions with coded callables *)
  ("c10_consistent", fun r => orun (
     match r with RL [kind; f; o; p; g; phi; phip; rd; pd; w] =>
       let? kind := d_str kind in let? f := d_larr f in let? o := d_larr o in let? p := d_xv p in
       let? g := d_fcode g in let? phi := d_fcode phi in let? phip := d_fcode phip in
       let? rd := d_dimspec rd in let? pd := d_dimspec pd in let? w := d_opt d_larr w in
       Some (e_result e_larr (consistent_m kind f o p (user_aux g phi phip) rd pd w))
     | _ => None end))
].
