(* C12_aux.v -- algebra of the extended-value operations used by the C12 sums:
   xadd is commutative and associative (up to =x=), multiplication by a finite value distributes,
   plain sums are NaN as soon as one term is NaN. *)
From V Require Import lib.Xval lib.NanAgg.

Lemma xadd_comm a b : xadd a b =x= xadd b a.
Proof. destruct a as [|x|[|]], b as [|y|[|]]; simpl; auto; lra. Qed.
Lemma xadd_assoc a b c : xadd (xadd a b) c =x= xadd a (xadd b c).
Proof. destruct a as [|x|[|]], b as [|y|[|]], c as [|z|[|]]; simpl; auto; lra. Qed.
Lemma xadd_swap4 a b c d : xadd (xadd a b) (xadd c d) =x= xadd (xadd a c) (xadd b d).
Proof.
  rewrite xadd_assoc, <- (xadd_assoc b c d), (xadd_comm b c), (xadd_assoc c b d), <- xadd_assoc. reflexivity.
Qed.
Lemma xmul_distr_fin w a b : xmul (XFin w) (xadd a b) =x= xadd (xmul (XFin w) a) (xmul (XFin w) b).
Proof.
  destruct a as [|x|[|]], b as [|y|[|]]; unfold xmul, xadd, Qsgn; simpl; auto; try lra;
  destruct (Qcompare_spec w 0); simpl; auto.
Qed.

Lemma xsum_cons x l : xsum (x :: l) = xadd x (xsum l).
Proof. reflexivity. Qed.
Lemma xadd_nan_r a : xadd a XNaN = XNaN.
Proof. destruct a as [| |[|]]; reflexivity. Qed.
Lemma xsum_in_nan l : In XNaN l -> xsum l = XNaN.
Proof. induction l as [|x t IH]; simpl; [tauto|]. intros [->|H]. reflexivity.
  change (xsum (x :: t)) with (xadd x (xsum t)). rewrite (IH H). apply xadd_nan_r. Qed.
Lemma xsum_app l1 l2 : xsum (l1 ++ l2) =x= xadd (xsum l1) (xsum l2).
Proof. induction l1 as [|x t IH]; simpl.
  - destruct (xsum l2) as [|y|[|]]; simpl; auto. unfold X0. lra.
  - change (xsum (x :: t ++ l2)) with (xadd x (xsum (t ++ l2))). change (xsum (x :: t)) with (xadd x (xsum t)).
    rewrite IH, xadd_assoc. reflexivity. Qed.

(* a list that is elementwise =x= to finite values sums to their rational sum *)
Lemma xsum_fins_eq l ql : Forall2 xeq l (fins ql) -> xsum l =x= XFin (qsum ql).
Proof. revert ql. induction l as [|x t IH]; intros [|q r] H; inversion H; subst; simpl.
  - reflexivity.
  - change (xsum (x :: t)) with (xadd x (xsum t)). rewrite (IH r) by assumption.
    destruct x; simpl in *; try tauto. lra. Qed.

(* admissible discount distances: 0, a positive finite number, +inf *)
Definition disc_ok (d : xv) : Prop := match d with XFin q => 0 <= q | XInf true => True | _ => False end.
