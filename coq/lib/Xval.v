(* Xval.v -- the value type of every model: exact rationals extended with NaN and +-inf,
   with IEEE-754 special-value rules (no rounding, no signed zero: see DESIGN.md 3.1). *)
From Coq Require Export QArith Qabs Qround Lqa Bool List ZArith Lia.
Export ListNotations.
Open Scope Q_scope.

Inductive xv := XNaN | XFin (q : Q) | XInf (pos : bool).

Definition X0 := XFin 0.
Definition X1 := XFin 1.
Definition xq (n : Z) (d : positive) := XFin (n # d).

(* ---- boolean comparisons on Q ---- *)
Definition Qltb (a b : Q) : bool := negb (Qle_bool b a).

Lemma Qle_bool_spec a b : if Qle_bool a b then a <= b else b < a.
Proof. destruct (Qle_bool a b) eqn:E. apply Qle_bool_iff; auto.
 apply Qnot_le_lt. intro H. apply Qle_bool_iff in H. congruence. Qed.
Lemma Qltb_spec a b : if Qltb a b then a < b else b <= a.
Proof. unfold Qltb. pose proof (Qle_bool_spec b a). destruct (Qle_bool b a); simpl; auto. Qed.
Lemma Qeq_bool_spec a b : if Qeq_bool a b then a == b else ~ a == b.
Proof. destruct (Qeq_bool a b) eqn:E. apply Qeq_bool_iff; auto.
 intro H. apply Qeq_bool_iff in H. congruence. Qed.
Lemma Qle_bool_true a b : a <= b -> Qle_bool a b = true.
Proof. apply Qle_bool_iff. Qed.
Lemma Qle_bool_false a b : b < a -> Qle_bool a b = false.
Proof. intro H. pose proof (Qle_bool_spec a b). destruct (Qle_bool a b); auto. lra. Qed.
Lemma Qltb_true a b : a < b -> Qltb a b = true.
Proof. intro H. unfold Qltb. rewrite Qle_bool_false; auto. Qed.
Lemma Qltb_false a b : b <= a -> Qltb a b = false.
Proof. intro H. unfold Qltb. rewrite Qle_bool_true; auto. Qed.

(* ---- equality up to Qeq ---- *)
Definition xeq (a b : xv) : Prop :=
  match a, b with
  | XNaN, XNaN => True | XFin x, XFin y => x == y | XInf s, XInf t => s = t | _, _ => False end.
Definition xeqb (a b : xv) : bool :=
  match a, b with
  | XNaN, XNaN => true | XFin x, XFin y => Qeq_bool x y | XInf s, XInf t => Bool.eqb s t | _, _ => false end.
Infix "=x=" := xeq (at level 70, no associativity).

Lemma xeq_refl a : a =x= a.
Proof. destruct a; simpl; auto. reflexivity. Qed.
Lemma xeq_sym a b : a =x= b -> b =x= a.
Proof. destruct a, b; simpl; auto. intro; symmetry; auto. Qed.
Lemma xeq_trans a b c : a =x= b -> b =x= c -> a =x= c.
Proof. destruct a, b, c; simpl; auto; try tauto; try congruence. intros; etransitivity; eauto. Qed.
Global Instance xeq_Equivalence : Equivalence xeq.
Proof. split; [exact xeq_refl | exact xeq_sym | exact xeq_trans]. Qed.
Lemma xeqb_spec a b : xeqb a b = true <-> a =x= b.
Proof. destruct a, b; simpl; try tauto; try (split; [discriminate|tauto]).
 - apply Qeq_bool_iff.
 - destruct pos, pos0; simpl; split; auto; discriminate.
Qed.

(* ---- classification ---- *)
Definition xisnan (a : xv) : bool := match a with XNaN => true | _ => false end.
Definition xnotnull (a : xv) : bool := negb (xisnan a).
Definition xisfin (a : xv) : bool := match a with XFin _ => true | _ => false end.
Definition xisinf (a : xv) : bool := match a with XInf _ => true | _ => false end.

(* ---- arithmetic ---- *)
Definition Qsgn (q : Q) : comparison := Qcompare q 0.

Definition xneg a := match a with XNaN => XNaN | XFin x => XFin (- x) | XInf s => XInf (negb s) end.
Definition xadd a b :=
  match a, b with
  | XNaN, _ | _, XNaN => XNaN
  | XFin x, XFin y => XFin (x + y)
  | XInf s, XFin _ | XFin _, XInf s => XInf s
  | XInf s, XInf t => if Bool.eqb s t then XInf s else XNaN
  end.
Definition xsub a b := xadd a (xneg b).
Definition xmul a b :=
  match a, b with
  | XNaN, _ | _, XNaN => XNaN
  | XFin x, XFin y => XFin (x * y)
  | XInf s, XFin y | XFin y, XInf s =>
      match Qsgn y with Eq => XNaN | Gt => XInf s | Lt => XInf (negb s) end
  | XInf s, XInf t => XInf (Bool.eqb s t)
  end.
(* division: x/0 is +-inf by the sign of x (the zero is taken as +0), 0/0 = NaN *)
Definition xdiv a b :=
  match a, b with
  | XNaN, _ | _, XNaN => XNaN
  | XFin x, XFin y =>
      if Qeq_bool y 0 then
        match Qsgn x with Eq => XNaN | Gt => XInf true | Lt => XInf false end
      else XFin (x / y)
  | XFin _, XInf _ => XFin 0
  | XInf s, XFin y => match Qsgn y with Lt => XInf (negb s) | _ => XInf s end
  | XInf _, XInf _ => XNaN
  end.
Definition xabs a := match a with XNaN => XNaN | XFin x => XFin (Qabs x) | XInf _ => XInf true end.
Definition xpow2 a := xmul a a.
Definition xpow3 a := xmul (xmul a a) a.

(* ---- comparisons (numpy: any comparison with NaN is False, except != which is True) ---- *)
Definition xle (a b : xv) : bool :=
  match a, b with
  | XFin x, XFin y => Qle_bool x y
  | XInf false, XFin _ | XFin _, XInf true => true
  | XInf s, XInf t => implb s t
  | _, _ => false end.
Definition xlt (a b : xv) : bool :=
  match a, b with
  | XFin x, XFin y => Qltb x y
  | XInf false, XFin _ | XFin _, XInf true => true
  | XInf false, XInf true => true
  | _, _ => false end.
Definition xge a b := xle b a.
Definition xgt a b := xlt b a.
(* Python's builtin min / max on two scalars, argument order kept: min(a, b) = b if b < a else a; max(a, b) = b if b > a else a *)
Definition pymin (a b : xv) : xv := if xlt b a then b else a.
Definition pymax (a b : xv) : xv := if xgt b a then b else a.
Definition xeqv (a b : xv) : bool :=     (* numpy == *)
  match a, b with
  | XFin x, XFin y => Qeq_bool x y | XInf s, XInf t => Bool.eqb s t | _, _ => false end.
Definition xnev a b := negb (xeqv a b).  (* numpy != *)

(* ---- min / max ---- *)
Definition xmin a b := match a, b with XNaN, _ | _, XNaN => XNaN | _, _ => if xle a b then a else b end.
Definition xmax a b := match a, b with XNaN, _ | _, XNaN => XNaN | _, _ => if xle a b then b else a end.
Definition xfmax a b := match a, b with XNaN, _ => b | _, XNaN => a | _, _ => if xle a b then b else a end.
Definition xfmin a b := match a, b with XNaN, _ => b | _, XNaN => a | _, _ => if xle a b then a else b end.

(* ---- masks ---- *)
Definition b2x (b : bool) : xv := if b then XFin 1 else XFin 0.
Definition xwhere3 (c : bool) (a b : xv) : xv := if c then a else b.
Definition xwhere (c : bool) (a : xv) : xv := if c then a else XNaN.
Definition xfillna (a d : xv) : xv := match a with XNaN => d | _ => a end.
Definition xclip_min (a lo : xv) : xv := xmax a lo.     (* .clip(min=lo), NaN stays NaN *)
Definition xclip_max (a hi : xv) : xv := xmin a hi.
(* x % 360 for finite x (Python/numpy floored modulo); NaN for non-finite *)
Definition xmodc (m : Q) (a : xv) : xv :=
  match a with XFin x => XFin (x - m * inject_Z (Qfloor (x / m))) | _ => XNaN end.
Definition xmod360 := xmodc 360.

Definition xred (a : xv) : xv := match a with XFin q => XFin (Qred q) | _ => a end.

(* ---- Python truthiness of an optional numeric parameter ---- *)
Definition py_truthy (o : option xv) : bool :=
  match o with None => false | Some (XFin q) => negb (Qeq_bool q 0) | Some _ => true end.
Definition opt_get (o : option xv) : xv := match o with Some v => v | None => XNaN end.
Definition opt_is_none (o : option xv) : bool := match o with None => true | _ => false end.

(* ---- Proper instances ---- *)
Lemma Qsgn_compat x y : x == y -> Qsgn x = Qsgn y.
Proof. intro H. unfold Qsgn. rewrite H. reflexivity. Qed.

Global Instance xneg_Proper : Proper (xeq ==> xeq) xneg.
Proof. intros [|x|s] [|y|t]; simpl; try tauto. intro H; rewrite H; reflexivity. congruence. Qed.
Global Instance xadd_Proper : Proper (xeq ==> xeq ==> xeq) xadd.
Proof. intros [|x|s] [|y|t] H1 [|u|p] [|v|r] H2; simpl in *; try tauto; subst; auto.
 - rewrite H1, H2; reflexivity.
 - destruct (Bool.eqb t r); simpl; auto.
Qed.
Global Instance xsub_Proper : Proper (xeq ==> xeq ==> xeq) xsub.
Proof. intros a b H c d H'. unfold xsub. rewrite H, H'. reflexivity. Qed.
Global Instance xmul_Proper : Proper (xeq ==> xeq ==> xeq) xmul.
Proof. intros [|x|s] [|y|t] H1 [|u|p] [|v|r] H2; simpl in *; try tauto; subst; auto.
 - rewrite H1, H2; reflexivity.
 - rewrite (Qsgn_compat _ _ H1). destruct (Qsgn y); simpl; auto.
 - rewrite (Qsgn_compat _ _ H2). destruct (Qsgn v); simpl; auto.
Qed.
Global Instance xabs_Proper : Proper (xeq ==> xeq) xabs.
Proof. intros [|x|s] [|y|t]; simpl; try tauto. intro H; rewrite H; reflexivity. Qed.
Lemma Qeq_bool_compat x y u v : x == y -> u == v -> Qeq_bool x u = Qeq_bool y v.
Proof. intros H1 H2. pose proof (Qeq_bool_spec x u). pose proof (Qeq_bool_spec y v).
 destruct (Qeq_bool x u), (Qeq_bool y v); auto; exfalso.
 - apply H0. rewrite <- H1, <- H2. auto.
 - apply H. rewrite H1, H2. auto. Qed.
Lemma Qle_bool_compat x y u v : x == y -> u == v -> Qle_bool x u = Qle_bool y v.
Proof. intros H1 H2. pose proof (Qle_bool_spec x u). pose proof (Qle_bool_spec y v).
 destruct (Qle_bool x u), (Qle_bool y v); auto; exfalso; lra. Qed.
Global Instance xdiv_Proper : Proper (xeq ==> xeq ==> xeq) xdiv.
Proof. intros [|x|s] [|y|t] H1 [|u|p] [|v|r] H2; simpl in *; try tauto; subst; auto.
 - rewrite (Qeq_bool_compat u v 0 0 H2 (Qeq_refl 0)). rewrite (Qsgn_compat _ _ H1).
   destruct (Qeq_bool v 0); [destruct (Qsgn y); simpl; auto|]. simpl. rewrite H1, H2. reflexivity.
 - reflexivity.
 - rewrite (Qsgn_compat _ _ H2). destruct (Qsgn v); simpl; auto.
Qed.
Global Instance xle_Proper : Proper (xeq ==> xeq ==> eq) xle.
Proof. intros [|x|s] [|y|t] H1 [|u|p] [|v|r] H2; simpl in *; try tauto; subst; auto.
 apply Qle_bool_compat; auto. Qed.
Global Instance xlt_Proper : Proper (xeq ==> xeq ==> eq) xlt.
Proof. intros [|x|s] [|y|t] H1 [|u|p] [|v|r] H2; simpl in *; try tauto; subst; auto.
 unfold Qltb. f_equal. apply Qle_bool_compat; auto. Qed.
Global Instance xisnan_Proper : Proper (xeq ==> eq) xisnan.
Proof. intros [|x|s] [|y|t]; simpl; tauto. Qed.

(* ---- tactics ---- *)
(* case-split one Q comparison appearing in the goal, recording the fact *)
Ltac qcmp1 :=
  match goal with
  | |- context [Qle_bool ?u ?v] =>
      let H := fresh "Hc" in pose proof (Qle_bool_spec u v) as H; destruct (Qle_bool u v)
  | |- context [Qeq_bool ?u ?v] =>
      let H := fresh "Hc" in pose proof (Qeq_bool_spec u v) as H; destruct (Qeq_bool u v)
  | |- context [Qcompare ?u ?v] =>
      let H := fresh "Hc" in
      pose proof (Qcompare_spec u v) as H; destruct (Qcompare u v); inversion H; clear H
  end.
Ltac qcmp := repeat qcmp1.
Ltac xunf := unfold xgt, xge, xlt, xle, xeqv, xnev, Qltb, xmin, xmax, xfmax, xfmin, xwhere, xwhere3,
  xclip_min, xclip_max, xfillna, xsub, xadd, xmul, xneg, xabs, xpow2, xpow3, b2x, xisnan, xnotnull, Qsgn in *.
