(* C10_aux.v -- small Q-arithmetic helpers shared by the C10 / C11 proofs (axiom-free). *)
From V Require Export lib.Xval.

Lemma qsq_nonneg t : 0 <= t * t.
Proof. destruct (Qlt_le_dec t 0).
 - setoid_replace (t * t) with ((-t) * (-t)) by ring. apply Qmult_le_0_compat; lra.
 - apply Qmult_le_0_compat; lra. Qed.

(* case-split the Q comparisons of the goal one at a time, pruning impossible branches at once *)
Ltac qcmpp := repeat (qcmp1; cbn [negb] in *; try (exfalso; lra)).
(* ties: from x <= y and y <= x record x == y *)
Ltac qtie := repeat match goal with
  | H1 : ?x <= ?y, H2 : ?y <= ?x |- _ =>
      lazymatch goal with _ : x == y |- _ => fail | _ => idtac end;
      assert (x == y) by lra end.
Ltac qsolve := cbn -[Qmult Qplus Qminus Qopp Qdiv Qinv Qabs]; try lra; try nra; try (qtie; nra).
