(* Plumbing.v -- the "plumbing fingerprint" of a public score function, read from its source by the translator
   (site kind `plumbing`): which dimension sets it forwards to gather_dimensions, whether weights are applied before
   the reduction, which reduction is used and over which variable.  The hand models of the score functions assume a
   particular fingerprint; coq/proofs/C01_plumbing.v checks, on every run, that the regenerated one is still that. *)
From Coq Require Export String Bool List.
Export ListNotations.
Open Scope string_scope.

Record plumbing := {
  pl_gather_args : list string;       (* positional arguments of gather_dimensions, as source text *)
  pl_weights_dims : bool;             (* weights_dims= passed *)
  pl_specific : bool;                 (* score_specific_fcst_dims= passed *)
  pl_apply_weights : nat;             (* number of apply_weights(...) calls *)
  pl_weights_before_reduce : bool;    (* every apply_weights call precedes the first reduction over the gathered dims *)
  pl_reductions : list string;        (* reduction methods called with dim=<gathered dims>, in source order *)
}.

(* the fingerprints the hand models implement *)
Definition plumb_mean (f o : string) : plumbing :=          (* kernel, weights, NaN-skipping mean over gather(fcst, obs) *)
  {| pl_gather_args := [f; o]; pl_weights_dims := false; pl_specific := false; pl_apply_weights := 1;
     pl_weights_before_reduce := true; pl_reductions := ["mean"] |}.
Definition plumb_ratio (f o : string) : plumbing :=         (* weights on fcst and on obs, NaN matching, ratio of two means *)
  {| pl_gather_args := [f; o]; pl_weights_dims := false; pl_specific := false; pl_apply_weights := 2;
     pl_weights_before_reduce := true; pl_reductions := ["mean"; "mean"] |}.
Definition plumb_mean_specific (f o : string) : plumbing := (* as plumb_mean, forwarding weights dims and a score-specific dim *)
  {| pl_gather_args := [f; o]; pl_weights_dims := true; pl_specific := true; pl_apply_weights := 1;
     pl_weights_before_reduce := true; pl_reductions := ["mean"] |}.
