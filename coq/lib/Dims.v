(* Dims.v -- line-by-line model of scores.utils.gather_dimensions (DESIGN.md 3.4),
   including Python truthiness of `preserve_dims or reduce_dims`, the "all" string, the
   string -> singleton conversions and the order in which errors are raised. *)
From V Require Export lib.Larr.

Inductive dimspec := DNone | DStr (s : string) | DList (l : list dim).
Inductive err := ValueError | TypeError | KeyError | OtherError.
Inductive result (A : Type) := Ok (a : A) | Err (e : err).
Arguments Ok {A}. Arguments Err {A}.
Definition rbind {A B} (r : result A) (f : A -> result B) : result B :=
  match r with Ok a => f a | Err e => Err e end.
Definition rmap {A B} (f : A -> B) (r : result A) : result B :=
  match r with Ok a => Ok (f a) | Err e => Err e end.
Notation "'do' x <- r ;; k" := (rbind r (fun x => k)) (at level 200, x name, r at level 100, k at level 200).
Definition guard (raise : bool) (e : err) : result unit := if raise then Err e else Ok tt.

(* Python truthiness of a FlexibleDimensionTypes value *)
Definition truthy (s : dimspec) : bool :=
  match s with DNone => false | DStr s => negb (String.eqb s "") | DList l => negb (disempty l) end.
Definition is_none (s : dimspec) := match s with DNone => true | _ => false end.
Definition is_all (s : dimspec) := match s with DStr s => String.eqb s "all" | _ => false end.
(* `[x] if isinstance(x, str) else x` *)
Definition as_list (s : dimspec) : list dim :=
  match s with DNone => [] | DStr s => [s] | DList l => l end.

Definition gather (fcst obs : list dim) (weights : option (list dim))
                  (reduce preserve specific : dimspec) : result (list dim) :=
  let all_data := match weights with None => dunion fcst obs | Some w => dunion (dunion fcst obs) w end in
  if negb (is_none preserve) && negb (is_none reduce) then Err ValueError else
  let specified := if truthy preserve then preserve else reduce in      (* preserve_dims or reduce_dims *)
  let spec_named := negb (is_none specified) && negb (is_all specified) in
  let spec_l := as_list specified in
  let chk :=
    match specific with
    | DNone => Ok all_data
    | _ => let sp := as_list specific in
           if negb (dsubset sp fcst) then Err ValueError
           else if negb (disempty (dinter obs sp)) then Err ValueError
           else if match weights with Some w => negb (disempty (dinter w sp)) | None => false end then Err ValueError
           else if spec_named && negb (disempty (dinter spec_l sp)) then Err ValueError
           else Ok (ddiff all_data sp)
    end in
  match chk with Err e => Err e | Ok scoring =>
  if spec_named && negb (dsubset spec_l all_data) then Err ValueError else
  if negb (is_none preserve) then
    if is_all preserve then Ok [] else Ok (ddiff scoring (as_list preserve))
  else if is_all reduce then Ok scoring
  else match reduce with
       | DStr s => Ok [s]
       | DNone => Ok scoring
       | DList l => Ok l end
  end.

(* utils.check_dims(xr_data, expected_dims, mode): a bare string is a TypeError, duplicates a
   ValueError, a failed set relation a DimensionError (a ValueError subclass) *)
Inductive dmode := MEqual | MSubset | MSuperset | MProperSubset | MProperSuperset | MDisjoint.
Fixpoint nodupb (l : list dim) : bool :=
  match l with [] => true | x :: t => negb (mem x t) && nodupb t end.
Definition check_dims (data : list dim) (expected : dimspec) (m : dmode) : result unit :=
  match expected with
  | DStr _ => Err TypeError
  | DNone => Err ValueError
  | DList l =>
      if negb (nodupb l) then Err ValueError else
      let ok := match m with
        | MEqual => dsubset data l && dsubset l data
        | MSubset => dsubset data l
        | MSuperset => dsubset l data
        | MProperSubset => dsubset data l && negb (dsubset l data)
        | MProperSuperset => dsubset l data && negb (dsubset data l)
        | MDisjoint => disempty (dinter data l) end in
      if ok then Ok tt else Err ValueError
  end.

Definition seteq (a b : list dim) := forall d, mem d a = mem d b.
Definition rseteq (a b : result (list dim)) :=
  match a, b with Ok x, Ok y => seteq x y | Err e, Err f => e = f | _, _ => False end.
