(* Tree.v -- the wire format between the harness and the extracted model.  The OCaml driver
   only tokenises a line into a `raw` tree of atoms (Coq strings) and nested lists, calls the
   Coq-side dispatcher, and prints the resulting tree.  All number parsing and printing is
   done here, in Gallina, with the standard library's decimal conversions. *)
From Coq Require Import DecimalString Decimal DecimalZ Ascii.
From V Require Export lib.Dims.
Open Scope string_scope.

Inductive raw := RA (s : string) | RL (l : list raw).

(* ---- numbers ---- *)
Definition z_of_string (s : string) : option Z :=
  match NilZero.int_of_string s with Some i => Some (Z.of_int i) | None => None end.
Definition string_of_z (z : Z) : string := NilZero.string_of_int (Z.to_int z).

Fixpoint split_slash (s : string) (acc : string -> string) : string * option string :=
  match s with
  | EmptyString => (acc EmptyString, None)
  | String c t => if Ascii.eqb c "/"%char then (acc EmptyString, Some t)
                  else split_slash t (fun r => acc (String c r))
  end.
Definition xv_of_string (s : string) : option xv :=
  if String.eqb s "nan" then Some XNaN
  else if String.eqb s "inf" then Some (XInf true)
  else if String.eqb s "-inf" then Some (XInf false)
  else match split_slash s (fun r => r) with
       | (n, None) => match z_of_string n with Some z => Some (XFin (z # 1)) | None => None end
       | (n, Some d) =>
           match z_of_string n, z_of_string d with
           | Some z, Some (Zpos p) => Some (XFin (z # p))
           | _, _ => None end
       end.
Definition string_of_xv (v : xv) : string :=
  match v with
  | XNaN => "nan" | XInf true => "inf" | XInf false => "-inf"
  | XFin q => let q := Qred q in
      match Qden q with
      | xH => string_of_z (Qnum q)
      | d => string_of_z (Qnum q) ++ "/" ++ string_of_z (Zpos d) end
  end.

(* ---- decoders (option monad) ---- *)
Definition obind {A B} (o : option A) (f : A -> option B) : option B :=
  match o with Some a => f a | None => None end.
Notation "'let?' x := o 'in' k" := (obind o (fun x => k)) (at level 200, x pattern, o at level 100, k at level 200).

Fixpoint omap {A B} (f : A -> option B) (l : list A) : option (list B) :=
  match l with
  | [] => Some []
  | x :: t => match f x, omap f t with Some y, Some r => Some (y :: r) | _, _ => None end
  end.

(* strings are written 'name by the harness; the quote is stripped here *)
Definition d_str (r : raw) : option string :=
  match r with RA (String c t) => if Ascii.eqb c "'"%char then Some t else None | _ => None end.
Definition d_xv (r : raw) : option xv := match r with RA s => xv_of_string s | _ => None end.
Definition d_q (r : raw) : option Q := match d_xv r with Some (XFin q) => Some q | _ => None end.
Definition d_z (r : raw) : option Z := match r with RA s => z_of_string s | _ => None end.
Definition d_nat (r : raw) : option nat := match d_z r with Some z => Some (Z.to_nat z) | None => None end.
Definition d_bool (r : raw) : option bool :=
  match r with RA s => if String.eqb s "true" then Some true else if String.eqb s "false" then Some false else None
  | _ => None end.
Definition d_list {A} (f : raw -> option A) (r : raw) : option (list A) :=
  match r with RL l => omap f l | _ => None end.
Definition d_xvs := d_list d_xv.
Definition d_opt {A} (f : raw -> option A) (r : raw) : option (option A) :=
  match r with
  | RA s => if String.eqb s "none" then Some None else match f r with Some a => Some (Some a) | None => None end
  | _ => match f r with Some a => Some (Some a) | None => None end
  end.
Definition d_dimsize (r : raw) : option (dim * nat) :=
  match r with RL [a; b] => match d_str a, d_nat b with Some d, Some n => Some (d, n) | _, _ => None end | _ => None end.
(* an array: ( ( ('d1 n1) ('d2 n2) ... ) ( v v v ... ) ) row-major *)
Definition d_larr (r : raw) : option larr :=
  match r with
  | RL [ds; vs] =>
      match d_list d_dimsize ds, d_xvs vs with
      | Some dims, Some data => Some (of_flat dims data) | _, _ => None end
  | _ => None end.
(* none | 'name | ( 'a 'b ... ) *)
Definition d_dimspec (r : raw) : option dimspec :=
  match r with
  | RA s => if String.eqb s "none" then Some DNone else match d_str r with Some n => Some (DStr n) | None => None end
  | RL l => match omap d_str l with Some ds => Some (DList ds) | None => None end
  end.

(* ---- encoders ---- *)
Definition e_str (s : string) : raw := RA (String "'"%char s).
Definition e_xv (v : xv) : raw := RA (string_of_xv v).
Definition e_xvs (l : list xv) : raw := RL (map e_xv l).
Definition e_bool (b : bool) : raw := RA (if b then "true" else "false").
Definition e_nat (n : nat) : raw := RA (string_of_z (Z.of_nat n)).
Definition e_z (z : Z) : raw := RA (string_of_z z).
Definition e_larr (a : larr) : raw :=
  let '(dims, data) := to_flat a in
  RL [RL (map (fun p => RL [e_str (fst p); e_nat (snd p)]) dims); e_xvs data].
Definition e_err (e : err) : raw :=
  RA (match e with ValueError => "err:ValueError" | TypeError => "err:TypeError"
              | KeyError => "err:KeyError" | OtherError => "err:Other" end).
Definition e_result {A} (f : A -> raw) (r : result A) : raw :=
  match r with Ok a => f a | Err e => e_err e end.
Definition e_dims (l : list dim) : raw := RL (map e_str l).
Definition e_opt {A} (f : A -> raw) (o : option A) : raw := match o with Some a => f a | None => RA "none" end.
Definition e_pair {A B} (f : A -> raw) (g : B -> raw) (p : A * B) : raw := RL [f (fst p); g (snd p)].

Definition bad_input : raw := RA "err:BadInput".
Definition orun (o : option raw) : raw := match o with Some r => r | None => bad_input end.

(* an entry table: name -> handler *)
Definition entry := (string * (raw -> raw))%type.
Fixpoint dispatch (tbl : list entry) (name : string) (arg : raw) : raw :=
  match tbl with
  | [] => RA "err:NoSuchEntry"
  | (n, f) :: t => if String.eqb n name then f arg else dispatch t name arg
  end.
