(* Larr.v -- labelled arrays as functions from index environments to values, broadcasting
   by dimension name and reductions over named dimensions (DESIGN.md 3.3).
   Positions along a dimension are the ranks of the coordinate labels in sorted order: the
   harness aligns every input on sorted labels, so "same position" means "same label". *)
From Coq Require Export String.
From V Require Export lib.Xval lib.NanAgg.
Open Scope string_scope.

Definition dim := string.
Definition env := dim -> nat.
Definition env0 : env := fun _ => O.
Definition upd (e : env) (d : dim) (n : nat) : env := fun d' => if String.eqb d' d then n else e d'.

Record larr := { ldims : list dim; lsize : dim -> nat; lget : env -> xv }.

Definition mem (d : dim) (l : list dim) : bool := existsb (String.eqb d) l.
Definition dunion (a b : list dim) : list dim := a ++ filter (fun d => negb (mem d a)) b.
Definition ddiff (a b : list dim) : list dim := filter (fun d => negb (mem d b)) a.
Definition dinter (a b : list dim) : list dim := filter (fun d => mem d b) a.
Definition dsubset (a b : list dim) : bool := forallb (fun d => mem d b) a.
Definition disempty (a : list dim) : bool := match a with [] => true | _ => false end.

(* all assignments to the dims in R (positions 0..size-1), on top of a base environment;
   first dim of R varies slowest (row-major) *)
Fixpoint envs (size : dim -> nat) (R : list dim) (e : env) : list env :=
  match R with
  | [] => [e]
  | d :: R' => flat_map (fun n => envs size R' (upd e d n)) (seq 0 (size d))
  end.

(* scalar as a 0-d array *)
Definition lscalar (v : xv) : larr := {| ldims := []; lsize := fun _ => O; lget := fun _ => v |}.

Definition lmap (f : xv -> xv) (a : larr) : larr :=
  {| ldims := ldims a; lsize := lsize a; lget := fun e => f (lget a e) |}.

(* broadcast by name; shared dims are assumed to carry the same labels (the harness inner-joins) *)
Definition lzip (f : xv -> xv -> xv) (a b : larr) : larr :=
  {| ldims := dunion (ldims a) (ldims b);
     lsize := fun d => if mem d (ldims a) then lsize a d else lsize b d;
     lget := fun e => f (lget a e) (lget b e) |}.
Definition lzip3 (f : xv -> xv -> xv -> xv) (a b c : larr) : larr :=
  {| ldims := dunion (dunion (ldims a) (ldims b)) (ldims c);
     lsize := fun d => if mem d (ldims a) then lsize a d else if mem d (ldims b) then lsize b d else lsize c d;
     lget := fun e => f (lget a e) (lget b e) (lget c e) |}.

(* reduce the dims of R that the array has (xarray raises for a dim it does not have; callers
   only pass subsets, which gather guarantees) *)
Definition lreduce (agg : list xv -> xv) (R : list dim) (a : larr) : larr :=
  let R' := dinter (ldims a) R in
  {| ldims := ddiff (ldims a) R; lsize := lsize a;
     lget := fun e => agg (map (lget a) (envs (lsize a) R' e)) |}.

(* concrete row-major storage <-> function representation *)
Fixpoint flat_index (dims : list (dim * nat)) (e : env) : nat :=
  match dims with
  | [] => O
  | (d, n) :: t => (e d) * fold_right (fun p acc => snd p * acc)%nat 1%nat t + flat_index t e
  end.
Definition assoc_size (dims : list (dim * nat)) (d : dim) : nat :=
  match find (fun p => String.eqb (fst p) d) dims with Some p => snd p | None => O end.
Definition of_flat (dims : list (dim * nat)) (data : list xv) : larr :=
  {| ldims := map fst dims; lsize := assoc_size dims;
     lget := fun e => nth (flat_index dims e) data XNaN |}.
Definition to_flat (a : larr) : list (dim * nat) * list xv :=
  (map (fun d => (d, lsize a d)) (ldims a), map (lget a) (envs (lsize a) (ldims a) env0)).

(* ---- the functionals every mean-type score instantiates ---- *)
Definition apply_weights (w : option larr) (s : larr) : larr :=
  match w with None => s | Some w => lzip xmul s w end.
Definition mean_score (s : larr) (w : option larr) (R : list dim) : larr :=
  lreduce nanmean R (apply_weights w s).
Definition sum_score (s : larr) (w : option larr) (R : list dim) : larr :=
  lreduce nansum R (apply_weights w s).

(* ---- facts ---- *)
Lemma mem_filter d f l : mem d (filter f l) = mem d l && f d.
Proof. induction l as [|x xs IH]; simpl; auto.
 destruct (String.eqb_spec d x) as [->|N].
 - destruct (f x) eqn:E; simpl.
   + rewrite String.eqb_refl. reflexivity.
   + rewrite IH. apply andb_false_r.
 - destruct (f x) eqn:E; simpl.
   + destruct (String.eqb_spec d x); [contradiction|]. exact IH.
   + exact IH.
Qed.
Lemma mem_ddiff d a b : mem d (ddiff a b) = mem d a && negb (mem d b).
Proof. unfold ddiff. apply mem_filter. Qed.
Lemma mem_dinter d a b : mem d (dinter a b) = mem d a && mem d b.
Proof. unfold dinter. apply mem_filter. Qed.
Lemma mem_app d a b : mem d (a ++ b) = mem d a || mem d b.
Proof. unfold mem. apply existsb_app. Qed.
Lemma mem_dunion d a b : mem d (dunion a b) = mem d a || mem d b.
Proof. unfold dunion. rewrite mem_app, mem_filter. destruct (mem d a), (mem d b); reflexivity. Qed.
Lemma mem_In d l : mem d l = true <-> In d l.
Proof. unfold mem. rewrite existsb_exists. split.
 - intros [x [Hx E]]. apply String.eqb_eq in E. subst; auto.
 - intro H. exists d. split; auto. apply String.eqb_refl. Qed.
Lemma dsubset_mem a b d : dsubset a b = true -> mem d a = true -> mem d b = true.
Proof. unfold dsubset. rewrite forallb_forall. intros H Hm. apply mem_In in Hm. auto. Qed.

(* dims of a reduced score = dims of the pointwise score minus the reduced set *)
Theorem lreduce_dims agg R a d : mem d (ldims (lreduce agg R a)) = mem d (ldims a) && negb (mem d R).
Proof. simpl. apply mem_ddiff. Qed.

(* reducing nothing leaves every value the aggregate of the singleton *)
Theorem lreduce_nil agg a e : lget (lreduce agg [] a) e = agg [lget a e].
Proof. simpl. assert (H : dinter (ldims a) [] = []).
 { unfold dinter. induction (ldims a); simpl; auto. }
 rewrite H. reflexivity. Qed.

(* the reduced value is the aggregate over exactly the assignments of the reduced dims *)
Theorem mean_score_unfold s w R e :
  lget (mean_score s w R) e =
  nanmean (map (lget (apply_weights w s)) (envs (lsize (apply_weights w s)) (dinter (ldims (apply_weights w s)) R) e)).
Proof. reflexivity. Qed.
