(* C08_aux.v -- vocabulary shared by the regenerated discretisation / contingency kernels (C08, C14):
   Python's comparison operators as data, and the `mode` argument of comparative_discretise
   (a string or one of the six functions of the `operator` module). *)
From V Require Export lib.Xval lib.Dims.
From Coq Require Export String.
Open Scope string_scope.

Inductive cmpop := OpGe | OpGt | OpLe | OpLt | OpEq | OpNe.
Definition apply_op (o : cmpop) (a b : xv) : bool :=
  match o with
  | OpGe => xge a b | OpGt => xgt a b | OpLe => xle a b | OpLt => xlt a b | OpEq => xeqv a b | OpNe => xnev a b
  end.
Definition cmpop_eqb (a b : cmpop) : bool :=
  match a, b with
  | OpGe, OpGe | OpGt, OpGt | OpLe, OpLe | OpLt, OpLt | OpEq, OpEq | OpNe, OpNe => true
  | _, _ => false end.

Inductive pmode := MStr (s : string) | MOp (o : cmpop).

Fixpoint assoc {A} (k : string) (l : list (string * A)) : option A :=
  match l with
  | [] => None
  | (k', v) :: t => if String.eqb k k' then Some v else assoc k t
  end.
(* `mode in TABLE` / `TABLE[mode]` for a dict keyed by strings: a function object is never a key *)
Definition mode_lookup {A} (m : pmode) (tbl : list (string * A)) : option A :=
  match m with MStr s => assoc s tbl | MOp _ => None end.
(* `mode is operator.x` *)
Definition mode_is (m : pmode) (o : cmpop) : bool :=
  match m with MOp o' => cmpop_eqb o' o | MStr _ => false end.
(* `mode in [operator.a, operator.b, ...]` *)
Definition mode_in (m : pmode) (l : list cmpop) : bool := existsb (mode_is m) l.
(* `mode(a, b)` is only reached in branches where mode is a function object *)
Definition op_of_mode (m : pmode) : cmpop := match m with MOp o => o | MStr _ => OpEq end.

Definition opt_get_op (o : option cmpop) : cmpop := match o with Some v => v | None => OpGe end.

(* reading a labelled 1-D table (the 'contingency' dimension of a manager's xarray table): `table.sel(contingency=k)` and `table[n]` *)
Definition by_label {A} (k : string) (t : list (string * A)) : option A := assoc k t.
Definition by_pos {A} (n : nat) (t : list (string * A)) : option A := option_map snd (nth_error t n).
