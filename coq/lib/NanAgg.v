(* NanAgg.v -- reductions over lists of extended values, as xarray performs them:
   mean/sum with skipna=True (the default for float data), sum/min/max with skipna=False. *)
From V Require Export lib.Xval.

(* plain (NaN-propagating, inf-aware) sum: xarray .sum(skipna=False) *)
Definition xsum (l : list xv) : xv := fold_right xadd X0 l.

Definition xvalid (v : xv) : bool := xnotnull v.
Definition valids (l : list xv) : list xv := filter xvalid l.

(* NaN-skipping sum / count / mean.  xarray: mean of an all-NaN (or empty) slice is NaN,
   sum of an all-NaN slice is 0. *)
Definition nansum (l : list xv) : xv := xsum (valids l).
Definition nancount (l : list xv) : nat := length (valids l).
Definition xofnat (n : nat) : xv := XFin (inject_Z (Z.of_nat n)).
Definition nanmean (l : list xv) : xv :=
  match nancount l with O => XNaN | n => xdiv (nansum l) (xofnat n) end.
(* .count() *)
Definition xcount (l : list xv) : xv := xofnat (nancount l).

(* min / max with skipna=True: NaN for an all-NaN slice *)
Definition nanmax (l : list xv) : xv := fold_right xfmax XNaN l.
Definition nanmin (l : list xv) : xv := fold_right xfmin XNaN l.
(* skipna=False *)
Definition xmaxl (l : list xv) : xv :=
  match l with [] => XNaN | x :: t => fold_right xmax x t end.
Definition xminl (l : list xv) : xv :=
  match l with [] => XNaN | x :: t => fold_right xmin x t end.

(* ---- basic facts ---- *)
Lemma valids_app l1 l2 : valids (l1 ++ l2) = valids l1 ++ valids l2.
Proof. unfold valids. apply filter_app. Qed.
Lemma valids_nan l1 l2 : valids (l1 ++ XNaN :: l2) = valids (l1 ++ l2).
Proof. rewrite !valids_app. reflexivity. Qed.
Lemma valids_idem l : valids (valids l) = valids l.
Proof. unfold valids. induction l as [|x t IH]; simpl; auto.
 destruct (xvalid x) eqn:E; simpl; rewrite ?E, IH; auto. Qed.

Theorem nanmean_skip l1 l2 : nanmean (l1 ++ XNaN :: l2) = nanmean (l1 ++ l2).
Proof. unfold nanmean, nancount, nansum. rewrite valids_nan. reflexivity. Qed.
Theorem nansum_skip l1 l2 : nansum (l1 ++ XNaN :: l2) = nansum (l1 ++ l2).
Proof. unfold nansum. rewrite valids_nan. reflexivity. Qed.
Theorem nancount_skip l1 l2 : nancount (l1 ++ XNaN :: l2) = nancount (l1 ++ l2).
Proof. unfold nancount. rewrite valids_nan. reflexivity. Qed.
Theorem nanmean_valids l : nanmean l = nanmean (valids l).
Proof. unfold nanmean, nancount, nansum. rewrite valids_idem. reflexivity. Qed.

(* finite lists *)
Definition allfin (l : list xv) : Prop := Forall (fun v => xisfin v = true) l.
Fixpoint qsum (l : list Q) : Q := match l with [] => 0 | x :: t => x + qsum t end.
Definition fins (l : list Q) : list xv := map XFin l.

Lemma xsum_fins l : xsum (fins l) =x= XFin (qsum l).
Proof. induction l as [|x t IH]. reflexivity.
 change (xsum (fins (x :: t))) with (xadd (XFin x) (xsum (fins t))).
 change (qsum (x :: t)) with (x + qsum t).
 destruct (xsum (fins t)) as [|s|b]; cbn [xadd xeq] in *; try tauto.
 apply Qplus_comp; [reflexivity | exact IH]. Qed.
Lemma valids_fins l : valids (fins l) = fins l.
Proof. induction l; simpl; auto. f_equal; auto. Qed.
Lemma nancount_fins l : nancount (fins l) = length l.
Proof. unfold nancount. rewrite valids_fins. unfold fins. apply map_length. Qed.

Lemma inject_nat_pos n : 0 < inject_Z (Z.of_nat (S n)).
Proof. unfold Qlt. simpl. lia. Qed.
Lemma inject_nat_nz n : ~ inject_Z (Z.of_nat (S n)) == 0.
Proof. pose proof (inject_nat_pos n). lra. Qed.

(* the NaN-skipping mean of finite values is the arithmetic mean *)
Theorem nanmean_fins l : l <> [] ->
  nanmean (fins l) =x= XFin (qsum l / inject_Z (Z.of_nat (length l))).
Proof. intro H. unfold nanmean. rewrite nancount_fins. destruct l as [|x t]; [congruence|].
 cbn [length]. unfold nansum. rewrite valids_fins.
 pose proof (xsum_fins (x :: t)) as E. destruct (xsum (fins (x :: t))); simpl in E; try tauto.
 unfold xofnat, xdiv. pose proof (Qeq_bool_spec (inject_Z (Z.of_nat (S (length t)))) 0) as Hz.
 destruct (Qeq_bool _ 0). exfalso; exact (inject_nat_nz _ Hz). simpl. rewrite E. reflexivity. Qed.
