(* props/C20.v -- property C20: out-of-domain parameters are rejected at the documented boundary, not scored.
   gen_guard_* are the `if <cond>: raise` clauses of each public function, regenerated from the function's own body
   (with the named checker helpers inlined) on every run; `= None` means "no guard fires" (the call proceeds).
   Each theorem says: the guards let a parameter through IF AND ONLY IF it lies strictly inside the documented domain,
   for every rational value -- in particular exactly on the boundary and arbitrarily close to it on either side. *)
From V Require Import lib.Tree gen.Gen_C20_guards proofs.C20.
Open Scope string_scope.

Theorem C20_quantile_score_alpha : forall a, gen_guard_quantile_score (XFin a) = None <-> 0 < a < 1.
Proof. exact g_quantile_score. Qed.
Print Assumptions C20_quantile_score_alpha.
Theorem C20_interval_score_range : forall r, gen_guard_interval_score (XFin r) = None <-> 0 < r < 1.
Proof. exact g_interval_score. Qed.
Print Assumptions C20_interval_score_range.
Theorem C20_quantile_interval_levels : forall l u, gen_guard_qis (XFin l) (XFin u) = None <-> 0 < l /\ l < u /\ u < 1.
Proof. exact g_qis. Qed.
Print Assumptions C20_quantile_interval_levels.
Theorem C20_consistent_expectile_alpha : forall a, gen_guard_consistent_expectile (XFin a) = None <-> 0 < a < 1.
Proof. exact g_consistent_expectile. Qed.
Print Assumptions C20_consistent_expectile_alpha.
Theorem C20_consistent_quantile_alpha : forall a, gen_guard_consistent_quantile (XFin a) = None <-> 0 < a < 1.
Proof. exact g_consistent_quantile. Qed.
Print Assumptions C20_consistent_quantile_alpha.
Theorem C20_consistent_huber_param : forall h, gen_guard_consistent_huber (XFin h) = None <-> 0 < h.
Proof. exact g_consistent_huber. Qed.
Print Assumptions C20_consistent_huber_param.
Theorem C20_tw_quantile_alpha : forall a, gen_guard_tw_quantile (XFin a) = None <-> 0 < a < 1.
Proof. exact g_tw_quantile. Qed.
Print Assumptions C20_tw_quantile_alpha.
Theorem C20_tw_expectile_alpha : forall a, gen_guard_tw_expectile (XFin a) = None <-> 0 < a < 1.
Proof. exact g_tw_expectile. Qed.
Print Assumptions C20_tw_expectile_alpha.
Theorem C20_tw_huber_param : forall h, gen_guard_tw_huber (XFin h) = None <-> 0 < h.
Proof. exact g_tw_huber. Qed.
Print Assumptions C20_tw_huber_param.
Theorem C20_murphy_score_params : forall a f (h : option Q),
  gen_guard_murphy_score (XFin a) f (optq h) = None <-> 0 < a < 1 /\ murphy_fn f /\ (f = "huber" -> exists q, h = Some q /\ 0 < q).
Proof. exact g_murphy_score. Qed.
Print Assumptions C20_murphy_score_params.
Theorem C20_murphy_thetas_params : forall f (h d : option Q),
  gen_guard_murphy_thetas f (optq h) (optq d) = None <->
  murphy_fn f /\ (f = "huber" -> exists q, h = Some q /\ 0 < q) /\ (forall q, d = Some q -> 0 <= q).
Proof. exact g_murphy_thetas. Qed.
Print Assumptions C20_murphy_thetas_params.
Theorem C20_firm_params : forall r d s,
  gen_guard_firm (XFin r) (XFin d) s = None <-> 0 < r < 1 /\ 0 <= d /\ In s ["upper"; "lower"].
Proof. exact g_firm. Qed.
Print Assumptions C20_firm_params.
Theorem C20_firm_infinite_discount_accepted : forall r s, 0 < r < 1 -> In s ["upper"; "lower"] ->
  gen_guard_firm (XFin r) (XInf true) s = None.
Proof. exact g_firm_inf_discount. Qed.
Print Assumptions C20_firm_infinite_discount_accepted.
Theorem C20_discretise_tolerance : forall t, gen_guard_comparative_discretise (Some (XFin t)) = None <-> 0 <= t.
Proof. exact g_discretise. Qed.
Print Assumptions C20_discretise_tolerance.
Theorem C20_round_values_precision : forall p, gen_guard_round_values (XFin p) = None <-> 0 <= p.
Proof. exact g_round_values. Qed.
Print Assumptions C20_round_values_precision.
Theorem C20_observed_cdf_precision : forall p, gen_guard_observed_cdf (XFin p) = None <-> 0 <= p.
Proof. exact g_observed_cdf. Qed.
Print Assumptions C20_observed_cdf_precision.
Theorem C20_adjust_fcst_tolerance : forall t, gen_guard_adjust_fcst_for_crps (XFin t) = None <-> 0 <= t.
Proof. exact g_adjust_fcst. Qed.
Print Assumptions C20_adjust_fcst_tolerance.
Theorem C20_decreasing_cdfs_tolerance : forall t, gen_guard_check_nan_decreasing_inputs (XFin t) = None <-> 0 <= t.
Proof. exact g_nan_decreasing. Qed.
Print Assumptions C20_decreasing_cdfs_tolerance.
Theorem C20_fill_cdf_params : forall n m, gen_guard_fill_cdf (XFin n) m = None <->
  In m ["linear"; "step"; "forward"; "backward"] /\ (m = "linear" -> 2 <= n) /\ (m <> "linear" -> 1 <= n).
Proof. exact g_fill_cdf. Qed.
Print Assumptions C20_fill_cdf_params.
Theorem C20_isotonic_params : forall (f : option string) q c,
  gen_guard_iso_arg_checks f (XFin q) (XFin c) = None <->
  (f = None \/ f = Some "mean" \/ f = Some "quantile") /\ (f = Some "quantile" -> 0 < q < 1).
Proof. exact g_iso. Qed.
Print Assumptions C20_isotonic_params.
Theorem C20_isotonic_weights_positive : forall w : list Q, gen_guard_iso_weight (map XFin w) = None <-> Forall (fun x => 0 < x) w.
Proof. exact g_iso_weight. Qed.
Print Assumptions C20_isotonic_weights_positive.
Theorem C20_crps_cdf_weight_nonneg : forall w : list Q,
  gen_guard_crps_cdf_inputs (map XFin w) "linear" "exact" = None <-> Forall (fun x => 0 <= x) w.
Proof. exact g_crps_cdf_weight. Qed.
Print Assumptions C20_crps_cdf_weight_nonneg.
Theorem C20_diebold_mariano_params : forall c m d,
  gen_guard_diebold_mariano (XFin c) m d = None <-> In m ["HLN"; "HG"] /\ In d ["normal"; "t"] /\ 0 < c < 1.
Proof. exact g_dm. Qed.
Print Assumptions C20_diebold_mariano_params.
Theorem C20_crps_ensemble_method : forall m, gen_guard_crps_for_ensemble m = None <-> In m ["ecdf"; "fair"].
Proof. exact g_crps_ensemble. Qed.
Print Assumptions C20_crps_ensemble_method.
Theorem C20_tail_option : forall t, gen_guard_tail_tw_crps t = None <-> In t ["upper"; "lower"].
Proof. exact g_tail. Qed.
Print Assumptions C20_tail_option.

Example C20_domains_nonempty : gen_guard_quantile_score (XFin (1 # 2)) = None /\ gen_guard_firm (XFin (1 # 2)) (XFin 0) "lower" = None.
Proof. split; reflexivity. Qed.
