(* props/C16.v -- property C16: FSS equals the sliding-window definition and aggregates by components.
   Only statements; every proof is `exact <lemma>` into coq/proofs. *)
From V Require Import lib.Tree model.C16 proofs.C16_sat proofs.C16.
Open Scope Q_scope.

(* the summed-area-table identity: D - B - C + A is the number of events in the h x w window at (i, j),
   for every field, position and window *)
Theorem C16_sat_window_sum : forall (F : field) (i j h w : nat),
  wsum F i j h w = (sat F (i + h) (j + w) - sat F i (j + w) - sat F (i + h) j + sat F i j)%Z.
Proof. exact sat_window_sum. Qed.
Print Assumptions C16_sat_window_sum.

(* the list-level table built like the code (cumsum(1).cumsum(0), zero column, zero row) holds the prefix sums *)
Theorem C16_sat_table_is_prefix_sum : forall rows H W i j, rect rows H W -> (1 <= H)%nat -> (i <= H)%nat -> (j <= W)%nat ->
  tbl_get (sat_table rows) (Z.of_nat i) (Z.of_nat j) = sat (fld rows) i j.
Proof. intros rows H W i j R Hh Hi Hj. exact (sat_table_ok rows H W R Hh i j Hi Hj). Qed.
Print Assumptions C16_sat_table_is_prefix_sum.

(* without padding, the code-faithful components equal direct window counting: every shape down to 1x1,
   every window up to the field size *)
Theorem C16_fss_sat_eq_def_nopad : forall rf ro H W wh ww,
  rect rf H W -> rect ro H W -> (1 <= wh <= H)%nat -> (1 <= ww <= W)%nat ->
  comps_field VSat false rf ro wh ww = comps_field VDef false rf ro wh ww.
Proof. exact comps_sat_eq_def_nopad. Qed.
Print Assumptions C16_fss_sat_eq_def_nopad.
