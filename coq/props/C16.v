(* props/C16.v -- property C16: FSS equals the sliding-window definition and aggregates by components.
   Only statements; every proof is `exact <lemma>` into coq/proofs.

   Vocabulary (coq/model/C16.v):  wsum F i j h w = events of field F in the h x w window at (i,j);
   sat = prefix sums; ext F H W pt pl = the H x W field placed at offset (pt,pl) in an all-zero plane;
   comps_field v pad rf ro wh ww = the three components (means of squared window counts) of one field
   pair, v = VDef the sliding-window DEFINITION (pad: field zero-extended by floor(w/2) on each side),
   v = VSat the CODE-FAITHFUL model of fss_numpy.py (cumsum table, zero row/column, tl/br meshes, clips);
   fss_of_comps = compute_fss / _aggregate_fss_decomposed tail; fss_single / fss_2d_m / fss_2d_binary_m the
   public functions; rect rows H W = a genuine H x W array. *)
From V Require Import lib.Tree model.C16 proofs.C16_sat proofs.C16 proofs.C16_score proofs.C16_2d gen.Gen_C16_kern proofs.C16_code.
Open Scope Q_scope.

(* D - B - C + A is the number of events in the h x w window at (i, j): every field, position, window *)
Theorem C16_sat_window_sum : forall (F : field) (i j h w : nat),
  wsum F i j h w = (sat F (i + h) (j + w) - sat F i (j + w) - sat F (i + h) j + sat F i j)%Z.
Proof. exact sat_window_sum. Qed.
Print Assumptions C16_sat_window_sum.

(* the table built like the code (cumsum(1).cumsum(0), zero column, zero row) holds the prefix sums *)
Theorem C16_sat_table_is_prefix_sum : forall rows H W, rect rows H W -> (1 <= H)%nat ->
  forall i j, (i <= H)%nat -> (j <= W)%nat -> tbl_get (sat_table rows) (Z.of_nat i) (Z.of_nat j) = sat (fld rows) i j.
Proof. exact sat_table_ok. Qed.
Print Assumptions C16_sat_table_is_prefix_sum.

(* both index meshes (including the np.clip calls of the zero-padding branch) stay inside the table: no
   wrap-around, no IndexError, and tl <= br *)
Theorem C16_mesh_in_bounds : forall pad n w k, (1 <= w <= n)%nat -> (k < a_n (sat_axis pad n w))%nat ->
  (0 <= a_tl (sat_axis pad n w) k <= Z.of_nat n)%Z /\ (0 <= a_br (sat_axis pad n w) k <= Z.of_nat n)%Z
  /\ (a_tl (sat_axis pad n w) k <= a_br (sat_axis pad n w) k)%Z.
Proof. exact mesh_in_bounds. Qed.
Print Assumptions C16_mesh_in_bounds.

(* no padding: the code-faithful components ARE direct window counting, every shape down to 1x1 and every
   window up to the field size *)
Theorem C16_fss_sat_eq_def_nopad : forall rf ro H W wh ww,
  rect rf H W -> rect ro H W -> (1 <= wh <= H)%nat -> (1 <= ww <= W)%nat ->
  comps_field VSat false rf ro wh ww = comps_field VDef false rf ro wh ww.
Proof. exact comps_sat_eq_def_nopad. Qed.
Print Assumptions C16_fss_sat_eq_def_nopad.

(* ... hence fss_2d_single_field (values and raised errors), for every threshold, operator and window argument *)
Theorem C16_fss_single_sat_eq_def_nopad : forall op th f o wh ww H W H' W', rectx f H W -> rectx o H' W' ->
  fss_single VSat false op th f o wh ww = fss_single VDef false op th f o wh ww.
Proof. exact fss_single_sat_eq_def_nopad. Qed.
Print Assumptions C16_fss_single_sat_eq_def_nopad.

(* ... and fss_2d on arrays with any extra dimensions and any reduce/preserve request *)
Theorem C16_fss_2d_sat_eq_def_nopad : forall op th fcst obs wh ww sp rd pd,
  res_rel eq (fss_2d_m VSat false op th fcst obs wh ww sp rd pd) (fss_2d_m VDef false op th fcst obs wh ww sp rd pd).
Proof. exact fss_2d_sat_eq_def_nopad. Qed.
Print Assumptions C16_fss_2d_sat_eq_def_nopad.

(* zero padding: the code visits exactly the (H+1) x (W+1) windows whose top-left corner is
   (r - floor(wh/2), c - floor(ww/2)), r = 0..H, c = 0..W, of the zero-extended field *)
Theorem C16_fss_sat_pad_characterised : forall rf ro H W wh ww,
  rect rf H W -> rect ro H W -> (1 <= wh <= H)%nat -> (1 <= ww <= W)%nat ->
  comps_field VSat true rf ro wh ww =
  comps_of (S H) (S W) (fun r c => wsum (ext (fld rf) H W (half wh) (half ww)) r c wh ww)
                       (fun r c => wsum (ext (fld ro) H W (half wh) (half ww)) r c wh ww).
Proof. exact comps_sat_pad_characterised. Qed.
Print Assumptions C16_fss_sat_pad_characterised.

(* which is the documented padding (floor(w/2) cells on each side) when each window side is even or 1 *)
Theorem C16_fss_pad_even_ok : forall rf ro H W wh ww,
  rect rf H W -> rect ro H W -> (1 <= wh <= H)%nat -> (1 <= ww <= W)%nat -> Nat.even wh = true -> Nat.even ww = true ->
  fss_of_comps (comps_field VSat true rf ro wh ww) == fss_of_comps (comps_field VDef true rf ro wh ww).
Proof. exact fss_pad_even_ok. Qed.
Print Assumptions C16_fss_pad_even_ok.

Theorem C16_fss_pad_w1_ok : forall rf ro H W, rect rf H W -> rect ro H W -> (1 <= H)%nat -> (1 <= W)%nat ->
  fss_of_comps (comps_field VSat true rf ro 1 1) == fss_of_comps (comps_field VDef true rf ro 1 1).
Proof. exact fss_pad_w1_ok. Qed.
Print Assumptions C16_fss_pad_w1_ok.

(* general form (each side even or 1, mixed allowed), at the level of the public single-field function ... *)
Theorem C16_fss_single_pad_ok : forall op th f o wh ww H W H' W', rectx f H W -> rectx o H' W' -> okz wh -> okz ww ->
  req (fss_single VSat true op th f o wh ww) (fss_single VDef true op th f o wh ww).
Proof. exact fss_single_pad_ok. Qed.
Print Assumptions C16_fss_single_pad_ok.

(* ... and of fss_2d over several fields *)
Theorem C16_fss_2d_pad_ok : forall op th fcst obs wh ww sp rd pd, okz wh -> okz ww ->
  res_rel xeq (fss_2d_m VSat true op th fcst obs wh ww sp rd pd) (fss_2d_m VDef true op th fcst obs wh ww sp rd pd).
Proof. exact fss_2d_pad_ok. Qed.
Print Assumptions C16_fss_2d_pad_ok.

(* FINDING 6: with an odd window >= 3 the code-faithful model differs from the documented padding
   (1x3 fields, 1x3 window: 2/5 instead of 1/2) *)
Theorem C16_fss_pad_odd_refuted :
  exists (f o : list (list xv)) (wh ww : Z) x y,
    rectx f 1 3 /\ rectx o 1 3 /\ Z.odd ww = true /\ (3 <= ww)%Z /\
    fss_single VSat true (Some OpGt) (XFin (1 # 2)) f o wh ww = Ok x /\
    fss_single VDef true (Some OpGt) (XFin (1 # 2)) f o wh ww = Ok y /\ ~ x == y.
Proof. exact fss_pad_odd_refuted. Qed.
Print Assumptions C16_fss_pad_odd_refuted.

(* range: for event counts (o - f)^2 <= o^2 + f^2, so the score is in [0,1] and the clamp never acts
   (both models, both paddings) *)
Theorem C16_fss_range : forall v pad rf ro H W wh ww,
  rect rf H W -> rect ro H W -> nonneg_rows rf -> nonneg_rows ro -> (1 <= wh <= H)%nat -> (1 <= ww <= W)%nat ->
  let c := comps_field v pad rf ro wh ww in
  0 <= fss_of_comps c <= 1 /\
  (0 < cf c + co c -> fss_of_comps c == 1 - cd c / (cf c + co c) /\ 0 <= 1 - cd c / (cf c + co c) <= 1).
Proof. exact fss_range. Qed.
Print Assumptions C16_fss_range.

Theorem C16_fss_symmetric : forall v pad rf ro H W wh ww, rect rf H W -> rect ro H W -> (1 <= wh <= H)%nat -> (1 <= ww <= W)%nat ->
  fss_of_comps (comps_field v pad ro rf wh ww) == fss_of_comps (comps_field v pad rf ro wh ww).
Proof. exact fss_symmetric. Qed.
Print Assumptions C16_fss_symmetric.

(* identical event fields containing at least one event score exactly 1 *)
Theorem C16_fss_identical_is_one : forall v pad rf H W wh ww i j,
  rect rf H W -> nonneg_rows rf -> (1 <= wh <= H)%nat -> (1 <= ww <= W)%nat ->
  (i < H)%nat -> (j < W)%nat -> (1 <= fld rf i j)%Z -> fss_of_comps (comps_field v pad rf rf wh ww) == 1.
Proof. exact fss_identical_is_one. Qed.
Print Assumptions C16_fss_identical_is_one.

(* no event in either field: the denominator is 0 and the score is 0 (never a division by zero) *)
Theorem C16_fss_zero_denominator : forall v pad rf ro H W wh ww, rect rf H W -> rect ro H W -> (1 <= wh <= H)%nat -> (1 <= ww <= W)%nat ->
  (forall i j, fld rf i j = 0%Z) -> (forall i j, fld ro i j = 0%Z) -> fss_of_comps (comps_field v pad rf ro wh ww) == 0.
Proof. exact fss_zero_denominator. Qed.
Print Assumptions C16_fss_zero_denominator.

(* several fields: 1 - (sum of the per-field diff sums) / (sum of the fcst sums + sum of the obs sums), i.e. formed
   from the three component sums, not from per-field scores (see Example aggregate_is_not_mean_of_scores) *)
Theorem C16_fss_aggregate_by_components : forall v pad (fields : list rpair) H W wh ww,
  all_rect fields H W -> (1 <= wh <= H)%nat -> (1 <= ww <= W)%nat -> fields <> [] ->
  aggregate (map (fun p => comps_field v pad (fst p) (snd p) wh ww) fields) ==
  fss_sums (qz (fSf v pad H W wh ww fst fields)) (qz (fSf v pad H W wh ww snd fields)) (qz (fSd v pad H W wh ww fields)).
Proof. exact fss_aggregate_by_components. Qed.
Print Assumptions C16_fss_aggregate_by_components.

(* every value of fss_2d lies in [0,1] *)
Theorem C16_fss_2d_in_unit_interval : forall v pad op th fcst obs wh ww sp rd pd a e,
  fss_2d_m v pad op th fcst obs wh ww sp rd pd = Ok a -> exists x, lget a e = XFin x /\ 0 <= x <= 1.
Proof. exact fss_2d_in_unit_interval. Qed.
Print Assumptions C16_fss_2d_in_unit_interval.

(* the binary entry point on the thresholded fields is fss_2d on the original fields *)
Theorem C16_fss_binary_agrees : forall v pad op th fcst obs wh ww sp rd pd,
  res_rel eq (fss_2d_binary_m v pad true true (binarise op th fcst) (binarise op th obs) wh ww sp rd pd)
             (fss_2d_m v pad (Some op) th fcst obs wh ww sp rd pd).
Proof. exact fss_binary_agrees. Qed.
Print Assumptions C16_fss_binary_agrees.

(* NaN cells are non-events: replacing them by any non-event value changes nothing *)
Theorem C16_fss_nan_is_nonevent : forall v pad op th v0 f o wh ww, op <> OpId -> thr op th v0 = 0%Z ->
  fss_single v pad (Some op) th (fill_nan v0 f) (fill_nan v0 o) wh ww = fss_single v pad (Some op) th f o wh ww.
Proof. exact fss_nan_is_nonevent. Qed.
Print Assumptions C16_fss_nan_is_nonevent.

(* ---- non-vacuity ---- *)
Example C16_hyps_satisfiable : rect [[1; 0; 1]; [0; 1; 1]]%Z 2 3 /\ nonneg_rows [[1; 0; 1]; [0; 1; 1]]%Z /\ okz 2 /\ okz 1 /\ axis_ok 4.
Proof. repeat split; repeat constructor; lia. Qed.
Example C16_example_value :
  fss_single VSat false (Some OpGt) (XFin (1 # 2)) [[XFin 1; XFin 0]; [XNaN; XFin 1]] [[XFin 1; XFin 1]; [XFin 0; XFin 0]] 1 2
  = fss_single VDef false (Some OpGt) (XFin (1 # 2)) [[XFin 1; XFin 0]; [XNaN; XFin 1]] [[XFin 1; XFin 1]; [XFin 0; XFin 0]] 1 2.
Proof. vm_compute. reflexivity. Qed.

(* ---- the scalar tail (zero denominator, clamping) regenerated from source on every run: backend.compute_fss (translator
   site C16.single) and the tail of _aggregate_fss_decomposed (site C16.agg, which adds obs + fcst in the other order) ---- *)
(* both are the model's fss_of_comps, the function every theorem above is stated with *)
Theorem C16_code_single_tail_is_model : forall f o d : Q,
  gen_compute_fss (XFin f) (XFin o) (XFin d) =x= XFin (fss_of_comps {| cf := f; co := o; cd := d |}).
Proof. exact gen_compute_fss_is_model. Qed.
Print Assumptions C16_code_single_tail_is_model.

Theorem C16_code_aggregate_tail_is_model : forall f o d : Q,
  gen_aggregate_tail (XFin f) (XFin o) (XFin d) =x= XFin (fss_of_comps {| cf := f; co := o; cd := d |}).
Proof. exact gen_aggregate_tail_is_model. Qed.
Print Assumptions C16_code_aggregate_tail_is_model.

(* the single-field entry point and the aggregating entry point finish in the same way *)
Theorem C16_code_tails_agree : forall f o d : Q,
  gen_compute_fss (XFin f) (XFin o) (XFin d) =x= gen_aggregate_tail (XFin f) (XFin o) (XFin d).
Proof. exact single_and_aggregate_tails_agree. Qed.
Print Assumptions C16_code_tails_agree.

(* the regenerated code is clamped to [0, 1] for all finite components (no hypothesis on their signs) ... *)
Theorem C16_code_tail_in_unit_interval : forall f o d : Q,
  exists q, gen_compute_fss (XFin f) (XFin o) (XFin d) =x= XFin q /\ 0 <= q <= 1.
Proof. exact gen_compute_fss_range. Qed.
Print Assumptions C16_code_tail_in_unit_interval.

(* ... and is 0 when the denominator is 0 *)
Theorem C16_code_tail_zero_denominator : forall f o d : Q, f + o == 0 ->
  gen_compute_fss (XFin f) (XFin o) (XFin d) =x= XFin 0.
Proof. exact gen_compute_fss_zero_denominator. Qed.
Print Assumptions C16_code_tail_zero_denominator.
