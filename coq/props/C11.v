(* props/C11.v -- property C11: Murphy scores match the elementary definition; murphy_thetas cover every kink.
   Only statements; every proof is `exact <lemma>` into coq/proofs.  Q-level statements are axiom-free; the
   integral over theta (is_RInt, Coquelicot) uses the standard Reals axioms (see Print Assumptions). *)
From Coq Require Import Sorting.Sorted Reals Qreals.
From Coquelicot Require Import Coquelicot.
From V Require Import lib.Tree gen.Gen_C11_kern model.C11 proofs.C11 proofs.C11_ext proofs.C10_RInt proofs.C11_RInt.
Open Scope Q_scope.

(* in_over f o t = (o <= t < f), in_under f o t = (f <= t < o); es_* = penalty sizes (model/C11.v);
   m_total / m_under / m_over = components of the regenerated merge pipeline, whose names are fixed by: *)
Theorem C11_merge_names : gen_murphy_merge_names = ["total"; "underforecast"; "overforecast"]%string.
Proof. exact merge_names_ok. Qed.
Print Assumptions C11_merge_names.

(* ---- elementary scores: over-forecast penalty iff obs <= theta < fcst, under-forecast iff fcst <= theta < obs,
        with the values of Ehm et al. / Taggart; total = under + over ---- *)
Theorem C11_elementary_quantile_spec : forall alpha f o t : Q,
  let k := gen_murphy_quantile (XFin f) (XFin o) (XFin t) (XFin alpha) in
  fst k =x= (if Qle_bool o t && Qltb t f then XFin (1 - alpha) else XNaN) /\
  snd k =x= (if Qle_bool f t && Qltb t o then XFin alpha else XNaN) /\
  let r := gen_murphy_merge (fst k) (snd k) (XFin f) in
  m_over r =x= XFin (es_quantile_over alpha f o t) /\ m_under r =x= XFin (es_quantile_under alpha f o t) /\
  m_total r =x= XFin (es_quantile_over alpha f o t + es_quantile_under alpha f o t).
Proof. intros. destruct (quantile_parts alpha f o t). destruct (elementary_quantile_spec alpha f o t) as [? [? ?]]. repeat split; assumption. Qed.
Print Assumptions C11_elementary_quantile_spec.

Theorem C11_elementary_huber_spec : forall alpha a f o t : Q,
  let k := gen_murphy_huber (XFin f) (XFin o) (XFin t) (XFin alpha) (XFin a) in
  fst k =x= (if Qle_bool o t && Qltb t f then XFin ((1 - alpha) * Qmin' (t - o) a) else XNaN) /\
  snd k =x= (if Qle_bool f t && Qltb t o then XFin (alpha * Qmin' (o - t) a) else XNaN) /\
  let r := gen_murphy_merge (fst k) (snd k) (XFin f) in
  m_over r =x= XFin (es_huber_over alpha a f o t) /\ m_under r =x= XFin (es_huber_under alpha a f o t) /\
  m_total r =x= XFin (es_huber_over alpha a f o t + es_huber_under alpha a f o t).
Proof. intros. destruct (huber_parts alpha a f o t). destruct (elementary_huber_spec alpha a f o t) as [? [? ?]]. repeat split; assumption. Qed.
Print Assumptions C11_elementary_huber_spec.

Theorem C11_elementary_expectile_spec : forall alpha f o t : Q,
  let k := gen_murphy_expectile (XFin f) (XFin o) (XFin t) (XFin alpha) in
  fst k =x= (if Qle_bool o t && Qltb t f then XFin ((1 - alpha) * (t - o)) else XNaN) /\
  snd k =x= (if Qle_bool f t && Qltb t o then XFin (alpha * (o - t)) else XNaN) /\
  let r := gen_murphy_merge (fst k) (snd k) (XFin f) in
  m_over r =x= XFin (es_expectile_over alpha f o t) /\ m_under r =x= XFin (es_expectile_under alpha f o t) /\
  m_total r =x= XFin (es_expectile_over alpha f o t + es_expectile_under alpha f o t).
Proof. intros. destruct (expectile_parts alpha f o t). destruct (elementary_expectile_spec alpha f o t) as [? [? ?]]. repeat split; assumption. Qed.
Print Assumptions C11_elementary_expectile_spec.

(* zero for theta outside [min(f,o), max(f,o)) *)
Theorem C11_zero_outside_range : forall alpha a f o t : Q, (t < f /\ t < o) \/ (f <= t /\ o <= t) ->
  es_quantile alpha f o t == 0 /\ es_huber alpha a f o t == 0 /\ es_expectile alpha f o t == 0.
Proof. exact es_zero_outside. Qed.
Print Assumptions C11_zero_outside_range.

(* ---- the merge pipeline: NaN exactly on the NaN-matched cases; otherwise total = overforecast + underforecast ---- *)
Theorem C11_merge_total : forall (over under f : xv),
  (xisnan f = true -> gen_murphy_merge over under f = (XNaN, XNaN, XNaN)) /\
  (xisnan f = false -> xisnan over || xisnan under = true ->
   m_total (gen_murphy_merge over under f) =x= xadd (m_over (gen_murphy_merge over under f)) (m_under (gen_murphy_merge over under f))).
Proof. intros. split; [destruct f; try discriminate; intros _; apply merge_nan | apply merge_total_sum]. Qed.
Print Assumptions C11_merge_total.

(* one cell of murphy_score (model): a NaN in theta, fcst or obs gives NaN in every variable *)
Theorem C11_cell_nan : forall fn alpha a t f o, xisnan t || xisnan f || xisnan o = true ->
  murphy_point fn alpha a t f o = (XNaN, XNaN, XNaN).
Proof. exact murphy_point_nan. Qed.
Print Assumptions C11_cell_nan.

(* ---- murphy_thetas (model): strictly increasing, NaN-free, made of generating points only ---- *)
Theorem C11_thetas_sorted : forall fcsts obs fn huber_a delta T, murphy_thetas_m fcsts obs fn huber_a delta = Ok T ->
  Sorted (fun a b => xlt a b = true) T /\ Forall (fun a => xisnan a = false) T /\
  (forall y, In y T -> In y (theta_points fn fcsts obs (opt_get huber_a) (match delta with None => X0 | Some d => d end))).
Proof. exact thetas_sorted. Qed.
Print Assumptions C11_thetas_sorted.

(* ---- completeness of the theta set: if no returned theta lies in (t1, t], then on [t1, t] every case's elementary score
        is constant (quantile) resp. affine with the stated slope (expectile, Huber) ---- *)
Theorem C11_thetas_cover_quantile : forall fcsts obs huber_a delta T (alpha f o t1 t : Q),
  murphy_thetas_m fcsts obs "quantile" huber_a delta = Ok T ->
  In (XFin f) (concat fcsts) -> In (XFin o) obs -> t1 <= t ->
  (forall q, In (XFin q) T -> ~ (t1 < q /\ q <= t)) ->
  es_quantile_over alpha f o t == es_quantile_over alpha f o t1 /\
  es_quantile_under alpha f o t == es_quantile_under alpha f o t1 /\
  es_quantile alpha f o t == es_quantile alpha f o t1.
Proof. exact thetas_cover_quantile. Qed.
Print Assumptions C11_thetas_cover_quantile.

Theorem C11_thetas_cover_expectile : forall fcsts obs huber_a delta T (alpha f o t1 t : Q),
  murphy_thetas_m fcsts obs "expectile" huber_a delta = Ok T ->
  In (XFin f) (concat fcsts) -> In (XFin o) obs -> t1 <= t ->
  (forall q, In (XFin q) T -> ~ (t1 < q /\ q <= t)) ->
  es_expectile alpha f o t == es_expectile alpha f o t1
    + ((if in_over f o t1 then 1 - alpha else 0) - (if in_under f o t1 then alpha else 0)) * (t - t1).
Proof. exact thetas_cover_expectile. Qed.
Print Assumptions C11_thetas_cover_expectile.

Theorem C11_thetas_cover_huber : forall fcsts obs (a : Q) delta T (alpha f o t1 t : Q),
  murphy_thetas_m fcsts obs "huber" (Some (XFin a)) delta = Ok T ->
  In (XFin f) (concat fcsts) -> In (XFin o) obs -> t1 <= t ->
  (forall q, In (XFin q) T -> ~ (t1 < q /\ q <= t)) ->
  es_huber alpha a f o t == es_huber alpha a f o t1
    + ((if in_over f o t1 && Qltb (t1 - o) a then 1 - alpha else 0) - (if in_under f o t1 && Qle_bool (o - t1) a then alpha else 0)) * (t - t1).
Proof. exact thetas_cover_huber. Qed.
Print Assumptions C11_thetas_cover_huber.

(* the left-limit approximations f - delta are in the set (expectile, Huber) *)
Theorem C11_thetas_left_limits : forall fcsts obs fn huber_a (d : Q) T (f : Q),
  fn = "expectile"%string \/ fn = "huber"%string ->
  murphy_thetas_m fcsts obs fn huber_a (Some (XFin d)) = Ok T ->
  In (XFin f) (concat fcsts) -> exists q, In (XFin q) T /\ q == f - d.
Proof. exact thetas_left_limits. Qed.
Print Assumptions C11_thetas_left_limits.

(* =====================  integral over theta (Coquelicot is_RInt; standard Reals axioms)  ===================== *)
(* esR_* : the elementary scores as real functions of theta (proofs/C10_RInt.v); at rational arguments they are the
   specification values of the regenerated kernels: *)
Theorem C11_elementary_score_real : forall alpha a f o t : Q,
  Q2R (es_quantile alpha f o t) = esR_quantile (Q2R alpha) (Q2R f) (Q2R o) (Q2R t) /\
  Q2R (es_expectile alpha f o t) = esR_expectile (Q2R alpha) (Q2R f) (Q2R o) (Q2R t) /\
  Q2R (es_huber alpha a f o t) = esR_huber (Q2R alpha) (Q2R a) (Q2R f) (Q2R o) (Q2R t).
Proof. intros. repeat split; [apply es_quantile_bridge | apply es_expectile_bridge | apply es_huber_bridge]. Qed.
Print Assumptions C11_elementary_score_real.

(* over any [lo, hi] containing fcst and obs the Murphy curve of one case integrates to the pinball loss (quantile), half the
   asymmetric squared error (expectile), the asymmetric Huber loss |1{o<f} - alpha| * huber_a(f - o) (Huber) *)
Theorem C11_murphy_integrates : forall alpha a f o lo hi : Q, 0 <= a -> lo <= f <= hi -> lo <= o <= hi ->
  is_RInt (esR_quantile (Q2R alpha) (Q2R f) (Q2R o)) (Q2R lo) (Q2R hi)
          (Q2R (if Qltb o f then (1 - alpha) * (f - o) else alpha * (o - f))) /\
  is_RInt (esR_expectile (Q2R alpha) (Q2R f) (Q2R o)) (Q2R lo) (Q2R hi)
          (Q2R ((if Qltb o f then 1 - alpha else alpha) * ((f - o) * (f - o)) / 2)) /\
  is_RInt (esR_huber (Q2R alpha) (Q2R a) (Q2R f) (Q2R o)) (Q2R lo) (Q2R hi)
          (Q2R ((if Qltb o f then 1 - alpha else alpha)
                * (if Qle_bool (Qabs (f - o)) a then (1 # 2) * ((f - o) * (f - o)) else a * (Qabs (f - o) - (1 # 2) * a)))).
Proof. exact murphy_integrates. Qed.
Print Assumptions C11_murphy_integrates.

(* =====================  extended reals: +-inf forecasts, observations, thetas (Q-level, axiom-free)  ===================== *)
(* ---- the same on the extended reals: forecast, observation and theta may be +-inf (NaN is the missing value, see C11_cell_nan).
        xin_over f o t = (obs <= theta < fcst), xin_under f o t = (fcst <= theta < obs) in the order of the extended reals;
        esx_* = `if region then weight * size else 0` with the sizes 1 / min(theta - obs, a) / theta - obs in IEEE arithmetic
        (model/C11_spec.v).  size_defined o t excludes only obs = theta = -inf, where theta - obs is inf - inf. ---- *)
Theorem C11_elementary_quantile_extended : forall (alpha : Q) (f o t : xv), xisnan f = false -> xisnan o = false -> xisnan t = false ->
  let k := gen_murphy_quantile f o t (XFin alpha) in
  let r := gen_murphy_merge (fst k) (snd k) f in
  m_over r =x= esx_quantile_over alpha f o t /\ m_under r =x= esx_quantile_under alpha f o t /\
  m_total r =x= xadd (esx_quantile_over alpha f o t) (esx_quantile_under alpha f o t).
Proof. exact quantile_x. Qed.
Print Assumptions C11_elementary_quantile_extended.

Theorem C11_elementary_huber_extended : forall (alpha a : Q) (f o t : xv), 0 < alpha < 1 ->
  xisnan f = false -> xisnan o = false -> xisnan t = false -> size_defined o t = true ->
  let k := gen_murphy_huber f o t (XFin alpha) (XFin a) in
  let r := gen_murphy_merge (fst k) (snd k) f in
  m_over r =x= esx_huber_over alpha a f o t /\ m_under r =x= esx_huber_under alpha a f o t /\
  m_total r =x= xadd (esx_huber_over alpha a f o t) (esx_huber_under alpha a f o t).
Proof. exact huber_x. Qed.
Print Assumptions C11_elementary_huber_extended.

Theorem C11_elementary_expectile_extended : forall (alpha : Q) (f o t : xv), 0 < alpha < 1 ->
  xisnan f = false -> xisnan o = false -> xisnan t = false -> size_defined o t = true ->
  let k := gen_murphy_expectile f o t (XFin alpha) in
  let r := gen_murphy_merge (fst k) (snd k) f in
  m_over r =x= esx_expectile_over alpha f o t /\ m_under r =x= esx_expectile_under alpha f o t /\
  m_total r =x= xadd (esx_expectile_over alpha f o t) (esx_expectile_under alpha f o t).
Proof. exact expectile_x. Qed.
Print Assumptions C11_elementary_expectile_extended.

(* the extended definition is the rational one on rational arguments ... *)
Theorem C11_extended_agrees_on_rationals : forall alpha a f o t : Q,
  esx_quantile_over alpha (XFin f) (XFin o) (XFin t) =x= XFin (es_quantile_over alpha f o t) /\
  esx_quantile_under alpha (XFin f) (XFin o) (XFin t) =x= XFin (es_quantile_under alpha f o t) /\
  esx_huber_over alpha a (XFin f) (XFin o) (XFin t) =x= XFin (es_huber_over alpha a f o t) /\
  esx_huber_under alpha a (XFin f) (XFin o) (XFin t) =x= XFin (es_huber_under alpha a f o t) /\
  esx_expectile_over alpha (XFin f) (XFin o) (XFin t) =x= XFin (es_expectile_over alpha f o t) /\
  esx_expectile_under alpha (XFin f) (XFin o) (XFin t) =x= XFin (es_expectile_under alpha f o t).
Proof. exact esx_fin. Qed.
Print Assumptions C11_extended_agrees_on_rationals.

(* ... and for an infinite forecast with rational obs / theta it says: +inf over-forecasts every theta >= obs, -inf under-forecasts
   every theta < obs, with the penalty sizes of the rational definition (never 0 inside the region) *)
Theorem C11_infinite_forecast : forall alpha a o t : Q,
  esx_quantile_over alpha (XInf true) (XFin o) (XFin t) =x= XFin (if Qle_bool o t then 1 - alpha else 0) /\
  esx_quantile_under alpha (XInf true) (XFin o) (XFin t) =x= X0 /\
  esx_quantile_over alpha (XInf false) (XFin o) (XFin t) =x= X0 /\
  esx_quantile_under alpha (XInf false) (XFin o) (XFin t) =x= XFin (if Qltb t o then alpha else 0) /\
  esx_huber_over alpha a (XInf true) (XFin o) (XFin t) =x= XFin (if Qle_bool o t then (1 - alpha) * Qmin' (t - o) a else 0) /\
  esx_huber_under alpha a (XInf true) (XFin o) (XFin t) =x= X0 /\
  esx_huber_over alpha a (XInf false) (XFin o) (XFin t) =x= X0 /\
  esx_huber_under alpha a (XInf false) (XFin o) (XFin t) =x= XFin (if Qltb t o then alpha * Qmin' (o - t) a else 0) /\
  esx_expectile_over alpha (XInf true) (XFin o) (XFin t) =x= XFin (if Qle_bool o t then (1 - alpha) * (t - o) else 0) /\
  esx_expectile_under alpha (XInf true) (XFin o) (XFin t) =x= X0 /\
  esx_expectile_over alpha (XInf false) (XFin o) (XFin t) =x= X0 /\
  esx_expectile_under alpha (XInf false) (XFin o) (XFin t) =x= XFin (if Qltb t o then alpha * (o - t) else 0).
Proof. exact esx_infinite_forecast. Qed.
Print Assumptions C11_infinite_forecast.

(* one cell of murphy_score (model) with non-NaN extended-real theta, fcst, obs: the extended definition *)
Theorem C11_cell_extended : forall (alpha a : Q) (t f o : xv), 0 < alpha < 1 -> xisnan t = false -> xisnan f = false -> xisnan o = false ->
  (let r := murphy_point "quantile" (XFin alpha) (Some (XFin a)) t f o in
   m_over r =x= esx_quantile_over alpha f o t /\ m_under r =x= esx_quantile_under alpha f o t /\
   m_total r =x= xadd (esx_quantile_over alpha f o t) (esx_quantile_under alpha f o t)) /\
  (size_defined o t = true ->
   (let r := murphy_point "huber" (XFin alpha) (Some (XFin a)) t f o in
    m_over r =x= esx_huber_over alpha a f o t /\ m_under r =x= esx_huber_under alpha a f o t /\
    m_total r =x= xadd (esx_huber_over alpha a f o t) (esx_huber_under alpha a f o t)) /\
   (let r := murphy_point "expectile" (XFin alpha) (Some (XFin a)) t f o in
    m_over r =x= esx_expectile_over alpha f o t /\ m_under r =x= esx_expectile_under alpha f o t /\
    m_total r =x= xadd (esx_expectile_over alpha f o t) (esx_expectile_under alpha f o t))).
Proof. exact murphy_point_x. Qed.
Print Assumptions C11_cell_extended.

(* the same with infinite forecasts / observations among the data (quantile): an infinite value is no kink at any finite theta *)
Theorem C11_thetas_cover_quantile_extended : forall fcsts obs huber_a delta T (alpha : Q) (f o : xv) (t1 t : Q),
  murphy_thetas_m fcsts obs "quantile" huber_a delta = Ok T ->
  In f (concat fcsts) -> In o obs -> t1 <= t ->
  (forall q, In (XFin q) T -> ~ (t1 < q /\ q <= t)) ->
  esx_quantile_over alpha f o (XFin t) =x= esx_quantile_over alpha f o (XFin t1) /\
  esx_quantile_under alpha f o (XFin t) =x= esx_quantile_under alpha f o (XFin t1).
Proof. exact thetas_cover_quantile_x. Qed.
Print Assumptions C11_thetas_cover_quantile_extended.

(* non-vacuity *)
Example C11_ex_thetas : rmap (map xred) (murphy_thetas_m [[XFin 1; XNaN; XFin 3]; [XFin 2]] [XFin 2; XFin (1#2)] "huber" (Some (XFin (1#2))) (Some (XFin (1#4))))
  = Ok (map XFin [0; 1#2; 3#4; 1; 3#2; 7#4; 2; 5#2; 11#4; 3]).
Proof. vm_compute. reflexivity. Qed.
Example C11_ex_boundary : es_quantile (1#4) 3 1 1 == 3#4 /\ es_quantile (1#4) 3 1 3 == 0 /\ es_quantile (1#4) 1 3 1 == 1#4 /\ es_quantile (1#4) 1 3 3 == 0.
Proof. repeat split; vm_compute; reflexivity. Qed.
Example C11_ex_infinite_forecast :
  let k := gen_murphy_quantile (XInf true) (XFin 1) (XFin 2) (XFin (3#10)) in
  let h := gen_murphy_huber (XInf true) (XFin 1) (XFin 2) (XFin (3#10)) (XFin (1#2)) in
  m_over (gen_murphy_merge (fst k) (snd k) (XInf true)) =x= XFin (7#10) /\ m_over (gen_murphy_merge (fst h) (snd h) (XInf true)) =x= XFin (7#20).
Proof. split; vm_compute; reflexivity. Qed.
