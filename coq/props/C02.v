(* props/C02.v -- property C02: a missing value removes exactly its own forecast case, never more, never less. *)
From V Require Import lib.Tree proofs.C01 proofs.C02 gen.Gen_quantile_loss gen.Gen_interval gen.Gen_standard gen.Gen_functions
  model.C05 proofs.C05.

(* every aggregated value is the mean over exactly the valid cases of its group (masked = deleted) *)
Theorem C02_mean_over_valid_cases_only : forall s w R e,
  lget (mean_score s w R) e =
  nanmean (valids (map (lget (apply_weights w s)) (envs (lsize (apply_weights w s)) (dinter (ldims (apply_weights w s)) R) e))).
Proof. exact mean_score_valid_only. Qed.
Print Assumptions C02_mean_over_valid_cases_only.
Theorem C02_masked_equals_deleted : forall l1 l2,
  nanmean (l1 ++ XNaN :: l2) = nanmean (l1 ++ l2) /\ nansum (l1 ++ XNaN :: l2) = nansum (l1 ++ l2)
  /\ nancount (l1 ++ XNaN :: l2) = nancount (l1 ++ l2).
Proof. exact masked_equals_deleted. Qed.
Print Assumptions C02_masked_equals_deleted.
(* ... and a missing case is not a zero error *)
Theorem C02_nan_is_not_zero : exists l1 l2, ~ nanmean (l1 ++ XNaN :: l2) =x= nanmean (l1 ++ X0 :: l2).
Proof. exact nan_is_not_zero. Qed.
Print Assumptions C02_nan_is_not_zero.

(* a NaN weight invalidates exactly its own cases *)
Theorem C02_weighted_nan_iff : forall s w : xv, xisinf s = false -> xisinf w = false ->
  (xmul s w = XNaN <-> s = XNaN \/ w = XNaN).
Proof. exact weighted_nan_iff. Qed.
Print Assumptions C02_weighted_nan_iff.

(* NaN matching of the ratio scores *)
Theorem C02_match_nan : forall a b : xv,
  (xwhere (both_valid a b) a = XNaN <-> a = XNaN \/ b = XNaN) /\ (xwhere (both_valid a b) b = XNaN <-> a = XNaN \/ b = XNaN).
Proof. exact match_nan_spec. Qed.
Print Assumptions C02_match_nan.

(* pointwise (preserve_dims='all') output is NaN exactly where some input is NaN -- per regenerated kernel,
   and for EVERY output component *)
Theorem C02_quantile_nan_iff : forall (f o : xv) (a : Q), finite_or_nan f -> finite_or_nan o ->
  (gen_quantile_score f o (XFin a) = XNaN <-> f = XNaN \/ o = XNaN).
Proof. exact quantile_nan_iff. Qed.
Print Assumptions C02_quantile_nan_iff.
Theorem C02_interval_nan_iff : forall (lo hi y : xv) (ll ul : Q), 0 < ll -> ul < 1 ->
  xisinf lo = false -> xisinf hi = false -> xisinf y = false ->
  let '(a, b, c, d) := gen_qis lo hi y (XFin ll) (XFin ul) in
  let anynan := lo = XNaN \/ hi = XNaN \/ y = XNaN in
  (a = XNaN <-> anynan) /\ (b = XNaN <-> anynan) /\ (c = XNaN <-> anynan) /\ (d = XNaN <-> anynan).
Proof. exact qis_nan_iff. Qed.
Print Assumptions C02_interval_nan_iff.
Theorem C02_mse_nan_iff : forall (f o : xv) b, xisinf f = false -> xisinf o = false ->
  (gen_mse_kernel f o b = XNaN <-> f = XNaN \/ o = XNaN).
Proof. exact mse_kernel_nan_iff. Qed.
Print Assumptions C02_mse_nan_iff.
Theorem C02_mae_nan_iff : forall (f o : xv) b, xisinf f = false -> xisinf o = false ->
  (gen_mae_kernel f o b = XNaN <-> f = XNaN \/ o = XNaN).
Proof. exact mae_kernel_nan_iff. Qed.
Print Assumptions C02_mae_nan_iff.
Theorem C02_bias_nan_iff : forall f o : xv, finite_or_nan f -> finite_or_nan o ->
  (gen_bias_kernel f o = XNaN <-> f = XNaN \/ o = XNaN).
Proof. exact bias_nan_iff. Qed.
Print Assumptions C02_bias_nan_iff.
Theorem C02_angular_nan_iff : forall a b : xv, finite_or_nan a -> finite_or_nan b ->
  (gen_angular_difference a b = XNaN <-> a = XNaN \/ b = XNaN).
Proof. exact angular_nan_iff. Qed.
Print Assumptions C02_angular_nan_iff.
