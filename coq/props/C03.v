(* props/C03.v -- property C03: weights act as a pointwise multiplier of per-case scores before averaging. *)
From V Require Import lib.Tree proofs.C01 proofs.C03 gen.Gen_weights.

(* preserve_dims='all' with weights w equals w times the unweighted pointwise result *)
Theorem C03_weights_pointwise : forall s w e,
  lget (mean_score s (Some w) []) e =x= xmul (lget (mean_score s None []) e) (lget w e).
Proof. exact weights_pointwise. Qed.
Print Assumptions C03_weights_pointwise.

(* weights broadcast by dimension name: a weight array without dimension d is constant along d *)
Theorem C03_weights_broadcast : forall dims data e d n, mem d (map fst dims) = false ->
  lget (of_flat dims data) (upd e d n) = lget (of_flat dims data) e.
Proof. exact weights_broadcast. Qed.
Print Assumptions C03_weights_broadcast.

(* unit weights change nothing *)
Theorem C03_unit_weights : forall l, nanmean (map (fun v => xmul v X1) l) =x= nanmean l.
Proof. exact weights_unit_mean. Qed.
Print Assumptions C03_unit_weights.

(* a constant weight c scales the aggregated score by c *)
Theorem C03_constant_weight_scales : forall c l, ~ c == 0 -> (forall v, In v l -> xisinf v = false) ->
  nanmean (map (xmul (XFin c)) l) =x= xmul (XFin c) (nanmean l).
Proof. exact nanmean_scale. Qed.
Print Assumptions C03_constant_weight_scales.

(* ... at the level of whole labelled arrays: weights c*w scale every cell of the aggregated score by c *)
Theorem C03_constant_weight_scales_score : forall (s w : larr) (c : Q) (R : list dim) (e : env),
  ~ c == 0 -> (forall e', xisinf (lget s e') = false) -> (forall e', xisinf (lget w e') = false) ->
  lget (mean_score s (Some (lmap (xmul (XFin c)) w)) R) e =x= xmul (XFin c) (lget (mean_score s (Some w) R) e).
Proof. exact mean_score_constant_weight_scales. Qed.
Print Assumptions C03_constant_weight_scales_score.

(* weights w1 + w2 give the sum of the two results (cases = (per-case score, w1, w2); NaN cases drop out of all three
   means alike -- i.e. under equal NaN masks of the weights, which the mathematics forces, see the refutation below) *)
Theorem C03_additive_in_weights : forall l : list (xv * Q * Q),
  (forall t, In t l -> xisinf (fst (fst t)) = false) ->
  nanmean (map (fun t => wscore (fst (fst t)) (XFin (snd (fst t) + snd t))) l) =x=
  xadd (nanmean (map (fun t => wscore (fst (fst t)) (XFin (snd (fst t)))) l))
       (nanmean (map (fun t => wscore (fst (fst t)) (XFin (snd t))) l)).
Proof. exact nanmean_additive. Qed.
Print Assumptions C03_additive_in_weights.
Theorem C03_additivity_needs_equal_masks_refuted :
  exists s1 s2 w1a w1b w2a w2b,
    ~ nanmean [xmul s1 (xadd w1a w2a); xmul s2 (xadd w1b w2b)] =x=
      xadd (nanmean [xmul s1 w1a; xmul s2 w1b]) (nanmean [xmul s1 w2a; xmul s2 w2b]).
Proof. exact weights_additive_needs_equal_masks_refuted. Qed.
Print Assumptions C03_additivity_needs_equal_masks_refuted.

(* ratio scores (multiplicative bias, percent bias, POD, POFD, ROC) are invariant to a positive constant weight *)
Theorem C03_ratio_invariant : forall c a b : Q, 0 < c ->
  xdiv (xmul (XFin c) (XFin a)) (xmul (XFin c) (XFin b)) =x= xdiv (XFin a) (XFin b).
Proof. exact ratio_scale_invariant. Qed.
Print Assumptions C03_ratio_invariant.

(* ---- the helper itself, regenerated from src/scores/functions.py on every run (translator site C03.aw) ---- *)
(* apply_weights(values, weights=None) returns the values; with weights it is exactly one multiplication *)
Theorem C03_code_apply_weights_none : forall v, gen_apply_weights v None = v.
Proof. exact gen_apply_weights_none. Qed.
Print Assumptions C03_code_apply_weights_none.

Theorem C03_code_apply_weights_multiplies : forall v w, gen_apply_weights v (Some w) = xmul v w.
Proof. exact gen_apply_weights_some. Qed.
Print Assumptions C03_code_apply_weights_multiplies.

(* the weighting functional of the theorems above is, cell by cell, the regenerated code *)
Theorem C03_model_apply_weights_is_code : forall w s e,
  lget (apply_weights w s) e = gen_apply_weights (lget s e) (option_map (fun a => lget a e) w).
Proof. exact apply_weights_is_code. Qed.
Print Assumptions C03_model_apply_weights_is_code.

(* pointwise factorisation stated against the regenerated code *)
Theorem C03_weights_pointwise_code : forall s w e,
  lget (mean_score s (Some w) []) e =x= gen_apply_weights (lget (mean_score s None []) e) (Some (lget w e)).
Proof. exact weights_pointwise_code. Qed.
Print Assumptions C03_weights_pointwise_code.

(* a NaN score or a NaN weight gives NaN; finite values give the rational product *)
Theorem C03_code_apply_weights_nan : forall v w, v = XNaN \/ w = XNaN -> gen_apply_weights v (Some w) = XNaN.
Proof. exact gen_apply_weights_nan. Qed.
Print Assumptions C03_code_apply_weights_nan.

Theorem C03_code_apply_weights_finite : forall a b, gen_apply_weights (XFin a) (Some (XFin b)) = XFin (a * b).
Proof. exact gen_apply_weights_fin. Qed.
Print Assumptions C03_code_apply_weights_finite.
