(* props/C19.v -- property C19: Diebold-Mariano statistics follow the published estimators and sign symmetry.
   Only statements; every proof is `exact <lemma>` into coq/proofs. *)
From V Require Import lib.Tree model.C19 proofs.C19.
Open Scope Q_scope.

(* the HLN statistic (carried as its signed square s): whenever V_hat is defined (positive),
   |s| * V_hat = mean^2 * factor  and  sign s = sign mean,  for every series and every 0 < h < n *)
Theorem C19_hln_spec : forall (d : list Q) (h : nat) (v : Q),
  (0 < h < length d)%nat -> v_hat d (qmean d) h = XFin v ->
  0 < v /\ exists s, hln_sq d h = XFin s
    /\ s * v == qmean d * Qabs (qmean d) * hln_factor (qlen d) (qn h)
    /\ Qabs s * v == qmean d * qmean d * hln_factor (qlen d) (qn h)
    /\ (0 < qmean d -> 0 < s) /\ (qmean d < 0 -> s < 0) /\ (qmean d == 0 -> s == 0).
Proof. exact hln_spec. Qed.
Print Assumptions C19_hln_spec.

(* negating a series negates the statistic (NaN stays NaN), every series, every h *)
Theorem C19_hln_negation : forall (d : list Q) (h : nat),
  dm_stat_hln (map Qopp d) h =x= xneg (dm_stat_hln d h).
Proof. exact hln_negation. Qed.
Print Assumptions C19_hln_negation.

(* positive rescaling leaves the HLN statistic unchanged *)
Theorem C19_hln_scale_invariant : forall (c : Q) (d : list Q) (h : nat),
  0 < c -> dm_stat_hln (map (Qmult c) d) h =x= dm_stat_hln d h.
Proof. exact hln_scale_invariant. Qed.
Print Assumptions C19_hln_scale_invariant.
