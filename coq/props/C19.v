(* props/C19.v -- property C19: Diebold-Mariano statistics follow the published estimators and sign symmetry.
   Only statements; every proof is `exact <lemma>` into coq/proofs.

   Vocabulary (coq/model/C19.v): d = a series with NaN removed (list Q); qmean; gamma d m k = sum of lagged products
   (_dm_gamma_hat_k); v_hat_q / v_hat = V_hat before / after the `<= 0 -> NaN` test; hln_factor = HLN equation (9);
   hln_sq / dm_stat_hln = the SIGNED SQUARE of the HLN statistic (the host applies sqrt); stat_R = its real value;
   ci_upper_m / ci_lower_m = the interval formulas in IEEE-style arithmetic; gamma_idx / acov_idx = the textbook
   index-sum form of the lagged sums / biased autocovariance estimator. *)
From Coq Require Import Reals.
From Coquelicot Require Import Coquelicot.
From V Require Import lib.Tree model.C19 proofs.C19 proofs.C19_real gen.Gen_C19_kern proofs.C19_code.
Open Scope Q_scope.

(* the HLN statistic (signed square s): whenever V_hat is defined (positive), |s| * V_hat = mean^2 * factor and
   sign s = sign mean, for every series and every 0 < h < n *)
Theorem C19_hln_spec : forall (d : list Q) (h : nat) (v : Q),
  (0 < h < length d)%nat -> v_hat d (qmean d) h = XFin v ->
  0 < v /\ exists s, hln_sq d h = XFin s
    /\ s * v == qmean d * Qabs (qmean d) * hln_factor (qlen d) (qn h)
    /\ Qabs s * v == qmean d * qmean d * hln_factor (qlen d) (qn h)
    /\ (0 < qmean d -> 0 < s) /\ (qmean d < 0 -> s < 0) /\ (qmean d == 0 -> s == 0).
Proof. exact hln_spec. Qed.
Print Assumptions C19_hln_spec.

(* over the reals: the statistic is mean / sqrt(V_hat) * sqrt(factor) *)
Theorem C19_hln_stat_is_published_formula : forall d h v, (0 < h < length d)%nat -> v_hat d (qmean d) h = XFin v ->
  exists s, hln_sq d h = XFin s /\
    stat_R s = (Q2R (qmean d) / sqrt (Q2R v) * sqrt (Q2R (hln_factor (qlen d) (qn h))))%R.
Proof. exact hln_stat_is_published_formula. Qed.
Print Assumptions C19_hln_stat_is_published_formula.

(* the small-sample factor is positive for every 0 < h < n (its square root is always defined) *)
Theorem C19_hln_factor_pos : forall n h, (0 < h < n)%nat -> 0 < hln_factor (qn n) (qn h).
Proof. exact hln_factor_pos. Qed.
Print Assumptions C19_hln_factor_pos.

(* the statistic is NaN exactly when the variance estimate is not positive *)
Theorem C19_hln_nan_iff : forall d h, hln_sq d h = XNaN <-> v_hat_q d (qmean d) h <= 0.
Proof. exact hln_nan_iff. Qed.
Print Assumptions C19_hln_nan_iff.

(* negating a series negates the statistic (NaN stays NaN): every series, every h *)
Theorem C19_hln_negation : forall (d : list Q) (h : nat), dm_stat_hln (map Qopp d) h =x= xneg (dm_stat_hln d h).
Proof. exact hln_negation. Qed.
Print Assumptions C19_hln_negation.

(* positive rescaling leaves the HLN statistic unchanged *)
Theorem C19_hln_scale_invariant : forall (c : Q) (d : list Q) (h : nat),
  0 < c -> dm_stat_hln (map (Qmult c) d) h =x= dm_stat_hln d h.
Proof. exact hln_scale_invariant. Qed.
Print Assumptions C19_hln_scale_invariant.

(* V_hat is built from the textbook lagged sums sum_{t=k}^{n-1} (d_t - m)(d_{t-k} - m) of lags k = 0 .. h-1 only *)
Theorem C19_vhat_uses_lags_below_h : forall d m h,
  v_hat_q d m h == (gamma_idx d m 0 + 2 * qsum (map (fun k => gamma_idx d m (S k)) (seq 0 (h - 1)))) / (qlen d * qlen d).
Proof. exact vhat_uses_lags_below_h. Qed.
Print Assumptions C19_vhat_uses_lags_below_h.

(* i.e. V_hat = (acov_0 + 2 sum_{k=1}^{h-1} acov_k) / n with the direct biased autocovariance estimator *)
Theorem C19_vhat_from_autocovariances : forall d h, (0 < length d)%nat ->
  v_hat_q d (qmean d) h == (acov_idx d 0 + 2 * qsum (map (fun k => acov_idx d (S k)) (seq 0 (h - 1)))) / qlen d.
Proof. exact vhat_from_autocovariances. Qed.
Print Assumptions C19_vhat_from_autocovariances.

Theorem C19_vhat_depends_only_on_lags_below_h : forall d d' m m' h, length d = length d' ->
  (forall k, (k < Nat.max h 1)%nat -> gamma_idx d m k == gamma_idx d' m' k) -> v_hat_q d m h == v_hat_q d' m' h.
Proof. exact vhat_depends_only_on_lags_below_h. Qed.
Print Assumptions C19_vhat_depends_only_on_lags_below_h.

(* interval: for every finite non-zero statistic of the sign of the mean, ci_lower <= mean <= ci_upper with
   half-width q * |mean / stat| (faithful IEEE-style evaluation; s ranges over all rationals, hence all floats) *)
Theorem C19_ci_brackets_mean : forall m q s, 0 < q -> 0 < m * s ->
  exists lo up, ci_lower_m (XFin m) (XFin q) (XFin s) = XFin lo /\ ci_upper_m (XFin m) (XFin q) (XFin s) = XFin up
    /\ lo <= m <= up /\ up - m == q * Qabs (m / s) /\ m - lo == q * Qabs (m / s).
Proof. exact ci_brackets_mean. Qed.
Print Assumptions C19_ci_brackets_mean.

(* the same for an arbitrary real statistic *)
Theorem C19_ci_brackets_mean_R : forall m q s : R, (0 < q)%R -> (0 < m * s)%R ->
  (m * (1 - q / s) <= m <= m * (1 + q / s) /\ m * (1 + q / s) - m = q * Rabs (m / s) /\ m - m * (1 - q / s) = q * Rabs (m / s))%R.
Proof. exact ci_brackets_mean_R. Qed.
Print Assumptions C19_ci_brackets_mean_R.

(* FINDING 7: an exactly-zero mean with a finite (zero) statistic gives NaN end points *)
Theorem C19_ci_zero_mean_refuted :
  exists (d : list Q) (h : nat) (q : Q), (0 < h < length d)%nat /\ 0 < q /\
    qmean d == 0 /\ dm_stat_hln d h =x= XFin 0 /\
    ci_lower_m (XFin (qmean d)) (XFin q) (dm_stat_hln d h) = XNaN /\
    ci_upper_m (XFin (qmean d)) (XFin q) (dm_stat_hln d h) = XNaN.
Proof. exact ci_zero_mean_refuted. Qed.
Print Assumptions C19_ci_zero_mean_refuted.

(* confidence_gt_0 = cdf(statistic): negating the series maps it to its complement, for ANY reference distribution
   function with cdf(-x) = 1 - cdf(x) (normal, Student t with any degrees of freedom; the length is unchanged) *)
Theorem C19_confidence_negation : forall (cdf : nat -> R -> R), (forall k x, cdf k (- x)%R = (1 - cdf k x)%R) ->
  forall d h s, dm_stat_hln d h = XFin s ->
  exists s', dm_stat_hln (map Qopp d) h = XFin s' /\ length (map Qopp d) = length d /\
    forall k, confidence_gt_0 cdf k s' = (1 - confidence_gt_0 cdf k s)%R.
Proof. exact confidence_negation. Qed.
Print Assumptions C19_confidence_negation.

(* ... and that symmetry holds for every distribution function F x = 1/2 + int_0^x f with an even density f *)
Theorem C19_even_density_cdf_symmetric : forall f : R -> R, (forall t, f (- t)%R = f t) -> (forall a b : R, ex_RInt f a b) ->
  forall x, cdf_of_density f (- x)%R = (1 - cdf_of_density f x)%R.
Proof. exact even_density_cdf_symmetric. Qed.
Print Assumptions C19_even_density_cdf_symmetric.

(* HG: whatever the external least-squares fit returns, it only sees the autocovariances (negation invariant), so
   negating the series negates the HG statistic *)
Theorem C19_hg_negation : forall (fit : list R -> R * R) d h, hg_stat fit (map Qopp d) h = option_map Ropp (hg_stat fit d h).
Proof. exact hg_negation. Qed.
Print Assumptions C19_hg_negation.

(* NaNs are removed before anything is computed; timeseries_len counts what is left; series are independent *)
Theorem C19_dm_row_nan_removed : forall l1 l2 hv, dm_row_of (l1 ++ XNaN :: l2)%list hv = dm_row_of (l1 ++ l2)%list hv.
Proof. exact dm_row_nan_removed. Qed.
Print Assumptions C19_dm_row_nan_removed.

Theorem C19_dm_series_independent : forall rows hs method cl dist out i, length rows = length hs -> (i < length rows)%nat ->
  diebold_mariano_m rows hs method cl dist = Ok out ->
  nth i out (dm_row_of [] XNaN) = dm_row_of (nth i rows []) (nth i hs XNaN).
Proof. exact dm_series_independent. Qed.
Print Assumptions C19_dm_series_independent.

(* ---- non-vacuity ---- *)
Example C19_hyps_satisfiable : exists v, v_hat [2; 1; -3; -1; 0] (qmean [2; 1; -3; -1; 0]) 3 = XFin v /\ 0 < v.
Proof. eexists. split. vm_compute. reflexivity. reflexivity. Qed.
Example C19_stat_example : dm_stat_hln [2; 1; -3; -1; 0] 3 =x= XFin (- (1 # 9)).
Proof. vm_compute. reflexivity. Qed.

(* ---- regenerated from diebold_mariano_impl.py on every run (translator sites C19.hln, C19.ci) ---- *)
(* the correction factor written in _hln_method_stat is HLN equation (9), for every series length n <> 0 and every h *)
Theorem C19_code_hln_correction_is_model : forall n h : Q, ~ n == 0 ->
  gen_hln_correction (XFin n) (XFin h) =x= XFin (hln_factor n h).
Proof. exact gen_hln_correction_is_model. Qed.
Print Assumptions C19_code_hln_correction_is_model.

(* ... and is not a finite number for an empty series (the public function rejects h >= length first) *)
Theorem C19_code_hln_correction_zero_length : forall h q : Q, ~ gen_hln_correction (XFin 0) (XFin h) =x= XFin q.
Proof. exact gen_hln_correction_zero_length. Qed.
Print Assumptions C19_code_hln_correction_zero_length.

(* the ci_upper / ci_lower expressions of the returned Dataset are the model's interval formulas *)
Theorem C19_code_ci_upper_is_model : forall m q s, gen_dm_ci_upper m q s = ci_upper_m m q s.
Proof. exact gen_dm_ci_upper_is_model. Qed.
Print Assumptions C19_code_ci_upper_is_model.

Theorem C19_code_ci_lower_is_model : forall m q s, gen_dm_ci_lower m q s = ci_lower_m m q s.
Proof. exact gen_dm_ci_lower_is_model. Qed.
Print Assumptions C19_code_ci_lower_is_model.

(* hence the bracketing theorem, stated of the regenerated expressions *)
Theorem C19_code_ci_brackets_mean : forall m q s, 0 < q -> 0 < m * s ->
  exists lo up, gen_dm_ci_lower (XFin m) (XFin q) (XFin s) = XFin lo /\ gen_dm_ci_upper (XFin m) (XFin q) (XFin s) = XFin up
    /\ lo <= m <= up /\ up - m == q * Qabs (m / s) /\ m - lo == q * Qabs (m / s).
Proof. exact gen_ci_brackets_mean. Qed.
Print Assumptions C19_code_ci_brackets_mean.
