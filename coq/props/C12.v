(* props/C12.v -- property C12: FIRM and risk-matrix scores are the stated sums of fixed-risk decision
   penalties.  Only statements; every proof is `exact <lemma>` into coq/proofs/C12*.v.
   gen_firm_single, gen_rms_cell, gen_c12_murphy_* are regenerated from multicategorical_impl.py,
   risk_matrix.py and murphy_impl.py on every run; sums, matrix orientation and the scaling algorithm are
   the hand models of coq/model/C12.v (tied by the correspondence check). *)
From Coq Require Import Sorting.Sorted Sorting.Permutation.
From V Require Import lib.Tree lib.C12_aux gen.Gen_C12_kern model.C12 proofs.C12 proofs.C12_inf proofs.C12_nan proofs.C12_murphy proofs.C12_sum proofs.C12_mats proofs.C12_scaling.

(* firm_single_spec: for every rational forecast, observation, threshold (ties included) and risk parameter, both
   threshold assignments (any string other than "lower" behaves as "upper"; the guard lets only these two through) and
   discount 0 (DNo) / finite non-zero (DFin) / inf (DInf):
     overforecast  = (1-alpha) * scale(t - o)  if the case is a false alarm (lower: o <= t < f, upper: o < t <= f), else 0
     underforecast = alpha * scale(o - t)      if the case is a miss        (lower: f <= t < o, upper: f < t <= o), else 0
     scale(x) = 1 | min(x, d) | x *)
Theorem C12_firm_single_spec : forall (s : string) (a f o t : Q) (d : disc),
  (match d with DFin q => ~ q == 0 | _ => True end) ->
  let lower := String.eqb s "lower" in
  let '(tot, over, under) := gen_firm_single (XFin f) (XFin o) (XFin a) (XFin t) (xdisc d) s in
  over =x= XFin (firm_over_q lower a d f o t) /\ under =x= XFin (firm_under_q lower a d f o t) /\
  tot =x= XFin (firm_over_q lower a d f o t + firm_under_q lower a d f o t).
Proof. exact firm_single_ok. Qed.
Print Assumptions C12_firm_single_spec.

(* firm_single_spec on EXTENDED values (round 4): +inf / -inf are valid forecasts, observations and thresholds -- they compare
   like any other value.  For every non-NaN f, o, t (finite or infinite), every risk parameter, both assignments and
   discount 0 / finite non-zero / inf the regenerated kernel is
     overforecast  = (1-alpha) * scale(t - o)  if false alarm (lower: o <= t < f, upper: o < t <= f), else 0
     underforecast = alpha * scale(o - t)      if miss        (lower: f <= t < o, upper: f < t <= o), else 0
   with comparisons and the distance taken in the extended reals (model/C12.v: firm_over_x, firm_under_x, xdist: +-inf when one
   of the two is infinite, 0 when observation = threshold, also for two equal infinities).  A penalty that does not apply is 0 --
   not "distance * 0", which is NaN for an infinite distance (the defect repaired by repo_fixes/firm-discount-infinite-obs.diff;
   this theorem does not hold for the unrepaired text). *)
Theorem C12_firm_single_spec_inf : forall (s : string) (a : Q) (f o t : xv) (d : disc),
  (match d with DFin q => 0 < q | _ => True end) ->
  f <> XNaN -> o <> XNaN -> t <> XNaN ->
  let lower := String.eqb s "lower" in
  let '(tot, over, under) := gen_firm_single f o (XFin a) t (xdisc d) s in
  over =x= firm_over_x lower a d f o t /\ under =x= firm_under_x lower a d f o t /\
  tot =x= xadd (firm_over_x lower a d f o t) (firm_under_x lower a d f o t).
Proof. exact firm_single_x_ok. Qed.
Print Assumptions C12_firm_single_spec_inf.

(* on finite values the extended specification is the rational one of C12_firm_single_spec *)
Theorem C12_firm_spec_inf_on_finite : forall (lower : bool) (a f o t : Q) (d : disc),
  firm_over_x lower a d (XFin f) (XFin o) (XFin t) =x= XFin (firm_over_q lower a d f o t) /\
  firm_under_x lower a d (XFin f) (XFin o) (XFin t) =x= XFin (firm_under_q lower a d f o t).
Proof. exact firm_spec_x_fin. Qed.
Print Assumptions C12_firm_spec_inf_on_finite.

(* ... and with an infinite observation and finite discount distance d > 0 it says: obs = +inf is never a false alarm and is a
   miss, charged alpha * d, at every threshold at/above the forecast; obs = -inf is never a miss and is a false alarm, charged
   (1-alpha) * d, at every threshold below the forecast -- finite numbers, no NaN *)
Theorem C12_firm_obs_plus_inf : forall (lower : bool) (a d f t : Q), 0 < d ->
  firm_over_x lower a (DFin d) (XFin f) (XInf true) (XFin t) = X0 /\
  firm_under_x lower a (DFin d) (XFin f) (XInf true) (XFin t) =x=
    XFin (if (if lower then Qle_bool f t else Qltb f t) then a * d else 0).
Proof. exact firm_x_obs_pinf. Qed.
Print Assumptions C12_firm_obs_plus_inf.

Theorem C12_firm_obs_minus_inf : forall (lower : bool) (a d f t : Q), 0 < d ->
  firm_under_x lower a (DFin d) (XFin f) (XInf false) (XFin t) = X0 /\
  firm_over_x lower a (DFin d) (XFin f) (XInf false) (XFin t) =x=
    XFin (if (if lower then Qltb t f else Qle_bool t f) then (1 - a) * d else 0).
Proof. exact firm_x_obs_ninf. Qed.
Print Assumptions C12_firm_obs_minus_inf.

(* firm_score = overforecast_penalty + underforecast_penalty, for all inputs whatsoever *)
Theorem C12_firm_score_is_over_plus_under : forall f o a t d s,
  let '(tot, over, under) := gen_firm_single f o a t d s in tot = xadd over under.
Proof. exact firm_total_is_sum. Qed.
Print Assumptions C12_firm_score_is_over_plus_under.

(* NaN-iff for EVERY output component (per-case thresholds incl. NaN): a NaN forecast, observation or threshold gives NaN --
   never a zero penalty -- and NOTHING ELSE does: not an infinite forecast, observation or threshold (round 4: infinite values
   are inside the statement), for 0 < alpha < 1 and discount 0 / finite / +inf. *)
Theorem C12_firm_nan_iff : forall (s : string) (a : Q) (f o t d : xv),
  0 < a < 1 -> disc_ok d ->
  let '(tot, over, under) := gen_firm_single f o (XFin a) t d s in
  (tot = XNaN <-> f = XNaN \/ o = XNaN \/ t = XNaN) /\
  (over = XNaN <-> f = XNaN \/ o = XNaN \/ t = XNaN) /\
  (under = XNaN <-> f = XNaN \/ o = XNaN \/ t = XNaN).
Proof. exact firm_nan_iff. Qed.
Print Assumptions C12_firm_nan_iff.

(* the "if" direction without any hypothesis: whatever the risk parameter, discount distance and the other inputs are
   (finite, infinite or NaN), a NaN forecast, observation or threshold makes all three outputs NaN *)
Theorem C12_firm_nan_in : forall (s : string) (a f o t d : xv),
  f = XNaN \/ o = XNaN \/ t = XNaN -> gen_firm_single f o a t d s = (XNaN, XNaN, XNaN).
Proof. exact firm_nan_in. Qed.
Print Assumptions C12_firm_nan_in.

(* firm_total: over any list of (threshold_j, weight_j) with finite weights and for ANY data (NaN, inf included),
   the summed firm_score is the summed overforecast plus the summed underforecast penalty *)
Theorem C12_firm_total : forall f o a d s tws,
  Forall (fun tw => xisfin (snd tw) = true) tws ->
  firm_point FTotal f o a d s tws =x= xadd (firm_point FOver f o a d s tws) (firm_point FUnder f o a d s tws).
Proof. exact firm_point_total. Qed.
Print Assumptions C12_firm_total.

(* ... and each of the three is sum_j w_j * (stated penalty at threshold_j), for any number of thresholds *)
Theorem C12_firm_is_weighted_sum_of_penalties : forall c s (a f o : Q) (d : disc) (tws : list (Q * Q)),
  (match d with DFin q => ~ q == 0 | _ => True end) ->
  firm_point c (XFin f) (XFin o) (XFin a) (xdisc d) s (xtws tws) =x=
  XFin (qsum (map (fun tw => snd tw * firm_comp_q c (String.eqb s "lower") a d f o (fst tw)) tws)).
Proof. exact firm_point_spec. Qed.
Print Assumptions C12_firm_is_weighted_sum_of_penalties.

(* a missing forecast or observation makes the summed score of the case NaN (at least one threshold), whatever the thresholds,
   threshold weights, risk parameter, discount and the other of the two are -- finite, infinite or NaN *)
Theorem C12_firm_sum_nan : forall c s (a f o d : xv) (tws : list (xv * xv)),
  tws <> [] -> (f = XNaN \/ o = XNaN) -> firm_point c f o a d s tws = XNaN.
Proof. exact firm_point_nan. Qed.
Print Assumptions C12_firm_sum_nan.

(* firm_is_murphy_quantile: without discounting, the FIRM kernel ("lower") IS the regenerated Murphy quantile
   elementary score at theta = threshold after murphy_score's NaN matching/merge: total, over and under, for every
   forecast, observation and threshold -- finite, infinite or NaN (ties included).
   (Round 5: the forecast is no longer restricted to finite-or-NaN in the three Murphy theorems: murphy_impl.py built its zero
   array as `fcst * 0.0`, NaN for an infinite forecast; since /repo 806a3e1 it is `xr.zeros_like(fcst, dtype=float)`.) *)
Theorem C12_firm_is_murphy_quantile : forall (a : Q) (f o t : xv),
  let '(tot, over, under) := gen_firm_single f o (XFin a) t (XFin 0) "lower" in
  let '(mt, mo, mu) := murphy_point (fun f o t => gen_c12_murphy_quantile f o t (XFin a)) f o t in
  tot =x= mt /\ over =x= mo /\ under =x= mu.
Proof. exact firm_murphy_quantile. Qed.
Print Assumptions C12_firm_is_murphy_quantile.

(* firm_is_murphy_huber: with discount distance d > 0 it is the Murphy Huber elementary score with huber_a = d; infinite
   forecasts, observations and thresholds included *)
Theorem C12_firm_is_murphy_huber : forall (a d : Q) (f o t : xv), 0 < d ->
  let '(tot, over, under) := gen_firm_single f o (XFin a) t (XFin d) "lower" in
  let '(mt, mo, mu) := murphy_point (fun f o t => gen_c12_murphy_huber f o t (XFin a) (XFin d)) f o t in
  tot =x= mt /\ over =x= mo /\ under =x= mu.
Proof. exact firm_murphy_huber. Qed.
Print Assumptions C12_firm_is_murphy_huber.

(* ... and with discount distance inf it is the Murphy expectile elementary score (an infinite distance is charged inf) *)
Theorem C12_firm_is_murphy_expectile : forall (a : Q) (f o t : xv), 0 < a < 1 ->
  let '(tot, over, under) := gen_firm_single f o (XFin a) t (XInf true) "lower" in
  let '(mt, mo, mu) := murphy_point (fun f o t => gen_c12_murphy_expectile f o t (XFin a)) f o t in
  tot =x= mt /\ over =x= mo /\ under =x= mu.
Proof. exact firm_murphy_expectile. Qed.
Print Assumptions C12_firm_is_murphy_expectile.

(* firm_upper_is_lower_mirrored: "upper" = "lower" on negated data with alpha <-> 1 - alpha (over <-> under) *)
Theorem C12_firm_upper_is_lower_mirrored : forall (a f o t : Q) (d : disc),
  (match d with DFin q => ~ q == 0 | _ => True end) ->
  let '(tu, ou, uu) := gen_firm_single (XFin f) (XFin o) (XFin a) (XFin t) (xdisc d) "upper" in
  let '(tl, ol, ul) := gen_firm_single (XFin (- f)) (XFin (- o)) (XFin (1 - a)) (XFin (- t)) (xdisc d) "lower" in
  tu =x= tl /\ ou =x= ul /\ uu =x= ol.
Proof. exact firm_upper_mirror. Qed.
Print Assumptions C12_firm_upper_is_lower_mirrored.

(* risk matrix, one decision point: w * p if y = 0 and f at/above p; w * (1-p) if y = 1 and f below p; else 0
   ("lower": at/above means f >= p; "upper": f > p) *)
Theorem C12_rms_cell_spec : forall (s : string) (f o p w : Q),
  gen_rms_cell (XFin f) (XFin o) (XFin p) (XFin w) s =x= XFin (w * rms_s (String.eqb s "lower") f o p).
Proof. exact rms_cell_ok. Qed.
Print Assumptions C12_rms_cell_spec.

Theorem C12_rms_cell_nan_iff : forall (s : string) (f o : xv) (p w : Q),
  xisinf f = false -> xisinf o = false ->
  (gen_rms_cell f o (XFin p) (XFin w) s = XNaN <-> f = XNaN \/ o = XNaN).
Proof. exact rms_cell_nan_iff. Qed.
Print Assumptions C12_rms_cell_nan_iff.

(* rms_spec: the per-case score is the double sum over severity categories and probability thresholds *)
Theorem C12_rms_spec : forall (s : string) (rows : list (Q * Q * list (Q * Q))),
  rms_case s (map xrow rows) =x=
  XFin (qsum (flat_map (fun r => map (fun pw => snd pw * rms_s (String.eqb s "lower") (fst (fst r)) (snd (fst r)) (fst pw)) (snd r)) rows)).
Proof. exact rms_case_ok. Qed.
Print Assumptions C12_rms_spec.

(* plain sum, no NaN skipping: a missing forecast/observation in one severity category makes the whole case NaN *)
Theorem C12_rms_sum_does_not_skip_nan : forall (s : string) (rows : list (xv * xv * list (xv * xv))) f o p w pws,
  In (f, o, (XFin p, XFin w) :: pws) rows -> xisinf f = false -> xisinf o = false ->
  (f = XNaN \/ o = XNaN) -> rms_case s rows = XNaN.
Proof. exact rms_case_nan. Qed.
Print Assumptions C12_rms_sum_does_not_skip_nan.

(* matrix_rows_decreasing_prob: matrix_weights_to_array keeps the rows and attaches them, in the order given, to
   the probability thresholds sorted in DEcreasing order (a permutation of the given ones, all inside (0,1)) *)
Theorem C12_matrix_rows_decreasing_prob : forall (M : list (list xv)) n ps cs M',
  mwa_m M n ps = Ok (cs, M') ->
  M' = M /\ StronglySorted (fun a b => b <= a) cs /\ Permutation cs ps /\ length cs = length M /\
  Forall (fun r => length r = n) M /\ Forall (fun p => 0 < p < 1) cs.
Proof. exact (@mwa_ok xv). Qed.
Print Assumptions C12_matrix_rows_decreasing_prob.

(* scaling_matrix_spec: the line-by-line model of _scaling_to_weight_matrix (argmax crossover search, lowest_prob_index
   starting at n_prob + 1 as repaired by /repo commit 73a32af, np.flip) equals, for EVERY scaling matrix and weight list, the
   declarative specification `scaling_to_wm_spec` (coq/model/C12.v):
     cross M l c = position, counted from the bottom row, of the first entry of column c that is >= l (0: never reached);
     for every level l = 1..max_level the weight assessment_weights[l-1] is added at (row cross-1, column c-1) for exactly
     the columns c = 1..n_sev with  0 < cross(l,c)  and, for every column c' < c,  cross(l,c') = 0 or cross(l,c) < cross(l,c')
   (the level is reached in column c strictly lower than in every column to its left that reaches it). *)
Theorem C12_scaling_matrix_spec : forall M aw, scaling_to_wm M aw = scaling_to_wm_spec M aw.
Proof. exact scaling_to_wm_is_spec. Qed.
Print Assumptions C12_scaling_matrix_spec.

(* the same for the list of placements, and entry by entry *)
Theorem C12_scaling_placements : forall M aw, M <> [] ->
  placements (length M - 1 + 1) M aw =
  flat_map (fun level => map (place M aw level)
                             (filter (fun c => (0 <? cross M level c)%nat &&
                                               forallb (fun c' => (cross M level c' =? 0)%nat || (cross M level c <? cross M level c')%nat)
                                                       (seq 1 (c - 1)))
                                     (seq 1 (length (hd [] M) - 1))))
           (seq 1 (max_level M aw)).
Proof. exact code_placements_spec. Qed.
Print Assumptions C12_scaling_placements.

Theorem C12_scaling_entry : forall M aw r' c,
  (r' < length M - 1)%nat -> (c < length (hd [] M) - 1)%nat ->
  nth c (nth r' (scaling_to_wm M aw) []) 0 = wts_entry (spec_placements M aw) (length M - 1 - 1 - r')%nat c.
Proof. exact scaling_entry. Qed.
Print Assumptions C12_scaling_entry.

(* for ANY initial limit `init` of lowest_prob_index the algorithm additionally requires cross < init: this is what the
   former initialisation max_level + 1 got wrong (weights dropped when max_level < n_prob) *)
Theorem C12_scaling_any_limit : forall init M aw,
  placements init M aw =
  flat_map (fun level => map (place M aw level)
                             (filter (fun c => (0 <? cross M level c)%nat && (cross M level c <? init)%nat &&
                                               forallb (fun c' => (cross M level c' =? 0)%nat || (cross M level c <? cross M level c')%nat)
                                                       (seq 1 (c - 1)))
                                     (seq 1 (length (hd [] M) - 1))))
           (seq 1 (max_level M aw)).
Proof. exact placements_spec. Qed.
Print Assumptions C12_scaling_any_limit.

(* meaning of the crossover index *)
Theorem C12_scaling_crossover_meaning : forall l lvl,
  match first_ge l lvl with
  | Some k => (k < length l)%nat /\ (lvl <= nth k l 0)%Z /\ forall j, (j < k)%nat -> (nth j l 0 < lvl)%Z
  | None => forall j, (j < length l)%nat -> (nth j l 0 < lvl)%Z
  end.
Proof. exact first_ge_spec. Qed.
Print Assumptions C12_scaling_crossover_meaning.

(* regression witness of the repaired initialisation: 2 thresholds, one level reached only in the top row, one weight:
   the decision point gets its weight, and an unused extra assessment weight does not change the result *)
Theorem C12_scaling_witness :
  wfs_m false M_wit [1] [1#4; 1#2] 1 = Ok ([1#2; 1#4], [[1 + 0]; [0]]) /\
  scaling_to_wm M_wit [1] = scaling_to_wm M_wit [1; 5].
Proof. exact scaling_witness. Qed.
Print Assumptions C12_scaling_witness.

(* the full-function models: every output cell of firm / risk_matrix_score is the NaN-skipping mean, over the
   reduced dimensions, of weights times the per-case sums characterised above *)
Theorem C12_firm_cells : forall c fcst obs alpha ths wts dopt rd pd w assign r e,
  firm_m c fcst obs alpha ths wts dopt rd pd w assign = Ok r ->
  exists R, gather (ldims fcst) (ldims obs) None rd pd DNone = Ok R /\
    let s := apply_weights w (firm_pointwise c fcst obs alpha ths wts (firm_disc dopt) assign) in
    lget r e = nanmean (map (lget s) (envs (lsize s) (dinter (ldims s) R) e)).
Proof. exact firm_m_value. Qed.
Print Assumptions C12_firm_cells.

Theorem C12_rms_cells : forall fcst obs dw thr sev prob sf so sw assign rd pd w r e,
  rms_m fcst obs dw thr sev prob sf so sw assign rd pd w = Ok r ->
  exists R, gather (ddiff (ldims fcst) [sev]) (ddiff (ldims obs) [sev]) (option_map ldims w) rd pd DNone = Ok R /\
    let s := apply_weights w (rms_pointwise fcst obs dw thr sev prob assign) in
    lget r e = nanmean (map (lget s) (envs (lsize s) (dinter (ldims s) R) e)) /\
    lget (rms_pointwise fcst obs dw thr sev prob assign) e = rms_case assign (rms_rows fcst obs dw thr sev prob e).
Proof. exact rms_m_value. Qed.
Print Assumptions C12_rms_cells.

(* the regenerated scalar guards: what passes them is inside the domain of the theorems above, and valid arguments pass *)
Theorem C12_firm_guard_passes_only_valid : forall (a : Q) (d : xv) (s : string),
  gen_guard_firm (XFin a) d s = None -> 0 < a < 1 /\ (s = "lower" \/ s = "upper")%string.
Proof. exact firm_guard_pass. Qed.
Print Assumptions C12_firm_guard_passes_only_valid.

Theorem C12_firm_guard_accepts_valid : forall (a : Q) (d : xv) (s : string),
  0 < a < 1 -> disc_ok d -> (s = "lower" \/ s = "upper")%string -> gen_guard_firm (XFin a) d s = None.
Proof. exact firm_guard_ok. Qed.
Print Assumptions C12_firm_guard_accepts_valid.

Theorem C12_rms_guard_spec : forall (fmax fmin tmax tmin : Q) (s : string),
  gen_guard_rms (XFin fmax) (XFin fmin) (XFin tmax) (XFin tmin) s = None <->
  (fmax <= 1 /\ 0 <= fmin /\ 0 < tmin /\ tmax < 1 /\ (s = "lower" \/ s = "upper")%string).
Proof. exact rms_guard_iff. Qed.
Print Assumptions C12_rms_guard_spec.

(* non-vacuity *)
Example C12_ex_tie_lower : (* obs exactly on the threshold belongs to the lower category: a false alarm for f > t *)
  let '(t, o, u) := gen_firm_single (XFin 3) (XFin 2) (XFin (7#10)) (XFin 2) (XFin 0) "lower" in
  t =x= XFin (3#10) /\ o =x= XFin (3#10) /\ u =x= XFin 0.
Proof. vm_compute. repeat split. Qed.
Example C12_ex_tie_upper : (* ... and to the upper category under "upper": no penalty *)
  let '(t, o, u) := gen_firm_single (XFin 3) (XFin 2) (XFin (7#10)) (XFin 2) (XFin 0) "upper" in t =x= XFin 0.
Proof. vm_compute. auto. Qed.
Example C12_ex_disc : match DFin (1#2) with DFin q => ~ q == 0 | _ => True end /\ disc_ok (XFin (1#2)) /\ disc_ok (XInf true).
Proof. simpl. repeat split; try lra. Qed.
(* round 4, the reported input: fcst 3, obs +inf, thresholds [2, 4], weights [1, 2], alpha 3/10, discount distance 1:
   a miss at threshold 4 only (3 <= 4 < inf), discounted to alpha * min(inf, 1) -> 0.3 * 1 * 2 = 0.6 under, 0 over (the
   unrepaired code gave NaN for firm_score and overforecast_penalty); and obs -inf: one false alarm at threshold 2 -> 0.7 over *)
Example C12_ex_inf_obs :
  firm_point FTotal (XFin 3) (XInf true) (XFin (3#10)) (XFin 1) "lower" [(XFin 2, XFin 1); (XFin 4, XFin 2)] =x= XFin (6#10) /\
  firm_point FOver (XFin 3) (XInf true) (XFin (3#10)) (XFin 1) "lower" [(XFin 2, XFin 1); (XFin 4, XFin 2)] =x= XFin 0 /\
  firm_point FOver (XFin 3) (XInf false) (XFin (3#10)) (XFin 1) "lower" [(XFin 2, XFin 1); (XFin 4, XFin 2)] =x= XFin (7#10).
Proof. vm_compute. repeat split. Qed.
