(* props/C10.v -- property C10: threshold-weighted scores are weighted integrals of elementary scores;
   consistent_* scores are non-negative and vanish at fcst = obs.
   Only statements; every proof is `exact <lemma>` into coq/proofs.  Q-level statements are axiom-free;
   the integral statements (is_RInt, Coquelicot) use the standard Reals axioms (see Print Assumptions). *)
From Coq Require Import Reals Qreals.
From Coquelicot Require Import Coquelicot.
From V Require Import lib.Tree gen.Gen_C10_kern model.C10 model.C11_spec proofs.C10 proofs.C10_trap proofs.C10_ends
                      proofs.C10_RInt proofs.C11_RInt proofs.C10_RIntQ proofs.C10_inf.
Open Scope Q_scope.

(* ---- the regenerated rows of Table B1 are the documented piecewise formulas, end points included ---- *)
Theorem C10_g_rect_is_table_B1 : forall a b x : Q,
  gen_g_rect (XFin a) (XFin b) (XFin x) =x= XFin (qg_rect a b x).
Proof. exact g_rect_gen_spec. Qed.
Print Assumptions C10_g_rect_is_table_B1.

Theorem C10_phi_rect_is_table_B1 : forall a b x : Q,
  gen_phi_rect (XFin a) (XFin b) (XFin x) =x= XFin (qphi_rect a b x).
Proof. exact phi_rect_gen_spec. Qed.
Print Assumptions C10_phi_rect_is_table_B1.

Theorem C10_phi_prime_rect_is_4g : forall a b x : Q,
  gen_phi_prime_rect (XFin a) (XFin b) (XFin x) =x= XFin (4 * qg_rect a b x).
Proof. exact phip_rect_gen_spec. Qed.
Print Assumptions C10_phi_prime_rect_is_4g.

Theorem C10_g_trap_is_table_B1 : forall a b c d x : Q, a < b -> b < c -> c < d ->
  gen_g_trap (XFin a) (XFin b) (XFin c) (XFin d) (XFin x) =x= XFin (qg_trap a b c d x).
Proof. exact g_trap_gen_spec. Qed.
Print Assumptions C10_g_trap_is_table_B1.

Theorem C10_phi_trap_is_table_B1 : forall a b c d x : Q, a < b -> b < c -> c < d ->
  gen_phi_trap (XFin a) (XFin b) (XFin c) (XFin d) (XFin x) =x= XFin (qphi_trap a b c d x).
Proof. exact phi_trap_gen_spec. Qed.
Print Assumptions C10_phi_trap_is_table_B1.

Theorem C10_phi_prime_trap_is_4g : forall a b c d x : Q, a < b -> b < c -> c < d ->
  gen_phi_prime_trap (XFin a) (XFin b) (XFin c) (XFin d) (XFin x) =x= XFin (4 * qg_trap a b c d x).
Proof. exact phip_trap_gen_spec. Qed.
Print Assumptions C10_phi_prime_trap_is_4g.

(* ---- the regenerated consistent kernels are the scoring functions of Gneiting (2011) / Taggart (2022),
        for every g / phi / phi' that is finite on finite arguments (and, as every function one can write down, gives equal
        values at equal rationals: the kernels may hand the data to g / phi converted to floating point, `1.0 * fcst`) ---- *)
Theorem C10_consistent_quantile_kernel : forall (g : xv -> xv) (gq : Q -> Q) (alpha f o : Q),
  (forall x, g (XFin x) =x= XFin (gq x)) -> (forall x y, x == y -> gq x == gq y) ->
  gen_consistent_quantile g (XFin f) (XFin o) (XFin alpha)
  =x= XFin (if Qltb o f then (1 - alpha) * (gq f - gq o) else alpha * (gq o - gq f)).
Proof. exact cq_gen_spec. Qed.
Print Assumptions C10_consistent_quantile_kernel.

Theorem C10_consistent_expectile_kernel : forall (phi phi' : xv -> xv) (p p' : Q -> Q) (alpha f o : Q),
  (forall x, phi (XFin x) =x= XFin (p x)) -> (forall x, phi' (XFin x) =x= XFin (p' x)) ->
  (forall x y, x == y -> p x == p y) -> (forall x y, x == y -> p' x == p' y) ->
  gen_consistent_expectile phi phi' (XFin f) (XFin o) (XFin alpha)
  =x= XFin ((if Qltb o f then 1 - alpha else alpha) * (p o - p f - p' f * (o - f))).
Proof. exact ce_gen_spec. Qed.
Print Assumptions C10_consistent_expectile_kernel.

Theorem C10_consistent_huber_kernel : forall (phi phi' : xv -> xv) (p p' : Q -> Q) (v f o : Q),
  (forall x, phi (XFin x) =x= XFin (p x)) -> (forall x, phi' (XFin x) =x= XFin (p' x)) -> 0 <= v ->
  (forall x y, x == y -> p x == p y) -> (forall x y, x == y -> p' x == p' y) ->
  gen_consistent_huber phi phi' (XFin f) (XFin o) (XFin v)
  =x= XFin (let k := qclip v (f - o) in (1 # 2) * (p o - p (k + o) + k * p' f)).
Proof. exact ch_gen_spec. Qed.
Print Assumptions C10_consistent_huber_kernel.

(* ---- the five wrappers at one point, finite end points: value computed by the regenerated kernels = q_tw_* (model/C10.v):
        q_tw_quantile = S_quantile(g), q_tw_abs = 2 S_quantile(g, 1/2), q_tw_sq = S_expectile(phi, phi', 1/2),
        q_tw_expectile = S_expectile / 2, q_tw_huber = S_huber / 2 ---- *)
Theorem C10_tw_rect_kernels : forall a b alpha v f o : Q, a <= b -> 0 <= v ->
  gen_consistent_expectile (gen_phi_rect (XFin a) (XFin b)) (gen_phi_prime_rect (XFin a) (XFin b)) (XFin f) (XFin o) (XFin (1 # 2))
    =x= XFin (q_tw_sq_rect a b f o) /\
  xmul (XFin 2) (gen_consistent_quantile (gen_g_rect (XFin a) (XFin b)) (XFin f) (XFin o) (XFin (1 # 2))) =x= XFin (q_tw_abs_rect a b f o) /\
  gen_consistent_quantile (gen_g_rect (XFin a) (XFin b)) (XFin f) (XFin o) (XFin alpha) =x= XFin (q_tw_quantile_rect a b alpha f o) /\
  xmul (XFin (1 # 2)) (gen_consistent_expectile (gen_phi_rect (XFin a) (XFin b)) (gen_phi_prime_rect (XFin a) (XFin b)) (XFin f) (XFin o) (XFin alpha))
    =x= XFin (q_tw_expectile_rect a b alpha f o) /\
  xmul (XFin (1 # 2)) (gen_consistent_huber (gen_phi_rect (XFin a) (XFin b)) (gen_phi_prime_rect (XFin a) (XFin b)) (XFin f) (XFin o) (XFin v))
    =x= XFin (q_tw_huber_rect a b v f o).
Proof. exact tw_rect_gen. Qed.
Print Assumptions C10_tw_rect_kernels.

Theorem C10_tw_trap_kernels : forall a b c d alpha v f o : Q, a < b -> b < c -> c < d -> 0 <= v ->
  let A := XFin a in let B := XFin b in let C := XFin c in let D := XFin d in
  gen_consistent_expectile (gen_phi_trap A B C D) (gen_phi_prime_trap A B C D) (XFin f) (XFin o) (XFin (1 # 2))
    =x= XFin (q_tw_sq_trap a b c d f o) /\
  xmul (XFin 2) (gen_consistent_quantile (gen_g_trap A B C D) (XFin f) (XFin o) (XFin (1 # 2))) =x= XFin (q_tw_abs_trap a b c d f o) /\
  gen_consistent_quantile (gen_g_trap A B C D) (XFin f) (XFin o) (XFin alpha) =x= XFin (q_tw_quantile_trap a b c d alpha f o) /\
  xmul (XFin (1 # 2)) (gen_consistent_expectile (gen_phi_trap A B C D) (gen_phi_prime_trap A B C D) (XFin f) (XFin o) (XFin alpha))
    =x= XFin (q_tw_expectile_trap a b c d alpha f o) /\
  xmul (XFin (1 # 2)) (gen_consistent_huber (gen_phi_trap A B C D) (gen_phi_prime_trap A B C D) (XFin f) (XFin o) (XFin v))
    =x= XFin (q_tw_huber_trap a b c d v f o).
Proof. exact tw_trap_gen. Qed.
Print Assumptions C10_tw_trap_kernels.

(* ---- non-negativity and zero at fcst = obs ---- *)
Theorem C10_consistent_quantile_nonneg : forall (g : Q -> Q) (alpha f o : Q),
  (forall x y, x <= y -> g x <= g y) -> 0 < alpha < 1 ->
  0 <= qcq g alpha f o /\ (f == o -> qcq g alpha f o == 0).
Proof. intros g alpha f o M A. split; [exact (qcq_nonneg g alpha f o M A) | exact (qcq_zero g alpha f o M)]. Qed.
Print Assumptions C10_consistent_quantile_nonneg.

Theorem C10_consistent_expectile_nonneg : forall (phi phi' : Q -> Q) (alpha f o : Q),
  (forall x y, phi' x * (y - x) <= phi y - phi x) -> 0 < alpha < 1 ->
  0 <= qce phi phi' alpha f o /\ (f == o -> qce phi phi' alpha f o == 0).
Proof. intros p p' alpha f o Sg A. split; [exact (qce_nonneg p p' alpha f o Sg A) | exact (qce_zero p p' alpha f o Sg)]. Qed.
Print Assumptions C10_consistent_expectile_nonneg.

Theorem C10_consistent_huber_nonneg : forall (phi phi' : Q -> Q) (v f o : Q),
  (forall x y, phi' x * (y - x) <= phi y - phi x) -> (forall x y, x <= y -> phi' x <= phi' y) -> 0 <= v ->
  0 <= qch phi phi' v f o /\ (f == o -> qch phi phi' v f o == 0).
Proof. intros p p' v f o Sg M V. split; [exact (qch_nonneg p p' v f o Sg M V) | exact (qch_zero p p' v f o Sg V)]. Qed.
Print Assumptions C10_consistent_huber_nonneg.

(* the rectangular g is non-decreasing and phi is convex with subgradient phi' = 4 g: the hypotheses above hold *)
Theorem C10_rect_admissible : forall a b : Q, a <= b ->
  (forall x y, x <= y -> qg_rect a b x <= qg_rect a b y) /\
  (forall x y, qphip_rect a b x * (y - x) <= qphi_rect a b y - qphi_rect a b x) /\
  (forall x y, x <= y -> qphip_rect a b x <= qphip_rect a b y).
Proof. intros a b H. split; [exact (qg_rect_nondecreasing a b H) | split; [exact (qphi_rect_subgradient a b H) | exact (qphip_rect_nondecreasing a b H)]]. Qed.
Print Assumptions C10_rect_admissible.

(* ---- partition of unity, rectangular: [a,b) + [b,c) = [a,c) for all five scores ---- *)
Theorem C10_tw_partition_rect : forall a b c alpha v f o : Q, a <= b -> b <= c ->
  q_tw_sq_rect a b f o + q_tw_sq_rect b c f o == q_tw_sq_rect a c f o /\
  q_tw_abs_rect a b f o + q_tw_abs_rect b c f o == q_tw_abs_rect a c f o /\
  q_tw_quantile_rect a b alpha f o + q_tw_quantile_rect b c alpha f o == q_tw_quantile_rect a c alpha f o /\
  q_tw_expectile_rect a b alpha f o + q_tw_expectile_rect b c alpha f o == q_tw_expectile_rect a c alpha f o /\
  q_tw_huber_rect a b v f o + q_tw_huber_rect b c v f o == q_tw_huber_rect a c v f o.
Proof. intros. repeat split; [apply tw_partition_rect_sq | apply tw_partition_rect_abs | apply tw_partition_rect_quantile
  | apply tw_partition_rect_expectile | apply tw_partition_rect_huber]; assumption. Qed.
Print Assumptions C10_tw_partition_rect.

(* every rectangular score is non-negative and zero at fcst = obs (axiom-free) *)
Theorem C10_tw_rect_nonneg : forall a b alpha v f o : Q, a <= b -> 0 < alpha < 1 -> 0 <= v ->
  (0 <= q_tw_sq_rect a b f o /\ 0 <= q_tw_abs_rect a b f o /\ 0 <= q_tw_quantile_rect a b alpha f o /\
   0 <= q_tw_expectile_rect a b alpha f o /\ 0 <= q_tw_huber_rect a b v f o) /\
  (f == o -> q_tw_sq_rect a b f o == 0 /\ q_tw_abs_rect a b f o == 0 /\ q_tw_quantile_rect a b alpha f o == 0 /\
   q_tw_expectile_rect a b alpha f o == 0 /\ q_tw_huber_rect a b v f o == 0).
Proof. exact tw_rect_nonneg. Qed.
Print Assumptions C10_tw_rect_nonneg.

(* ---- weight one everywhere (the finite end points the code substitutes for -inf / +inf lie beyond the data) ---- *)
Theorem C10_tw_weight_one : forall L U alpha v f o : Q, 0 <= v -> L <= f -> L <= o -> f <= U -> o <= U ->
  q_tw_sq_rect L U f o == (f - o) * (f - o) /\
  q_tw_abs_rect L U f o == Qabs (f - o) /\
  q_tw_quantile_rect L U alpha f o == (if Qltb o f then (1 - alpha) * (f - o) else alpha * (o - f)) /\
  q_tw_expectile_rect L U alpha f o == (if Qltb o f then 1 - alpha else alpha) * ((f - o) * (f - o)) /\
  q_tw_huber_rect L U v f o == (if Qle_bool (Qabs (f - o)) v then (1 # 2) * ((f - o) * (f - o)) else v * (Qabs (f - o) - (1 # 2) * v)).
Proof. intros. repeat split; [apply tw_weight_one_sq | apply tw_weight_one_abs | apply tw_weight_one_quantile
  | apply tw_weight_one_expectile | apply tw_weight_one_huber]; assumption. Qed.
Print Assumptions C10_tw_weight_one.

Theorem C10_tw_weight_one_trap : forall a b c d alpha v f o : Q, a < b -> c < d -> b <= f -> b <= o -> f < c -> o < c -> 0 <= v ->
  q_tw_sq_trap a b c d f o == q_sq_err f o /\ q_tw_abs_trap a b c d f o == q_abs_err f o /\
  q_tw_quantile_trap a b c d alpha f o == q_pinball alpha f o /\ q_tw_expectile_trap a b c d alpha f o == q_asym_sq alpha f o /\
  q_tw_huber_trap a b c d v f o == q_huber v f o.
Proof. exact tw_weight_one_trap. Qed.
Print Assumptions C10_tw_weight_one_trap.

(* two half-lines (-inf, b) and [b, inf) -- with the finite replacements L, U of the infinite end points -- sum to the unweighted score *)
Theorem C10_tw_partition_halflines : forall L b U alpha v f o : Q, 0 <= v -> L <= f -> L <= o -> f <= U -> o <= U -> L <= b -> b <= U ->
  q_tw_sq_rect L b f o + q_tw_sq_rect b U f o == q_sq_err f o /\
  q_tw_abs_rect L b f o + q_tw_abs_rect b U f o == q_abs_err f o /\
  q_tw_quantile_rect L b alpha f o + q_tw_quantile_rect b U alpha f o == q_pinball alpha f o /\
  q_tw_expectile_rect L b alpha f o + q_tw_expectile_rect b U alpha f o == q_asym_sq alpha f o /\
  q_tw_huber_rect L b v f o + q_tw_huber_rect b U v f o == q_huber v f o.
Proof. exact tw_partition_halflines. Qed.
Print Assumptions C10_tw_partition_halflines.

(* ---- soundness of the replacement of infinite end points: an end point at or beyond the data can be moved freely ---- *)
Theorem C10_inf_replacement_sound_rect : forall a1 a2 b1 b2 alpha v f o : Q,
  a1 <= f -> a1 <= o -> a2 <= f -> a2 <= o -> f <= b1 -> o <= b1 -> f <= b2 -> o <= b2 -> 0 <= v ->
  q_tw_sq_rect a1 b1 f o == q_tw_sq_rect a2 b2 f o /\ q_tw_abs_rect a1 b1 f o == q_tw_abs_rect a2 b2 f o /\
  q_tw_quantile_rect a1 b1 alpha f o == q_tw_quantile_rect a2 b2 alpha f o /\
  q_tw_expectile_rect a1 b1 alpha f o == q_tw_expectile_rect a2 b2 alpha f o /\
  q_tw_huber_rect a1 b1 v f o == q_tw_huber_rect a2 b2 v f o.
Proof. intros a1 a2 b1 b2 alpha v f o ? ? ? ? ? ? ? ? ?.
 destruct (rect_lower_irrelevant a1 a2 b1 alpha v f o) as (E1 & E2 & E3 & E4 & E5); auto.
 destruct (rect_upper_irrelevant a2 b1 b2 alpha v f o) as (F1 & F2 & F3 & F4 & F5); auto.
 repeat split; etransitivity; eauto. Qed.
Print Assumptions C10_inf_replacement_sound_rect.

Theorem C10_inf_replacement_sound_trap_lower : forall a1 b1 a2 b2 c d alpha v f o : Q,
  a1 < b1 -> a2 < b2 -> b1 <= f -> b1 <= o -> b2 <= f -> b2 <= o -> b1 < c -> b2 < c -> c < d -> 0 <= v ->
  q_tw_sq_trap a1 b1 c d f o == q_tw_sq_trap a2 b2 c d f o /\ q_tw_abs_trap a1 b1 c d f o == q_tw_abs_trap a2 b2 c d f o /\
  q_tw_quantile_trap a1 b1 c d alpha f o == q_tw_quantile_trap a2 b2 c d alpha f o /\
  q_tw_expectile_trap a1 b1 c d alpha f o == q_tw_expectile_trap a2 b2 c d alpha f o /\
  q_tw_huber_trap a1 b1 c d v f o == q_tw_huber_trap a2 b2 c d v f o.
Proof. exact trap_lower_irrelevant. Qed.
Print Assumptions C10_inf_replacement_sound_trap_lower.

Theorem C10_inf_replacement_sound_trap_upper : forall a b c1 d1 c2 d2 alpha v f o : Q,
  c1 < d1 -> c2 < d2 -> f < c1 -> o < c1 -> f < c2 -> o < c2 -> b < c1 -> b < c2 -> a < b -> 0 <= v ->
  q_tw_sq_trap a b c1 d1 f o == q_tw_sq_trap a b c2 d2 f o /\ q_tw_abs_trap a b c1 d1 f o == q_tw_abs_trap a b c2 d2 f o /\
  q_tw_quantile_trap a b c1 d1 alpha f o == q_tw_quantile_trap a b c2 d2 alpha f o /\
  q_tw_expectile_trap a b c1 d1 alpha f o == q_tw_expectile_trap a b c2 d2 alpha f o /\
  q_tw_huber_trap a b c1 d1 v f o == q_tw_huber_trap a b c2 d2 v f o.
Proof. exact trap_upper_irrelevant. Qed.
Print Assumptions C10_inf_replacement_sound_trap_upper.

(* the values the model of _auxiliary_funcs substitutes are strictly beyond every finite forecast / observation *)
Theorem C10_replacement_points_beyond_data : forall (F O : list xv) (vb va : xv) (x : Q),
  Forall (fun v => xisinf v = false) F -> Forall (fun v => xisinf v = false) O ->
  (exists y, In (XFin y) F) -> (exists y, In (XFin y) O) -> In (XFin x) (F ++ O) ->
  (vb <> XInf false -> exists q, xsub (pymin3 (nanmin F) (nanmin O) vb) X1 = XFin q /\ q < x) /\
  (va <> XInf true -> exists q, xadd (pymax3 (nanmax F) (nanmax O) va) X1 = XFin q /\ x < q).
Proof. intros. split; intro; [eapply lower_replacement_sound | eapply upper_replacement_sound]; eauto. Qed.
Print Assumptions C10_replacement_points_beyond_data.

(* ---- partition of unity, trapezoidal: trapezoid (a,b,c,d) + left ramp (L2,L1,a,b) + right ramp (c,d,U1,U2) = unweighted score ---- *)
Theorem C10_tw_partition_trap : forall L2 L1 a b c d U1 U2 alpha v f o : Q,
  L2 < L1 /\ L1 < a /\ a < b /\ b < c /\ c < d /\ d < U1 /\ U1 < U2 -> L1 <= f < U1 -> L1 <= o < U1 -> 0 <= v ->
  q_tw_sq_trap L2 L1 a b f o + q_tw_sq_trap a b c d f o + q_tw_sq_trap c d U1 U2 f o == q_sq_err f o /\
  q_tw_abs_trap L2 L1 a b f o + q_tw_abs_trap a b c d f o + q_tw_abs_trap c d U1 U2 f o == q_abs_err f o /\
  q_tw_quantile_trap L2 L1 a b alpha f o + q_tw_quantile_trap a b c d alpha f o + q_tw_quantile_trap c d U1 U2 alpha f o == q_pinball alpha f o /\
  q_tw_expectile_trap L2 L1 a b alpha f o + q_tw_expectile_trap a b c d alpha f o + q_tw_expectile_trap c d U1 U2 alpha f o == q_asym_sq alpha f o /\
  q_tw_huber_trap L2 L1 a b v f o + q_tw_huber_trap a b c d v f o + q_tw_huber_trap c d U1 U2 v f o == q_huber v f o.
Proof. intros L2 L1 a b c d U1 U2 alpha v f o R Hf Ho Hv. repeat split;
 [apply tw_partition_trap_sq | apply tw_partition_trap_abs | apply tw_partition_trap_quantile
 | apply tw_partition_trap_expectile | apply tw_partition_trap_huber]; assumption. Qed.
Print Assumptions C10_tw_partition_trap.

(* =====================  integral statements (Coquelicot is_RInt; standard Reals axioms)  ===================== *)
(* w_rect / w_trap : the weight functions; esR_* : the Murphy elementary scores as real functions of theta (proofs/C10_RInt.v) *)

(* g is an antiderivative of the weight *)
Theorem C10_g_rect_is_antiderivative : forall a b x y : Q, a < b -> x <= y ->
  is_RInt (w_rect (Q2R a) (Q2R b)) (Q2R x) (Q2R y) (Q2R (qg_rect a b y - qg_rect a b x)).
Proof. exact g_rect_is_antiderivative. Qed.
Print Assumptions C10_g_rect_is_antiderivative.

Theorem C10_g_trap_is_antiderivative : forall a b c d x y : Q, a < b -> b < c -> c < d -> x <= y ->
  is_RInt (w_trap (Q2R a) (Q2R b) (Q2R c) (Q2R d)) (Q2R x) (Q2R y) (Q2R (qg_trap a b c d y - qg_trap a b c d x)).
Proof. exact g_trap_is_antiderivative. Qed.
Print Assumptions C10_g_trap_is_antiderivative.

(* phi is the double antiderivative: int_x^y w(t) (y - t) dt = (phi y - phi x - phi' x (y - x)) / 4 *)
Theorem C10_phi_rect_is_double_antiderivative : forall a b x y : Q, a < b -> x <= y ->
  is_RInt (fun t => w_rect (Q2R a) (Q2R b) t * (Q2R y - t))%R (Q2R x) (Q2R y)
          (Q2R ((qphi_rect a b y - qphi_rect a b x - qphip_rect a b x * (y - x)) / 4)).
Proof. exact phi_rect_is_double_antiderivative. Qed.
Print Assumptions C10_phi_rect_is_double_antiderivative.

Theorem C10_phi_trap_is_double_antiderivative : forall a b c d x y : Q, a < b -> b < c -> c < d -> x <= y ->
  is_RInt (fun t => w_trap (Q2R a) (Q2R b) (Q2R c) (Q2R d) t * (Q2R y - t))%R (Q2R x) (Q2R y)
          (Q2R ((qphi_trap a b c d y - qphi_trap a b c d x - qphip_trap a b c d x * (y - x)) / 4)).
Proof. exact phi_trap_is_double_antiderivative. Qed.
Print Assumptions C10_phi_trap_is_double_antiderivative.

(* the integrand: at rational arguments esR_* is the (specification of the) regenerated Murphy elementary score *)
Theorem C10_elementary_score_link : forall alpha a f o t : Q,
  Q2R (es_quantile alpha f o t) = esR_quantile (Q2R alpha) (Q2R f) (Q2R o) (Q2R t) /\
  Q2R (es_expectile alpha f o t) = esR_expectile (Q2R alpha) (Q2R f) (Q2R o) (Q2R t) /\
  Q2R (es_huber alpha a f o t) = esR_huber (Q2R alpha) (Q2R a) (Q2R f) (Q2R o) (Q2R t).
Proof. intros. repeat split; [apply es_quantile_bridge | apply es_expectile_bridge | apply es_huber_bridge]. Qed.
Print Assumptions C10_elementary_score_link.

(* the five scores = integral over theta in any [lo, hi] containing fcst and obs of  weight x elementary score
   (constant factors: tw_squared_error = 4 x expectile(1/2), tw_absolute_error = 2 x quantile(1/2), tw_expectile = 2 x expectile(alpha),
    tw_huber_loss = 2 x huber(1/2), because phi = 2 x^2 in Taggart's convention) *)
Theorem C10_tw_rect_is_integral : forall a b alpha v f o lo hi : Q, a < b -> 0 <= v -> lo <= f <= hi -> lo <= o <= hi ->
  let W := w_rect (Q2R a) (Q2R b) in let F := Q2R f in let O := Q2R o in
  is_RInt (fun t => 4 * (W t * esR_expectile (1 / 2) F O t))%R (Q2R lo) (Q2R hi) (Q2R (q_tw_sq_rect a b f o)) /\
  is_RInt (fun t => 2 * (W t * esR_quantile (1 / 2) F O t))%R (Q2R lo) (Q2R hi) (Q2R (q_tw_abs_rect a b f o)) /\
  is_RInt (fun t => W t * esR_quantile (Q2R alpha) F O t)%R (Q2R lo) (Q2R hi) (Q2R (q_tw_quantile_rect a b alpha f o)) /\
  is_RInt (fun t => 2 * (W t * esR_expectile (Q2R alpha) F O t))%R (Q2R lo) (Q2R hi) (Q2R (q_tw_expectile_rect a b alpha f o)) /\
  is_RInt (fun t => 2 * (W t * esR_huber (1 / 2) (Q2R v) F O t))%R (Q2R lo) (Q2R hi) (Q2R (q_tw_huber_rect a b v f o)).
Proof. exact tw_rect_is_integral. Qed.
Print Assumptions C10_tw_rect_is_integral.

Theorem C10_tw_trap_is_integral : forall a b c d alpha v f o lo hi : Q, a < b -> b < c -> c < d -> 0 <= v ->
  lo <= f <= hi -> lo <= o <= hi ->
  let W := w_trap (Q2R a) (Q2R b) (Q2R c) (Q2R d) in let F := Q2R f in let O := Q2R o in
  is_RInt (fun t => 4 * (W t * esR_expectile (1 / 2) F O t))%R (Q2R lo) (Q2R hi) (Q2R (q_tw_sq_trap a b c d f o)) /\
  is_RInt (fun t => 2 * (W t * esR_quantile (1 / 2) F O t))%R (Q2R lo) (Q2R hi) (Q2R (q_tw_abs_trap a b c d f o)) /\
  is_RInt (fun t => W t * esR_quantile (Q2R alpha) F O t)%R (Q2R lo) (Q2R hi) (Q2R (q_tw_quantile_trap a b c d alpha f o)) /\
  is_RInt (fun t => 2 * (W t * esR_expectile (Q2R alpha) F O t))%R (Q2R lo) (Q2R hi) (Q2R (q_tw_expectile_trap a b c d alpha f o)) /\
  is_RInt (fun t => 2 * (W t * esR_huber (1 / 2) (Q2R v) F O t))%R (Q2R lo) (Q2R hi) (Q2R (q_tw_huber_trap a b c d v f o)).
Proof. exact tw_trap_is_integral. Qed.
Print Assumptions C10_tw_trap_is_integral.

(* trapezoid: g non-decreasing and phi convex with subgradient phi' (from the integral form: the weight is non-negative);
   hence every trapezoidal score is non-negative and zero at fcst = obs *)
Theorem C10_trap_admissible : forall a b c d : Q, a < b -> b < c -> c < d ->
  (forall x y, x <= y -> qg_trap a b c d x <= qg_trap a b c d y) /\
  (forall x y, qphip_trap a b c d x * (y - x) <= qphi_trap a b c d y - qphi_trap a b c d x) /\
  (forall x y, x <= y -> qphip_trap a b c d x <= qphip_trap a b c d y).
Proof. intros a b c d H1 H2 H3. split; [exact (qg_trap_nondecreasing a b c d H1 H2 H3) | split;
  [exact (qphi_trap_subgradient a b c d H1 H2 H3) | exact (qphip_trap_nondecreasing a b c d H1 H2 H3)]]. Qed.
Print Assumptions C10_trap_admissible.

Theorem C10_tw_trap_nonneg : forall a b c d alpha v f o : Q, a < b -> b < c -> c < d -> 0 < alpha < 1 -> 0 <= v ->
  (0 <= q_tw_sq_trap a b c d f o /\ 0 <= q_tw_abs_trap a b c d f o /\ 0 <= q_tw_quantile_trap a b c d alpha f o /\
   0 <= q_tw_expectile_trap a b c d alpha f o /\ 0 <= q_tw_huber_trap a b c d v f o) /\
  (f == o -> q_tw_sq_trap a b c d f o == 0 /\ q_tw_abs_trap a b c d f o == 0 /\ q_tw_quantile_trap a b c d alpha f o == 0 /\
   q_tw_expectile_trap a b c d alpha f o == 0 /\ q_tw_huber_trap a b c d v f o == 0).
Proof. exact tw_trap_nonneg. Qed.
Print Assumptions C10_tw_trap_nonneg.

(* ---- +-inf among the data, finite end points (Q-level, axiom-free).  g(x) = int_{-inf}^x weight reaches the total mass of the
        weight at +inf (b - a resp. (d + c - a - b) / 2) and is 0 at -inf; the quantile-type kernel (tw_quantile_score; tw_absolute_error
        is twice it at alpha = 1/2) for an infinite forecast or observation is weight-factor x the mass of the weight over the region
        of the elementary quantile score: [obs, +inf) for a forecast of +inf, (-inf, obs) for a forecast of -inf, [fcst, +inf) for an
        observation of +inf, (-inf, fcst) for an observation of -inf ---- *)
Theorem C10_g_at_infinity : forall a b c d : Q, a < b -> b < c -> c < d ->
  gen_g_rect (XFin a) (XFin b) (XInf true) =x= XFin (b - a) /\ gen_g_rect (XFin a) (XFin b) (XInf false) =x= XFin 0 /\
  gen_g_trap (XFin a) (XFin b) (XFin c) (XFin d) (XInf true) =x= XFin ((d + c - a - b) / 2) /\
  gen_g_trap (XFin a) (XFin b) (XFin c) (XFin d) (XInf false) =x= XFin 0 /\
  (forall x, b <= x -> qg_rect a b x == b - a) /\ (forall x, d <= x -> qg_trap a b c d x == (d + c - a - b) / 2).
Proof. intros a b c d H H0 H1. assert (a <= b) as Hab by lra. destruct (g_rect_at_infinity a b Hab). destruct (g_trap_at_infinity a b c d H H0 H1).
 repeat split; try assumption; intros x Hx; destruct (g_total_mass a b c d x H H0 H1); auto. Qed.
Print Assumptions C10_g_at_infinity.

Theorem C10_tw_quantile_infinite_data : forall a b c d alpha x : Q, a < b -> b < c -> c < d ->
  (let g := gen_g_rect (XFin a) (XFin b) in
   gen_consistent_quantile g (XInf true) (XFin x) (XFin alpha) =x= XFin ((1 - alpha) * ((b - a) - qg_rect a b x)) /\
   gen_consistent_quantile g (XInf false) (XFin x) (XFin alpha) =x= XFin (alpha * qg_rect a b x) /\
   gen_consistent_quantile g (XFin x) (XInf true) (XFin alpha) =x= XFin (alpha * ((b - a) - qg_rect a b x)) /\
   gen_consistent_quantile g (XFin x) (XInf false) (XFin alpha) =x= XFin ((1 - alpha) * qg_rect a b x)) /\
  (let g := gen_g_trap (XFin a) (XFin b) (XFin c) (XFin d) in
   gen_consistent_quantile g (XInf true) (XFin x) (XFin alpha) =x= XFin ((1 - alpha) * ((d + c - a - b) / 2 - qg_trap a b c d x)) /\
   gen_consistent_quantile g (XInf false) (XFin x) (XFin alpha) =x= XFin (alpha * qg_trap a b c d x) /\
   gen_consistent_quantile g (XFin x) (XInf true) (XFin alpha) =x= XFin (alpha * ((d + c - a - b) / 2 - qg_trap a b c d x)) /\
   gen_consistent_quantile g (XFin x) (XInf false) (XFin alpha) =x= XFin ((1 - alpha) * qg_trap a b c d x)).
Proof. intros a b c d alpha x H H0 H1. assert (a <= b) as Hab by lra. split;
  [exact (tw_quantile_rect_infinite_data a b alpha x Hab) | exact (tw_quantile_trap_infinite_data a b c d alpha x H H0 H1)]. Qed.
Print Assumptions C10_tw_quantile_infinite_data.

(* non-vacuity *)
Example C10_ex_rect_endpoint : gen_g_rect (XFin 0) (XFin 2) (XFin 2) =x= XFin 2 /\ gen_g_rect (XFin 0) (XFin 2) (XFin 0) =x= XFin 0.
Proof. split; vm_compute; reflexivity. Qed.
Example C10_ex_trap_hyp : (0:Q) < 1 /\ (1:Q) < 2 /\ (2:Q) < 4 /\ gen_g_trap (XFin 0) (XFin 1) (XFin 2) (XFin 4) (XFin 4) =x= XFin (5 # 2).
Proof. repeat split; vm_compute; reflexivity. Qed.
