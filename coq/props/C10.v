(* props/C10.v -- property C10: threshold-weighted scores are weighted integrals of elementary scores;
   consistent_* scores are non-negative and vanish at fcst = obs.
   Only statements; every proof is `exact <lemma>` into coq/proofs.  Q-level statements are axiom-free;
   the integral statements (is_RInt, Coquelicot) use the standard Reals axioms (see Print Assumptions). *)
From V Require Import lib.Tree gen.Gen_C10_kern model.C10 proofs.C10.

(* ---- the regenerated rows of Table B1 are the documented piecewise formulas, end points included ---- *)
Theorem C10_g_rect_is_table_B1 : forall a b x : Q,
  gen_g_rect (XFin a) (XFin b) (XFin x) =x= XFin (qg_rect a b x).
Proof. exact g_rect_gen_spec. Qed.
Print Assumptions C10_g_rect_is_table_B1.

Theorem C10_phi_rect_is_table_B1 : forall a b x : Q,
  gen_phi_rect (XFin a) (XFin b) (XFin x) =x= XFin (qphi_rect a b x).
Proof. exact phi_rect_gen_spec. Qed.
Print Assumptions C10_phi_rect_is_table_B1.

Theorem C10_phi_prime_rect_is_4g : forall a b x : Q,
  gen_phi_prime_rect (XFin a) (XFin b) (XFin x) =x= XFin (4 * qg_rect a b x).
Proof. exact phip_rect_gen_spec. Qed.
Print Assumptions C10_phi_prime_rect_is_4g.

Theorem C10_g_trap_is_table_B1 : forall a b c d x : Q, a < b -> b < c -> c < d ->
  gen_g_trap (XFin a) (XFin b) (XFin c) (XFin d) (XFin x) =x= XFin (qg_trap a b c d x).
Proof. exact g_trap_gen_spec. Qed.
Print Assumptions C10_g_trap_is_table_B1.

Theorem C10_phi_trap_is_table_B1 : forall a b c d x : Q, a < b -> b < c -> c < d ->
  gen_phi_trap (XFin a) (XFin b) (XFin c) (XFin d) (XFin x) =x= XFin (qphi_trap a b c d x).
Proof. exact phi_trap_gen_spec. Qed.
Print Assumptions C10_phi_trap_is_table_B1.

Theorem C10_phi_prime_trap_is_4g : forall a b c d x : Q, a < b -> b < c -> c < d ->
  gen_phi_prime_trap (XFin a) (XFin b) (XFin c) (XFin d) (XFin x) =x= XFin (4 * qg_trap a b c d x).
Proof. exact phip_trap_gen_spec. Qed.
Print Assumptions C10_phi_prime_trap_is_4g.

(* ---- the regenerated consistent kernels are the scoring functions of Gneiting (2011) / Taggart (2022),
        for every g / phi / phi' that is finite on finite arguments ---- *)
Theorem C10_consistent_quantile_kernel : forall (g : xv -> xv) (gq : Q -> Q) (alpha f o : Q),
  (forall x, g (XFin x) =x= XFin (gq x)) ->
  gen_consistent_quantile g (XFin f) (XFin o) (XFin alpha)
  =x= XFin (if Qltb o f then (1 - alpha) * (gq f - gq o) else alpha * (gq o - gq f)).
Proof. exact cq_gen_spec. Qed.
Print Assumptions C10_consistent_quantile_kernel.

Theorem C10_consistent_expectile_kernel : forall (phi phi' : xv -> xv) (p p' : Q -> Q) (alpha f o : Q),
  (forall x, phi (XFin x) =x= XFin (p x)) -> (forall x, phi' (XFin x) =x= XFin (p' x)) ->
  gen_consistent_expectile phi phi' (XFin f) (XFin o) (XFin alpha)
  =x= XFin ((if Qltb o f then 1 - alpha else alpha) * (p o - p f - p' f * (o - f))).
Proof. exact ce_gen_spec. Qed.
Print Assumptions C10_consistent_expectile_kernel.

Theorem C10_consistent_huber_kernel : forall (phi phi' : xv -> xv) (p p' : Q -> Q) (v f o : Q),
  (forall x, phi (XFin x) =x= XFin (p x)) -> (forall x, phi' (XFin x) =x= XFin (p' x)) -> 0 <= v ->
  (forall x y, x == y -> p x == p y) ->
  gen_consistent_huber phi phi' (XFin f) (XFin o) (XFin v)
  =x= XFin (let k := qclip v (f - o) in (1 # 2) * (p o - p (k + o) + k * p' f)).
Proof. exact ch_gen_spec. Qed.
Print Assumptions C10_consistent_huber_kernel.

(* ---- non-negativity and zero at fcst = obs ---- *)
Theorem C10_consistent_quantile_nonneg : forall (g : Q -> Q) (alpha f o : Q),
  (forall x y, x <= y -> g x <= g y) -> 0 < alpha < 1 ->
  0 <= qcq g alpha f o /\ (f == o -> qcq g alpha f o == 0).
Proof. intros g alpha f o M A. split; [exact (qcq_nonneg g alpha f o M A) | exact (qcq_zero g alpha f o M)]. Qed.
Print Assumptions C10_consistent_quantile_nonneg.

Theorem C10_consistent_expectile_nonneg : forall (phi phi' : Q -> Q) (alpha f o : Q),
  (forall x y, phi' x * (y - x) <= phi y - phi x) -> 0 < alpha < 1 ->
  0 <= qce phi phi' alpha f o /\ (f == o -> qce phi phi' alpha f o == 0).
Proof. intros p p' alpha f o Sg A. split; [exact (qce_nonneg p p' alpha f o Sg A) | exact (qce_zero p p' alpha f o Sg)]. Qed.
Print Assumptions C10_consistent_expectile_nonneg.

Theorem C10_consistent_huber_nonneg : forall (phi phi' : Q -> Q) (v f o : Q),
  (forall x y, phi' x * (y - x) <= phi y - phi x) -> (forall x y, x <= y -> phi' x <= phi' y) -> 0 <= v ->
  0 <= qch phi phi' v f o /\ (f == o -> qch phi phi' v f o == 0).
Proof. intros p p' v f o Sg M V. split; [exact (qch_nonneg p p' v f o Sg M V) | exact (qch_zero p p' v f o Sg V)]. Qed.
Print Assumptions C10_consistent_huber_nonneg.

(* the rectangular g is non-decreasing and phi is convex with subgradient phi' = 4 g: the hypotheses above hold *)
Theorem C10_rect_admissible : forall a b : Q, a <= b ->
  (forall x y, x <= y -> qg_rect a b x <= qg_rect a b y) /\
  (forall x y, qphip_rect a b x * (y - x) <= qphi_rect a b y - qphi_rect a b x) /\
  (forall x y, x <= y -> qphip_rect a b x <= qphip_rect a b y).
Proof. intros a b H. split; [exact (qg_rect_nondecreasing a b H) | split; [exact (qphi_rect_subgradient a b H) | exact (qphip_rect_nondecreasing a b H)]]. Qed.
Print Assumptions C10_rect_admissible.

(* ---- partition of unity, rectangular: [a,b) + [b,c) = [a,c) for all five scores ---- *)
Theorem C10_tw_partition_rect : forall a b c alpha v f o : Q, a <= b -> b <= c ->
  q_tw_sq_rect a b f o + q_tw_sq_rect b c f o == q_tw_sq_rect a c f o /\
  q_tw_abs_rect a b f o + q_tw_abs_rect b c f o == q_tw_abs_rect a c f o /\
  q_tw_quantile_rect a b alpha f o + q_tw_quantile_rect b c alpha f o == q_tw_quantile_rect a c alpha f o /\
  q_tw_expectile_rect a b alpha f o + q_tw_expectile_rect b c alpha f o == q_tw_expectile_rect a c alpha f o /\
  q_tw_huber_rect a b v f o + q_tw_huber_rect b c v f o == q_tw_huber_rect a c v f o.
Proof. intros. repeat split; [apply tw_partition_rect_sq | apply tw_partition_rect_abs | apply tw_partition_rect_quantile
  | apply tw_partition_rect_expectile | apply tw_partition_rect_huber]; assumption. Qed.
Print Assumptions C10_tw_partition_rect.

(* non-vacuity *)
Example C10_ex_rect_endpoint : gen_g_rect (XFin 0) (XFin 2) (XFin 2) =x= XFin 2 /\ gen_g_rect (XFin 0) (XFin 2) (XFin 0) =x= XFin 0.
Proof. split; vm_compute; reflexivity. Qed.
Example C10_ex_trap_hyp : (0:Q) < 1 /\ (1:Q) < 2 /\ (2:Q) < 4 /\ gen_g_trap (XFin 0) (XFin 1) (XFin 2) (XFin 4) (XFin 4) =x= XFin (5 # 2).
Proof. repeat split; vm_compute; reflexivity. Qed.
