(* props/C07.v -- property C07: CRPS for CDF forecasts equals the exact threshold-weighted integral. *)
From V Require Import lib.Tree gen.Gen_C07_kern model.Cdf model.C07 proofs.C07.

Theorem C07_exact_total_is_sum : forall ts f o w,
  let '(t, u, ov) := crps_exact_line ts f o w in t = xadd ov u.
Proof. exact exact_total_is_sum. Qed.
Print Assumptions C07_exact_total_is_sum.
