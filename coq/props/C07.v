(* props/C07.v -- property C07: CRPS for CDF forecasts equals the exact threshold-weighted integral.
   Only statements; every proof is `exact <lemma>` into coq/proofs/C07.v (Q level) and C07_int.v (R level).
   A forecast case on the common grid is a list of points `pt` = (threshold, ordinate, weight):
   tq / fq / wq project a point.  crps_exact_line / crps_trapz_line / brier_line are the code-faithful
   models (model/Cdf.v) of crps_cdf_exact / crps_cdf_trapz / the Brier decomposition; gen_piece_integral
   is regenerated from integrate_square_piecewise_linear. *)
From V Require Import lib.Tree gen.Gen_C07_kern model.Cdf model.C07 proofs.C07 proofs.C07_int proofs.C07_fin.
From Coq Require Import Reals Qreals.
From Coquelicot Require Import Coquelicot.
Open Scope Q_scope.

(* int_{x0}^{x1} (m (t - x0) + b)^2 dt = m^2 D^3/3 + m b D^2 + b^2 D : the closed form used by the code *)
Theorem C07_piece_integral : forall m b x0 x1 : R,
  is_RInt (fun t => (m * (t - x0) + b) ^ 2)%R x0 x1
          (m ^ 2 * (x1 - x0) ^ 3 / 3 + m * b * (x1 - x0) ^ 2 + b ^ 2 * (x1 - x0))%R.
Proof. exact piece_integral. Qed.
Print Assumptions C07_piece_integral.

(* the regenerated piece formula, for a piece of width d <> 0 from ordinate a to ordinate b, is d(a^2+ab+b^2)/3 *)
Theorem C07_piece_kernel_closed_form : forall d a b : Q, ~ d == 0 ->
  gen_piece_integral (XFin d) (XFin (b - a)) (XFin a) =x= XFin (d * (a * a + a * b + b * b) / 3).
Proof. exact piece_closed_form. Qed.
Print Assumptions C07_piece_kernel_closed_form.

(* exact method = the integral.  For every increasing grid, ordinates, weights and every observation that is
   not strictly inside a grid interval (the pipeline puts it on the grid: C07_grid_contains_obs), the three
   outputs of the code-faithful exact method are the Riemann integrals over [t_first, t_last] of
     w(x) (F(x) - 1{x>=y})^2,   w(x) 1{x<y} F(x)^2,   w(x) 1{x>=y} (F(x)-1)^2
   with F the continuous piecewise-linear interpolant and w the right-continuous step weight. *)
Theorem C07_exact_is_integral : forall (pts : list pt) (y : Q),
  pts <> [] -> Cdf.increasing (map tq pts) = true -> no_interior y (map tq pts) = true ->
  forall t u o : Q,
  crps_exact_line (map tq pts) (fins (map fq pts)) (observed_cdf_line (XFin y) (map tq pts)) (fins (map wq pts)) = (XFin t, XFin u, XFin o) ->
  is_RInt (fun x => Wstep pts x * (Finterp pts x - RH y x) ^ 2)%R (Q2R (tfirst pts)) (Q2R (tlast pts)) (Q2R t) /\
  is_RInt (fun x => Wstep pts x * ((1 - RH y x) * (Finterp pts x) ^ 2))%R (Q2R (tfirst pts)) (Q2R (tlast pts)) (Q2R u) /\
  is_RInt (fun x => Wstep pts x * (RH y x * (Finterp pts x - 1) ^ 2))%R (Q2R (tfirst pts)) (Q2R (tlast pts)) (Q2R o).
Proof. exact exact_is_integral. Qed.
Print Assumptions C07_exact_is_integral.

(* the same for one forecast case of the public pipeline: whenever union grid + fill left no NaN (C17_fill_range01: always for a
   NaN-free forecast with two thresholds) and the observation is finite, crps_case on the common grid returns these integrals
   of the filled forecast / weight *)
Theorem C07_crps_case_is_integral : forall grid ft wt op (c : fcase) (f w : list Q) (y : Q),
  o_exact op = true -> grid <> [] ->
  reformat_case grid ft wt op c = (fins f, observed_cdf_line (XFin y) grid, fins w) ->
  length f = length grid -> length w = length grid ->
  Cdf.increasing grid = true -> qmem y grid = true ->
  forall t u o : Q, crps_case grid ft wt op c = (XFin t, XFin u, XFin o) ->
  let pts := combine (combine grid f) w in
  is_RInt (fun x => Wstep pts x * (Finterp pts x - RH y x) ^ 2)%R (Q2R (tfirst pts)) (Q2R (tlast pts)) (Q2R t) /\
  is_RInt (fun x => Wstep pts x * ((1 - RH y x) * (Finterp pts x) ^ 2))%R (Q2R (tfirst pts)) (Q2R (tlast pts)) (Q2R u) /\
  is_RInt (fun x => Wstep pts x * (RH y x * (Finterp pts x - 1) ^ 2))%R (Q2R (tfirst pts)) (Q2R (tlast pts)) (Q2R o).
Proof. exact crps_case_is_integral. Qed.
Print Assumptions C07_crps_case_is_integral.

(* code-faithful exact method = specification sum, for EVERY weight (not only 0/1 steps) and every observation *)
Theorem C07_exact_code_eq_spec : forall (pts : list pt) (y : Q), Cdf.increasing (map tq pts) = true ->
  let r := crps_exact_line (map tq pts) (fins (map fq pts)) (observed_cdf_line (XFin y) (map tq pts)) (fins (map wq pts)) in
  let s := spec_exact pts y in
  fst (fst r) =x= XFin (snd s + fst s) /\ snd (fst r) =x= XFin (fst s) /\ snd r =x= XFin (snd s).
Proof. exact exact_line_eq_spec. Qed.
Print Assumptions C07_exact_code_eq_spec.

(* code-faithful trapezoidal method = trapezoid rule applied to w (F-H)^2, (1-H) w (F-H)^2, H w (F-H)^2 (H = observation CDF) *)
Theorem C07_trapz_code_eq_spec : forall (pts : list pt) (y : Q),
  let r := crps_trapz_line (map tq pts) (fins (map fq pts)) (observed_cdf_line (XFin y) (map tq pts)) (fins (map wq pts)) in
  fst (fst r) =x= XFin (fst (fst (spec_trapz pts y))) /\
  snd (fst r) =x= XFin (snd (fst (spec_trapz pts y))) /\
  snd r =x= XFin (snd (spec_trapz pts y)).
Proof. exact trapz_line_fin. Qed.
Print Assumptions C07_trapz_code_eq_spec.

(* under + over = total, both >= 0 (exact), wherever the observation lies *)
Theorem C07_under_over_total_exact : forall (pts : list pt) (y : Q),
  Cdf.increasing (map tq pts) = true -> (forall p, In p pts -> 0 <= wq p) ->
  exists t u o : Q,
    (let r := crps_exact_line (map tq pts) (fins (map fq pts)) (observed_cdf_line (XFin y) (map tq pts)) (fins (map wq pts)) in
     fst (fst r) =x= XFin t /\ snd (fst r) =x= XFin u /\ snd r =x= XFin o)
    /\ t == u + o /\ 0 <= u /\ 0 <= o.
Proof. exact exact_components. Qed.
Print Assumptions C07_under_over_total_exact.

(* the same for the trapezoidal method *)
Theorem C07_under_over_total_trapz : forall (pts : list pt) (y : Q),
  Cdf.increasing (map tq pts) = true -> (forall p, In p pts -> 0 <= wq p) ->
  exists t u o : Q,
    (let r := crps_trapz_line (map tq pts) (fins (map fq pts)) (observed_cdf_line (XFin y) (map tq pts)) (fins (map wq pts)) in
     fst (fst r) =x= XFin t /\ snd (fst r) =x= XFin u /\ snd r =x= XFin o)
    /\ t == u + o /\ 0 <= u /\ 0 <= o.
Proof. exact trapz_components. Qed.
Print Assumptions C07_under_over_total_trapz.

(* weights summing to one give results summing to the unweighted score over the same grid: exact ... *)
Theorem C07_weights_partition_exact : forall (qs : list (Q * Q * Q * Q)) (y : Q),     (* (threshold, ordinate, w1, w2) *)
  Cdf.increasing (map (fun q => fst (fst (fst q))) qs) = true ->
  (forall q, In q qs -> snd (fst q) + snd q == 1) ->
  let ts := map (fun q => fst (fst (fst q))) qs in
  let f := fins (map (fun q => snd (fst (fst q))) qs) in
  let o := observed_cdf_line (XFin y) ts in
  let r1 := crps_exact_line ts f o (fins (map (fun q => snd (fst q)) qs)) in
  let r2 := crps_exact_line ts f o (fins (map (fun q => snd q) qs)) in
  let r := crps_exact_line ts f o (map (fun _ => X1) ts) in
  xadd (fst (fst r1)) (fst (fst r2)) =x= fst (fst r) /\
  xadd (snd (fst r1)) (snd (fst r2)) =x= snd (fst r) /\
  xadd (snd r1) (snd r2) =x= snd r.
Proof. exact exact_weights_partition. Qed.
Print Assumptions C07_weights_partition_exact.

(* ... and trapz *)
Theorem C07_weights_partition_trapz : forall (qs : list (Q * Q * Q * Q)) (y : Q),
  (forall q, In q qs -> snd (fst q) + snd q == 1) ->
  let ts := map (fun q => fst (fst (fst q))) qs in
  let f := fins (map (fun q => snd (fst (fst q))) qs) in
  let o := observed_cdf_line (XFin y) ts in
  let r1 := crps_trapz_line ts f o (fins (map (fun q => snd (fst q)) qs)) in
  let r2 := crps_trapz_line ts f o (fins (map (fun q => snd q) qs)) in
  let r := crps_trapz_line ts f o (map (fun _ => X1) ts) in
  xadd (fst (fst r1)) (fst (fst r2)) =x= fst (fst r) /\
  xadd (snd (fst r1)) (snd (fst r2)) =x= snd (fst r) /\
  xadd (snd r1) (snd r2) =x= snd r.
Proof. exact trapz_weights_partition. Qed.
Print Assumptions C07_weights_partition_trapz.

(* trapz (total, under, over) = trapezoid rule applied to the per-threshold Brier decomposition *)
Theorem C07_trapz_is_trapezoid_of_brier : forall (pts : list (Q * Q)) (y : Q),      (* (threshold, ordinate) *)
  let ts := map fst pts in
  let f := fins (map snd pts) in
  let o := observed_cdf_line (XFin y) ts in
  let b := brier_line f o in
  let r := crps_trapz_line ts f o (map (fun _ => X1) ts) in
  trapz (combine ts (map (fun x => fst (fst x)) b)) =x= fst (fst r) /\
  trapz (combine ts (map (fun x => snd (fst x)) b)) =x= snd (fst r) /\
  trapz (combine ts (map (fun x => snd x) b)) =x= snd r.
Proof. exact trapz_is_trapezoid_of_brier. Qed.
Print Assumptions C07_trapz_is_trapezoid_of_brier.

(* a forecast case depends on the other cases only through their observations (the common grid) ... *)
Theorem C07_nan_own_case_only : forall ft wt add op (cs cs' : list fcase) rs rs',
  map c_o cs = map c_o cs' ->
  crps_cdf_cases ft wt cs add op = Ok rs -> crps_cdf_cases ft wt cs' add op = Ok rs' ->
  forall i c, nth_error cs i = Some c -> nth_error cs' i = Some c -> nth_error rs i = nth_error rs' i.
Proof. exact nan_own_case_only. Qed.
Print Assumptions C07_nan_own_case_only.

(* ... and with propagate_nans a NaN ordinate blanks (exactly) that case's three outputs *)
Theorem C07_nan_blanks_own_case : forall ft wt add op (cs : list fcase) rs i c,
  o_prop op = true -> crps_cdf_cases ft wt cs add op = Ok rs ->
  nth_error cs i = Some c -> has_nan (c_f c) = true -> nth_error rs i = Some (XNaN, XNaN, XNaN).
Proof. exact crps_nan_in_cases. Qed.
Print Assumptions C07_nan_blanks_own_case.

(* conversely: a NaN-free forecast case with at least two (increasing) thresholds, ordinates in [0,1] and a finite
   observation gets three finite scores on the common grid, whatever the other cases contain (no weight supplied) *)
Theorem C07_nan_free_case_is_finite : forall ft cs add op (f : list Q) (y : Q),
  length f = length ft -> (2 <= length ft)%nat -> Cdf.increasing ft = true -> forallb in01 (fins f) = true ->
  let r := crps_case (union_grid ft None cs add) ft None op (fins f, XFin y, None) in
  exists t u o : Q, fst (fst r) =x= XFin t /\ snd (fst r) =x= XFin u /\ snd r =x= XFin o.
Proof. exact crps_case_finite_on_union_grid. Qed.
Print Assumptions C07_nan_free_case_is_finite.

(* the common grid is increasing and contains every finite observation, hence the hypothesis of C07_exact_is_integral *)
Theorem C07_grid_increasing : forall ft wt cs add, Cdf.increasing (union_grid ft wt cs add) = true.
Proof. exact union_grid_increasing. Qed.
Print Assumptions C07_grid_increasing.
Theorem C07_grid_contains_obs : forall ft wt cs add c y, In c cs -> c_o c = XFin y -> qmem y (union_grid ft wt cs add) = true.
Proof. exact union_grid_contains_obs. Qed.
Print Assumptions C07_grid_contains_obs.
Theorem C07_on_grid_no_interior : forall y ts, Cdf.increasing ts = true -> qmem y ts = true -> no_interior y ts = true.
Proof. exact on_grid_no_interior. Qed.
Print Assumptions C07_on_grid_no_interior.

(* history (defect crps-cdf-exact-general-weight, repaired in /repo by 9901e09): the former algorithm, which kept the
   grid points where the weight or its predecessor equals 1, returns 0 for the constant weight 1/2 (correct: 5/32) and
   3/4 for the 0/1 weight [1,0,1,1] (correct: 1/2); the current algorithm returns the correct values *)
Theorem C07_closure_algorithm_refuted_half :
  let ts := q4 0 1 2 3 in let w := fins (q4 (1#2) (1#2) (1#2) (1#2)) in
  let grid := qsort_uniq ((3#2) :: ts) in
  let o := observed_cdf_line (XFin (3#2)) grid in
  let f' := fill_line FLinear 2 grid (reindex ts (fins (q4 0 (1#4) (1#2) 1)) grid) in
  let w' := fill_line FForward 2 grid (reindex ts w grid) in
  fst (fst (crps_exact_line_closure grid f' o w')) =x= XFin 0 /\
  fst (fst (crps_exact_line grid f' o w')) =x= XFin (5 # 32).
Proof. exact closure_refuted_half. Qed.
Print Assumptions C07_closure_algorithm_refuted_half.
Theorem C07_closure_algorithm_refuted_isolated_zero :
  let ts := q4 0 1 2 3 in let f := fins (q4 (1#2) (1#2) (1#2) (1#2)) in let w := fins (q4 1 0 1 1) in
  let o := observed_cdf_line (XFin 0) ts in
  fst (fst (crps_exact_line_closure ts f o w)) =x= XFin (3 # 4) /\
  fst (fst (crps_exact_line ts f o w)) =x= XFin (1 # 2).
Proof. exact closure_refuted_isolated_zero. Qed.
Print Assumptions C07_closure_algorithm_refuted_isolated_zero.

(* non-vacuity: the hypotheses of the integral theorem hold for a concrete case (obs 3/2 on the grid 0,1,3/2,2,3) *)
Example C07_example_hypotheses :
  let pts : list pt := [(0, 0, 1); (1, 1#4, 1); (3#2, 3#8, 1#2); (2, 1#2, 1#2); (3, 1, 0)] in
  let r := crps_exact_line (map tq pts) (fins (map fq pts)) (observed_cdf_line (XFin (3#2)) (map tq pts)) (fins (map wq pts)) in
  Cdf.increasing (map tq pts) = true /\ no_interior (3#2) (map tq pts) = true /\
  fst (fst r) =x= XFin (49 # 256) /\ snd (fst r) =x= XFin (9 # 128) /\ snd r =x= XFin (31 # 256).
Proof. vm_compute. repeat split. Qed.
