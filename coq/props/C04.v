(* props/C04.v -- property C04 (the part that is logic): results depend on labelled values only.
   The model's labelled arrays are functions of labels; these theorems say that the concrete row-major storage the
   harness sends (and any transposition of it) denotes the same labelled function, that the wire format round-trips,
   and that reductions depend on the requested dimensions only as a set.  Dask scheduling, laziness and mutation are
   runtime behaviour: observed by the harness, not provable here (see DESIGN.md, C04). *)
From V Require Import lib.Tree proofs.C01 proofs.C04.

(* position (flat_index dims e) of the row-major enumeration of g holds g at e's own labels, for every dims order *)
Theorem C04_rowmajor_read : forall (dims : list (dim * nat)) (g : env -> xv) (e e0 : env),
  NoDup (map fst dims) -> in_range dims e ->
  nth (flat_index dims e) (map g (envs (assoc_size dims) (map fst dims) e0)) XNaN = g (restrict dims e e0).
Proof. exact nth_rowmajor. Qed.
Print Assumptions C04_rowmajor_read.

(* transposition: the same labelled function stored in two different dimension orders denotes the same array *)
Theorem C04_transposed_storage_same_denotation : forall (dims1 dims2 : list (dim * nat)) (g : env -> xv) (e e0 : env),
  NoDup (map fst dims1) -> NoDup (map fst dims2) ->
  (forall d, mem d (map fst dims1) = mem d (map fst dims2)) ->
  in_range dims1 e -> in_range dims2 e ->
  (forall e1 e2, (forall d, e1 d = e2 d) -> g e1 = g e2) ->
  lget (of_flat dims1 (map g (envs (assoc_size dims1) (map fst dims1) e0))) e =
  lget (of_flat dims2 (map g (envs (assoc_size dims2) (map fst dims2) e0))) e.
Proof. exact transposed_storage_same_denotation. Qed.
Print Assumptions C04_transposed_storage_same_denotation.

(* the wire format loses nothing: of_flat (to_flat a) reads back a *)
Theorem C04_wire_roundtrip : forall (a : larr) (e : env),
  NoDup (ldims a) -> (forall d, In d (ldims a) -> (e d < lsize a d)%nat) ->
  (forall e1 e2, (forall d, In d (ldims a) -> e1 d = e2 d) -> lget a e1 = lget a e2) ->
  let '(dims, data) := to_flat a in lget (of_flat dims data) e = lget a e.
Proof. exact of_flat_to_flat. Qed.
Print Assumptions C04_wire_roundtrip.

(* reductions see the requested dimensions only as a set (order and duplicates of the request are irrelevant) *)
Theorem C04_reduction_depends_on_set_only : forall s w R1 R2, seteq R1 R2 -> mean_score s w R1 = mean_score s w R2.
Proof. exact mean_score_seteq. Qed.
Print Assumptions C04_reduction_depends_on_set_only.

Example C04_nonvacuous : in_range [("a"%string, 2%nat); ("b"%string, 3%nat)] (fun _ => 1%nat).
Proof. intros d n [H|[H|[]]]; inversion H; subst; repeat constructor. Qed.
