(* props/C09.v -- property C09: each contingency-table metric equals its documented formula on EVERY
   table (zero cells give the IEEE value of the same expression: `ratio a b` is NaN for 0/0, +-inf for
   x/0 -- theorem C09_ratio_characterisation), every alias equals its target, and exchanging forecast
   and observation (fp <-> fn) exchanges POD with the success ratio and leaves accuracy, threat score,
   F1, Heidke, ETS, ORSS and the odds ratio unchanged.
   `gen_metric_*` are regenerated from BasicContingencyManager on every run (Gen_C09_metrics.v); `ln`
   is the natural logarithm, a parameter (only SEDI uses it); counts are naturals (`xofnat`, `qn`).
   Only statements; every proof is `exact <lemma>` into coq/proofs/C09.v. *)
From V Require Import lib.Tree lib.C08_aux gen.Gen_C09_metrics gen.Gen_C09_binary gen.Gen_C08_contingency model.C08 model.C09 proofs.C09 proofs.C09_agree.
From Coq Require Import Morphisms.

(* meaning of `ratio` for counts: NaN iff both zero, +inf iff only the denominator is zero, else the quotient *)
Theorem C09_ratio_characterisation : forall a b : Q, 0 <= a -> 0 <= b ->
  (ratio a b = XNaN <-> a == 0 /\ b == 0) /\
  (ratio a b = XInf true <-> 0 < a /\ b == 0) /\
  (0 < b -> ratio a b = XFin (a / b)) /\
  ratio a b <> XInf false.
Proof. exact ratio_char. Qed.
Print Assumptions C09_ratio_characterisation.

(* `ratio` IS the model's division of finite values (so the formulas below are the IEEE values of the quotients) *)
Theorem C09_ratio_is_division : forall a b : Q, xdiv (XFin a) (XFin b) = ratio a b.
Proof. exact xdiv_fin. Qed.
Print Assumptions C09_ratio_is_division.

Theorem C09_accuracy_formula : forall (ln : xv -> xv) (tp fp fn tn : nat),
  gen_metric_accuracy ln (xofnat tp) (xofnat fp) (xofnat fn) (xofnat tn) =x= ratio ((qn tp) + (qn tn)) ((qn tp) + (qn fp) + (qn fn) + (qn tn)).
Proof. exact accuracy_formula_nat. Qed.
Print Assumptions C09_accuracy_formula.

Theorem C09_base_rate_formula : forall (ln : xv -> xv) (tp fp fn tn : nat),
  gen_metric_base_rate ln (xofnat tp) (xofnat fp) (xofnat fn) (xofnat tn) =x= ratio ((qn tp) + (qn fn)) ((qn tp) + (qn fp) + (qn fn) + (qn tn)).
Proof. exact base_rate_formula_nat. Qed.
Print Assumptions C09_base_rate_formula.

Theorem C09_forecast_rate_formula : forall (ln : xv -> xv) (tp fp fn tn : nat),
  gen_metric_forecast_rate ln (xofnat tp) (xofnat fp) (xofnat fn) (xofnat tn) =x= ratio ((qn tp) + (qn fp)) ((qn tp) + (qn fp) + (qn fn) + (qn tn)).
Proof. exact forecast_rate_formula_nat. Qed.
Print Assumptions C09_forecast_rate_formula.

Theorem C09_frequency_bias_formula : forall (ln : xv -> xv) (tp fp fn tn : nat),
  gen_metric_frequency_bias ln (xofnat tp) (xofnat fp) (xofnat fn) (xofnat tn) =x= ratio ((qn tp) + (qn fp)) ((qn tp) + (qn fn)).
Proof. exact frequency_bias_formula_nat. Qed.
Print Assumptions C09_frequency_bias_formula.

Theorem C09_probability_of_detection_formula : forall (ln : xv -> xv) (tp fp fn tn : nat),
  gen_metric_probability_of_detection ln (xofnat tp) (xofnat fp) (xofnat fn) (xofnat tn) =x= ratio (qn tp) ((qn tp) + (qn fn)).
Proof. exact pod_formula_nat. Qed.
Print Assumptions C09_probability_of_detection_formula.

Theorem C09_false_alarm_ratio_formula : forall (ln : xv -> xv) (tp fp fn tn : nat),
  gen_metric_false_alarm_ratio ln (xofnat tp) (xofnat fp) (xofnat fn) (xofnat tn) =x= ratio (qn fp) ((qn tp) + (qn fp)).
Proof. exact false_alarm_ratio_formula_nat. Qed.
Print Assumptions C09_false_alarm_ratio_formula.

Theorem C09_false_alarm_rate_formula : forall (ln : xv -> xv) (tp fp fn tn : nat),
  gen_metric_false_alarm_rate ln (xofnat tp) (xofnat fp) (xofnat fn) (xofnat tn) =x= ratio (qn fp) ((qn tn) + (qn fp)).
Proof. exact false_alarm_rate_formula_nat. Qed.
Print Assumptions C09_false_alarm_rate_formula.

Theorem C09_success_ratio_formula : forall (ln : xv -> xv) (tp fp fn tn : nat),
  gen_metric_success_ratio ln (xofnat tp) (xofnat fp) (xofnat fn) (xofnat tn) =x= ratio (qn tp) ((qn tp) + (qn fp)).
Proof. exact success_ratio_formula_nat. Qed.
Print Assumptions C09_success_ratio_formula.

Theorem C09_threat_score_formula : forall (ln : xv -> xv) (tp fp fn tn : nat),
  gen_metric_threat_score ln (xofnat tp) (xofnat fp) (xofnat fn) (xofnat tn) =x= ratio (qn tp) ((qn tp) + (qn fp) + (qn fn)).
Proof. exact threat_score_formula_nat. Qed.
Print Assumptions C09_threat_score_formula.

Theorem C09_specificity_formula : forall (ln : xv -> xv) (tp fp fn tn : nat),
  gen_metric_specificity ln (xofnat tp) (xofnat fp) (xofnat fn) (xofnat tn) =x= ratio (qn tn) ((qn tn) + (qn fp)).
Proof. exact specificity_formula_nat. Qed.
Print Assumptions C09_specificity_formula.

Theorem C09_negative_predictive_value_formula : forall (ln : xv -> xv) (tp fp fn tn : nat),
  gen_metric_negative_predictive_value ln (xofnat tp) (xofnat fp) (xofnat fn) (xofnat tn) =x= ratio (qn tn) ((qn tn) + (qn fn)).
Proof. exact npv_formula_nat. Qed.
Print Assumptions C09_negative_predictive_value_formula.

Theorem C09_f1_score_formula : forall (ln : xv -> xv) (tp fp fn tn : nat),
  gen_metric_f1_score ln (xofnat tp) (xofnat fp) (xofnat fn) (xofnat tn) =x= ratio (2 * (qn tp)) (2 * (qn tp) + (qn fp) + (qn fn)).
Proof. exact f1_formula_nat. Qed.
Print Assumptions C09_f1_score_formula.

Theorem C09_odds_ratio_skill_score_formula : forall (ln : xv -> xv) (tp fp fn tn : nat),
  gen_metric_odds_ratio_skill_score ln (xofnat tp) (xofnat fp) (xofnat fn) (xofnat tn) =x= ratio ((qn tp) * (qn tn) - (qn fn) * (qn fp)) ((qn tp) * (qn tn) + (qn fn) * (qn fp)).
Proof. exact orss_formula_nat. Qed.
Print Assumptions C09_odds_ratio_skill_score_formula.

Theorem C09_peirce_skill_score_formula : forall (ln : xv -> xv) (tp fp fn tn : nat),
  gen_metric_peirce_skill_score ln (xofnat tp) (xofnat fp) (xofnat fn) (xofnat tn) =x= spec_peirce (qn tp) (qn fp) (qn fn) (qn tn).
Proof. exact peirce_formula_nat. Qed.
Print Assumptions C09_peirce_skill_score_formula.

Theorem C09_equitable_threat_score_formula : forall (ln : xv -> xv) (tp fp fn tn : nat),
  gen_metric_equitable_threat_score ln (xofnat tp) (xofnat fp) (xofnat fn) (xofnat tn) =x= spec_ets (qn tp) (qn fp) (qn fn) (qn tn).
Proof. exact ets_formula_nat. Qed.
Print Assumptions C09_equitable_threat_score_formula.

Theorem C09_heidke_skill_score_formula : forall (ln : xv -> xv) (tp fp fn tn : nat),
  gen_metric_heidke_skill_score ln (xofnat tp) (xofnat fp) (xofnat fn) (xofnat tn) =x= spec_heidke (qn tp) (qn fp) (qn fn) (qn tn).
Proof. exact heidke_formula_nat. Qed.
Print Assumptions C09_heidke_skill_score_formula.

Theorem C09_odds_ratio_formula : forall (ln : xv -> xv) (tp fp fn tn : nat),
  gen_metric_odds_ratio ln (xofnat tp) (xofnat fp) (xofnat fn) (xofnat tn) =x= spec_odds_ratio (qn tp) (qn fp) (qn fn) (qn tn).
Proof. exact odds_ratio_formula_nat. Qed.
Print Assumptions C09_odds_ratio_formula.

Theorem C09_sedi_formula : forall (ln : xv -> xv) (tp fp fn tn : nat), Proper (xeq ==> xeq) ln ->
  gen_metric_symmetric_extremal_dependence_index ln (xofnat tp) (xofnat fp) (xofnat fn) (xofnat tn) =x= spec_sedi (qn tp) (qn fp) (qn fn) (qn tn) ln.
Proof. exact sedi_formula_nat. Qed.
Print Assumptions C09_sedi_formula.

Theorem C09_alias_fraction_correct : forall ln tp fp fn tn, gen_metric_fraction_correct ln tp fp fn tn = gen_metric_accuracy ln tp fp fn tn.
Proof. exact alias_fraction_correct. Qed.
Print Assumptions C09_alias_fraction_correct.

Theorem C09_alias_bias_score : forall ln tp fp fn tn, gen_metric_bias_score ln tp fp fn tn = gen_metric_frequency_bias ln tp fp fn tn.
Proof. exact alias_bias_score. Qed.
Print Assumptions C09_alias_bias_score.

Theorem C09_alias_hit_rate : forall ln tp fp fn tn, gen_metric_hit_rate ln tp fp fn tn = gen_metric_probability_of_detection ln tp fp fn tn.
Proof. exact alias_hit_rate. Qed.
Print Assumptions C09_alias_hit_rate.

Theorem C09_alias_true_positive_rate : forall ln tp fp fn tn, gen_metric_true_positive_rate ln tp fp fn tn = gen_metric_probability_of_detection ln tp fp fn tn.
Proof. exact alias_true_positive_rate. Qed.
Print Assumptions C09_alias_true_positive_rate.

Theorem C09_alias_probability_of_false_detection : forall ln tp fp fn tn, gen_metric_probability_of_false_detection ln tp fp fn tn = gen_metric_false_alarm_rate ln tp fp fn tn.
Proof. exact alias_probability_of_false_detection. Qed.
Print Assumptions C09_alias_probability_of_false_detection.

Theorem C09_alias_critical_success_index : forall ln tp fp fn tn, gen_metric_critical_success_index ln tp fp fn tn = gen_metric_threat_score ln tp fp fn tn.
Proof. exact alias_critical_success_index. Qed.
Print Assumptions C09_alias_critical_success_index.

Theorem C09_alias_true_skill_statistic : forall ln tp fp fn tn, gen_metric_true_skill_statistic ln tp fp fn tn = gen_metric_peirce_skill_score ln tp fp fn tn.
Proof. exact alias_true_skill_statistic. Qed.
Print Assumptions C09_alias_true_skill_statistic.

Theorem C09_alias_hanssen_and_kuipers_discriminant : forall ln tp fp fn tn, gen_metric_hanssen_and_kuipers_discriminant ln tp fp fn tn = gen_metric_peirce_skill_score ln tp fp fn tn.
Proof. exact alias_hanssen_and_kuipers_discriminant. Qed.
Print Assumptions C09_alias_hanssen_and_kuipers_discriminant.

Theorem C09_alias_sensitivity : forall ln tp fp fn tn, gen_metric_sensitivity ln tp fp fn tn = gen_metric_probability_of_detection ln tp fp fn tn.
Proof. exact alias_sensitivity. Qed.
Print Assumptions C09_alias_sensitivity.

Theorem C09_alias_true_negative_rate : forall ln tp fp fn tn, gen_metric_true_negative_rate ln tp fp fn tn = gen_metric_specificity ln tp fp fn tn.
Proof. exact alias_true_negative_rate. Qed.
Print Assumptions C09_alias_true_negative_rate.

Theorem C09_alias_recall : forall ln tp fp fn tn, gen_metric_recall ln tp fp fn tn = gen_metric_probability_of_detection ln tp fp fn tn.
Proof. exact alias_recall. Qed.
Print Assumptions C09_alias_recall.

Theorem C09_alias_precision : forall ln tp fp fn tn, gen_metric_precision ln tp fp fn tn = gen_metric_success_ratio ln tp fp fn tn.
Proof. exact alias_precision. Qed.
Print Assumptions C09_alias_precision.

Theorem C09_alias_positive_predictive_value : forall ln tp fp fn tn, gen_metric_positive_predictive_value ln tp fp fn tn = gen_metric_success_ratio ln tp fp fn tn.
Proof. exact alias_positive_predictive_value. Qed.
Print Assumptions C09_alias_positive_predictive_value.

Theorem C09_alias_gilberts_skill_score : forall ln tp fp fn tn, gen_metric_gilberts_skill_score ln tp fp fn tn = gen_metric_equitable_threat_score ln tp fp fn tn.
Proof. exact alias_gilberts_skill_score. Qed.
Print Assumptions C09_alias_gilberts_skill_score.

Theorem C09_alias_cohens_kappa : forall ln tp fp fn tn, gen_metric_cohens_kappa ln tp fp fn tn = gen_metric_heidke_skill_score ln tp fp fn tn.
Proof. exact alias_cohens_kappa. Qed.
Print Assumptions C09_alias_cohens_kappa.

Theorem C09_alias_yules_q : forall ln tp fp fn tn, gen_metric_yules_q ln tp fp fn tn = gen_metric_odds_ratio_skill_score ln tp fp fn tn.
Proof. exact alias_yules_q. Qed.
Print Assumptions C09_alias_yules_q.

Theorem C09_swap_pod_success_ratio : forall (ln : xv -> xv) (tp fp fn tn : nat),
  gen_metric_probability_of_detection ln (xofnat tp) (xofnat fn) (xofnat fp) (xofnat tn) =x= gen_metric_success_ratio ln (xofnat tp) (xofnat fp) (xofnat fn) (xofnat tn).
Proof. exact swap_pod_success_ratio_nat. Qed.
Print Assumptions C09_swap_pod_success_ratio.

Theorem C09_swap_success_ratio_pod : forall (ln : xv -> xv) (tp fp fn tn : nat),
  gen_metric_success_ratio ln (xofnat tp) (xofnat fn) (xofnat fp) (xofnat tn) =x= gen_metric_probability_of_detection ln (xofnat tp) (xofnat fp) (xofnat fn) (xofnat tn).
Proof. exact swap_success_ratio_pod_nat. Qed.
Print Assumptions C09_swap_success_ratio_pod.

Theorem C09_swap_accuracy : forall (ln : xv -> xv) (tp fp fn tn : nat),
  gen_metric_accuracy ln (xofnat tp) (xofnat fn) (xofnat fp) (xofnat tn) =x= gen_metric_accuracy ln (xofnat tp) (xofnat fp) (xofnat fn) (xofnat tn).
Proof. exact swap_accuracy_nat. Qed.
Print Assumptions C09_swap_accuracy.

Theorem C09_swap_threat_score : forall (ln : xv -> xv) (tp fp fn tn : nat),
  gen_metric_threat_score ln (xofnat tp) (xofnat fn) (xofnat fp) (xofnat tn) =x= gen_metric_threat_score ln (xofnat tp) (xofnat fp) (xofnat fn) (xofnat tn).
Proof. exact swap_threat_score_nat. Qed.
Print Assumptions C09_swap_threat_score.

Theorem C09_swap_f1 : forall (ln : xv -> xv) (tp fp fn tn : nat),
  gen_metric_f1_score ln (xofnat tp) (xofnat fn) (xofnat fp) (xofnat tn) =x= gen_metric_f1_score ln (xofnat tp) (xofnat fp) (xofnat fn) (xofnat tn).
Proof. exact swap_f1_nat. Qed.
Print Assumptions C09_swap_f1.

Theorem C09_swap_heidke : forall (ln : xv -> xv) (tp fp fn tn : nat),
  gen_metric_heidke_skill_score ln (xofnat tp) (xofnat fn) (xofnat fp) (xofnat tn) =x= gen_metric_heidke_skill_score ln (xofnat tp) (xofnat fp) (xofnat fn) (xofnat tn).
Proof. exact swap_heidke_nat. Qed.
Print Assumptions C09_swap_heidke.

Theorem C09_swap_ets : forall (ln : xv -> xv) (tp fp fn tn : nat),
  gen_metric_equitable_threat_score ln (xofnat tp) (xofnat fn) (xofnat fp) (xofnat tn) =x= gen_metric_equitable_threat_score ln (xofnat tp) (xofnat fp) (xofnat fn) (xofnat tn).
Proof. exact swap_ets_nat. Qed.
Print Assumptions C09_swap_ets.

Theorem C09_swap_orss : forall (ln : xv -> xv) (tp fp fn tn : nat),
  gen_metric_odds_ratio_skill_score ln (xofnat tp) (xofnat fn) (xofnat fp) (xofnat tn) =x= gen_metric_odds_ratio_skill_score ln (xofnat tp) (xofnat fp) (xofnat fn) (xofnat tn).
Proof. exact swap_orss_nat. Qed.
Print Assumptions C09_swap_orss.

Theorem C09_swap_odds_ratio : forall (ln : xv -> xv) (tp fp fn tn : nat),
  gen_metric_odds_ratio ln (xofnat tp) (xofnat fn) (xofnat fp) (xofnat tn) =x= gen_metric_odds_ratio ln (xofnat tp) (xofnat fp) (xofnat fn) (xofnat tn).
Proof. exact swap_odds_ratio_nat. Qed.
Print Assumptions C09_swap_odds_ratio.

Theorem C09_swap_base_forecast_rate : forall (ln : xv -> xv) (tp fp fn tn : nat),
  gen_metric_base_rate ln (xofnat tp) (xofnat fn) (xofnat fp) (xofnat tn) =x= gen_metric_forecast_rate ln (xofnat tp) (xofnat fp) (xofnat fn) (xofnat tn).
Proof. exact swap_base_forecast_rate_nat. Qed.
Print Assumptions C09_swap_base_forecast_rate.

(* ---- the standalone probability_of_detection / probability_of_false_detection (categorical/binary_impl.py) agree with the manager ---- *)
(* cell by cell, for ALL values (not only binary ones), their four maps are the manager's maps (Gen_C08_contingency) *)
Theorem C09_standalone_maps_are_manager_maps : forall f o : xv,
  fst (gen_pod_maps f o) = map_tp f o /\ snd (gen_pod_maps f o) = map_fn f o /\
  fst (gen_pofd_maps f o) = map_fp f o /\ snd (gen_pofd_maps f o) = map_tn f o.
Proof. exact (fun f o => conj (hits_is_tp f o) (conj (misses_is_fn f o) (conj (false_alarms_is_fp f o) (correct_negatives_is_tn f o)))). Qed.
Print Assumptions C09_standalone_maps_are_manager_maps.
(* hence, unweighted, on every list of (forecast event, observed event) pairs the standalone POD / POFD are the manager's *)
Theorem C09_standalone_pod_agrees : forall ln (cells : list (xv * xv)),
  let sum m := nansum (map (fun c => m (fst c) (snd c)) cells) in
  gen_pod_ratio (sum (fun f o => fst (gen_pod_maps f o))) (sum (fun f o => snd (gen_pod_maps f o))) =
  gen_metric_probability_of_detection ln (sum map_tp) (sum map_fp) (sum map_fn) (sum map_tn).
Proof. exact standalone_pod_agrees. Qed.
Print Assumptions C09_standalone_pod_agrees.
Theorem C09_standalone_pofd_agrees : forall ln (cells : list (xv * xv)),
  let sum m := nansum (map (fun c => m (fst c) (snd c)) cells) in
  gen_pofd_ratio (sum (fun f o => fst (gen_pofd_maps f o))) (sum (fun f o => snd (gen_pofd_maps f o))) =x=
  gen_metric_probability_of_false_detection ln (sum map_tp) (sum map_fp) (sum map_fn) (sum map_tn).
Proof. exact standalone_pofd_agrees. Qed.
Print Assumptions C09_standalone_pofd_agrees.

(* the host-evaluated logarithm table used by the correspondence check meets the hypothesis of C09_sedi_formula *)
Theorem C09_lookup_log_proper : forall tbl, Proper (xeq ==> xeq) (lookup_log tbl).
Proof. exact lookup_log_Proper. Qed.
Print Assumptions C09_lookup_log_proper.

(* non-vacuity: zero cells really produce the special values, through the regenerated code *)
Example C09_ex_heidke_single_cell : gen_metric_heidke_skill_score no_log (xofnat 0) (xofnat 0) (xofnat 0) (xofnat 49) = XNaN.
Proof. vm_compute. reflexivity. Qed.
Example C09_ex_odds_ratio_inf : gen_metric_odds_ratio no_log (xofnat 3) (xofnat 0) (xofnat 2) (xofnat 5) = XInf true.
Proof. vm_compute. reflexivity. Qed.
Example C09_ex_odds_ratio_fin : gen_metric_odds_ratio no_log (xofnat 3) (xofnat 1) (xofnat 2) (xofnat 4) =x= XFin 6.
Proof. vm_compute. reflexivity. Qed.
Example C09_ex_ets : gen_metric_equitable_threat_score no_log (xofnat 2) (xofnat 1) (xofnat 1) (xofnat 4) =x= XFin (7 # 23).
Proof. vm_compute. reflexivity. Qed.
