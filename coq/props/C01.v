(* props/C01.v -- property C01: every score reduces exactly the dimensions asked for, and nothing else.
   `gather` is the line-by-line model of scores.utils.gather_dimensions (coq/lib/Dims.v), tied to the code by an
   exhaustive correspondence over a 4-name universe; `mean_score` is the functional every mean-type score instantiates
   (coq/lib/Larr.v).  All statements hold for arbitrary lists of dimension names (no bound on their number). *)
From V Require Import lib.Tree lib.Plumbing gen.Gen_C01_plumbing proofs.C01 model.C05 proofs.C01_scores proofs.C01_plumbing.
Open Scope string_scope.

(* naming both options is a ValueError, whatever else is passed *)
Theorem C01_both_options_error : forall f o w r p s, r <> DNone -> p <> DNone -> gather f o w r p s = Err ValueError.
Proof. exact gather_both_err. Qed.
Print Assumptions C01_both_options_error.

(* omitting both equals reduce_dims='all' *)
Theorem C01_none_is_all : forall f o w s, gather f o w DNone DNone s = gather f o w (DStr "all") DNone s.
Proof. exact gather_none_is_all. Qed.
Print Assumptions C01_none_is_all.

(* preserve_dims='all' reduces nothing *)
Theorem C01_preserve_all_reduces_nothing : forall f o w, gather f o w DNone (DStr "all") DNone = Ok [].
Proof. exact gather_preserve_all. Qed.
Print Assumptions C01_preserve_all_reduces_nothing.

(* a single dimension may be named by a plain string *)
Theorem C01_string_is_singleton_reduce : forall f o w d s, d <> "all" -> d <> "" ->
  gather f o w (DStr d) DNone s = gather f o w (DList [d]) DNone s.
Proof. exact gather_str_is_singleton_reduce. Qed.
Print Assumptions C01_string_is_singleton_reduce.
Theorem C01_string_is_singleton_preserve : forall f o w d s, d <> "all" -> d <> "" ->
  gather f o w DNone (DStr d) s = gather f o w DNone (DList [d]) s.
Proof. exact gather_str_is_singleton_preserve. Qed.
Print Assumptions C01_string_is_singleton_preserve.

(* a dimension that is not in the data raises ValueError rather than returning a number *)
Theorem C01_absent_reduce_error : forall f o w l d,
  In d l -> mem d (all_data f o w) = false -> gather f o w (DList l) DNone DNone = Err ValueError.
Proof. exact gather_absent_reduce_err. Qed.
Print Assumptions C01_absent_reduce_error.
Theorem C01_absent_preserve_error : forall f o w l d,
  In d l -> mem d (all_data f o w) = false -> gather f o w DNone (DList l) DNone = Err ValueError.
Proof. exact gather_absent_preserve_err. Qed.
Print Assumptions C01_absent_preserve_error.

(* reduce_dims=R and preserve_dims=(all - R) resolve to the same set, for every subset R of the data dimensions *)
Theorem C01_reduce_equals_preserve_complement : forall f o w R,
  dsubset R (all_data f o w) = true ->
  rseteq (gather f o w (DList R) DNone DNone) (gather f o w DNone (DList (ddiff (all_data f o w) R)) DNone).
Proof. exact gather_reduce_preserve. Qed.
Print Assumptions C01_reduce_equals_preserve_complement.

(* ... and equal sets give identical (Leibniz-equal) results of every reduction *)
Theorem C01_reduction_depends_on_set_only : forall s w R1 R2, seteq R1 R2 -> mean_score s w R1 = mean_score s w R2.
Proof. exact mean_score_seteq. Qed.
Print Assumptions C01_reduction_depends_on_set_only.

(* score-specific dimensions (ensemble member, CDF threshold, ...) cannot be named and never remain to be reduced as data dims *)
Theorem C01_specific_dim_named_error : forall f o w l sp d,
  In d l -> mem d sp = true -> gather f o w (DList l) DNone (DList sp) = Err ValueError.
Proof. exact gather_specific_named_err. Qed.
Print Assumptions C01_specific_dim_named_error.
Theorem C01_specific_dim_excluded : forall f o w sp R d,
  sp <> [] -> gather f o w DNone DNone (DList sp) = Ok R -> mem d sp = true -> mem d R = false.
Proof. exact gather_default_excludes_specific. Qed.
Print Assumptions C01_specific_dim_excluded.

(* the result carries exactly the dimensions of the (weighted) pointwise score that were not reduced *)
Theorem C01_result_dims : forall s w R d,
  mem d (ldims (mean_score s w R)) = mem d (ldims (apply_weights w s)) && negb (mem d R).
Proof. exact mean_score_dims. Qed.
Print Assumptions C01_result_dims.
Theorem C01_pointwise_dims : forall k f o d, mem d (ldims (lzip k f o)) = mem d (ldims f) || mem d (ldims o).
Proof. exact pointwise_dims. Qed.
Print Assumptions C01_pointwise_dims.

(* for mean-type scores the reduced value equals the NaN-skipping mean, over the reduced dimensions, of the
   preserve_dims='all' result *)
Theorem C01_mean_of_pointwise : forall s w R e,
  lget (mean_score s w R) e =x=
  nanmean (map (fun e' => lget (mean_score s w []) e')
               (envs (lsize (apply_weights w s)) (dinter (ldims (apply_weights w s)) R) e)).
Proof. exact mean_is_nanmean_of_pointwise. Qed.
Print Assumptions C01_mean_of_pointwise.

(* ---- lifted to whole score functions of the model: simple_mean_m k is mse / mae / additive_bias / mean_error with the
        kernel regenerated from source (model/C05.v) ---- *)
Theorem C01_score_reduce_equals_preserve : forall k f o w R, dsubset R (data_dims f o) = true ->
  req (simple_mean_m k f o (DList R) DNone w) (simple_mean_m k f o DNone (DList (ddiff (data_dims f o) R)) w).
Proof. exact simple_mean_reduce_preserve. Qed.
Print Assumptions C01_score_reduce_equals_preserve.
Theorem C01_score_none_is_all : forall k f o w, simple_mean_m k f o DNone DNone w = simple_mean_m k f o (DStr "all") DNone w.
Proof. exact simple_mean_none_is_all. Qed.
Print Assumptions C01_score_none_is_all.
Theorem C01_score_both_error : forall k f o w r p, r <> DNone -> p <> DNone -> simple_mean_m k f o r p w = Err ValueError.
Proof. exact simple_mean_both_error. Qed.
Print Assumptions C01_score_both_error.
Theorem C01_score_absent_error : forall k f o w l d, In d l -> mem d (data_dims f o) = false ->
  simple_mean_m k f o (DList l) DNone w = Err ValueError /\ simple_mean_m k f o DNone (DList l) w = Err ValueError.
Proof. exact simple_mean_absent_error. Qed.
Print Assumptions C01_score_absent_error.
Theorem C01_score_result_dims : forall k f o w rd pd R r, gather (ldims f) (ldims o) None rd pd DNone = Ok R ->
  simple_mean_m k f o rd pd w = Ok r ->
  forall d, mem d (ldims r) = mem d (ldims (apply_weights w (lzip k f o))) && negb (mem d R).
Proof. exact simple_mean_result_dims. Qed.
Print Assumptions C01_score_result_dims.

(* ---- the plumbing of the public functions, READ FROM THE CURRENT SOURCE on every run (translator site kind `plumbing`),
        is the plumbing the models above implement: which dimension sets go to the rule, weights before the reduction,
        which reduction over the gathered dimensions ---- *)
Theorem C01_plumbing_mean_type : Forall (fun p => p = plumb_mean "fcst.dims" "obs.dims") mean_type_functions.
Proof. exact mean_type_plumbing. Qed.
Print Assumptions C01_plumbing_mean_type.
Theorem C01_plumbing_interval : plumb_quantile_interval_score = plumb_mean "fcst_lower_qtile.dims" "obs.dims".
Proof. exact interval_plumbing. Qed.
Print Assumptions C01_plumbing_interval.
Theorem C01_plumbing_ratio : plumb_multiplicative_bias = plumb_ratio "fcst.dims" "obs.dims" /\ plumb_pbias = plumb_ratio "fcst.dims" "obs.dims".
Proof. exact ratio_plumbing. Qed.
Print Assumptions C01_plumbing_ratio.
Theorem C01_plumbing_ensemble : plumb_crps_for_ensemble = plumb_mean_specific "fcst.dims" "obs.dims" /\
                                plumb_brier_score_for_ensemble = plumb_mean_specific "fcst.dims" "obs.dims".
Proof. exact ensemble_plumbing. Qed.
Print Assumptions C01_plumbing_ensemble.
Theorem C01_plumbing_pod_pofd : plumb_probability_of_detection = plumb_sum2 "fcst.dims" "obs.dims" /\
                                plumb_probability_of_false_detection = plumb_sum2 "fcst.dims" "obs.dims".
Proof. exact pod_pofd_plumbing. Qed.
Print Assumptions C01_plumbing_pod_pofd.
Theorem C01_plumbing_murphy : plumb_murphy_score = plumb_mean_unweighted "fcst.dims" "obs.dims".
Proof. exact murphy_plumbing. Qed.
Print Assumptions C01_plumbing_murphy.

Theorem C01_plumbing_other_functions :
  plumb_crps_cdf_brier_decomposition =
    {| pl_gather_args := ["fcst.dims"; "obs.dims"]; pl_weights_dims := false; pl_specific := false; pl_apply_weights := 0;
       pl_weights_before_reduce := true; pl_reductions := ["mean"; "mean"] |} /\
  plumb_risk_matrix_score =
    {| pl_gather_args := ["fcst_dims0"; "obs_dims0"]; pl_weights_dims := true; pl_specific := false; pl_apply_weights := 1;
       pl_weights_before_reduce := true; pl_reductions := ["mean"] |} /\
  plumb_contingency_counts =
    {| pl_gather_args := ["self.fcst_events.dims"; "self.obs_events.dims"]; pl_weights_dims := false; pl_specific := false;
       pl_apply_weights := 0; pl_weights_before_reduce := true; pl_reductions := ["sum"; "sum"; "sum"; "sum"] |} /\
  plumb_pearsonr =
    {| pl_gather_args := ["fcst.dims"; "obs.dims"]; pl_weights_dims := false; pl_specific := false; pl_apply_weights := 0;
       pl_weights_before_reduce := true; pl_reductions := ["corr"] |} /\
  plumb_kge =
    {| pl_gather_args := ["fcst.dims"; "obs.dims"]; pl_weights_dims := false; pl_specific := false; pl_apply_weights := 0;
       pl_weights_before_reduce := true; pl_reductions := ["corr"; "std"; "std"; "mean"; "mean"] |}.
Proof. exact more_plumbing. Qed.
Print Assumptions C01_plumbing_other_functions.

Example C01_nonvacuous : dsubset ["a"] (all_data ["a"; "b"] ["b"] None) = true /\ "a" <> "all" /\ "a" <> "".
Proof. repeat split; try reflexivity; discriminate. Qed.
