(* props/C08.v -- property C08: discretisation and contingency counts classify every valid pair exactly once.
   gen_comparative_discretise, gen_inequality_modes, gen_equality_modes, gen_discretise_tolerance (processing/discretise.py),
   gen_make_contingency_manager, gen_make_event_tables, gen_contingency_maps (categorical/contingency_impl.py) are
   regenerated from the current source on every run; `mode` is a string (MStr) or a function of the operator module (MOp).
   Only statements; every proof is `exact <lemma>` into coq/proofs/C08.v. *)
From V Require Import lib.Tree lib.C08_aux gen.Gen_C08_discretise gen.Gen_C08_contingency model.C08 proofs.C08 proofs.C08_additive proofs.C08_proportion proofs.C08_model gen.Gen_C08_views proofs.C08_views.

(* ---- discretisation ---- *)
(* for each of the six relations r, both spellings, every rational data value x, threshold c and tolerance tol >= 0:
   the result is the specification value ... *)
Theorem C08_discretise_spec : forall (r : cmpop) (x c tol : Q) (m : pmode),
  0 <= tol -> In m [MStr (mode_name r); MOp r] ->
  gen_comparative_discretise (XFin x) (XFin c) m (XFin tol) = Some (discretise_spec r (XFin x) (XFin c) tol).
Proof. exact discretise_ok. Qed.
Print Assumptions C08_discretise_spec.

(* ... which is 1 exactly where `x r c` holds, a value within tol of the threshold counting as equal
   (rel_holds: >= is  c <= x \/ |x-c| <= tol;  > is  c < x /\ tol < |x-c|;  == is |x-c| <= tol; ...) and 0 elsewhere *)
Theorem C08_discretise_one_iff : forall r x c tol, discretise_spec r (XFin x) (XFin c) tol = XFin 1 <-> rel_holds r x c tol.
Proof. exact discretise_one_iff. Qed.
Print Assumptions C08_discretise_one_iff.
Theorem C08_discretise_zero_iff : forall r x c tol, discretise_spec r (XFin x) (XFin c) tol = XFin 0 <-> ~ rel_holds r x c tol.
Proof. exact discretise_zero_iff. Qed.
Print Assumptions C08_discretise_zero_iff.

(* NaN iff data or threshold is NaN: all 12 spellings, all values (infinities included), all tolerances *)
Theorem C08_discretise_nan_iff : forall (m : pmode) (d c tol : xv), In m all_modes ->
  (gen_comparative_discretise d c m tol = Some XNaN <-> d = XNaN \/ c = XNaN).
Proof. exact discretise_nan_iff. Qed.
Print Assumptions C08_discretise_nan_iff.

(* the 12 spellings are exactly the accepted modes; anything else is the ValueError *)
Theorem C08_valid_modes : forall (m : pmode) (d c tol : xv),
  (In m all_modes -> exists v, gen_comparative_discretise d c m tol = Some v) /\
  (~ In m all_modes -> gen_comparative_discretise d c m tol = None).
Proof. exact (fun m d c tol => conj (valid_mode_some m d c tol) (invalid_mode_none m d c tol)). Qed.
Print Assumptions C08_valid_modes.

(* string and operator spelling of a relation are the same function of (data, threshold, tolerance) *)
Theorem C08_spellings_agree : forall (r : cmpop) (d c tol : xv),
  gen_comparative_discretise d c (MStr (mode_name r)) tol = gen_comparative_discretise d c (MOp r) tol.
Proof. exact spellings_agree. Qed.
Print Assumptions C08_spellings_agree.

(* complementary relations (>= / <, > / <=, == / !=) sum to 1 on all finite values, any tolerance *)
Theorem C08_complementary_sum_one : forall (r : cmpop) (x c tol : Q) (m m' : pmode),
  In m [MStr (mode_name r); MOp r] -> In m' [MStr (mode_name (complement r)); MOp (complement r)] ->
  exists a b, gen_comparative_discretise (XFin x) (XFin c) m (XFin tol) = Some a /\
              gen_comparative_discretise (XFin x) (XFin c) m' (XFin tol) = Some b /\ xadd a b =x= XFin 1.
Proof. exact complement_finite. Qed.
Print Assumptions C08_complementary_sum_one.
(* ... the four inequalities also on infinite data / thresholds *)
Theorem C08_complementary_inequalities_any_value : forall (r : cmpop) (d c : xv) (tol : Q) (m m' : pmode),
  is_inequality r = true -> d <> XNaN -> c <> XNaN ->
  In m [MStr (mode_name r); MOp r] -> In m' [MStr (mode_name (complement r)); MOp (complement r)] ->
  exists a b, gen_comparative_discretise d c m (XFin tol) = Some a /\
              gen_comparative_discretise d c m' (XFin tol) = Some b /\ xadd a b =x= XFin 1.
Proof. exact complement_inequality_any. Qed.
Print Assumptions C08_complementary_inequalities_any_value.
(* the full statement (all non-NaN values, == / != included) is false of the current code: inf == inf is reported 0 and so is
   inf != inf (known finding discretise-eq-inf; machine-checked witness was coq/proofs/C08_finding_eq_inf.v, removed after the repair 2ffc422; it was
   deliberately not imported here so that a repair of the defect does not break this file) *)

(* abs_tolerance: None means 0, a negative number is the ValueError, anything else is used as given *)
Theorem C08_tolerance_guard : forall t : option xv,
  gen_discretise_tolerance t =
  match t with None => Ok (XFin 0) | Some (XFin q) => if Qltb q 0 then Err ValueError else Ok (XFin q)
             | Some (XInf false) => Err ValueError | Some v => Ok v end.
Proof. exact tolerance_guard_spec. Qed.
Print Assumptions C08_tolerance_guard.

(* proportion (binary_discretise_proportion / proportion_exceeding) of one group of finite-or-NaN data against one threshold:
   the NaN-skipping mean of the discretised values = (number of valid data for which the relation holds) / (number of valid data),
   NaN when the group has no valid datum *)
Theorem C08_proportion_is_fraction : forall (r : cmpop) (m : pmode) (c tol : Q) (ds : list xv),
  0 <= tol -> In m [MStr (mode_name r); MOp r] -> Forall (fun d => xisinf d = false) ds ->
  nanmean (map (fun d => discretise_cell m (XFin tol) d (XFin c)) ds) =x=
  match cnt xv data_valid ds with
  | O => XNaN
  | n => XFin (inject_Z (Z.of_nat (cnt xv (fun d => data_valid d && data_holds r c tol d) ds)) / inject_Z (Z.of_nat n))
  end.
Proof. exact proportion_is_fraction. Qed.
Print Assumptions C08_proportion_is_fraction.

(* ---- event tables ---- *)
(* a given threshold is used whatever its value (0 and negatives included), a given operator likewise *)
Theorem C08_events_respect_threshold : forall (dt : xv) (dop : cmpop) (f o t : xv) (op : cmpop),
  gen_make_contingency_manager dt dop f o (Some t) (Some op) = (event_of op t f, event_of op t o).
Proof. exact events_respect_threshold. Qed.
Print Assumptions C08_events_respect_threshold.
(* ThresholdEventOperator.__init__ stores the defaults it is given unchanged (0, negatives, ... included); only an omitted
   argument takes the documented default 0.001 / operator.ge *)
Theorem C08_constructor_keeps_defaults : forall (t : xv) (op : cmpop),
  gen_init_event_threshold (Some t) = t /\ gen_init_op_fn (Some op) = op /\
  gen_init_event_threshold None = XFin (1 # 1000) /\ gen_init_op_fn None = OpGe.
Proof. exact constructor_keeps_defaults. Qed.
Print Assumptions C08_constructor_keeps_defaults.
(* the defaults are used exactly for None *)
Theorem C08_events_fallback_only_for_none : forall dt dop f o t op,
  gen_make_contingency_manager dt dop f o t op =
  let t' := match t with Some v => v | None => dt end in
  let op' := match op with Some v => v | None => dop end in
  (event_of op' t' f, event_of op' t' o).
Proof. exact events_fallback. Qed.
Print Assumptions C08_events_fallback_only_for_none.
Theorem C08_event_tables_same : forall dt dop f o t op,
  gen_make_event_tables dt dop f o t op = gen_make_contingency_manager dt dop f o t op.
Proof. exact event_tables_same. Qed.
Print Assumptions C08_event_tables_same.

(* ---- counts ---- *)
(* one cell: on a pair valid in both exactly one of tp, tn, fp, fn is 1 and the others 0, by the event status of forecast
   and observation; otherwise all four are NaN *)
Theorem C08_cell_classified_once : forall (op : cmpop) (t : xv) (c : cell),
  cell_maps op t c =
  if cvalid c then
    let ef := is_event op t (fst c) in let eo := is_event op t (snd c) in
    (b2x (ef && eo), b2x (negb ef && negb eo), b2x (ef && negb eo), b2x (negb ef && eo))
  else (XNaN, XNaN, XNaN, XNaN).
Proof. exact cell_maps_spec. Qed.
Print Assumptions C08_cell_classified_once.

(* each count = direct counting, for every list of (forecast, observation) pairs, every threshold and operator *)
Theorem C08_count_tp_direct : forall op t l, nansum (map (m_tp op t) l) =x= xofnat (count_if (fun c => cvalid c && p_tp op t c) l).
Proof. exact count_tp. Qed.
Print Assumptions C08_count_tp_direct.
Theorem C08_count_tn_direct : forall op t l, nansum (map (m_tn op t) l) =x= xofnat (count_if (fun c => cvalid c && p_tn op t c) l).
Proof. exact count_tn. Qed.
Print Assumptions C08_count_tn_direct.
Theorem C08_count_fp_direct : forall op t l, nansum (map (m_fp op t) l) =x= xofnat (count_if (fun c => cvalid c && p_fp op t c) l).
Proof. exact count_fp. Qed.
Print Assumptions C08_count_fp_direct.
Theorem C08_count_fn_direct : forall op t l, nansum (map (m_fn op t) l) =x= xofnat (count_if (fun c => cvalid c && p_fn op t c) l).
Proof. exact count_fn. Qed.
Print Assumptions C08_count_fn_direct.

(* tp + tn + fp + fn = total = number of pairs valid in both *)
Theorem C08_counts_partition : forall op t l,
  xadd (xadd (xadd (nansum (map (m_tp op t) l)) (nansum (map (m_tn op t) l))) (nansum (map (m_fp op t) l)))
       (nansum (map (m_fn op t) l)) =x= xofnat (count_if cvalid l).
Proof. exact counts_partition. Qed.
Print Assumptions C08_counts_partition.

(* the same on labelled arrays: every output cell of the manager model counts the pairs of its own group *)
Theorem C08_array_counts_partition : forall (fcst obs : larr) (op : cmpop) (t : xv) (R : list dim) (e : env),
  let cnt m := lget (lreduce nansum R (lzip m (events_arr op t fcst) (events_arr op t obs))) e in
  xadd (xadd (xadd (cnt map_tp) (cnt map_tn)) (cnt map_fp)) (cnt map_fn) =x=
  xofnat (count_if cvalid (group_cells fcst obs R e)).
Proof. exact array_counts_partition. Qed.
Print Assumptions C08_array_counts_partition.
Theorem C08_array_count_tp_direct : forall fcst obs op t R e,
  lget (lreduce nansum R (lzip map_tp (events_arr op t fcst) (events_arr op t obs))) e =x=
  xofnat (count_if (fun c => cvalid c && p_tp op t c) (group_cells fcst obs R e)).
Proof. exact array_count_tp. Qed.
Print Assumptions C08_array_count_tp_direct.

(* ... and on the array model the correspondence check runs against the implementation
   (ThresholdEventOperator(dt, dop).make_contingency_manager(fcst, obs, t, op).transform(rd, pd).get_counts()):
   whenever it returns, with a real reduction every cell of tp / tn / fp / fn is the direct count of its own group under the
   threshold and operator actually in force (the defaults exactly for None), and total is the number of pairs valid in both *)
Theorem C08_model_counts : forall dt dop fcst obs t op rd pd l,
  manager_counts (fst (event_arrays gen_make_contingency_manager dt dop fcst obs t op))
                 (snd (event_arrays gen_make_contingency_manager dt dop fcst obs t op)) rd pd = Ok l ->
  exists R tp tn fp fn tot,
    l = [tp; tn; fp; fn; tot] /\
    gather (ldims fcst) (ldims obs) None rd pd DNone = Ok R /\
    (dinter (dunion (ldims fcst) (ldims obs)) R <> [] ->
     let op' := eff_op dop op in let t' := eff_threshold dt t in
     forall e,
       lget tp e =x= xofnat (count_if (fun c => cvalid c && p_tp op' t' c) (group_cells fcst obs R e)) /\
       lget tn e =x= xofnat (count_if (fun c => cvalid c && p_tn op' t' c) (group_cells fcst obs R e)) /\
       lget fp e =x= xofnat (count_if (fun c => cvalid c && p_fp op' t' c) (group_cells fcst obs R e)) /\
       lget fn e =x= xofnat (count_if (fun c => cvalid c && p_fn op' t' c) (group_cells fcst obs R e)) /\
       lget tot e =x= xofnat (count_if cvalid (group_cells fcst obs R e))).
Proof. exact model_counts. Qed.
Print Assumptions C08_model_counts.

(* additivity: the NaN-skipping sum of a concatenation of groups is the NaN-skipping sum of the group sums ... *)
Theorem C08_nansum_groups : forall ls : list (list xv), Forall noinf ls -> nansum (List.concat ls) =x= nansum (map nansum ls).
Proof. exact nansum_concat. Qed.
Print Assumptions C08_nansum_groups.
(* ... hence counts kept along a (leading) dimension d sum to the counts with d reduced too *)
Theorem C08_counts_additive_leading_dim : forall (a : larr) (d : dim) (R : list dim) (e : env),
  (forall e', xisinf (lget a e') = false) ->
  dinter (ldims a) (d :: R) = d :: dinter (ldims a) R ->
  lget (lreduce nansum (d :: R) a) e =x=
  nansum (map (fun n => lget (lreduce nansum R a) (upd e d n)) (seq 0 (lsize a d))).
Proof. exact counts_additive. Qed.
Print Assumptions C08_counts_additive_leading_dim.
(* ... for ANY kept dimension d of an array with distinct dimension names whose values depend on the index environment pointwise
   (true of every array decoded from the wire and of everything built from such arrays by lzip / lmap) *)
Theorem C08_counts_additive_any_dim : forall (a : larr) (d : dim) (R : list dim) (e : env),
  ext (lget a) -> (forall e', xisinf (lget a e') = false) -> NoDup (ldims a) -> In d (ldims a) -> ~ In d R ->
  lget (lreduce nansum (d :: R) a) e =x=
  nansum (map (fun n => lget (lreduce nansum R a) (upd e d n)) (seq 0 (lsize a d))).
Proof. exact counts_additive_any_dim. Qed.
Print Assumptions C08_counts_additive_any_dim.
Theorem C08_decoded_arrays_are_pointwise : forall dims data f g (b : larr),
  ext (lget (of_flat dims data)) /\ (ext (lget b) -> ext (lget (lzip f (of_flat dims data) b))) /\ (ext (lget b) -> ext (lget (lmap g b))).
Proof. exact (fun dims data f g b => conj (ext_of_flat dims data) (conj (fun H => ext_lzip f _ b (ext_of_flat dims data) H) (ext_lmap g b))). Qed.
Print Assumptions C08_decoded_arrays_are_pointwise.
Theorem C08_count_maps_have_no_infinity : forall m fe oe e,
  In m [map_tp; map_tn; map_fp; map_fn] -> xisinf (lget (lzip m fe oe) e) = false.
Proof. exact count_map_noinf. Qed.
Print Assumptions C08_count_maps_have_no_infinity.

(* ---- the views of a manager (round 4): gen_table_of_counts, gen_format_cells, gen_count_keys are regenerated from
   BasicContingencyManager._make_xr_table / format_table and BinaryContingencyManager._get_counts (site C08.views, which also
   refuses any method other than the constructors that writes an attribute of the manager) ---- *)
(* get_table(): for a counts dict in ANY key order (given as its item list) the table reports under every label the count stored
   under that key, and its labels / values are the dict's keys / values in the dict's own order *)
Theorem C08_table_labelled_by_key : forall A (counts : list (string * A)) k,
  by_label k (gen_table_of_counts counts) = by_label k counts.
Proof. exact table_labelled_by_key. Qed.
Print Assumptions C08_table_labelled_by_key.
Theorem C08_table_labels_are_the_keys : forall A (counts : list (string * A)),
  map fst (gen_table_of_counts counts) = map fst counts /\ map snd (gen_table_of_counts counts) = map snd counts.
Proof. exact table_labels_are_the_keys. Qed.
Print Assumptions C08_table_labels_are_the_keys.
(* format_table(): for the key order the library itself builds (transform, event operators) the 2x2 frame shows hits and false
   alarms in the forecast-yes row, misses and correct negatives in the forecast-no row *)
Theorem C08_format_table_library_order : forall A (tp tn fp fn tot : A),
  gen_format_cells (gen_table_of_counts (combine gen_count_keys [tp; tn; fp; fn; tot])) = [Some tp; Some fp; Some fn; Some tn].
Proof. exact format_cells_library_order. Qed.
Print Assumptions C08_format_table_library_order.
(* for a dict in ANY key order the frame is right iff format_table reads the table by label: the first statement is the full
   property and is vacuous while the code reads by position; the second is the Coq form of the known finding
   format-table-by-position (Finley's table in the customary 2x2 reading order) and becomes vacuous with the repair *)
Theorem C08_format_table_any_order : gen_format_reads_by_label = true ->
  forall A (counts : list (string * A)), gen_format_cells (gen_table_of_counts counts) = cells_by_label counts.
Proof. exact format_cells_any_order. Qed.
Print Assumptions C08_format_table_any_order.
Theorem C08_format_table_by_position_refuted : gen_format_reads_by_label = false ->
  exists counts : list (string * nat), NoDup (map fst counts) /\ gen_format_cells (gen_table_of_counts counts) <> cells_by_label counts.
Proof. exact format_cells_by_position_refuted. Qed.
Print Assumptions C08_format_table_by_position_refuted.

(* ---- non-vacuity ---- *)
(* threshold 0 is honoured: 0 >= 0 is an event (with the default 0.001 it would not be) *)
Example C08_ex_threshold_zero :
  gen_make_contingency_manager (XFin (1 # 1000)) OpGe (XFin 0) (XFin (-1)) (Some (XFin 0)) None = (XFin 1, XFin 0).
Proof. reflexivity. Qed.
(* a value within the tolerance of the threshold is an event for >= and not for > *)
Example C08_ex_tolerance :
  gen_comparative_discretise (XFin (9 # 10)) (XFin 1) (MStr ">=") (XFin (1 # 10)) = Some (XFin 1) /\
  gen_comparative_discretise (XFin (11 # 10)) (XFin 1) (MOp OpGt) (XFin (1 # 10)) = Some (XFin 0).
Proof. split; reflexivity. Qed.
Example C08_ex_hyp : 0 <= 1 # 10 /\ In (MStr ">=") [MStr (mode_name OpGe); MOp OpGe].
Proof. split. lra. simpl; tauto. Qed.
(* a counts dict in the customary 2x2 reading order: the table still reports each count under its own label *)
Example C08_ex_table_labels :
  by_label "tn_count" (gen_table_of_counts [("tp_count", 28%nat); ("fp_count", 72%nat); ("fn_count", 23%nat); ("tn_count", 2680%nat); ("total_count", 2803%nat)]) = Some 2680%nat.
Proof. reflexivity. Qed.
