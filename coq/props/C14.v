(* props/C14.v -- property C14: ROC points are POD/POFD of `forecast >= t`; AUC is the trapezoid area.
   One output cell of roc_curve_data sees a list `cells` of (forecast, observation, weight) triples (unweighted: weight 1).
   pod_at / pofd_at / auc_at (model/C14.v) are assembled from regenerated code only: the operator.ge branch of
   comparative_discretise with abs_tolerance None (Gen_C08_discretise), the hit / miss / false-alarm / correct-negative maps
   and the final ratios of binary_impl.probability_of_detection / probability_of_false_detection (Gen_C09_binary),
   NaN-skipping sums, and numpy's trapezoid as a fold.  Only statements; proofs are `exact <lemma>` into coq/proofs/C14*.v. *)
From V Require Import lib.Tree lib.C08_aux gen.Gen_C08_discretise gen.Gen_C09_binary model.C08 model.C09 model.C14 proofs.C14 proofs.C14_mw proofs.C14_array.

(* the discretised forecast: NaN stays NaN, otherwise 1 iff forecast >= t (equality is an event) *)
Theorem C14_discretised_forecast : forall (t : Q) (f : xv),
  disc_ge (XFin t) f = match f with XNaN => XNaN | _ => b2x (xge f (XFin t)) end.
Proof. exact disc_ge_spec. Qed.
Print Assumptions C14_discretised_forecast.

(* roc_point_spec: POD(t) = weight of {valid, obs = 1, fcst >= t} / weight of {valid, obs = 1}, POFD(t) likewise with obs = 0,
   as IEEE quotients (`ratio`: NaN for an empty class); valid = forecast, observation and weight all non-NaN;
   for every list of triples with non-infinite weights and every rational threshold *)
Theorem C14_roc_point_spec_pod : forall (cells : list triple) (t : Q), Forall wf cells ->
  pod_at cells (XFin t) =x=
  ratio (wsum (fun c => tvalid c && obs_is 1 c && fc_ge t c) cells) (wsum (fun c => tvalid c && obs_is 1 c) cells).
Proof. exact roc_point_pod. Qed.
Print Assumptions C14_roc_point_spec_pod.
Theorem C14_roc_point_spec_pofd : forall (cells : list triple) (t : Q), Forall wf cells ->
  pofd_at cells (XFin t) =x=
  ratio (wsum (fun c => tvalid c && obs_is 0 c && fc_ge t c) cells) (wsum (fun c => tvalid c && obs_is 0 c) cells).
Proof. exact roc_point_pofd. Qed.
Print Assumptions C14_roc_point_spec_pofd.

(* roc_monotone: for non-negative weights both coordinates are non-increasing in t (roc_le: both finite and <=, or both NaN) *)
Theorem C14_roc_monotone_pod : forall cells t1 t2, Forall wf cells -> wnonneg cells -> t1 <= t2 ->
  roc_le (pod_at cells (XFin t2)) (pod_at cells (XFin t1)).
Proof. exact roc_monotone_pod. Qed.
Print Assumptions C14_roc_monotone_pod.
Theorem C14_roc_monotone_pofd : forall cells t1 t2, Forall wf cells -> wnonneg cells -> t1 <= t2 ->
  roc_le (pofd_at cells (XFin t2)) (pofd_at cells (XFin t1)).
Proof. exact roc_monotone_pofd. Qed.
Print Assumptions C14_roc_monotone_pofd.
(* ... and lie in [0,1] (or are NaN) *)
Theorem C14_roc_in_unit_interval : forall cells t, Forall wf cells -> wnonneg cells ->
  roc_unit (pod_at cells (XFin t)) /\ roc_unit (pofd_at cells (XFin t)).
Proof. exact (fun cells t F W => conj (roc_unit_pod cells t F W) (roc_unit_pofd cells t F W)). Qed.
Print Assumptions C14_roc_in_unit_interval.

(* roc_at_zero: at a threshold not above any valid forecast (t = 0 for forecasts in [0,1]) POD = 1 when the events carry
   weight, POFD = 1 when the non-events do *)
Theorem C14_roc_at_zero_pod : forall cells t, Forall wf cells ->
  (forall c, In c cells -> tvalid c = true -> fc_ge t c = true) -> ~ d1 cells == 0 -> pod_at cells (XFin t) =x= XFin 1.
Proof. exact roc_at_low_pod. Qed.
Print Assumptions C14_roc_at_zero_pod.
Theorem C14_roc_at_zero_pofd : forall cells t, Forall wf cells ->
  (forall c, In c cells -> tvalid c = true -> fc_ge t c = true) -> ~ d0 cells == 0 -> pofd_at cells (XFin t) =x= XFin 1.
Proof. exact roc_at_low_pofd. Qed.
Print Assumptions C14_roc_at_zero_pofd.
(* an empty class gives NaN at every threshold *)
Theorem C14_pod_nan_for_empty_class : forall cells t, Forall wf cells -> wnonneg cells -> d1 cells == 0 -> pod_at cells (XFin t) = XNaN.
Proof. exact pod_nan_empty. Qed.
Print Assumptions C14_pod_nan_for_empty_class.

(* numpy's trapezoid on finite values is the rational trapezoid sum *)
Theorem C14_trapezoid : forall ys xs : list Q, trapz (map XFin ys) (map XFin xs) =x= XFin (trapzQ ys xs).
Proof. exact trapz_fin. Qed.
Print Assumptions C14_trapezoid.

(* auc_in_unit_interval: thresholds sorted increasing, non-negative weights, both classes carry weight  ==>  AUC is a number in [0,1] *)
Theorem C14_auc_in_unit_interval : forall (cells : list triple) (ts : list Q),
  Forall wf cells -> wnonneg cells -> nondec ts -> ~ d1 cells == 0 -> ~ d0 cells == 0 ->
  exists a, auc_at cells (map XFin ts) =x= XFin a /\ 0 <= a <= 1.
Proof. exact auc_unit. Qed.
Print Assumptions C14_auc_in_unit_interval.

(* auc_is_mann_whitney, sample form: for non-empty lists E, N of event / non-event forecasts and strictly increasing thresholds
   containing every forecast value, the last threshold above all of them, the trapezoid area under the points
   (#{n >= t}/|N|, #{e >= t}/|E|) is  sum over pairs of [e > n] + [e = n]/2, divided by |E||N| *)
Theorem C14_roc_area_is_mann_whitney : forall E N ts : list Q,
  E <> [] -> N <> [] -> strict ts ->
  (forall v, In v E \/ In v N -> InQ v ts /\ v < last ts 0) ->
  rocQ E N ts == mw_sum E N / (qlen E * qlen N).
Proof. exact roc_area_is_mann_whitney. Qed.
Print Assumptions C14_roc_area_is_mann_whitney.

(* auc_is_mann_whitney, on the code-structured AUC: unweighted triples (weight 1) with finite forecasts; fvals k = forecasts of the
   valid cells with observation k *)
Theorem C14_auc_is_mann_whitney : forall (cells : list triple) (ts : list Q),
  Forall wf cells -> unweighted cells -> finite_fc cells -> strict ts ->
  (forall v, In v (fvals 1 cells) \/ In v (fvals 0 cells) -> InQ v ts /\ v < last ts 0) ->
  fvals 1 cells <> [] -> fvals 0 cells <> [] ->
  auc_at cells (map XFin ts) =x= mann_whitney (fvals 1 cells) (fvals 0 cells).
Proof. exact auc_is_mann_whitney. Qed.
Print Assumptions C14_auc_is_mann_whitney.

(* ---- from lists to arrays: whenever the array model of roc_curve_data (model/C14.v, the function the correspondence check runs
   against the implementation) returns, every POD / POFD cell is the list-level ROC point of the (forecast, observation, weight)
   triples of its own group at its own threshold, and every AUC cell is the trapezoid fold of its POD / POFD along 'threshold';
   so all theorems above apply to every output cell ---- *)
Theorem C14_model_cells_weighted : forall fcst obs ts rd pd w ca pod pofd auc,
  roc_curve_data_m fcst obs ts rd pd (Some w) ca = Ok [pod; pofd; auc] ->
  exists R, ~ In "threshold" R /\
    (forall e, lget pod e = pod_at (triples fcst obs ts R w e) (threshold_at ts e)) /\
    (forall e, lget pofd e = pofd_at (triples fcst obs ts R w e) (threshold_at ts e)) /\
    (forall e, lget auc e = auc_of (along pod "threshold" e) (along pofd "threshold" e)).
Proof. exact roc_model_cells. Qed.
Print Assumptions C14_model_cells_weighted.
Theorem C14_model_cells_unweighted : forall fcst obs ts rd pd ca pod pofd auc,
  roc_curve_data_m fcst obs ts rd pd None ca = Ok [pod; pofd; auc] ->
  exists R, ~ In "threshold" R /\
    (forall e, lget pod e =x= pod_at (triples1 fcst obs ts R e) (threshold_at ts e)) /\
    (forall e, lget pofd e =x= pofd_at (triples1 fcst obs ts R e) (threshold_at ts e)) /\
    (forall e, lget auc e = auc_of (along pod "threshold" e) (along pofd "threshold" e)).
Proof. exact roc_model_cells_unweighted. Qed.
Print Assumptions C14_model_cells_unweighted.

(* ---- non-vacuity ---- *)
Definition ex_cells : list triple :=
  [(XFin (1 # 2), XFin 1, XFin 1); (XFin (1 # 4), XFin 0, XFin 1); (XFin (1 # 2), XFin 0, XFin 1); (XNaN, XFin 1, XFin 1)].
Definition ex_ts : list Q := [0; 1 # 4; 1 # 2; 1].
(* a forecast equal to the threshold is an event: POD(1/2) = 1, POFD(1/2) = 1/2; the tie counts one half in the AUC *)
Example C14_ex_values :
  pod_at ex_cells (XFin (1 # 2)) =x= XFin 1 /\ pofd_at ex_cells (XFin (1 # 2)) =x= XFin (1 # 2) /\
  auc_at ex_cells (map XFin ex_ts) =x= XFin (3 # 4) /\ mann_whitney (fvals 1 ex_cells) (fvals 0 ex_cells) =x= XFin (3 # 4).
Proof. vm_compute. repeat split; reflexivity. Qed.
Example C14_ex_hypotheses :
  Forall wf ex_cells /\ unweighted ex_cells /\ wnonneg ex_cells /\ strict ex_ts /\ nondec ex_ts /\
  ~ d1 ex_cells == 0 /\ ~ d0 ex_cells == 0 /\ fvals 1 ex_cells <> [] /\ fvals 0 ex_cells <> [].
Proof.
  repeat split; try (vm_compute; congruence); try discriminate.
  - repeat constructor.
  - intros c H. repeat (destruct H as [<- | H]; [reflexivity |]). contradiction.
  - intros c H _. repeat (destruct H as [<- | H]; [vm_compute; congruence |]). contradiction.
Qed.
