(* props/C05.v -- property C05: point and interval scores equal their textbook definitions on every input.
   Statements only; every proof is `exact <lemma>` into coq/proofs/C05.v.  gen_* are the kernels regenerated
   from /repo's current source by tools/py2gallina.py on every run. *)
From Coq Require Import Reals Qreals.
From V Require Import lib.Tree gen.Gen_quantile_loss gen.Gen_functions gen.Gen_interval gen.Gen_standard model.C05 proofs.C05 proofs.C05_angular proofs.C05_rmse.
Open Scope Q_scope.

(* quantile_score's kernel is the pinball loss alpha*max(o-f,0) + (1-alpha)*max(f-o,0), for every rational
   forecast, observation and level (the tie f = o included) *)
Theorem C05_pinball_is_textbook : forall a f o : Q,
  gen_quantile_score (XFin f) (XFin o) (XFin a) =x= XFin (a * Qmax0 (o - f) + (1 - a) * Qmax0 (f - o)).
Proof. exact pinball_ok. Qed.
Print Assumptions C05_pinball_is_textbook.

(* quantile_interval_score: the four components are width, (lo-y)^+/ll, (y-hi)^+/(1-ul) and their sum *)
Theorem C05_qis_is_textbook : forall ll ul lo hi y : Q, 0 < ll -> ul < 1 ->
  xeq4 (gen_qis (XFin lo) (XFin hi) (XFin y) (XFin ll) (XFin ul))
       (fin4 (hi - lo, Qmax0 (lo - y) / ll, Qmax0 (y - hi) / (1 - ul),
              (hi - lo) + Qmax0 (lo - y) / ll + Qmax0 (y - hi) / (1 - ul))).
Proof. exact qis_ok. Qed.
Print Assumptions C05_qis_is_textbook.

(* an observation exactly on an end point of the interval is not penalised *)
Theorem C05_qis_endpoint_free : forall ll ul lo hi : Q,
  let '(_, ov, _, _) := qis_spec ll ul lo hi lo in ov == 0 /\
  let '(_, _, un, _) := qis_spec ll ul lo hi hi in un == 0.
Proof. exact qis_on_endpoint. Qed.
Print Assumptions C05_qis_endpoint_free.

(* the penalties are the one-sided parts of the pinball losses of the two quantile forecasts, scaled *)
Theorem C05_qis_is_scaled_pinball : forall ll ul lo hi y : Q, 0 < ll -> ll < 1 -> 0 < ul -> ul < 1 ->
  let '(w, ov, un, tot) := qis_spec ll ul lo hi y in
  ov == (pinball_spec ll lo y - ll * Qmax0 (y - lo)) / (ll * (1 - ll)) /\
  un == (pinball_spec ul hi y - (1 - ul) * Qmax0 (hi - y)) / (ul * (1 - ul)) /\
  tot == w + ov + un.
Proof. exact qis_is_scaled_pinball. Qed.
Print Assumptions C05_qis_is_scaled_pinball.

(* interval_score calls the quantile interval score at the symmetric levels (1-r)/2 and (1+r)/2 ... *)
Theorem C05_interval_levels : forall r : Q,
  let '(lq, uq) := gen_interval_levels (XFin r) in lq =x= XFin ((1 - r) / 2) /\ uq =x= XFin ((1 + r) / 2).
Proof. exact interval_levels_ok. Qed.
Print Assumptions C05_interval_levels.

(* ... and is therefore width + (2/alpha)(lo-y)^+ + (2/alpha)(y-hi)^+ with alpha = 1 - r *)
Theorem C05_interval_score_textbook : forall r lo hi y : Q, 0 < r -> r < 1 ->
  let '(_, _, _, tot) := qis_spec ((1 - r) / 2) ((1 + r) / 2) lo hi y in
  tot == (hi - lo) + (2 / (1 - r)) * Qmax0 (lo - y) + (2 / (1 - r)) * Qmax0 (y - hi).
Proof. exact interval_score_textbook. Qed.
Print Assumptions C05_interval_score_textbook.

(* squared error, absolute error and bias kernels *)
Theorem C05_mse_kernel : forall f o : Q, gen_mse_kernel (XFin f) (XFin o) false =x= XFin ((f - o) * (f - o)).
Proof. exact mse_kernel_ok. Qed.
Print Assumptions C05_mse_kernel.
Theorem C05_mae_kernel : forall f o : Q, gen_mae_kernel (XFin f) (XFin o) false =x= XFin (Qabs (f - o)).
Proof. exact mae_kernel_ok. Qed.
Print Assumptions C05_mae_kernel.
Theorem C05_bias_kernel : forall f o : Q, gen_bias_kernel (XFin f) (XFin o) =x= XFin (f - o).
Proof. exact bias_kernel_ok. Qed.
Print Assumptions C05_bias_kernel.

(* MSE = bias^2 + var_f + var_o - 2 cov (hence, with cov = rho*sd_f*sd_o, the bias/variance/correlation
   decomposition), over any non-empty list of forecast/observation pairs *)
Theorem C05_mse_decomposition : forall l : list (Q * Q), l <> [] ->
  let mf := qmean2 (fun f _ => f) l in let mo := qmean2 (fun _ o => o) l in
  qmean2 (fun f o => (f - o) * (f - o)) l ==
    (mf - mo) * (mf - mo) + qmean2 (fun f _ => (f - mf) * (f - mf)) l + qmean2 (fun _ o => (o - mo) * (o - mo)) l
    - 2 * qmean2 (fun f o => (f - mf) * (o - mo)) l.
Proof. exact mse_decomposition. Qed.
Print Assumptions C05_mse_decomposition.

(* a series compared with itself has equal means, and covariance = both variances: rho^2 = alpha^2 = beta = 1,
   i.e. KGE = 1, whenever the variance and the mean are non-zero *)
Theorem C05_self_moments : forall l : list (Q * Q), (forall p, In p l -> fst p == snd p) ->
  qsum2 (fun f o => f) l == qsum2 (fun f o => o) l /\
  forall m, qsum2 (fun f o => (f - m) * (o - m)) l == qsum2 (fun f _ => (f - m) * (f - m)) l
         /\ qsum2 (fun _ o => (o - m) * (o - m)) l == qsum2 (fun f _ => (f - m) * (f - m)) l.
Proof. exact self_moments. Qed.
Print Assumptions C05_self_moments.

(* angular difference lies in [0,180] and is symmetric *)
Theorem C05_angular_range : forall a b : Q,
  exists r, gen_angular_difference (XFin a) (XFin b) = XFin r /\ 0 <= r /\ r <= 180.
Proof. exact angular_range. Qed.
Print Assumptions C05_angular_range.
Theorem C05_angular_symmetric : forall a b : Q,
  gen_angular_difference (XFin a) (XFin b) =x= gen_angular_difference (XFin b) (XFin a).
Proof. exact angular_symmetric. Qed.
Print Assumptions C05_angular_symmetric.

(* ... 360-periodic in each argument (any integer number of turns), and equal to the distance from a - b to the
   nearest multiple of 360 *)
Theorem C05_angular_periodic_left : forall (a b : Q) (k : Z),
  gen_angular_difference (XFin (a + 360 * inject_Z k)) (XFin b) =x= gen_angular_difference (XFin a) (XFin b).
Proof. exact angular_periodic_left. Qed.
Print Assumptions C05_angular_periodic_left.
Theorem C05_angular_periodic_right : forall (a b : Q) (k : Z),
  gen_angular_difference (XFin a) (XFin (b + 360 * inject_Z k)) =x= gen_angular_difference (XFin a) (XFin b).
Proof. exact angular_periodic_right. Qed.
Print Assumptions C05_angular_periodic_right.
Theorem C05_angular_is_nearest_turn : forall (a b : Q) (n : Z),
  exists r, gen_angular_difference (XFin a) (XFin b) =x= XFin r /\ r <= Qabs (a - b - 360 * inject_Z n).
Proof. exact angular_is_nearest. Qed.
Print Assumptions C05_angular_is_nearest_turn.

(* MSE is a non-negative rational (or NaN) for non-negative weights, so RMSE - the host's square root of it - satisfies
   RMSE >= 0 and RMSE^2 = MSE (the last statement is over the reals and depends on the standard real-number axioms) *)
Theorem C05_weighted_squared_error_nonneg : forall (f o w : xv) b, xisinf f = false -> xisinf o = false -> nonneg_or_nan w ->
  nonneg_or_nan (xmul (gen_mse_kernel f o b) w).
Proof. exact weighted_sq_error_nonneg. Qed.
Print Assumptions C05_weighted_squared_error_nonneg.
Theorem C05_mean_of_nonneg_is_nonneg : forall l, (forall v, In v l -> nonneg_or_nan v) -> nonneg_or_nan (nanmean l).
Proof. exact nanmean_nonneg. Qed.
Print Assumptions C05_mean_of_nonneg_is_nonneg.
Theorem C05_rmse_squared_is_mse : forall m : Q, 0 <= m ->
  (0 <= sqrt (Q2R m) /\ sqrt (Q2R m) * sqrt (Q2R m) = Q2R m)%R.
Proof. exact rmse_squared_is_mse. Qed.
Print Assumptions C05_rmse_squared_is_mse.

(* non-vacuity of the guarded statements *)
Example C05_levels_satisfiable : 0 < 1 # 10 /\ (1 # 10) < 1 /\ 0 < 9 # 10 /\ (9 # 10) < 1.
Proof. repeat split; reflexivity. Qed.
