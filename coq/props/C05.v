(* props/C05.v -- property C05: point and interval scores equal their textbook definitions.
   Only statements; every proof is `exact <lemma>` into coq/proofs. *)
From V Require Import lib.Tree gen.Gen_quantile_loss gen.Gen_functions model.C05 proofs.C05.

(* the regenerated quantile_score kernel is the pinball loss alpha*max(o-f,0) + (1-alpha)*max(f-o,0),
   for every rational forecast, observation and level (tie f = o included) *)
Theorem C05_pinball_is_textbook : forall a f o : Q,
  gen_quantile_score (XFin f) (XFin o) (XFin a) =x= XFin (a * Qmax0 (o - f) + (1 - a) * Qmax0 (f - o)).
Proof. exact pinball_ok. Qed.
Print Assumptions C05_pinball_is_textbook.
