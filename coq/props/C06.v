(* props/C06.v -- property C06: ensemble CRPS is the exact CRPS of the ensemble; weighted parts add up.
   Only statements; every proof is `exact <lemma>` into coq/proofs.
   Vocabulary (coq/model/C06.v):
     crps_case meth X y      the executable per-case model of crps_for_ensemble: members X : list xv (XNaN = missing
                             member), observation y; built from the kernels regenerated from the source
                             (gen_crps_* in coq/gen/Gen_C06_crps.v) and NaN-skipping sum / count / mean
     crps_under/over/spread_c the three further components of include_components=True
     tw_tail_case, tw_interval_case   the same after the regenerated chaining functions (np.minimum / np.maximum / clip)
     crps_ecdf X y, crps_fair X y     the textbook kernel forms over rationals:
                             (1/m) sum|x_i - y| - (1/(2 m^2)) sum sum|x_i - x_j|   resp.  ... 1/(2 m (m-1)) ...
     spec_case meth X y      that kernel form over the non-missing members (NaN for a missing observation, no valid
                             member, or `fair` with a single valid member)
     brier_ens_cell / brier_q  one (case, threshold) cell of brier_score_for_ensemble (operator.ge)
   R-level vocabulary (coq/proofs/C06_R.v): ind_le a t = 1{a <= t}, ind_ge a t = 1{a >= t}, ecdfR X t = empirical CDF,
     brierR fair X y t = ensemble Brier score of the event ">= t" as a function of a real threshold. *)
From V Require Import lib.Tree gen.Gen_C06_crps model.C06 proofs.C06 proofs.C06_model proofs.C06_R.
From Coq Require Import Permutation Reals Qreals.
From Coquelicot Require Import Coquelicot.
Open Scope string_scope.
Open Scope Q_scope.

(* ================================================================================================ *)
(* 1. the code's per-case computation IS the kernel form over the non-missing members                 *)
(* ================================================================================================ *)
(* every ensemble size, missing members anywhere, missing observation, both methods *)
Theorem C06_model_is_kernel_form : forall meth X y,
  meth = "ecdf" \/ meth = "fair" -> List.Forall (fun v => xisinf v = false) X -> xisinf y = false ->
  crps_case meth X y =x= spec_case meth X y.
Proof. exact model_is_spec. Qed.
Print Assumptions C06_model_is_kernel_form.

(* NaN exactly for a missing observation or no valid member (ecdf) ... *)
Theorem C06_ecdf_nan_iff : forall X y, List.Forall (fun v => xisinf v = false) X -> xisinf y = false ->
  (crps_case "ecdf" X y = XNaN <-> y = XNaN \/ qvals X = []).
Proof. exact ecdf_nan_iff. Qed.
Print Assumptions C06_ecdf_nan_iff.

(* ... and additionally for a single valid member with `fair` (0/0 of the documented normalisation: not a defect) *)
Theorem C06_fair_nan_iff : forall X y, List.Forall (fun v => xisinf v = false) X -> xisinf y = false ->
  (crps_case "fair" X y = XNaN <-> y = XNaN \/ (length (qvals X) <= 1)%nat).
Proof. exact fair_nan_iff. Qed.
Print Assumptions C06_fair_nan_iff.

(* ================================================================================================ *)
(* 2. ecdf is the exact CRPS of the empirical distribution: the integral of (F_ens(t) - 1{y <= t})^2  *)
(* ================================================================================================ *)
Theorem C06_crps_ecdf_is_integral : forall (X : list Q) (y : Q) (lo hi : R),
  X <> [] -> (forall x, In x X -> (lo <= Q2R x <= hi)%R) -> (lo <= Q2R y <= hi)%R ->
  is_RInt (fun t : R => ((sumR (map (fun x => if Rle_dec (Q2R x) t then 1 else 0) X) / INR (length X)
                          - (if Rle_dec (Q2R y) t then 1 else 0)) ^ 2)%R)
          lo hi (Q2R (crps_ecdf X y)).
Proof. exact crps_ecdf_is_integral. Qed.
Print Assumptions C06_crps_ecdf_is_integral.

(* the value the executable model returns (missing members dropped) is that integral *)
Theorem C06_model_value_is_integral : forall (X : list xv) (y : Q) (lo hi : R),
  List.Forall (fun v => xisinf v = false) X -> qvals X <> [] ->
  (forall x, In x (qvals X) -> (lo <= Q2R x <= hi)%R) -> (lo <= Q2R y <= hi)%R ->
  exists v : Q, crps_case "ecdf" X (XFin y) =x= XFin v
     /\ is_RInt (fun t : R => ((ecdfR (qvals X) t - ind_le (Q2R y) t) ^ 2)%R) lo hi (Q2R v).
Proof. exact model_value_is_integral. Qed.
Print Assumptions C06_model_value_is_integral.

(* ================================================================================================ *)
(* 3. fair differs from ecdf only in the spread normalisation; components                             *)
(* ================================================================================================ *)
Theorem C06_crps_fair_diff : forall X y, (2 <= length X)%nat ->
  crps_fair X y == crps_ecdf X y - q_pair_sum X / (2 * qlen X * qlen X * (qlen X - 1)).
Proof. exact crps_fair_diff. Qed.
Print Assumptions C06_crps_fair_diff.

(* total = underforecast + overforecast - spread, on the model, NaN patterns included, any method string *)
Theorem C06_crps_components : forall meth X y, List.Forall (fun v => xisinf v = false) X -> xisinf y = false ->
  crps_case meth X y =x= xsub (xadd (crps_under X y) (crps_over X y)) (crps_spread_c meth X y).
Proof. exact components_model. Qed.
Print Assumptions C06_crps_components.

(* the components are the documented sums: (1/m) sum (y - x_i)^+ and (1/m) sum (x_i - y)^+ *)
Theorem C06_under_is_documented : forall X y, List.Forall (fun v => xisinf v = false) X -> qvals X <> [] ->
  crps_under X (XFin y) =x= XFin (qsum (map (fun x => Qpos_part (y - x)) (qvals X)) / qlen (qvals X)).
Proof. exact under_model. Qed.
Print Assumptions C06_under_is_documented.
Theorem C06_over_is_documented : forall X y, List.Forall (fun v => xisinf v = false) X -> qvals X <> [] ->
  crps_over X (XFin y) =x= XFin (qsum (map (fun x => Qpos_part (x - y)) (qvals X)) / qlen (qvals X)).
Proof. exact over_model. Qed.
Print Assumptions C06_over_is_documented.

(* ================================================================================================ *)
(* 4. threshold-weighted parts add up                                                                 *)
(* ================================================================================================ *)
Theorem C06_tw_split2 : forall a b t : Q,
  Qabs (Qmn a t - Qmn b t) + Qabs (Qmx a t - Qmx b t) == Qabs (a - b).
Proof. exact tw_split2. Qed.
Print Assumptions C06_tw_split2.

Theorem C06_tw_split3 : forall a b lo hi : Q, lo <= hi ->
  Qabs (Qmn a lo - Qmn b lo) + Qabs (Qclip lo hi a - Qclip lo hi b) + Qabs (Qmx a hi - Qmx b hi) == Qabs (a - b).
Proof. exact tw_split3. Qed.
Print Assumptions C06_tw_split3.

(* kernel forms: lower tail + interval + upper tail = unweighted, any ensemble (even empty), any lo <= hi *)
Theorem C06_parts_add_up_ecdf : forall X y lo hi, lo <= hi ->
  crps_ecdf (map (fun x => Qmn x lo) X) (Qmn y lo) + crps_ecdf (map (Qclip lo hi) X) (Qclip lo hi y)
  + crps_ecdf (map (fun x => Qmx x hi) X) (Qmx y hi) == crps_ecdf X y.
Proof. exact crps_ecdf_split3. Qed.
Print Assumptions C06_parts_add_up_ecdf.
Theorem C06_parts_add_up_fair : forall X y lo hi, lo <= hi ->
  crps_fair (map (fun x => Qmn x lo) X) (Qmn y lo) + crps_fair (map (Qclip lo hi) X) (Qclip lo hi y)
  + crps_fair (map (fun x => Qmx x hi) X) (Qmx y hi) == crps_fair X y.
Proof. exact crps_fair_split3. Qed.
Print Assumptions C06_parts_add_up_fair.

(* on the executable model, through the regenerated chaining functions: tail_tw(lower, lo) + interval_tw(lo, hi) +
   tail_tw(upper, hi) = crps_for_ensemble for every case (per-case thresholds are covered: the statement is per case),
   missing members / observation included, both methods *)
Theorem C06_tw_parts_add_up : forall meth X y lo hi,
  meth = "ecdf" \/ meth = "fair" -> List.Forall (fun v => xisinf v = false) X -> xisinf y = false -> lo <= hi ->
  xadd (xadd (tw_tail_case meth "lower" X y (XFin lo)) (tw_interval_case meth X y (XFin lo) (XFin hi)))
       (tw_tail_case meth "upper" X y (XFin hi)) =x= crps_case meth X y.
Proof. exact tw_model_split3. Qed.
Print Assumptions C06_tw_parts_add_up.
Theorem C06_tw_tails_add_up : forall meth X y t,
  meth = "ecdf" \/ meth = "fair" -> List.Forall (fun v => xisinf v = false) X -> xisinf y = false ->
  xadd (tw_tail_case meth "lower" X y (XFin t)) (tw_tail_case meth "upper" X y (XFin t)) =x= crps_case meth X y.
Proof. exact tw_model_split2. Qed.
Print Assumptions C06_tw_tails_add_up.

(* from cases to labelled arrays: the per-case arrays behind tail_tw / interval_tw / crps_for_ensemble (before weights and the
   final mean), with thresholds broadcast by name -- scalars are 0-d arrays, arrays give per-case thresholds -- satisfy the
   same identity at every cell whose thresholds are finite with a <= b *)
Theorem C06_tw_parts_add_up_arrays : forall meth f o lo hi m e a b,
  meth = "ecdf" \/ meth = "fair" -> mem m (ldims f) = true ->
  (forall e i, lget lo (upd e m i) = lget lo e) -> (forall e i, lget hi (upd e m i) = lget hi e) ->
  lget lo e = XFin a -> lget hi e = XFin b -> a <= b ->
  List.Forall (fun v => xisinf v = false) (members f m e) -> xisinf (lget o e) = false ->
  xadd (xadd (lget (case_arr (lzip (gen_chain_tail "lower") f lo) (lzip (gen_chain_tail "lower") o lo) m (crps_case meth)) e)
             (lget (case_arr (lzip3 gen_chain_interval f lo hi) (lzip3 gen_chain_interval o lo hi) m (crps_case meth)) e))
       (lget (case_arr (lzip (gen_chain_tail "upper") f hi) (lzip (gen_chain_tail "upper") o hi) m (crps_case meth)) e)
  =x= lget (case_arr f o m (crps_case meth)) e.
Proof. exact array_parts_add_up. Qed.
Print Assumptions C06_tw_parts_add_up_arrays.

(* the documented guards: interval thresholds must satisfy lower < upper (scalar and array form), tail and method names *)
Theorem C06_interval_guard : forall lo hi : Q,
  (gen_guard_interval (XFin lo) (XFin hi) = true <-> hi <= lo) /\ (gen_guard_interval_arr (XFin lo) (XFin hi) = true <-> hi <= lo).
Proof. exact interval_guard_spec. Qed.
Print Assumptions C06_interval_guard.
Theorem C06_name_guards : forall s : string,
  (gen_guard_tail s = None <-> s = "upper" \/ s = "lower") /\ (gen_guard_crps_method s = None <-> s = "ecdf" \/ s = "fair").
Proof. exact (fun s => conj (tail_guard_spec s) (method_guard_spec s)). Qed.
Print Assumptions C06_name_guards.

(* ================================================================================================ *)
(* 5. integrating the ensemble Brier score over all thresholds reproduces the matching CRPS           *)
(* ================================================================================================ *)
Theorem C06_brier_integrates_to_crps : forall (X : list Q) (y : Q) (lo hi : R),
  X <> [] -> (forall x, In x X -> (lo <= Q2R x <= hi)%R) -> (lo <= Q2R y <= hi)%R ->
  is_RInt (fun t : R => ((sumR (map (fun x => if Rle_dec t (Q2R x) then 1 else 0) X) / INR (length X)
                          - (if Rle_dec t (Q2R y) then 1 else 0)) ^ 2 - 0)%R)
          lo hi (Q2R (crps_ecdf X y)).
Proof. exact brier_integrates_to_crps_ecdf. Qed.
Print Assumptions C06_brier_integrates_to_crps.

(* with the fair correction i (m - i) / (m^2 (m - 1)), for m >= 2 members (with one member the fair CRPS is 0/0 = NaN
   by its documented normalisation while the Brier correction is defined as 0) *)
Theorem C06_brier_fair_integrates_to_crps_fair : forall (X : list Q) (y : Q) (lo hi : R),
  (2 <= length X)%nat -> (forall x, In x X -> (lo <= Q2R x <= hi)%R) -> (lo <= Q2R y <= hi)%R ->
  is_RInt (fun t : R => (let i := sumR (map (fun x => if Rle_dec t (Q2R x) then 1 else 0) X) in
                         let m := INR (length X) in
                         (i / m - (if Rle_dec t (Q2R y) then 1 else 0)) ^ 2 - i * (m - i) / (m ^ 2 * (m - 1)))%R)
          lo hi (Q2R (crps_fair X y)).
Proof. exact brier_fair_integrates_to_crps_fair. Qed.
Print Assumptions C06_brier_fair_integrates_to_crps_fair.

(* that real function is, at every rational threshold, what the executable Brier cell computes *)
Theorem C06_brier_function_is_model_cell : forall fair X y t, X <> [] -> (fair = true -> (2 <= length X)%nat) ->
  brier_ens_cell fair (fins X) (XFin y) (XFin t) =x= XFin (brier_q fair X y t)
  /\ brierR fair X y (Q2R t) = Q2R (brier_q fair X y t).
Proof. exact brier_function_is_model_cell. Qed.
Print Assumptions C06_brier_function_is_model_cell.

(* an infinite member is valid data, not a missing member: the cell counts it in m (and in i iff it is +inf), i.e. scores it
   exactly as any finite member at or above (+inf: s = true), resp. below (-inf: s = false), the threshold; any other members
   (missing or infinite ones included), any observation.  With the two theorems above this extends the threshold-integral
   statement over a finite range to ensembles with infinite members (replace them by the end points of the range). *)
Theorem C06_brier_infinite_member_is_valid : forall fair A B y t M (s : bool),
  (if s then t <= M else M < t) ->
  brier_ens_cell fair (A ++ XInf s :: B) y (XFin t) = brier_ens_cell fair (A ++ XFin M :: B) y (XFin t).
Proof. exact brier_cell_inf_member. Qed.
Print Assumptions C06_brier_infinite_member_is_valid.
(* members [1, 2, 4, +inf], observation 3, threshold 7/2: i = 2 of m = 4 members, (2/4 - 0)^2 = 1/4 (not (2/3)^2) *)
Example C06_brier_infinite_member_example :
  brier_ens_cell false [XFin 1; XFin 2; XFin 4; XInf true] (XFin 3) (XFin (7 # 2)) =x= XFin (1 # 4).
Proof. vm_compute. reflexivity. Qed.

(* ================================================================================================ *)
(* 6. invariances (on the executable model; missing members / observation included)                   *)
(* ================================================================================================ *)
Theorem C06_member_order_irrelevant : forall meth X X' y,
  meth = "ecdf" \/ meth = "fair" -> List.Forall (fun v => xisinf v = false) X -> xisinf y = false -> Permutation X X' ->
  crps_case meth X y =x= crps_case meth X' y.
Proof. exact perm_model. Qed.
Print Assumptions C06_member_order_irrelevant.

Theorem C06_translation_invariant : forall meth X y c,
  meth = "ecdf" \/ meth = "fair" -> List.Forall (fun v => xisinf v = false) X -> xisinf y = false ->
  crps_case meth (map (fun x => xadd x (XFin c)) X) (xadd y (XFin c)) =x= crps_case meth X y.
Proof. exact shift_model. Qed.
Print Assumptions C06_translation_invariant.

Theorem C06_scales_with_abs : forall meth X y a,
  meth = "ecdf" \/ meth = "fair" -> List.Forall (fun v => xisinf v = false) X -> xisinf y = false ->
  crps_case meth (map (fun x => xmul (XFin a) x) X) (xmul (XFin a) y) =x= xmul (XFin (Qabs a)) (crps_case meth X y).
Proof. exact scale_model. Qed.
Print Assumptions C06_scales_with_abs.

(* ================================================================================================ *)
(* 7. sign                                                                                            *)
(* ================================================================================================ *)
(* ecdf CRPS >= (1/m^2) sum |x_i - y| >= 0 (triangle inequality; no integral needed) *)
Theorem C06_crps_ecdf_lower_bound : forall X y, X <> [] -> q_obs_sum X y / (qlen X * qlen X) <= crps_ecdf X y.
Proof. exact crps_ecdf_lower. Qed.
Print Assumptions C06_crps_ecdf_lower_bound.

Theorem C06_crps_ecdf_nonneg : forall X y v, List.Forall (fun v => xisinf v = false) X -> xisinf y = false ->
  crps_case "ecdf" X y =x= XFin v -> 0 <= v.
Proof. exact ecdf_nonneg_model. Qed.
Print Assumptions C06_crps_ecdf_nonneg.

Theorem C06_crps_fair_nonneg : forall X y v, List.Forall (fun v => xisinf v = false) X -> xisinf y = false ->
  crps_case "fair" X y =x= XFin v -> 0 <= v.
Proof. exact fair_nonneg_model. Qed.
Print Assumptions C06_crps_fair_nonneg.

(* zero iff every (non-missing) member equals the observation *)
Theorem C06_crps_ecdf_zero_iff : forall X y, List.Forall (fun v => xisinf v = false) X -> qvals X <> [] ->
  (crps_case "ecdf" X (XFin y) =x= XFin 0 <-> forall x, In x (qvals X) -> x == y).
Proof. exact ecdf_zero_iff_model. Qed.
Print Assumptions C06_crps_ecdf_zero_iff.

(* ================================================================================================ *)
(* non-vacuity                                                                                        *)
(* ================================================================================================ *)
(* a 4-slot ensemble with a missing member, ties with the observation and the thresholds *)
Example ex_case : crps_case "ecdf" [XFin 1; XNaN; XFin 3; XFin 1] (XFin 1) =x= XFin (2 # 9).
Proof. vm_compute. reflexivity. Qed.
Example ex_fair : crps_case "fair" [XFin 1; XNaN; XFin 3; XFin 1] (XFin 1) =x= XFin 0.
Proof. vm_compute. reflexivity. Qed.
Example ex_fair_single : crps_case "fair" [XNaN; XFin 3] (XFin 1) = XNaN.
Proof. vm_compute. reflexivity. Qed.
Example ex_parts : xadd (xadd (tw_tail_case "ecdf" "lower" [XFin 1; XNaN; XFin 3; XFin 1] (XFin 1) (XFin 1))
                              (tw_interval_case "ecdf" [XFin 1; XNaN; XFin 3; XFin 1] (XFin 1) (XFin 1) (XFin 2)))
                        (tw_tail_case "ecdf" "upper" [XFin 1; XNaN; XFin 3; XFin 1] (XFin 1) (XFin 2)) =x= XFin (2 # 9).
Proof. vm_compute. reflexivity. Qed.
Example ex_components : map xred [crps_under [XFin 0; XFin 3] (XFin 1); crps_over [XFin 0; XFin 3] (XFin 1); crps_spread_c "ecdf" [XFin 0; XFin 3] (XFin 1)]
                        = [XFin (1 # 2); XFin 1; XFin (3 # 4)].
Proof. vm_compute. reflexivity. Qed.
Example ex_hyps : exists X : list xv, List.Forall (fun v => xisinf v = false) X /\ qvals X <> [] /\ (2 <= length (qvals X))%nat.
Proof. exists [XFin 1; XNaN; XFin 3]. repeat split; try (repeat constructor); try discriminate. Qed.
