(* props/C06.v -- property C06: ensemble CRPS is the exact CRPS of the ensemble; weighted parts add up.
   Only statements; every proof is `exact <lemma>` into coq/proofs. *)
From V Require Import lib.Tree gen.Gen_C06_crps model.C06 proofs.C06.

(* chaining identity behind tail + tail = total, ties a = t, b = t, a = b included *)
Theorem C06_tw_split2 : forall a b t : Q,
  Qabs (Qmx a t - Qmx b t) + Qabs (Qmn a t - Qmn b t) == Qabs (a - b).
Proof. exact tw_split2. Qed.
Print Assumptions C06_tw_split2.
