(* props/C17.v -- property C17: CDF repair tools bracket the input minimally; CRPS adjustment never flatters.
   Only statements; every proof is `exact <lemma>` into coq/proofs/C17.v.
   env_upper / env_lower / fill_line / decreasing_line / adjust_cases are the code-faithful models (model/Cdf.v) of
   cdf_envelope, fill_cdf, decreasing_cdfs and adjust_fcst_for_crps on one line (= one forecast case along the
   threshold dimension).  upperQ / lowerQ are the same computations on NaN-free rational lines; fin_of drops NaN. *)
From V Require Import lib.Tree model.Cdf proofs.C17 proofs.C17_tools gen.Gen_C17_plumb proofs.C17_code.
Open Scope Q_scope.

(* ---- cdf_envelope: NaN-free lines ---- *)
Theorem C17_envelope_on_finite_lines : forall l, env_upper (fins l) = fins (upperQ l) /\ env_lower (fins l) = fins (lowerQ l).
Proof. exact (fun l => conj (env_upper_fins l) (env_lower_fins l)). Qed.
Print Assumptions C17_envelope_on_finite_lines.

Theorem C17_envelope_monotone : forall l, nondec (upperQ l) /\ nondec (lowerQ l).
Proof. exact (fun l => conj (upper_monotone l) (lower_monotone l)). Qed.
Print Assumptions C17_envelope_monotone.

(* lower <= original <= upper, pointwise *)
Theorem C17_envelope_brackets : forall l, Forall2 Qle (lowerQ l) l /\ Forall2 Qle l (upperQ l).
Proof. exact (fun l => conj (lower_brackets l) (upper_brackets l)). Qed.
Print Assumptions C17_envelope_brackets.

(* upper is the least non-decreasing majorant, lower the greatest non-decreasing minorant *)
Theorem C17_envelope_minimal : forall l g, nondec g ->
  (Forall2 Qle l g -> Forall2 Qle (upperQ l) g) /\ (Forall2 Qle g l -> Forall2 Qle g (lowerQ l)).
Proof. exact (fun l g H => conj (upper_minimal l g H) (lower_maximal l g H)). Qed.
Print Assumptions C17_envelope_minimal.

(* all three coincide on a non-decreasing line *)
Theorem C17_envelope_fixpoint : forall l, nondec l -> upperQ l = l /\ Forall2 Qeq (lowerQ l) l.
Proof. exact (fun l H => conj (upper_fixpoint l H) (lower_fixpoint l H)). Qed.
Print Assumptions C17_envelope_fixpoint.

(* the lower envelope is the reverse running minimum *)
Theorem C17_lower_is_suffix_minimum : forall l, Forall2 Qeq (lowerQ l) (sufmin l).
Proof. exact lower_is_sufmin. Qed.
Print Assumptions C17_lower_is_suffix_minimum.

(* ---- cdf_envelope: lines with NaN.  NaN stays exactly where it was; the other ordinates carry the envelope of the
   NaN-free subsequence, so the five theorems above apply to them ---- *)
Theorem C17_envelope_keeps_nan : forall l, map xisnan (env_upper l) = map xisnan l /\ map xisnan (env_lower l) = map xisnan l.
Proof. exact (fun l => conj (env_upper_keeps_nan l) (env_lower_keeps_nan l)). Qed.
Print Assumptions C17_envelope_keeps_nan.
Theorem C17_envelope_skips_nan : forall l, Forall fin_or_nan l ->
  fin_of (env_upper l) = upperQ (fin_of l) /\ fin_of (env_lower l) = lowerQ (fin_of l).
Proof. exact (fun l H => conj (env_upper_skips_nan l H) (env_lower_skips_nan l H)). Qed.
Print Assumptions C17_envelope_skips_nan.

(* ---- fill_cdf ---- *)
(* every given ordinate is kept (ordinates within [0,1], as fill_cdf demands) *)
Theorem C17_fill_keeps_given : forall m mn ts ys,
  length ts = length ys -> (mn <= nancount ys)%nat -> forallb in01 ys = true ->
  Forall2 (fun y o => y = XNaN \/ o =x= y) ys (fill_line m mn ts ys).
Proof. exact fill_keeps_given. Qed.
Print Assumptions C17_fill_keeps_given.

(* with enough points every filled ordinate is a number in [0,1] (no NaN is left) *)
Theorem C17_fill_range01 : forall m mn ts ys,
  length ts = length ys -> (mn <= nancount ys)%nat -> (match m with FLinear => 2 | _ => 1 end <= mn)%nat ->
  forallb in01 ys = true -> Forall (fun v => exists q, v = XFin q /\ 0 <= q <= 1) (fill_line m mn ts ys).
Proof. exact fill_range01. Qed.
Print Assumptions C17_fill_range01.

(* a line with fewer than min_nonnan non-NaN ordinates is blanked, whatever the method *)
Theorem C17_fill_blank_when_too_few : forall m mn ts ys,
  (nancount ys < mn)%nat -> fill_line m mn ts ys = blank ys.
Proof. exact fill_blank_when_too_few. Qed.
Print Assumptions C17_fill_blank_when_too_few.

(* per-method characterisation.  Primitives: forward filling returns the last given ordinate at or before the position,
   backward filling the first given ordinate at or after it (NaN when there is none) ... *)
Theorem C17_ffill_bfill_char : forall ys i, (i < length ys)%nat ->
  nth i (ffill ys) XNaN = last (filter xnotnull (firstn (S i) ys)) XNaN /\
  nth i (bfill ys) XNaN = hd XNaN (filter xnotnull (skipn i ys)).
Proof. exact (fun ys i H => conj (ffill_char ys i H) (bfill_char ys i H)). Qed.
Print Assumptions C17_ffill_bfill_char.
(* ... the methods are the documented compositions: step = forward fill then 0; forward = forward then backward fill;
   backward = backward then forward fill; linear = given ordinate or interpolation through the known points, clipped *)
Theorem C17_fill_methods_compose : forall mn ts ys, (mn <= nancount ys)%nat ->
  fill_line FStep mn ts ys = map (fun v => xfillna v X0) (ffill ys) /\
  fill_line FForward mn ts ys = bfill (ffill ys) /\
  fill_line FBackward mn ts ys = ffill (bfill ys) /\
  fill_line FLinear mn ts ys = fill_linear ts ys.
Proof. exact fill_methods_compose. Qed.
Print Assumptions C17_fill_methods_compose.
Theorem C17_fill_linear_char : forall ts ys i t, length ts = length ys -> nth_error ts i = Some t ->
  nth i (fill_linear ts ys) XNaN = clip01 (match nth i ys XNaN with XNaN => interp_known (known ts ys) t | v => v end).
Proof. exact fill_linear_char. Qed.
Print Assumptions C17_fill_linear_char.
(* ... where interpolation through known points with increasing abscissae (which `known` of an increasing grid has) is:
   the segment through the two neighbours, the first segment extended to the left, the last one to the right *)
Theorem C17_interp_known_char :
  (forall ts ys, Cdf.increasing ts = true -> xs_increasing (known ts ys)) /\
  (forall k1 xa ya xb yb k2 x, xs_increasing (k1 ++ (xa, ya) :: (xb, yb) :: k2) -> xa <= x <= xb ->
     interp_known (k1 ++ (xa, ya) :: (xb, yb) :: k2) x =x= XFin (ya + (yb - ya) * (x - xa) / (xb - xa))) /\
  (forall x0 y0 x1 y1 k2 x, x <= x1 ->
     interp_known ((x0, y0) :: (x1, y1) :: k2) x = XFin (y0 + (y1 - y0) * (x - x0) / (x1 - x0))) /\
  (forall k1 xa ya xb yb x, xs_increasing (k1 ++ [(xa, ya); (xb, yb)]) -> xb <= x ->
     interp_known (k1 ++ [(xa, ya); (xb, yb)]) x =x= XFin (ya + (yb - ya) * (x - xa) / (xb - xa))).
Proof. exact (conj known_increasing (conj interp_known_between (conj interp_known_left interp_known_right))). Qed.
Print Assumptions C17_interp_known_char.

(* ---- decreasing_cdfs ---- *)
(* flagged exactly when the total decrease (sum of the positive parts of l_i - l_{i+1}) exceeds the tolerance *)
Theorem C17_decreasing_iff_total_decrease_exceeds_tol : forall tol l,
  decreasing_line tol (fins l) = true <-> tol < qdec l.
Proof. exact decreasing_iff_total_decrease_exceeds_tol. Qed.
Print Assumptions C17_decreasing_iff_total_decrease_exceeds_tol.
Theorem C17_decreasing_never_flags_nan_or_monotone : forall tol, 0 <= tol ->
  (forall l, decreasing_line tol (blank l) = false) /\ (forall l, nondec l -> decreasing_line tol (fins l) = false).
Proof. exact (fun tol H => conj (fun l => decreasing_blank tol l H) (fun l => nondecreasing_never_flagged tol l H)). Qed.
Print Assumptions C17_decreasing_never_flags_nan_or_monotone.

(* ---- adjust_fcst_for_crps ---- *)
(* the result is decided case by case: adjust_choice applied to the NaN-propagated line, with the CRPS (adjust_tot)
   taken on the common grid ... *)
Theorem C17_adjust_per_case : forall tol ft cases add ffm exact res,
  adjust_cases tol ft cases add ffm exact = Ok res ->
  res = map (fun c => adjust_choice tol (adjust_tot ft cases add ffm exact (snd c)) (propagate_nan_m (fst c))) cases.
Proof. exact adjust_cases_spec. Qed.
Print Assumptions C17_adjust_per_case.
(* ... which is the grid crps_cdf itself uses for the original and for the adjusted array (same observations) *)
Theorem C17_adjust_grid_is_crps_grid : forall ft cases add (fs : list (list xv)),
  length fs = length cases -> adjust_grid ft cases add = union_grid ft None (as_cases fs cases) add.
Proof. exact adjust_grid_is_crps_grid. Qed.
Print Assumptions C17_adjust_grid_is_crps_grid.

(* unchanged when nothing decreases beyond the tolerance *)
Theorem C17_adjust_unchanged_when_ok : forall tol ft cases add ffm exact res,
  adjust_cases tol ft cases add ffm exact = Ok res ->
  (forall c, In c cases -> decreasing_line tol (propagate_nan_m (fst c)) = false) ->
  res = map (fun c => propagate_nan_m (fst c)) cases.
Proof. exact adjust_unchanged_when_ok. Qed.
Print Assumptions C17_adjust_unchanged_when_ok.

(* a flagged line becomes the FIRST of (original, upper, lower) whose CRPS is maximal among the non-NaN scores
   (tie order original, upper, lower); with all three scores NaN it stays as it is *)
Theorem C17_adjust_picks_argmax : forall tol (tot : list xv -> xv) f,
  decreasing_line tol f = true ->
  let cands := [f; env_upper f; env_lower f] in
  (tot f = XNaN /\ tot (env_upper f) = XNaN /\ tot (env_lower f) = XNaN /\ adjust_choice tol tot f = f) \/
  exists i, (i < 3)%nat /\ adjust_choice tol tot f = nth i cands f /\
    tot (nth i cands f) <> XNaN /\
    (forall j, (j < 3)%nat -> tot (nth j cands f) = XNaN \/ xle (tot (nth j cands f)) (tot (nth i cands f)) = true) /\
    (forall j, (j < i)%nat -> tot (nth j cands f) = XNaN \/ xlt (tot (nth j cands f)) (tot (nth i cands f)) = true).
Proof. exact adjust_picks_argmax. Qed.
Print Assumptions C17_adjust_picks_argmax.

(* never flatters: CRPS(adjusted) >= CRPS(original), per case, for every way of scoring *)
Theorem C17_adjust_never_flatters : forall tol (tot : list xv -> xv) f,
  tot f = XNaN \/ xle (tot f) (tot (adjust_choice tol tot f)) = true.
Proof. exact adjust_never_flatters. Qed.
Print Assumptions C17_adjust_never_flatters.

(* non-vacuity: the docstring example of cdf_envelope, and a flagged line *)
Example C17_example_envelope :
  env_upper (fins [0; 1#2; 1#5; 4#5; 1]) = fins [0; 1#2; 1#2; 4#5; 1] /\
  Forall2 xeq (env_lower (fins [0; 1#2; 1#5; 4#5; 1])) (fins [0; 1#5; 1#5; 4#5; 1]) /\
  decreasing_line (1#10) (fins [0; 2#5; 3#10; 9#10; 22#25; 1]) = true /\
  decreasing_line (3#25) (fins [0; 2#5; 3#10; 9#10; 22#25; 1]) = false.
Proof. vm_compute. repeat split; repeat constructor. Qed.

(* ---- propagate_nan, observed_cdf, round_values "do what their names say" ---- *)
Theorem C17_propagate_nan_char : forall l,
  (In XNaN l -> propagate_nan_m l = map (fun _ => XNaN) l) /\
  (~ In XNaN l -> propagate_nan_m l = l) /\
  length (propagate_nan_m l) = length l /\
  propagate_nan_m (propagate_nan_m l) = propagate_nan_m l.
Proof. exact propagate_char. Qed.
Print Assumptions C17_propagate_nan_char.

Theorem C17_observed_cdf_char : forall o grid,
  length (observed_cdf_line o grid) = length grid /\
  (o = XNaN -> observed_cdf_line o grid = map (fun _ => XNaN) grid) /\
  (forall y, o = XFin y -> observed_cdf_line o grid = map (fun g => if Qle_bool y g then XFin 1 else XFin 0) grid).
Proof. exact observed_cdf_char. Qed.
Print Assumptions C17_observed_cdf_char.

(* first step of round_values: an integer multiple of the precision, at most half a precision away, and no other multiple
   is closer; numpy's round-half-to-even decides exact ties *)
Theorem C17_round_to_nearest_multiple : forall p x, 0 < p ->
  exists k : Z, round_to p x == inject_Z k * p /\ Qabs (round_to p x - x) <= p / 2 /\
                forall k' : Z, Qabs (round_to p x - x) <= Qabs (inject_Z k' * p - x).
Proof. exact round_to_char. Qed.
Print Assumptions C17_round_to_nearest_multiple.

Theorem C17_round_ties_to_even : forall x, x - inject_Z (Qfloor x) == 1 # 2 -> Z.even (round_half_even x) = true.
Proof. exact round_half_even_tie_even. Qed.
Print Assumptions C17_round_ties_to_even.

Theorem C17_round_values_char : forall p fin v,
  (p == 0 -> round_values_m p fin v = v) /\
  (forall x, 0 < p -> v = XFin x -> round_values_m p false v = XFin (round_to p x)) /\
  (match v with XFin _ => True | _ => round_values_m p fin v = v end).
Proof. exact round_values_char. Qed.
Print Assumptions C17_round_values_char.

Theorem C17_round_values_final_round_is_small : forall p x, 0 < p ->
  exists y, round_values_m p true (XFin x) = XFin y /\ Qabs (y - round_to p x) <= 1 # 20000000.
Proof. exact round_values_final_close. Qed.
Print Assumptions C17_round_values_final_round_is_small.

Example C17_round_nonvacuous :
  round_values_m (1 # 5) false (XFin (373 # 100)) = XFin (round_to (1#5) (373#100)) /\ round_to (1 # 5) (373 # 100) == 19 # 5 /\
  round_to 20 (373 # 10) == 40 /\ round_half_even (5 # 2) = 2%Z /\ round_half_even (7 # 2) = 4%Z.
Proof. repeat split; vm_compute; reflexivity. Qed.

(* ---- adjust_fcst_for_crps ranks the candidates with the caller's own CRPS options: the arguments of its single crps_cdf
   call, read off crps_impl.py on every run (translator site C17.fwd; crps_options = threshold_dim, additional_thresholds,
   fcst_fill_method, integration_method) ---- *)
Theorem C17_code_adjust_forwards_every_crps_option : forall k, In k crps_options ->
  In k gen_adjust_crps_call_formals /\ In (k, k) gen_adjust_crps_call_keywords.
Proof. exact adjust_forwards_every_crps_option. Qed.
Print Assumptions C17_code_adjust_forwards_every_crps_option.

Theorem C17_code_adjust_passes_nothing_else : forall k v, In (k, v) gen_adjust_crps_call_keywords ->
  (In k crps_options /\ v = k) \/ (k = "preserve_dims"%string /\ v = "crps_dims"%string).
Proof. exact adjust_passes_nothing_else. Qed.
Print Assumptions C17_code_adjust_passes_nothing_else.

Theorem C17_code_adjust_scores_candidates_against_obs :
  gen_adjust_crps_call_positional = ["fcst_env"%string; "obs"%string].
Proof. exact adjust_scores_candidates_against_obs. Qed.
Print Assumptions C17_code_adjust_scores_candidates_against_obs.
