(* props/C17.v -- property C17: CDF repair tools bracket the input minimally; CRPS adjustment never flatters. *)
From V Require Import lib.Tree model.Cdf proofs.C17.

(* a line with fewer than min_nonnan non-NaN ordinates is blanked, whatever the method *)
Theorem C17_fill_blank_when_too_few : forall m mn ts ys,
  (nancount ys < mn)%nat -> fill_line m mn ts ys = blank ys.
Proof. exact fill_blank_when_too_few. Qed.
Print Assumptions C17_fill_blank_when_too_few.
