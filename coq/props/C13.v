(* props/C13.v -- property C13: Brier scores equal their definitions, including the fair ensemble
   correction.  Only statements; every proof is `exact <lemma>` into coq/proofs/C13.v.
   gen_brier_ens_cell / gen_c13_sqerr are regenerated from brier_impl.py / standard_impl.py on every run;
   member counting (list folds, any ensemble size) is the hand model of coq/model/C13.v. *)
From V Require Import lib.Tree gen.Gen_C13_kern model.C13 proofs.C13.

(* the regenerated per-case formula, fed with i event members out of m >= 1 valid members and a binary
   observation y, is (i/m - y)^2 minus -- when requested and m > 1 -- i(m-i)/(m^2 (m-1)); with m = 1 the
   correction is 0 (0/0 filled with 0) *)
Theorem C13_brier_cell_spec : forall (i m : nat) (y : Q) (fair : bool), (i <= S m)%nat ->
  gen_brier_ens_cell (xofnat i) (xofnat (S m)) (XFin y) fair =x=
  XFin ((qnat i / qnat (S m) - y) * (qnat i / qnat (S m) - y)
        - (if fair && (1 <? S m)%nat then qnat i * (qnat (S m) - qnat i) / (qnat (S m) * qnat (S m) * (qnat (S m) - 1)) else 0)).
Proof. exact brier_cell_spec. Qed.
Print Assumptions C13_brier_cell_spec.

(* no valid member: NaN (0/0), with or without the correction *)
Theorem C13_brier_cell_no_member : forall (y : xv) (fair : bool),
  gen_brier_ens_cell (xofnat 0) (xofnat 0) y fair = XNaN.
Proof. exact brier_cell_m0. Qed.
Print Assumptions C13_brier_cell_no_member.

(* brier_ens_spec: for EVERY ensemble (any size; NaN and infinite members allowed), observation, threshold,
   each of the four operators and fair on/off, the per-case model equals the specification in which
   m counts the non-NaN members, i those meeting the event relation, y the observed event *)
Theorem C13_brier_ens_spec : forall (op : evop) (fair : bool) (t : xv) (ms : list xv) (o : xv),
  brier_ens_case op fair t ms o =x=
  (if xisnan o || xisnan t then XNaN
   else brier_spec_q (length (filter (fun x => evop_test op x t) ms)) (length (filter xvalid ms))
                     (if evop_test op o t then 1 else 0) fair).
Proof. exact brier_ens_case_spec. Qed.
Print Assumptions C13_brier_ens_spec.

(* i <= m: a NaN member never counts as forecasting the event *)
Theorem C13_event_members_le_valid : forall op t ms,
  (member_event_count op t ms <= total_member_count ms)%nat.
Proof. exact count_le_total. Qed.
Print Assumptions C13_event_members_le_valid.

(* a NaN member is as if it were absent *)
Theorem C13_brier_nan_member_skipped : forall op fair t l1 l2 o,
  brier_ens_case op fair t (l1 ++ XNaN :: l2) o = brier_ens_case op fair t (l1 ++ l2) o.
Proof. exact brier_nan_member. Qed.
Print Assumptions C13_brier_nan_member_skipped.

(* the score of a case is NaN exactly when no member is valid or the observation / threshold is NaN *)
Theorem C13_brier_ens_nan_iff : forall op fair t ms o,
  brier_ens_case op fair t ms o = XNaN <-> (total_member_count ms = 0%nat \/ o = XNaN \/ t = XNaN).
Proof. exact brier_ens_nan_iff. Qed.
Print Assumptions C13_brier_ens_nan_iff.

(* brier_complementary: >= vs < and > vs <= give the same score, for every ensemble, observation and
   threshold -- ties with the threshold, NaN members and single-member cases included *)
Theorem C13_brier_complementary_ge_lt : forall fair t ms o,
  brier_ens_case OpLt fair t ms o =x= brier_ens_case OpGe fair t ms o.
Proof. exact (brier_complementary OpGe). Qed.
Print Assumptions C13_brier_complementary_ge_lt.

Theorem C13_brier_complementary_gt_le : forall fair t ms o,
  brier_ens_case OpLe fair t ms o =x= brier_ens_case OpGt fair t ms o.
Proof. exact (brier_complementary OpGt). Qed.
Print Assumptions C13_brier_complementary_gt_le.

(* the same at the level of the whole per-case array (every forecast case x threshold cell), and the array of the
   regenerated-formula model agrees cell by cell with the specification array used by the check's property predicate *)
Theorem C13_brier_array_complementary : forall fcst obs ens tdim ts op fair e,
  lget (brier_ens_pointwise brier_ens_case fcst obs ens tdim ts (compl op) fair) e =x=
  lget (brier_ens_pointwise brier_ens_case fcst obs ens tdim ts op fair) e.
Proof. exact brier_pointwise_complementary. Qed.
Print Assumptions C13_brier_array_complementary.

Theorem C13_brier_array_spec : forall fcst obs ens tdim ts op fair e,
  lget (brier_ens_pointwise brier_ens_case fcst obs ens tdim ts op fair) e =x=
  lget (brier_ens_pointwise brier_ens_spec fcst obs ens tdim ts op fair) e.
Proof. exact brier_pointwise_spec. Qed.
Print Assumptions C13_brier_array_spec.

(* brier_is_mse_on_valid_inputs: with checking on, brier_score IS the MSE model when every non-NaN forecast
   lies in [0,1] and every non-NaN observation is 0 or 1, and raises ValueError otherwise; the regenerated
   squared-error kernel is (f - o)^2 *)
Theorem C13_brier_is_mse_on_valid_inputs : forall f o rd pd w,
  Forall val01 (lvalues f) -> Forall valbin (lvalues o) ->
  brier_score_m f o rd pd w true = mse_m f o rd pd w.
Proof. exact brier_score_is_mse. Qed.
Print Assumptions C13_brier_is_mse_on_valid_inputs.

Theorem C13_brier_rejects_invalid_inputs : forall f o rd pd w,
  ~ (Forall val01 (lvalues f) /\ Forall valbin (lvalues o)) ->
  brier_score_m f o rd pd w true = Err ValueError.
Proof. exact brier_score_rejects. Qed.
Print Assumptions C13_brier_rejects_invalid_inputs.

Theorem C13_brier_unchecked_is_mse : forall f o rd pd w,
  brier_score_m f o rd pd w false = mse_m f o rd pd w.
Proof. exact brier_score_unchecked. Qed.
Print Assumptions C13_brier_unchecked_is_mse.

Theorem C13_sqerr_kernel : forall f o : Q, gen_c13_sqerr (XFin f) (XFin o) =x= XFin ((f - o) * (f - o)).
Proof. exact sqerr_spec. Qed.
Print Assumptions C13_sqerr_kernel.

Theorem C13_sqerr_spec_kernel_agrees : forall f o : xv, sqerr_spec_x f o =x= gen_c13_sqerr f o.
Proof. exact sqerr_spec_x_ok. Qed.
Print Assumptions C13_sqerr_spec_kernel_agrees.

(* every output cell of the MSE model is the NaN-skipping mean, over the reduced dimensions, of
   weight * squared error *)
Theorem C13_mse_is_mean_of_squared_error : forall f o rd pd w r e,
  mse_m f o rd pd w = Ok r ->
  exists R, gather (ldims f) (ldims o) None rd pd DNone = Ok R /\
    let s := apply_weights w (lzip gen_c13_sqerr f o) in
    lget r e = nanmean (map (lget s) (envs (lsize s) (dinter (ldims s) R) e)).
Proof. exact mse_m_value. Qed.
Print Assumptions C13_mse_is_mean_of_squared_error.

(* non-vacuity: a 3-member ensemble with a tie and a NaN member; m = 2, i = 1 (>=), y = 1 *)
Example C13_ex_tie : brier_ens_case OpGe true (XFin 2) [XFin 2; XNaN; XFin 1] (XFin 2) =x= XFin (((1#2) - 1) * ((1#2) - 1) - (1#4)).
Proof. vm_compute. reflexivity. Qed.
Example C13_ex_single : brier_ens_case OpGt true (XFin 2) [XNaN; XFin 3] (XFin 2) =x= XFin 1.
Proof. vm_compute. reflexivity. Qed.
Example C13_ex_valid : val01 (XFin (1#2)) /\ valbin (XFin 1) /\ valbin XNaN.
Proof. simpl. repeat split; try lra. Qed.
