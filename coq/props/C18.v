(* props/C18.v -- property C18: the flip-flop index is total variation minus range.
   Only statements; every proof is `exact <lemma>` into coq/proofs.
   `ff_linear` is the model of _flip_flop_index along the sampling dimension (coq/model/C18.v);
   `fins l` embeds a list of rationals as finite values. *)
From V Require Import lib.Tree gen.Gen_functions gen.Gen_C18_kern model.C18 proofs.C18 proofs.C18_mod proofs.C18_sector proofs.C18_rot proofs.C18_ang proofs.C18_prop proofs.C18_inf.
Open Scope list_scope.
Open Scope Q_scope.

(* the index of every sequence of N >= 3 rationals is (sum |x_i - x_{i+1}| - (max - min)) / (N - 2) *)
Theorem C18_ff_formula : forall l : list Q, (3 <= length l)%nat ->
  ff_linear (fins l) =x= XFin ((tvq l - (qmax_list l - qmin_list l)) / (inject_Z (Z.of_nat (length l) - 2))).
Proof. exact ff_linear_formula. Qed.
Print Assumptions C18_ff_formula.

(* qmax_list / qmin_list really are the maximum and the minimum of the sequence *)
Theorem C18_max_min_characterised : forall l : list Q, l <> [] ->
  (In (qmax_list l) l /\ forall x, In x l -> x <= qmax_list l) /\
  (In (qmin_list l) l /\ forall x, In x l -> qmin_list l <= x).
Proof. exact (fun l H => conj (qmax_list_spec l H) (qmin_list_spec l H)). Qed.
Print Assumptions C18_max_min_characterised.

(* total variation dominates the range, so the index is never negative *)
Theorem C18_ff_nonneg : forall l : list Q, (3 <= length l)%nat ->
  exists v, ff_linear (fins l) =x= XFin v /\ 0 <= v.
Proof. exact ff_linear_nonneg. Qed.
Print Assumptions C18_ff_nonneg.

(* zero for monotone sequences (non-decreasing or non-increasing) ... *)
Theorem C18_ff_zero_if_monotone : forall l : list Q, (3 <= length l)%nat ->
  monotone l -> ff_linear (fins l) =x= XFin 0.
Proof. exact ff_linear_zero_if_monotone. Qed.
Print Assumptions C18_ff_zero_if_monotone.

(* ... and only for those *)
Theorem C18_ff_zero_only_if_monotone : forall l : list Q, (3 <= length l)%nat ->
  ff_linear (fins l) =x= XFin 0 -> monotone l.
Proof. exact ff_linear_zero_only_if_monotone. Qed.
Print Assumptions C18_ff_zero_only_if_monotone.

(* unchanged by adding a constant, negating, reversing; scales with |c| *)
Theorem C18_ff_shift_invariant : forall (c : Q) (l : list Q), (3 <= length l)%nat ->
  ff_linear (fins (map (fun x => x + c) l)) =x= ff_linear (fins l).
Proof. exact ff_linear_shift. Qed.
Print Assumptions C18_ff_shift_invariant.

Theorem C18_ff_negation_invariant : forall l : list Q, (3 <= length l)%nat ->
  ff_linear (fins (map Qopp l)) =x= ff_linear (fins l).
Proof. exact ff_linear_neg. Qed.
Print Assumptions C18_ff_negation_invariant.

Theorem C18_ff_reversal_invariant : forall l : list Q, (3 <= length l)%nat ->
  ff_linear (fins (rev l)) =x= ff_linear (fins l).
Proof. exact ff_linear_rev. Qed.
Print Assumptions C18_ff_reversal_invariant.

Theorem C18_ff_abs_scaling : forall (c : Q) (l : list Q), (3 <= length l)%nat ->
  ff_linear (fins (map (Qmult c) l)) =x= xmul (XFin (Qabs c)) (ff_linear (fins l)).
Proof. exact ff_linear_scale. Qed.
Print Assumptions C18_ff_abs_scaling.

(* NaN iff the sequence contains a NaN (values NaN or rational; infinities are outside the property) *)
Theorem C18_ff_nan_iff : forall l : list xv, (3 <= length l)%nat -> (forall v, In v l -> xisinf v = false) ->
  (ff_linear l = XNaN <-> In XNaN l).
Proof. exact ff_linear_nan_iff. Qed.
Print Assumptions C18_ff_nan_iff.

(* ---- directional data ---- *)
(* every circular difference (kernel regenerated from functions.angular_difference) lies in [0,180] *)
Theorem C18_angular_difference_range : forall a b : Q,
  exists q, gen_angular_difference (XFin a) (XFin b) = XFin q /\ 0 <= q /\ q <= 180.
Proof. exact angular_difference_range. Qed.
Print Assumptions C18_angular_difference_range.

(* the range used by the angular index -- the modelled sector size capped at 180 -- is NaN or lies in [0,180] *)
Theorem C18_angular_range : forall l : list xv,
  let r := xclip_max (sector_x false l) (XFin 180) in r = XNaN \/ exists q, r = XFin q /\ 0 <= q /\ q <= 180.
Proof. exact angular_range. Qed.
Print Assumptions C18_angular_range.

(* the code-faithful model of _encompassing_sector_size_np (as repaired in /repo abf9f57: sort, gaps = (rolled - data) % 360,
   360 - largest gap, 0 when all directions coincide) equals 360 minus the largest gap between circularly adjacent
   directions:  sector_spec l = 360 - max (cgaps (sort (map (mod 360) l))) *)
Theorem C18_sector_code_eq_spec : forall l : list Q, l <> [] ->
  sector_x false (fins l) =x= XFin (360 - qmax_list (cgaps (qsort (map qmod360 l)))).
Proof. exact sector_code_eq_spec. Qed.
Print Assumptions C18_sector_code_eq_spec.

(* the routine as it was BEFORE the repair (adjacent differences folded at 180, argmax, rotation to the bounding angle,
   `max_of_rotated == second` test, `<= 2 distinct angles` shortcut; proofs/C18_mod.v: sector_core_v1) computes the same
   value in exact arithmetic: its defect (finding sector-near-duplicate-angles) was the floating-point comparison only *)
Theorem C18_sector_prerepair_routine_exact : forall d : list Q, d <> [] -> qsorted d -> in_range d ->
  sector_core_v1 d == 360 - qmax_list (cgaps d).
Proof. exact sector_core_v1_spec. Qed.
Print Assumptions C18_sector_prerepair_routine_exact.

(* ... which is the smallest arc that starts at one of the directions and covers all of them
   (cw p q = (q - p) mod 360 is the anticlockwise distance from p to q) *)
Theorem C18_sector_spec_is_smallest_arc : forall l : list Q, l <> [] ->
  sector_spec l == qmin_list (map (fun p => qmax_list (map (cw p) l)) l).
Proof. exact sector_spec_is_arc. Qed.
Print Assumptions C18_sector_spec_is_smallest_arc.

(* rotating all directions by any angle c leaves the sector size unchanged *)
Theorem C18_sector_rotation_invariant : forall (c : Q) (l : list Q), l <> [] ->
  sector_x false (fins (map (fun x => x + c) l)) =x= sector_x false (fins l).
Proof. exact sector_x_rotation. Qed.
Print Assumptions C18_sector_rotation_invariant.

(* the angular index of N >= 3 directions is (sum of circular differences - min(sector, 180)) / (N - 2) *)
Theorem C18_ff_angular_formula : forall l : list Q, (3 <= length l)%nat ->
  ff_angular (fins l) =x= XFin ((tv_ang l - qmin2 (sector_spec l) 180) / (inject_Z (Z.of_nat (length l) - 2))).
Proof. exact ff_angular_formula. Qed.
Print Assumptions C18_ff_angular_formula.

(* ... and is invariant under rotating all directions *)
Theorem C18_ff_angular_rotation_invariant : forall (c : Q) (l : list Q), (3 <= length l)%nat ->
  ff_angular (fins (map (fun x => x + c) l)) =x= ff_angular (fins l).
Proof. exact ff_angular_rotation. Qed.
Print Assumptions C18_ff_angular_rotation_invariant.

(* ---- proportion exceeding ---- *)
(* the NaN-skipping mean of the `>=` discretisation (kernel regenerated from processing/discretise.py) is the
   fraction of valid index values at or above the threshold (NaN when no index value is valid):
     prop_ge_spec l t = let v := valids l in match v with [] => XNaN | _ => XFin (#{x in v | x >= t} / #v) end *)
Theorem C18_proportion_exceeding_list_spec : forall (l : list xv) (t : Q),
  nanmean (map (fun x => exceed x (XFin t)) l) =x= prop_ge_spec l t.
Proof. exact proportion_list_spec. Qed.
Print Assumptions C18_proportion_exceeding_list_spec.

(* on arrays: each output cell is that fraction over the index values of the reduced dimensions *)
Theorem C18_proportion_exceeding_spec : forall (a : larr) (thr : list xv) (rd pd : dimspec) (r : larr),
  proportion_exceeding_m a thr rd pd = Ok r ->
  exists R, gather (ldims a) (ldims a) None rd pd DNone = Ok R /\
    forall e t, nth (e "threshold"%string) thr XNaN = XFin t ->
      lget r e =x= prop_ge_spec (map (lget a) (envs (lsize a) (dinter (ldims a) R) e)) t.
Proof. exact proportion_array_spec. Qed.
Print Assumptions C18_proportion_exceeding_spec.

(* infinite thresholds (catch-all bin edges): only a NaN index is missing, an infinite threshold compares as usual.
   For every threshold that is not NaN the proportion is the fraction of valid index values at or above it ... *)
Theorem C18_proportion_exceeding_any_threshold : forall (l : list xv) (t : xv), t <> XNaN ->
  nanmean (map (fun x => exceed x t) l) =x= prop_ge_spec_x l t.
Proof. exact proportion_list_spec_x. Qed.
Print Assumptions C18_proportion_exceeding_any_threshold.

(* ... hence 1 at -inf whenever a valid index exists (NaN only when none is valid) ... *)
Theorem C18_proportion_exceeding_neg_inf : forall l : list xv,
  nanmean (map (fun x => exceed x (XInf false)) l) =x= match valids l with [] => XNaN | _ => XFin 1 end.
Proof. exact proportion_neg_inf. Qed.
Print Assumptions C18_proportion_exceeding_neg_inf.

(* ... and 0 at +inf when the index values are NaN or rational *)
Theorem C18_proportion_exceeding_pos_inf : forall l : list xv, Forall (fun x => xisinf x = false) l ->
  nanmean (map (fun x => exceed x (XInf true)) l) =x= match valids l with [] => XNaN | _ => XFin 0 end.
Proof. exact proportion_pos_inf. Qed.
Print Assumptions C18_proportion_exceeding_pos_inf.

(* ---- arrays ---- *)
(* flip_flop_index / encompassing_sector_size on an array apply the sequence functions above to the values along the
   sampling (resp. the single collapsed) dimension, for every assignment of the remaining dimensions *)
Theorem C18_array_is_sequence_along_dim : forall (a : larr) (sd : dim) (ang : bool) (r : larr), ff_array a sd ang = Ok r ->
  forall e, lget r e = (if ang then ff_angular else ff_linear) (map (lget a) (envs (lsize a) (dinter (ldims a) [sd]) e)).
Proof. exact ff_array_get. Qed.
Print Assumptions C18_array_is_sequence_along_dim.

Theorem C18_sector_array_is_sequence_along_dim : forall (a : larr) (keep : list dim) (skipna : bool) (r : larr),
  sector_array a keep skipna = Ok r ->
  exists d, ddiff (ldims a) keep = [d] /\ forall e, lget r e = sector_x skipna (map (lget a) (envs (lsize a) (dinter (ldims a) [d]) e)).
Proof. exact sector_array_get. Qed.
Print Assumptions C18_sector_array_is_sequence_along_dim.

(* ---- selections ---- *)
(* positions of the requested labels; KeyError when a label is absent; the selected array holds at position k
   of the sampling dimension the value at the k-th selected position, and the index is computed on it *)
Theorem C18_selection_positions : forall (labels vals : list Z) (pos : list nat),
  sel_positions labels vals = Ok pos -> Forall2 (fun v i => nth_error labels i = Some v) vals pos.
Proof. exact sel_positions_spec. Qed.
Print Assumptions C18_selection_positions.

Theorem C18_selection_absent_label : forall labels vals : list Z,
  (exists v, In v vals /\ ~ In v labels) -> sel_positions labels vals = Err KeyError.
Proof. exact sel_positions_absent. Qed.
Print Assumptions C18_selection_absent_label.

Theorem C18_selection_is_subsequence : forall (a : larr) (sd : dim) (pos : list nat) (e : env),
  lget (lselect a sd pos) e = lget a (upd e sd (nth (e sd) pos O)).
Proof. exact lselect_get. Qed.
Print Assumptions C18_selection_is_subsequence.

(* non-vacuity: the docstring example, a monotone and a non-monotone sequence, a NaN *)
Example C18_ex_docstring : ff_linear (fins [50; 20; 40; 80]) =x= XFin 15.
Proof. vm_compute. reflexivity. Qed.
Example C18_ex_monotone : monotone [1; 1; 2; 5] /\ ff_linear (fins [1; 1; 2; 5]) =x= XFin 0.
Proof. split; [left; simpl; repeat split; lra | vm_compute; reflexivity]. Qed.
Example C18_ex_nan : ff_linear [XFin 1; XNaN; XFin 3] = XNaN.
Proof. reflexivity. Qed.
Example C18_ex_sector : sector_x false (fins [350; 10; 20]) =x= XFin 30 /\ sector_x false (fins [0; 180]) =x= XFin 180.
Proof. split; vm_compute; reflexivity. Qed.
Example C18_ex_angular : ff_angular (fins [350; 10; 350; 20]) =x= XFin 20.
Proof. vm_compute. reflexivity. Qed.
Example C18_ex_infinite_thresholds :
  forallb (fun p => xeqb (fst p) (snd p))
    (combine (map (fun t => nanmean (map (fun x => exceed x t) [XFin 15; XFin 40; XFin 10; XNaN])) [XInf false; XFin 0; XFin 20; XInf true])
             [XFin 1; XFin 1; XFin (1 # 3); XFin 0]) = true.
Proof. vm_compute. reflexivity. Qed.
