(* props/C18.v -- property C18: the flip-flop index is total variation minus range.
   Only statements; every proof is `exact <lemma>` into coq/proofs.
   `ff_linear` is the model of _flip_flop_index along the sampling dimension (coq/model/C18.v);
   `fins l` embeds a list of rationals as finite values. *)
From V Require Import lib.Tree gen.Gen_functions model.C18 proofs.C18.
Open Scope list_scope.
Open Scope Q_scope.

(* the index of every sequence of N >= 3 rationals is (sum |x_i - x_{i+1}| - (max - min)) / (N - 2) *)
Theorem C18_ff_formula : forall l : list Q, (3 <= length l)%nat ->
  ff_linear (fins l) =x= XFin ((tvq l - (qmax_list l - qmin_list l)) / (inject_Z (Z.of_nat (length l) - 2))).
Proof. exact ff_linear_formula. Qed.
Print Assumptions C18_ff_formula.

(* qmax_list / qmin_list really are the maximum and the minimum of the sequence *)
Theorem C18_max_min_characterised : forall l : list Q, l <> [] ->
  (In (qmax_list l) l /\ forall x, In x l -> x <= qmax_list l) /\
  (In (qmin_list l) l /\ forall x, In x l -> qmin_list l <= x).
Proof. exact (fun l H => conj (qmax_list_spec l H) (qmin_list_spec l H)). Qed.
Print Assumptions C18_max_min_characterised.

(* total variation dominates the range, so the index is never negative *)
Theorem C18_ff_nonneg : forall l : list Q, (3 <= length l)%nat ->
  exists v, ff_linear (fins l) =x= XFin v /\ 0 <= v.
Proof. exact ff_linear_nonneg. Qed.
Print Assumptions C18_ff_nonneg.

(* zero for monotone sequences (non-decreasing or non-increasing) ... *)
Theorem C18_ff_zero_if_monotone : forall l : list Q, (3 <= length l)%nat ->
  monotone l -> ff_linear (fins l) =x= XFin 0.
Proof. exact ff_linear_zero_if_monotone. Qed.
Print Assumptions C18_ff_zero_if_monotone.

(* ... and only for those *)
Theorem C18_ff_zero_only_if_monotone : forall l : list Q, (3 <= length l)%nat ->
  ff_linear (fins l) =x= XFin 0 -> monotone l.
Proof. exact ff_linear_zero_only_if_monotone. Qed.
Print Assumptions C18_ff_zero_only_if_monotone.

(* unchanged by adding a constant, negating, reversing; scales with |c| *)
Theorem C18_ff_shift_invariant : forall (c : Q) (l : list Q), (3 <= length l)%nat ->
  ff_linear (fins (map (fun x => x + c) l)) =x= ff_linear (fins l).
Proof. exact ff_linear_shift. Qed.
Print Assumptions C18_ff_shift_invariant.

Theorem C18_ff_negation_invariant : forall l : list Q, (3 <= length l)%nat ->
  ff_linear (fins (map Qopp l)) =x= ff_linear (fins l).
Proof. exact ff_linear_neg. Qed.
Print Assumptions C18_ff_negation_invariant.

Theorem C18_ff_reversal_invariant : forall l : list Q, (3 <= length l)%nat ->
  ff_linear (fins (rev l)) =x= ff_linear (fins l).
Proof. exact ff_linear_rev. Qed.
Print Assumptions C18_ff_reversal_invariant.

Theorem C18_ff_abs_scaling : forall (c : Q) (l : list Q), (3 <= length l)%nat ->
  ff_linear (fins (map (Qmult c) l)) =x= xmul (XFin (Qabs c)) (ff_linear (fins l)).
Proof. exact ff_linear_scale. Qed.
Print Assumptions C18_ff_abs_scaling.

(* NaN iff the sequence contains a NaN (values NaN or rational; infinities are outside the property) *)
Theorem C18_ff_nan_iff : forall l : list xv, (3 <= length l)%nat -> (forall v, In v l -> xisinf v = false) ->
  (ff_linear l = XNaN <-> In XNaN l).
Proof. exact ff_linear_nan_iff. Qed.
Print Assumptions C18_ff_nan_iff.

(* proportion exceeding: the NaN-skipping mean of the `>=` discretisation is the fraction of valid
   index values at or above the threshold (NaN when no index value is valid):
     prop_ge_spec l t = let v := valids l in
                        match v with [] => XNaN | _ => XFin (#{x in v | x >= t} / #v) end *)
Theorem C18_proportion_exceeding_list_spec : forall (l : list xv) (t : Q),
  nanmean (map (fun x => exceed x (XFin t)) l) =x= prop_ge_spec l t.
Proof. exact proportion_list_spec. Qed.
Print Assumptions C18_proportion_exceeding_list_spec.

(* non-vacuity: the docstring example, a monotone and a non-monotone sequence, a NaN *)
Example C18_ex_docstring : ff_linear (fins [50; 20; 40; 80]) =x= XFin 15.
Proof. vm_compute. reflexivity. Qed.
Example C18_ex_monotone : monotone [1; 1; 2; 5] /\ ff_linear (fins [1; 1; 2; 5]) =x= XFin 0.
Proof. split; [left; simpl; repeat split; lra | vm_compute; reflexivity]. Qed.
Example C18_ex_nan : ff_linear [XFin 1; XNaN; XFin 3] = XNaN.
Proof. reflexivity. Qed.
