From V Require Import lib.Tree model.C15.
Theorem C15_placeholder : True. Proof. exact I. Qed.
Print Assumptions C15_placeholder.
