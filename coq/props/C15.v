(* props/C15.v -- property C15: isotonic regression returns the optimal monotone fit, independent of
   input order.  Only statements; every proof is `exact <lemma>` into coq/proofs.
   Vocabulary (coq/model/C15.v): an item is (observation, weight); a triple is (forecast, observation, weight);
   `tsort` is the tidy step's stable sort (forecast ascending, observation descending); `pav sv l` is the
   fit of the PAV state machine mirroring _contiguous_ir with block solver `sv`; `pav_blocks` its blocks
   (None only when out of fuel); `expand` repeats each block value over the block's items;
   `mean_sv` = solve SMean is the weighted mean (the model of scipy's isotonic_regression). *)
From Coq Require Import Permutation.
From V Require Import lib.Tree model.C15 proofs.C15 proofs.C15_mean proofs.C15_quant proofs.C15_perm proofs.C15_maxmin proofs.C15_order.
Open Scope list_scope.
Open Scope Q_scope.

(* the state machine never runs out of its fuel 3n (potential 2*#blocks + |rest|) *)
Theorem C15_pav_fuel_sufficient : forall (sv : list item -> Q) (l : list item), pav_blocks sv l <> None.
Proof. exact pav_fuel_sufficient. Qed.
Print Assumptions C15_pav_fuel_sufficient.

(* for ANY block solver: the blocks partition the input in order; each block is a never-merged single
   observation or carries solver(block observations); adjacent blocks have strictly increasing values;
   a block boundary only occurs where the observation strictly rises *)
Theorem C15_pav_blocks : forall (sv : list item -> Q) (l : list item), exists bs,
  pav_blocks sv l = Some bs /\ pav sv l = expand bs /\
  flat_map bitems bs = l /\
  Forall (fun b => bitems b <> [] /\ ((exists i, b = single i) \/ bval b = sv (bitems b))) bs /\
  adj (fun a b => bval a < bval b) bs /\
  adj (fun a b => fst (last (bitems a) (0, 0)) < fst (hd (0, 0) (bitems b))) bs.
Proof. exact pav_blocks_thm. Qed.
Print Assumptions C15_pav_blocks.

(* with solver [y] = y every maximal constant block of the fit equals the solver applied to the block *)
Theorem C15_pav_block_values : forall (sv : list item -> Q) (l : list item) (bs : list block),
  (forall i, sv [i] == fst i) -> pav_blocks sv l = Some bs -> Forall (fun b => bval b == sv (bitems b)) bs.
Proof. exact pav_block_values. Qed.
Print Assumptions C15_pav_block_values.

(* the library's own functionals satisfy that hypothesis (mean with a non-zero weight, any quantile level, max, min) *)
Theorem C15_solvers_fix_singletons : forall (q y w : Q),
  (~ w == 0 -> solve SMean [(y, w)] == y) /\ solve (SQuantile q) [(y, w)] == y /\ solve SMax [(y, w)] = y /\ solve SMin [(y, w)] = y.
Proof. exact (fun q y w => conj (solve_single_mean y w) (conj (solve_single_quantile q y w) (conj (solve_single_max y w) (solve_single_min y w)))). Qed.
Print Assumptions C15_solvers_fix_singletons.

(* the fit is non-decreasing and has one value per input pair *)
Theorem C15_pav_monotone : forall (sv : list item -> Q) (l : list item), nondecr (pav sv l) /\ length (pav sv l) = length l.
Proof. exact (fun sv l => conj (pav_nondecr sv l) (pav_length sv l)). Qed.
Print Assumptions C15_pav_monotone.

(* the tidy step yields a permutation sorted by forecast ascending, observation descending within ties *)
Theorem C15_tidy_sorted_permutation : forall l : list triple,
  Permutation (tsort l) l /\ adj (fun a b => tf a <= tf b /\ (tf a == tf b -> to b <= to a)) (tsort l).
Proof. exact tsort_thm. Qed.
Print Assumptions C15_tidy_sorted_permutation.

(* tied forecasts are pooled: adjacent tidy pairs with equal forecasts receive the same fitted value (any solver) *)
Theorem C15_pav_ties_pooled : forall (sv : list item -> Q) (l : list triple),
  adj (fun p q : triple * Q => tf (fst p) == tf (fst q) -> snd p = snd q) (combine (tsort l) (pav sv (map titem (tsort l)))).
Proof. exact tidy_ties_thm. Qed.
Print Assumptions C15_pav_ties_pooled.

(* the interpolating regression_func, evaluated at the k-th tidied forecast, returns the k-th fitted value (any solver):
   this is what `regression_values = ir_func(unique_fcst_sorted)` reads off *)
Theorem C15_regression_func_at_forecasts : forall (sv : list item -> Q) (l : list triple) (k : nat), (k < length l)%nat ->
  interp (map tf (tsort l)) (pav sv (map titem (tsort l))) (tf (nth k (tsort l) (0, 0, 0))) = XFin (nth k (pav sv (map titem (tsort l))) 0).
Proof. exact interp_at_forecasts. Qed.
Print Assumptions C15_regression_func_at_forecasts.

(* fcst_counts sums to the number of valid (NaN-free) pairs *)
Theorem C15_counts_sum : forall (a : args) (r : fit), isotonic_fit_m a = Ok r ->
  sum_counts (fit_summary r) = length (valid_triples (a_fcst a) (a_obs a) (a_w a)).
Proof. exact counts_sum_fit. Qed.
Print Assumptions C15_counts_sum.

(* mean functional, positive weights: the fit lies between the smallest and largest observation *)
Theorem C15_pav_mean_bounds : forall (l : list item) (v : Q), Forall (fun i : item => 0 < snd i) l ->
  In v (pav mean_sv l) -> lmin (ys l) <= v <= lmax (ys l).
Proof. exact pav_mean_bounds. Qed.
Print Assumptions C15_pav_mean_bounds.

(* ... and preserves the weighted mean: sum w_i fit_i = sum w_i y_i *)
Theorem C15_pav_mean_preserves_weighted_mean : forall l : list item, Forall (fun i : item => 0 < snd i) l ->
  sum_wv l (pav mean_sv l) == sum_wy l.
Proof. exact pav_mean_preserves_weighted_mean. Qed.
Print Assumptions C15_pav_mean_preserves_weighted_mean.

(* optimality: among all non-decreasing sequences z the fit has the least weighted squared error; the
   surplus of z is at least its weighted squared distance from the fit (prefix-mean condition + Abel summation) *)
Theorem C15_pav_mean_optimal : forall (l : list item) (z : list Q), Forall (fun i : item => 0 < snd i) l ->
  length z = length l -> nondecr z ->
  wsse l (pav mean_sv l) + wdist l (pav mean_sv l) z <= wsse l z.
Proof. exact pav_mean_optimal. Qed.
Print Assumptions C15_pav_mean_optimal.

(* ... hence the minimiser is unique *)
Theorem C15_pav_mean_unique : forall (l : list item) (z : list Q), Forall (fun i : item => 0 < snd i) l ->
  length z = length l -> nondecr z -> wsse l z <= wsse l (pav mean_sv l) -> Forall2 Qeq (pav mean_sv l) z.
Proof. exact pav_mean_unique. Qed.
Print Assumptions C15_pav_mean_unique.

(* ... and independent of the order of the input pairs: for two permutations of the same valid triples,
   the fitted values at equal forecasts agree *)
Theorem C15_mean_fit_order_independent : forall l1 l2 : list triple, Permutation l1 l2 ->
  Forall (fun i : item => 0 < snd i) (map titem l1) ->
  forall i j, (i < length l1)%nat -> (j < length l2)%nat ->
  tf (nth i (tsort l1) (0, 0, 0)) == tf (nth j (tsort l2) (0, 0, 0)) ->
  nth i (pav mean_sv (map titem (tsort l1))) 0 == nth j (pav mean_sv (map titem (tsort l2))) 0.
Proof. exact tsort_order_independent. Qed.
Print Assumptions C15_mean_fit_order_independent.

(* _nanquantile's linear-interpolation quantile of a column with at least one valid value is monotone in the level *)
Theorem C15_nanquantile_monotone_in_level : forall (col : list xv) (m q1 q2 : Q),
  (1 <= length (flat_map finq col))%nat -> 0 <= q1 -> q1 <= q2 -> q2 <= 1 ->
  exists x y, nq_col col (Some m) q1 = XFin x /\ nq_col col (Some m) q2 = XFin y /\ x <= y.
Proof. exact nq_col_monotone. Qed.
Print Assumptions C15_nanquantile_monotone_in_level.

(* ... so the lower confidence band never exceeds the upper one (confidence level in [0,1]) *)
Theorem C15_band_lower_le_upper : forall (col : list xv) (m conf : Q),
  (1 <= length (flat_map finq col))%nat -> 0 <= conf -> conf <= 1 ->
  exists x y, nq_col col (Some m) ((1 - conf) / 2) = XFin x /\ nq_col col (Some m) (1 - (1 - conf) / 2) = XFin y /\ x <= y.
Proof. exact band_col_ordered. Qed.
Print Assumptions C15_band_lower_le_upper.

(* ... and equals the max-min of block averages: at position i of the tidied sequence,
     max over j <= i of min over k >= i of the weighted mean of the observations j..k
   (seg l j k = items j..k; maxmin_item is the executable oracle the harness compares the implementation with) *)
Theorem C15_pav_mean_is_maxmin : forall (l : list item) (i : nat), Forall (fun it : item => 0 < snd it) l -> (i < length l)%nat ->
  nth i (pav mean_sv l) 0 ==
  lmax (map (fun j => lmin (map (fun k => wmean (seg l j k)) (seq i (length l - i)))) (seq 0 (i + 1))).
Proof. exact pav_mean_maxmin. Qed.
Print Assumptions C15_pav_mean_is_maxmin.

(* the fit depends on the forecasts only through their ORDER: for every strictly increasing relabelling phi of the forecast
   values the tidy step commutes with it ... *)
Theorem C15_tidy_commutes_with_forecast_relabelling : forall phi : Q -> Q,
  (forall a b, a < b -> phi a < phi b) -> (forall a b, a == b -> phi a == phi b) ->
  forall l : list triple, tsort (map (remap_f phi) l) = map (remap_f phi) (tsort l).
Proof. exact tsort_remap. Qed.
Print Assumptions C15_tidy_commutes_with_forecast_relabelling.

(* ... and the summary the function returns (unique forecasts, counts, fitted values; any functional / solver) is the
   relabelled summary: same counts, same values.  An infinite forecast -- for the code the largest / smallest explanatory
   value -- may therefore stand for ANY rational beyond the finite ones (what the entries c15_fit / c15_func / c15_maxmin do) *)
Theorem C15_fit_depends_on_forecast_order_only : forall phi : Q -> Q,
  (forall a b, a < b -> phi a < phi b) -> (forall a b, a == b -> phi a == phi b) ->
  forall (trunc : bool) (f : functional) (l : list triple),
  let l' := map (remap_f phi) l in
  uniq (map tf (tsort l')) (do_ir trunc f (tsort l')) = map (relabel phi) (uniq (map tf (tsort l)) (do_ir trunc f (tsort l))).
Proof. exact summary_remap. Qed.
Print Assumptions C15_fit_depends_on_forecast_order_only.

(* non-vacuity *)
Example C15_ex_mean : map Qred (pav mean_sv [(3, 1); (1, 1); (2, 1); (5, 1)]) = [2; 2; 2; 5].
Proof. vm_compute. reflexivity. Qed.
Example C15_ex_merge_order :       (* solver a[0]-len(a): the run [4;4;1] is absorbed in one call, then one step back *)
  map Qred (pav (solve SFirstMinusLen) [(0, 1); (4, 1); (4, 1); (1, 1)]) = [0; 1; 1; 1].
Proof. vm_compute. reflexivity. Qed.
Example C15_ex_weights : Forall (fun i : item => 0 < snd i) [(3, 2); (1, 1)] /\ map Qred (pav mean_sv [(3, 2); (1, 1)]) = [7 # 3; 7 # 3].
Proof. split; [repeat constructor; reflexivity | vm_compute; reflexivity]. Qed.

Example C15_ex_relabel :          (* x |-> 2x + 7 is strictly increasing: same counts and values at the relabelled forecasts *)
  let l := [(1, 3, 1); (0, 1, 1); (1, 0, 1); (5, 2, 1)] in
  uniq (map tf (tsort (map (remap_f (fun x => 2 * x + 7)) l))) (do_ir false FMean (tsort (map (remap_f (fun x => 2 * x + 7)) l)))
  = map (relabel (fun x => 2 * x + 7)) (uniq (map tf (tsort l)) (do_ir false FMean (tsort l))).
Proof. vm_compute. reflexivity. Qed.
