(* Extract.v -- extraction of the executable model (ExtrOcamlBasic only; Z, positive, Q, nat,
   string and ascii stay extracted inductive datatypes; no Extract Constant). *)
From Coq Require Import Extraction ExtrOcamlBasic.
From V Require Import lib.Tree model.Entries.
Extraction Language OCaml.
Extraction "../build/ocaml/model.ml" run_entry.
