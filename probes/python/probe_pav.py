import numpy as np
from scores.processing.isoreg_impl import _contiguous_ir
def pav_sm(y, solver):
    """functional state machine mirroring _contiguous_ir: blocks = (obs list, value)"""
    blocks=[([v],v) for v in y]
    if not blocks: return []
    done=[]; cur=blocks[0]; rest=blocks[1:]; steps=0
    while rest:
        steps+=1
        nxt=rest[0]
        if cur[1] < nxt[1]:
            done.append(cur); cur=nxt; rest=rest[1:]; continue
        # absorb the maximal run: nxt, then following blocks while prev >= next
        k=1
        while k < len(rest) and not (rest[k-1][1] < rest[k][1]): k+=1
        obs=cur[0]+[v for b in rest[:k] for v in b[0]]
        merged=(obs, solver(np.array(obs)))
        rest=rest[k:]
        if done:
            cur=done.pop(); rest=[merged]+rest
        else:
            cur=merged
    done.append(cur)
    assert steps <= 3*len(y)+1, (steps,len(y))
    return [b[1] for b in done for _ in b[0]]
rng=np.random.default_rng(0)
solvers={'mean':lambda a: float(np.mean(a)),'median':lambda a: float(np.median(a)),'max':lambda a: float(np.max(a)),
         'min':lambda a: float(np.min(a)),'const':lambda a: -100.0,'q30':lambda a: float(np.quantile(a,0.3)),
         'weird':lambda a: float(a[0]-len(a)), 'sum':lambda a: float(np.sum(a))}
bad=0;n=0
for t in range(4000):
    L=int(rng.integers(1,10)); y=rng.integers(0,6,L).astype(float)
    for name,s in solvers.items():
        n+=1
        a=_contiguous_ir(y.copy(),s); b=pav_sm(list(y),s)
        if not np.allclose(a,b):
            bad+=1
            if bad<6: print(name,y,a,b)
print('cases',n,'bad',bad)
