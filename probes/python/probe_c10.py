import numpy as np, xarray as xr, warnings
warnings.simplefilter("ignore")
from scores.continuous import *
from scores.categorical import firm
rng=np.random.default_rng(5)
bad=0
inf=np.inf
def chk(name,a,b):
    global bad
    if not np.allclose(a,b,equal_nan=True):
        bad+=1
        if bad<12: print(name,a,b)
for trial in range(200):
    n=6
    f=xr.DataArray(rng.integers(-4,5,n)/2.0,dims=['t']); o=xr.DataArray(rng.integers(-4,5,n)/2.0,dims=['t'])
    if rng.random()<0.3: f[rng.integers(n)]=np.nan
    alpha=float(rng.choice([0.1,0.25,0.5,0.75])); hp=float(rng.choice([0.5,1,2.5]))
    a,b=sorted(rng.choice(np.arange(-3,4),2,replace=False).astype(float))
    P=dict(preserve_dims='all')
    # weight 1
    chk('se1',tw_squared_error(f,o,(-inf,inf),**P),mse(f,o,**P))
    chk('ae1',tw_absolute_error(f,o,(-inf,inf),**P),mae(f,o,**P))
    chk('qs1',tw_quantile_score(f,o,alpha,(-inf,inf),**P),quantile_score(f,o,alpha,preserve_dims=['t']))
    d=f-o
    asym=xr.where(d>0,(1-alpha)*d**2,alpha*d**2)
    chk('ex1',tw_expectile_score(f,o,alpha,(-inf,inf),**P),asym)
    hub=xr.where(abs(d)<=hp,0.5*d**2,hp*(abs(d)-0.5*hp))
    chk('hub1',tw_huber_loss(f,o,hp,(-inf,inf),**P),hub)
    # partition rect
    for fn,args in ((tw_squared_error,()),(tw_absolute_error,()),(tw_quantile_score,(alpha,)),(tw_expectile_score,(alpha,)),(tw_huber_loss,(hp,))):
        tot=fn(f,o,*args,(-inf,inf),**P)
        s=fn(f,o,*args,(-inf,a),**P)+fn(f,o,*args,(a,b),**P)+fn(f,o,*args,(b,inf),**P)
        chk('part-rect '+fn.__name__,s,tot)
        # trapezoid + two complementary ramps: ramp up on [a,b], one on [b,c], down on [c,d]
        c=b+1.0; dd=c+1.5
        mid=fn(f,o,*args,(b,c),interval_where_positive=(a,dd),**P)
        left=fn(f,o,*args,(-inf,a),interval_where_positive=(-inf,b),**P)
        right=fn(f,o,*args,(dd,inf),interval_where_positive=(c,inf),**P)
        chk('part-trap '+fn.__name__,mid+left+right,tot)
        if (tot<-1e-12).any(): bad+=1; print('neg')
    # FIRM vs murphy
    th=[float(a),float(b)]; w=[1.0,2.5]
    fr=firm(f,o,alpha,th,w,preserve_dims='all')
    ms=murphy_score(f,o,th,functional='quantile',alpha=alpha,decomposition=True,preserve_dims='all')
    W=xr.DataArray(w,dims=['theta'],coords={'theta':th})
    chk('firm-murphy',fr.firm_score,(ms.total*W).sum('theta',skipna=False))
    chk('firm-murphy-over',fr.overforecast_penalty,(ms.overforecast*W).sum('theta',skipna=False))
    fr=firm(f,o,alpha,th,w,preserve_dims='all',discount_distance=hp)
    ms=murphy_score(f,o,th,functional='huber',huber_a=hp,alpha=alpha,decomposition=True,preserve_dims='all')
    chk('firm-murphy-huber',fr.firm_score,(ms.total*W).sum('theta',skipna=False))
    # upper = lower mirrored
    fu=firm(f,o,alpha,th,w,preserve_dims='all',threshold_assignment='upper',discount_distance=hp)
    fl=firm(-f,-o,1-alpha,[-b,-a],[2.5,1.0],preserve_dims='all',threshold_assignment='lower',discount_distance=hp)
    chk('firm-mirror',fu.firm_score,fl.firm_score)
    chk('firm-mirror-over',fu.overforecast_penalty,fl.underforecast_penalty)
print('bad',bad)
