import numpy as np, xarray as xr, operator, warnings
warnings.simplefilter("ignore")
from scores.continuous import *
from scores.continuous.correlation import pearsonr
from scores.probability import *
from scores.categorical import *
from scores.processing import binary_discretise_proportion
from scores.emerging import risk_matrix_score
rng=np.random.default_rng(4)
bad={}
def val(r):
    if isinstance(r,xr.Dataset): r=r.to_array()
    return np.asarray(r.values,dtype=float)
for trial in range(150):
    n=9
    f=rng.integers(0,5,n).astype(float); o=rng.integers(0,5,n).astype(float); w=rng.integers(0,3,n).astype(float)
    mf=rng.random(n)<.2; mo=rng.random(n)<.2; mw=rng.random(n)<.2
    f[mf]=np.nan; o[mo]=np.nan; w[mw]=np.nan
    keep=~(mf|mo|mw); keep_nw=~(mf|mo)
    if keep.sum()<3: continue
    def da(x): return xr.DataArray(x,dims=['t'],coords={'t':np.arange(len(x))})
    F,O,W=da(f),da(o),da(w)
    Fd,Od,Wd=da(f[keep]),da(o[keep]),da(w[keep])
    Fn,On=da(f[keep_nw]),da(o[keep_nw])
    fb=(F>2).astype(float).where(F.notnull()); obb=(O>2).astype(float).where(O.notnull())
    fbd=da(fb.values[keep]); obd=da(obb.values[keep])
    wf={
     'mse':lambda a,b,w: mse(a,b,weights=w),'mae':lambda a,b,w: mae(a,b,weights=w),'rmse':lambda a,b,w: rmse(a,b,weights=w),
     'additive_bias':lambda a,b,w: additive_bias(a,b,weights=w),'multiplicative_bias':lambda a,b,w: multiplicative_bias(a,b,weights=w),
     'pbias':lambda a,b,w: pbias(a,b,weights=w),'quantile_score':lambda a,b,w: quantile_score(a,b,0.3,weights=w),
     'qis':lambda a,b,w: quantile_interval_score(a,a+1,b,0.1,0.8,weights=w),
     'tw_se':lambda a,b,w: tw_squared_error(a,b,(1,3),weights=w),'tw_hub':lambda a,b,w: tw_huber_loss(a,b,1.5,(1,2),interval_where_positive=(0,3),weights=w),
     'firm':lambda a,b,w: firm(a,b,0.3,[1,2],[1,2],discount_distance=1.0,weights=w),
    }
    for k,fn in wf.items():
        a=val(fn(F,O,W)); b=val(fn(Fd,Od,Wd))
        if not np.allclose(a,b,equal_nan=True): bad[k]=bad.get(k,0)+1; 
    nw={
     'kge':lambda a,b: kge(a,b),'pearsonr':lambda a,b: pearsonr(a,b),
     'murphy':lambda a,b: murphy_score(a,b,[1.,2.],functional='expectile',alpha=0.3,decomposition=True),
     'contingency':lambda a,b: ThresholdEventOperator().make_contingency_manager(a,b,event_threshold=2).get_table(),
     'bdp':lambda a,b: binary_discretise_proportion(a,[1,2],'>='),
    }
    for k,fn in nw.items():
        if k=='bdp':
            a=val(fn(F,O)); b=val(fn(da(f[~mf]),None))
        else:
            a=val(fn(F,O)); b=val(fn(Fn,On))
        if not np.allclose(a,b,equal_nan=True): bad[k]=bad.get(k,0)+1
    for k,fn in {'pod':probability_of_detection,'pofd':probability_of_false_detection,'brier':brier_score}.items():
        a=val(fn(fb if k!='brier' else F/4,obb,weights=W)); b=val(fn(fbd if k!='brier' else Fd/4,obd,weights=Wd))
        if not np.allclose(a,b,equal_nan=True): bad[k]=bad.get(k,0)+1
print('bad',bad)
