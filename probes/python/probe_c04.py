import numpy as np, xarray as xr, operator, warnings, itertools, dask
warnings.simplefilter("ignore")
src=open('probe_c01.py').read().split("issues={}")[0]
exec(src)
def canon(r):
    if isinstance(r,xr.Dataset): r=r.to_array('__var')
    return r
def same(a,b):
    a=canon(a); b=canon(b)
    if set(a.dims)!=set(b.dims): return False
    b=b.transpose(*a.dims)
    for d in a.dims:
        if d in a.coords and d in b.coords: b=b.sel({d:a[d].values})
    return np.allclose(np.asarray(a.values,dtype=float),np.asarray(b.values,dtype=float),equal_nan=True)
import scores
# redefine with explicit inputs so we can transform them
def variants(x):
    out={}
    out['T']=x.transpose(*reversed(x.dims))
    sh=x
    for d in x.dims:
        if d in x.coords and x.sizes[d]>1:
            idx=np.roll(np.arange(x.sizes[d]),1); sh=sh.isel({d:idx})
    out['shuffle']=sh
    out['dask']=x.chunk({d:1 for d in x.dims})
    return out
cases={
 'mse':(lambda f,o,**k: mse(f,o,**k),(f,o)),
 'mae':(lambda f,o,**k: mae(f,o,**k),(f,o)),
 'additive_bias':(lambda f,o,**k: additive_bias(f,o,**k),(f,o)),
 'multiplicative_bias':(lambda f,o,**k: multiplicative_bias(f,o,**k),(f,o)),
 'kge':(lambda f,o,**k: kge(f,o,**k),(f,o)),
 'pearsonr':(lambda f,o,**k: pearsonr(f,o,**k),(f,o)),
 'quantile_score':(lambda f,o,**k: quantile_score(f,o,0.3,**k),(f,o)),
 'qis':(lambda f,o,**k: quantile_interval_score(f,f+1,o,0.1,0.8,**k),(f,o)),
 'murphy':(lambda f,o,**k: murphy_score(f,o,[1.,2.],functional='huber',huber_a=1.0,alpha=0.3,decomposition=True,**k),(f,o)),
 'tw_se':(lambda f,o,**k: tw_squared_error(f,o,(1,3),**k),(f,o)),
 'tw_hub_trap':(lambda f,o,**k: tw_huber_loss(f,o,1.5,(1,2),interval_where_positive=(0,3),**k),(f,o)),
 'firm':(lambda f,o,**k: firm(f,o,0.3,[1,2],[1,2],discount_distance=1.0,**k),(f,o)),
 'pod':(lambda f,o,**k: probability_of_detection(f,o,**k),(fb,ob)),
 'brier':(lambda f,o,**k: brier_score(f,o,**k),(fp,ob)),
 'roc':(lambda f,o,**k: roc_curve_data(f,o,[0,0.25,0.5,0.75,1],**k),(fp,ob)),
 'crps_ens':(lambda f,o,**k: crps_for_ensemble(f,o,'m',include_components=True,**k),(fe,o)),
 'interval_tw':(lambda f,o,**k: interval_tw_crps_for_ensemble(f,o,'m',1.0,3.0,**k),(fe,o)),
 'brier_ens':(lambda f,o,**k: brier_score_for_ensemble(f,o,'m',[1,2],**k),(fe,o)),
 'crps_cdf':(lambda f,o,**k: crps_cdf(f,o,include_components=True,**k),(fc,o)),
 'crps_cdf_trapz':(lambda f,o,**k: crps_cdf(f,o,integration_method='trapz',**k),(fc,o)),
 'crps_brier':(lambda f,o,**k: crps_cdf_brier_decomposition(f,o,**k),(fc,o)),
 'contingency':(lambda f,o,**k: ThresholdEventOperator().make_contingency_manager(f,o,event_threshold=2).transform(**k).get_table(),(f,o)),
 'fss':(lambda f,o,**k: fss_2d(f,o,event_threshold=2,window_size=(2,2),spatial_dims=('x','y'),**k),(ff,fo)),
 'risk':(lambda f,o,**k: risk_matrix_score(f,o,dw,'sev','pt',**k),(rf,ro)),
 'bdp':(lambda f,o,**k: binary_discretise_proportion(f,[1,2],'>=',**k),(f,o)),
}
from scores.processing.cdf import cdf_envelope
from scores.probability import adjust_fcst_for_crps
cases['cdf_envelope']=(lambda f,o,**k: cdf_envelope(f,'threshold'),(fc,o))
cases['adjust']=(lambda f,o,**k: adjust_fcst_for_crps(f,'threshold',o),(fc.isel(threshold=[0,2,1]).assign_coords(threshold=[0.,2,4]),o))
from scores.continuous import flip_flop_index
cases['flipflop']=(lambda f,o,**k: flip_flop_index(f,'c'),(mk(['a','b','c'],nan=0).assign_coords(c=[0,1]),o))
D['t']=5
ffd=mk(['a','t'],0,7,0)*45.0
cases['flipflop_ang']=(lambda f,o,**k: flip_flop_index(f,'t',is_angular=True),(ffd,o))
for name,(fn,(F_,O_)) in cases.items():
    kw={} if name in('cdf_envelope','adjust','flipflop','flipflop_ang') else dict(reduce_dims=['a'])
    try: base=fn(F_,O_,**kw)
    except Exception as e: print(name,'BASE EXC',type(e).__name__,str(e)[:80]); continue
    res=[]
    for vn in ('T','shuffle','dask'):
        fv=variants(F_)[vn]; ov=variants(O_)[vn]
        F0=F_.copy(deep=True)
        try:
            r=fn(fv,ov,**kw)
            lazy=dask.is_dask_collection(r) if vn=='dask' else None
            ok=same(base,r)
            res.append((vn,ok,lazy))
        except Exception as e:
            res.append((vn,'EXC '+type(e).__name__+' '+str(e)[:60],None))
    print(name,res)
