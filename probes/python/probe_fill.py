import numpy as np, xarray as xr, warnings
from fractions import Fraction as F
warnings.simplefilter("ignore")
from scores.processing.cdf import fill_cdf, add_thresholds, decreasing_cdfs, cdf_envelope
rng=np.random.default_rng(2)
def model(xs,ys,method,min_nonnan):
    n=len(xs); idx=[i for i,v in enumerate(ys) if v is not None]
    if len(idx)<min_nonnan: return [None]*n
    out=list(ys)
    if method=='linear':
        for i in range(n):
            if ys[i] is None:
                left=[j for j in idx if j<i]; right=[j for j in idx if j>i]
                if left and right: a,b=left[-1],right[0]
                elif left: a,b=(left[-2],left[-1]) if len(left)>1 else (None,None)
                else: a,b=(right[0],right[1]) if len(right)>1 else (None,None)
                if a is None: out[i]=None; continue
                v=ys[a]+(ys[b]-ys[a])*F(xs[i]-xs[a])/F(xs[b]-xs[a]); out[i]=v
        out=[None if v is None else min(max(v,F(0)),F(1)) for v in out]
    elif method=='step':
        last=None
        for i in range(n):
            if ys[i] is not None: last=ys[i]
            out[i]=last if last is not None else F(0)
    elif method=='forward':
        last=None
        for i in range(n):
            if ys[i] is not None: last=ys[i]
            out[i]=last
        first=ys[idx[0]]
        out=[first if v is None else v for v in out]
    elif method=='backward':
        nxt=None
        for i in reversed(range(n)):
            if ys[i] is not None: nxt=ys[i]
            out[i]=nxt
        lastv=ys[idx[-1]]
        out=[lastv if v is None else v for v in out]
    return out
bad=0
for t in range(1500):
    n=int(rng.integers(2,7)); xs=sorted(rng.choice(np.arange(0,12),n,replace=False).tolist())
    ys=[F(int(v),8) for v in rng.integers(0,9,n)]
    ys=[None if rng.random()<0.4 else v for v in ys]
    for method,mn in (('linear',2),('step',1),('forward',1),('backward',1),('linear',3),('step',2)):
        da=xr.DataArray([[np.nan if v is None else float(v) for v in ys]],dims=['s','x'],coords={'x':[float(x) for x in xs]})
        got=fill_cdf(da,'x',method,mn).values[0]
        exp=model(xs,ys,method,mn)
        e=np.array([np.nan if v is None else float(v) for v in exp])
        if not np.allclose(got,e,equal_nan=True):
            bad+=1
            if bad<8: print(method,mn,xs,[None if v is None else str(v) for v in ys],got,e)
print('bad',bad)
