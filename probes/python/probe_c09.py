import numpy as np, xarray as xr, itertools, warnings
warnings.simplefilter("ignore")
from scores.categorical import BasicContingencyManager
def mgr(tp,fp,fn,tn):
    c={'tp_count':xr.DataArray(float(tp)),'tn_count':xr.DataArray(float(tn)),'fp_count':xr.DataArray(float(fp)),'fn_count':xr.DataArray(float(fn))}
    c['total_count']=c['tp_count']+c['tn_count']+c['fp_count']+c['fn_count']
    return BasicContingencyManager(c)
inv=['accuracy','threat_score','f1_score','heidke_skill_score','equitable_threat_score','odds_ratio','odds_ratio_skill_score']
def same(a,b):
    a=float(a);b=float(b)
    if np.isnan(a) and np.isnan(b): return True
    if np.isinf(a) or np.isinf(b): return a==b
    return abs(a-b)<=1e-12*max(1,abs(a))
bad={}
N=4
for tp,fp,fn,tn in itertools.product(range(N),repeat=4):
    m=mgr(tp,fp,fn,tn); s=mgr(tp,fn,fp,tn)
    with np.errstate(all='ignore'):
        for k in inv:
            if not same(getattr(m,k)(),getattr(s,k)()):
                bad.setdefault(k,[]).append(((tp,fp,fn,tn),float(getattr(m,k)()),float(getattr(s,k)())))
        if not same(m.probability_of_detection(), s.success_ratio()): bad.setdefault('pod/sr',[]).append((tp,fp,fn,tn))
for k,v in bad.items(): print(k,len(v),v[:4])
print('done')
