import numpy as np, xarray as xr, operator, warnings
warnings.simplefilter("ignore")
from scores.continuous import *
from scores.probability import *
from scores.categorical import *
from scores.processing import *
from scores.processing.cdf import *
from scores.spatial import fss_2d_single_field
from scores.emerging import *
from scores.stats.statistical_tests import diebold_mariano
f=xr.DataArray([1.,2,3,4]); o=xr.DataArray([2.,2,1,5])
def t(name,fn,expect):
    try: fn(); got='ok'
    except Exception as e: got=type(e).__name__
    flag='' if (got=='ok')==(expect=='ok') and (expect=='ok' or got in('ValueError','TypeError','DimensionError','FieldTypeError')) else '   <<<<<'
    print(f"{name:55s} expect={expect:6s} got={got}{flag}")
for a,e in((0.0,'rej'),(1.0,'rej'),(1e-9,'ok'),(1-1e-9,'ok'),(np.float64(0),'rej'),(np.nan,'rej')):
    t(f'quantile_score alpha={a}',lambda: quantile_score(f,o,a),e)
    t(f'consistent_quantile alpha={a}',lambda: consistent_quantile_score(f,o,a,lambda x:x),e)
    t(f'murphy alpha={a}',lambda: murphy_score(f,o,[1.],functional='quantile',alpha=a),e)
    t(f'firm risk={a}',lambda: firm(f,o,a,[1],[1]),e)
    t(f'tw_quantile alpha={a}',lambda: tw_quantile_score(f,o,a,(0,1)),e)
    t(f'interval_score range={a}',lambda: interval_score(f,f+1,o,a),e)
    t(f'isotonic quantile_level={a}',lambda: isotonic_fit(f.values,o.values,functional='quantile',quantile_level=a),e)
    t(f'DM confidence={a}',lambda: diebold_mariano(xr.DataArray([[1.,2,0,1,3]],dims=['l','t'],coords={'l':[1],'h':('l',[1])}),'l','h',confidence_level=a,method='HLN'),e)
for h,e in((0.0,'rej'),(-1.0,'rej'),(1e-9,'ok'),(np.nan,'rej')):
    t(f'huber_param={h}',lambda: consistent_huber_score(f,o,h,lambda x:x**2,lambda x:2*x),e)
    t(f'tw_huber={h}',lambda: tw_huber_loss(f,o,h,(0,1)),e)
    t(f'murphy huber_a={h}',lambda: murphy_score(f,o,[1.],functional='huber',alpha=.5,huber_a=h),e)
    t(f'firm weight={h}',lambda: firm(f,o,0.5,[1],[h]),e)
    t(f'firm weight arr one bad={h}',lambda: firm(f,o,0.5,[1],[xr.DataArray([1.,1,h,1])]),e)
for d,e in((0.0,'ok'),(-1e-9,'rej'),(np.inf,'ok')):
    t(f'firm discount={d}',lambda: firm(f,o,0.5,[1],[1],discount_distance=d),e)
    t(f'discretise tol={d}',lambda: comparative_discretise(f,1.0,'>=',abs_tolerance=d),e)
    t(f'murphy_thetas left_limit={d}',lambda: murphy_thetas([f],o,'huber',huber_a=1.0,left_limit_delta=d),e)
    t(f'round_values prec={d}',lambda: round_values(f,d),e)
    t(f'observed_cdf prec={d}',lambda: observed_cdf(o,'thr',precision=d),e)
t('qis lower=upper',lambda: quantile_interval_score(f,f+1,o,0.5,0.5),'rej')
t('qis lower>upper',lambda: quantile_interval_score(f,f+1,o,0.6,0.5),'rej')
t('qis fl>fu',lambda: quantile_interval_score(f+1,f,o,0.1,0.5),'rej')
t('qis fl==fu',lambda: quantile_interval_score(f,f,o,0.1,0.5),'ok')
t('tw a==b',lambda: tw_squared_error(f,o,(1,1)),'rej')
t('tw a>b',lambda: tw_squared_error(f,o,(2,1)),'rej')
t('tw trap a==b finite',lambda: tw_squared_error(f,o,(1,2),interval_where_positive=(1,3)),'rej')
t('tw trap ok',lambda: tw_squared_error(f,o,(1,2),interval_where_positive=(0,3)),'ok')
t('interval_tw lower==upper',lambda: interval_tw_crps_for_ensemble(xr.DataArray([[1.,2]],dims=['s','m']),xr.DataArray([1.],dims=['s']),'m',1.0,1.0),'rej')
p=xr.DataArray([0.,0.5,1.0]); pb=xr.DataArray([0.,1.,1.])
t('brier p in [0,1] boundary',lambda: brier_score(p,pb),'ok')
t('brier p=1+eps',lambda: brier_score(p+1e-9,pb),'rej')
t('brier p=-eps',lambda: brier_score(p-1e-9,pb),'rej')
t('brier obs 0.5',lambda: brier_score(p,p),'rej')
t('roc thresholds 1+eps',lambda: roc_curve_data(p,pb,[0,1+1e-9]),'rej')
t('roc thresholds dec',lambda: roc_curve_data(p,pb,[0.5,0.2]),'rej')
t('roc thresholds equal',lambda: roc_curve_data(p,pb,[0.5,0.5]),'ok')
t('discretise thresholds dec',lambda: binary_discretise(p,[0.5,0.2],'>='),'rej')
cdf=xr.DataArray([[0,0.5,1.]],dims=['s','threshold'],coords={'threshold':[0.,1,2]})
t('crps thr non-increasing',lambda: crps_cdf(cdf.assign_coords(threshold=[0.,1,1]),xr.DataArray([1.],dims=['s'])),'rej')
t('crps 1 threshold',lambda: crps_cdf(cdf.isel(threshold=[0]),xr.DataArray([1.],dims=['s'])),'rej')
t('crps weight neg',lambda: crps_cdf(cdf,xr.DataArray([1.],dims=['s']),threshold_weight=xr.DataArray([1,-1e-9,1],dims=['threshold'],coords={'threshold':[0.,1,2]})),'rej')
t('crps cdf>1',lambda: crps_cdf(cdf+1e-9,xr.DataArray([1.5],dims=['s'])),'rej')
t('adjust tol neg',lambda: adjust_fcst_for_crps(cdf,'threshold',xr.DataArray([1.],dims=['s']),decreasing_tolerance=-1e-9),'rej')
t('adjust tol 0',lambda: adjust_fcst_for_crps(cdf,'threshold',xr.DataArray([1.],dims=['s']),decreasing_tolerance=0),'ok')
fld=np.ones((3,4))
for w,e in(((0,1),'rej'),((1,1),'ok'),((3,4),'ok'),((4,4),'rej'),((3,5),'rej')):
    t(f'fss window={w}',lambda: fss_2d_single_field(fld,fld,event_threshold=0.5,window_size=w),e)
ts=xr.DataArray([[1.,2,0,1,3]],dims=['l','t'])
for h,e in((0,'rej'),(1,'ok'),(4,'ok'),(5,'rej'),(1.5,'rej')):
    t(f'DM h={h}',lambda: diebold_mariano(ts.assign_coords(h=('l',[h])),'l','h',method='HLN'),e)
dw=xr.DataArray([[1.,2]],dims=['pt','sev'],coords={'pt':[0.5],'sev':[0,1]})
rf=xr.DataArray([[0.,1.]],dims=['s','sev'],coords={'sev':[0,1]}); ro=xr.DataArray([[0.,1.]],dims=['s','sev'],coords={'sev':[0,1]})
for ptv,e in((0.0,'rej'),(1.0,'rej'),(1e-9,'ok')):
    t(f'risk pt={ptv}',lambda: risk_matrix_score(rf,ro,dw.assign_coords(pt=[ptv]),'sev','pt'),e)
    t(f'matrix_weights pt={ptv}',lambda: matrix_weights_to_array(np.array([[1.,2]]),'sev',[0,1],'pt',[ptv]),e)
t('risk fcst 1+eps',lambda: risk_matrix_score(rf+1e-9,ro,dw,'sev','pt'),'rej')
t('iso weight 0',lambda: isotonic_fit(f.values,o.values,weight=np.array([1.,0,1,1])),'rej')
t('iso bootstraps 0',lambda: isotonic_fit(f.values,o.values,bootstraps=0),'rej')
t('iso conf 1',lambda: isotonic_fit(f.values,o.values,bootstraps=2,confidence_level=1.0),'rej')
