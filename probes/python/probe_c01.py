import numpy as np, xarray as xr, operator, warnings, itertools
warnings.simplefilter("ignore")
import scores
from scores.continuous import *
from scores.continuous.correlation import pearsonr
from scores.probability import *
from scores.categorical import *
from scores.processing import binary_discretise_proportion, proportion_exceeding
from scores.spatial import fss_2d
from scores.emerging import risk_matrix_score
rng=np.random.default_rng(0)
D={'a':2,'b':3,'c':2}
def mk(dims, lo=0, hi=4, nan=0.15):
    shp=[D[d] for d in dims]
    v=rng.integers(lo,hi+1,shp).astype(float)
    m=rng.random(shp)<nan
    v[m]=np.nan
    return xr.DataArray(v,dims=dims,coords={d:list(range(D[d])) for d in dims})
f=mk(['a','b','c']); o=mk(['a','b','c'])
dims=['a','b','c']
def subsets(s):
    for r in range(len(s)+1):
        for c in itertools.combinations(s,r): yield list(c)
def run(fn,**kw):
    try:
        r=fn(**kw)
        if isinstance(r,xr.Dataset): r=r.to_array('__var')
        return ('ok',r)
    except Exception as e:
        return ('exc',type(e).__name__+': '+str(e).strip()[:60])
def eq(r1,r2):
    if r1[0]!=r2[0]: return False
    if r1[0]=='exc': return r1[1].split(':')[0]==r2[1].split(':')[0]
    a,b=r1[1],r2[1]
    if set(a.dims)!=set(b.dims): return False
    b=b.transpose(*a.dims)
    return np.allclose(a.values,b.values,equal_nan=True)
funcs={}
funcs['mse']=lambda **k: mse(f,o,**k)
funcs['rmse']=lambda **k: rmse(f,o,**k)
funcs['mae']=lambda **k: mae(f,o,**k)
funcs['additive_bias']=lambda **k: additive_bias(f,o,**k)
funcs['mean_error']=lambda **k: mean_error(f,o,**k)
funcs['multiplicative_bias']=lambda **k: multiplicative_bias(f,o,**k)
funcs['pbias']=lambda **k: pbias(f,o,**k)
funcs['kge']=lambda **k: kge(f,o,**k)
funcs['pearsonr']=lambda **k: pearsonr(f,o,**k)
funcs['quantile_score']=lambda **k: quantile_score(f,o,0.3,**k)
funcs['quantile_interval_score']=lambda **k: quantile_interval_score(f,f+1,o,0.1,0.8,**k)
funcs['interval_score']=lambda **k: interval_score(f,f+1,o,0.5,**k)
funcs['murphy_score']=lambda **k: murphy_score(f,o,[1.,2.],functional='quantile',alpha=0.3,**k)
funcs['consistent_quantile']=lambda **k: consistent_quantile_score(f,o,0.3,lambda x:x,**k)
funcs['tw_squared_error']=lambda **k: tw_squared_error(f,o,(1,3),**k)
funcs['tw_absolute_error']=lambda **k: tw_absolute_error(f,o,(1,3),**k)
funcs['tw_quantile_score']=lambda **k: tw_quantile_score(f,o,0.3,(1,3),**k)
funcs['tw_expectile_score']=lambda **k: tw_expectile_score(f,o,0.3,(1,3),**k)
funcs['tw_huber_loss']=lambda **k: tw_huber_loss(f,o,1.5,(1,3),**k)
funcs['firm']=lambda **k: firm(f,o,0.3,[1,2],[1,2],**k)
fb=(f>2).astype(float).where(f.notnull()); ob=(o>2).astype(float).where(o.notnull())
funcs['pod']=lambda **k: probability_of_detection(fb,ob,**k)
funcs['pofd']=lambda **k: probability_of_false_detection(fb,ob,**k)
fp=f/4
funcs['brier']=lambda **k: brier_score(fp,ob,**k)
funcs['roc']=lambda **k: roc_curve_data(fp,ob,[0,0.25,0.5,0.75,1],**k)
funcs['bdp']=lambda **k: binary_discretise_proportion(f,[1,2],'>=',**k)
funcs['prop_exc']=lambda **k: proportion_exceeding(f,[1,2],**k)
ens=mk(['a','b','c','m'] if False else ['a','b','c']);
D['m']=3; D['threshold']=3
fe=mk(['a','b','c','m'])
funcs['crps_ens']=lambda **k: crps_for_ensemble(fe,o,'m',**k)
funcs['crps_ens_fair_comp']=lambda **k: crps_for_ensemble(fe,o,'m',method='fair',include_components=True,**k)
funcs['tail_tw']=lambda **k: tail_tw_crps_for_ensemble(fe,o,'m',2.0,**k)
funcs['interval_tw']=lambda **k: interval_tw_crps_for_ensemble(fe,o,'m',1.0,3.0,**k)
funcs['brier_ens']=lambda **k: brier_score_for_ensemble(fe,o,'m',[1,2],**k)
cd=np.sort(rng.random((2,3,2,3)),axis=-1)
fc=xr.DataArray(cd,dims=['a','b','c','threshold'],coords={'a':[0,1],'b':[0,1,2],'c':[0,1],'threshold':[0.,2,4]})
funcs['crps_cdf']=lambda **k: crps_cdf(fc,o,**k)
funcs['crps_cdf_brier']=lambda **k: crps_cdf_brier_decomposition(fc,o,**k)
cm=ThresholdEventOperator().make_contingency_manager(f,o,event_threshold=2)
funcs['contingency_counts']=lambda **k: cm.transform(**k).get_table()
funcs['contingency_pod']=lambda **k: cm.transform(**k).probability_of_detection()
D['x']=3;D['y']=3
ff=mk(['a','b','x','y'],nan=0); fo=mk(['a','b','x','y'],nan=0)
fssf=lambda **k: fss_2d(ff,fo,event_threshold=2,window_size=(2,2),spatial_dims=('x','y'),**k)
D['sev']=2
rf=mk(['a','b','c','sev'],0,4,0.1)/4; ro=(mk(['a','b','c','sev'],0,1,0.1))
dw=xr.DataArray([[1.,2],[3,4]],dims=['pt','sev'],coords={'pt':[0.3,0.6],'sev':[0,1]})
funcs['risk_matrix']=lambda **k: risk_matrix_score(rf,ro,dw,'sev','pt',**k)
issues={}
for name,fn in funcs.items():
    alld=dims
    base_none=run(fn)
    base_all=run(fn,reduce_dims='all')
    if not eq(base_none,base_all): issues.setdefault(name,[]).append(('none!=all',base_none[1] if base_none[0]=='exc' else 'val',base_all[1] if base_all[0]=='exc' else 'val'))
    pall=run(fn,preserve_dims='all')
    if pall[0]=='exc': issues.setdefault(name,[]).append(("preserve='all'",pall[1]))
    for R in subsets(alld):
        P=[d for d in alld if d not in R]
        r1=run(fn,reduce_dims=R); r2=run(fn,preserve_dims=P)
        if r1[0]=='exc': issues.setdefault(name,[]).append(('reduce',R,r1[1]))
        if r2[0]=='exc': issues.setdefault(name,[]).append(('preserve',P,r2[1]))
        if not eq(r1,r2): issues.setdefault(name,[]).append(('reduce!=preserve',R))
        if r1[0]=='ok':
            got=set(r1[1].dims)-{'__var','theta','threshold','component'}
            if got!=set(P): issues.setdefault(name,[]).append(('dims',R,r1[1].dims))
        if len(R)==1:
            r3=run(fn,reduce_dims=R[0])
            if not eq(r1,r3): issues.setdefault(name,[]).append(('str reduce',R,r3[1] if r3[0]=='exc' else 'val'))
        if len(P)==1:
            r3=run(fn,preserve_dims=P[0])
            if not eq(r2,r3): issues.setdefault(name,[]).append(('str preserve',P,r3[1] if r3[0]=='exc' else 'val'))
    rb=run(fn,reduce_dims=['a'],preserve_dims=['b'])
    if not (rb[0]=='exc' and rb[1].startswith('ValueError')): issues.setdefault(name,[]).append(('both',rb[1] if rb[0]=='exc' else 'val'))
    rz=run(fn,reduce_dims=['zz'])
    if not (rz[0]=='exc' and rz[1].split(':')[0] in('ValueError','DimensionError')): issues.setdefault(name,[]).append(('absent',rz[1] if rz[0]=='exc' else 'val'))
for k,v in issues.items():
    print(k)
    seen=set()
    for i in v:
        s=str(i)
        key=(i[0],str(i[-1])[:30])
        if key in seen: continue
        seen.add(key); print('   ',s[:200])
print("FSS:")
for R in subsets(['a','b']):
    P=[d for d in ['a','b'] if d not in R]
    r1=run(fssf,reduce_dims=R); r2=run(fssf,preserve_dims=P)
    print(R, r1[0], (r1[1].dims if r1[0]=='ok' else r1[1]), eq(r1,r2), (r2[1].dims if r2[0]=='ok' else r2[1]))
print(run(fssf)[1].dims, run(fssf,reduce_dims='all')[1].dims if run(fssf,reduce_dims='all')[0]=='ok' else run(fssf,reduce_dims='all'))
