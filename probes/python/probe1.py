import numpy as np, xarray as xr, operator, warnings
warnings.simplefilter("ignore")
import scores
from scores.continuous import *
from scores.probability import *
from scores.categorical import *
f=xr.DataArray([[1.,2,3],[4,5,7]],dims=['a','b'],coords={'a':[0,1],'b':[0,1,2]})
o=xr.DataArray([[1.,3,2],[0,5,9]],dims=['a','b'],coords={'a':[0,1],'b':[0,1,2]})
def t(name,fn):
    try: print(name,'->',fn())
    except Exception as e: print(name,'-> EXC',type(e).__name__,str(e)[:100])
t("qs all", lambda: quantile_score(f,o,0.5,reduce_dims='all').values)
t("qs preserve all", lambda: quantile_score(f,o,0.5,preserve_dims='all').values)
t("qs str a", lambda: quantile_score(f,o,0.5,reduce_dims='a').values)
t("qis all", lambda: quantile_interval_score(f,f+1,o,0.1,0.9,reduce_dims='all'))
t("mse []", lambda: mse(f,o,reduce_dims=[]).values)
t("mae []", lambda: mae(f,o,reduce_dims=[]).values)
t("mse both", lambda: mse(f,o,reduce_dims=['a'],preserve_dims=['b']).values)
t("mse bogus", lambda: mse(f,o,reduce_dims=['zz']).values)
t("mse weights extra dim default", lambda: mse(f,o,weights=xr.DataArray([1.,2],dims=['c'])).dims)
t("mae weights extra dim default", lambda: mae(f,o,weights=xr.DataArray([1.,2],dims=['c'])).dims)
t("mse weights extra dim reduce all", lambda: mse(f,o,weights=xr.DataArray([1.,2],dims=['c']),reduce_dims='all').dims)
t("addbias weights extra dim", lambda: additive_bias(f,o,weights=xr.DataArray([1.,2],dims=['c'])).dims)
# crps cdf
cdf=xr.DataArray([[0,0.5,1.],[0.2,0.6,1.]],dims=['station','threshold'],coords={'station':[0,1],'threshold':[0.,1,2]})
ob=xr.DataArray([0.5,1.5],dims=['station'],coords={'station':[0,1]})
t("crps default", lambda: crps_cdf(cdf,ob).total.values)
t("crps reduce station", lambda: crps_cdf(cdf,ob,reduce_dims=['station']).total.values)
t("crps preserve station", lambda: crps_cdf(cdf,ob,preserve_dims=['station']).total.values)
t("crps preserve all", lambda: crps_cdf(cdf,ob,preserve_dims='all').total.values)
t("crps reduce all", lambda: crps_cdf(cdf,ob,reduce_dims='all').total.values)
w=xr.DataArray([0.5,0.5,0.5],dims=['threshold'],coords={'threshold':[0.,1,2]})
t("crps w .5 exact", lambda: crps_cdf(cdf,ob,threshold_weight=w,preserve_dims=['station']).total.values)
t("crps w .5 trapz", lambda: crps_cdf(cdf,ob,threshold_weight=w,preserve_dims=['station'],integration_method='trapz').total.values)
t("crps trapz", lambda: crps_cdf(cdf,ob,preserve_dims=['station'],integration_method='trapz').total.values)
t("crps exact", lambda: crps_cdf(cdf,ob,preserve_dims=['station']).total.values)
# contingency
op=ThresholdEventOperator()
fz=xr.DataArray([-1.,0.,1.,0.0005]); oz=xr.DataArray([0.,0.,-1.,1.])
t("ct 0", lambda: {k:int(v) for k,v in op.make_contingency_manager(fz,oz,event_threshold=0,op_fn=operator.ge).get_counts().items()})
t("ct 0.0", lambda: {k:int(v) for k,v in op.make_contingency_manager(fz,oz,event_threshold=0.0,op_fn=operator.gt).get_counts().items()})
# DM
from scores.stats.statistical_tests import diebold_mariano
ts=xr.DataArray([[1.,-1,2,-2,3,-3]],dims=['lead','t'],coords={'lead':[1],'t':range(6),'h':('lead',[2])})
t("dm zero mean", lambda: diebold_mariano(ts,'lead','h',method='HLN'))
