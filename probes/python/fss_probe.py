import numpy as np, itertools
from scores.spatial import fss_2d_single_field
from fractions import Fraction
def brute(f,o,w,th,pad):
    fb=(f>th).astype(int); ob=(o>th).astype(int)
    H,W=fb.shape
    if pad:
        hh,hw=w[0]//2,w[1]//2
        fb=np.pad(fb,((hh,hh),(hw,hw))); ob=np.pad(ob,((hh,hh),(hw,hw)))
    H,W=fb.shape
    num=den=0; n=0
    for i in range(H-w[0]+1):
        for j in range(W-w[1]+1):
            pf=fb[i:i+w[0],j:j+w[1]].sum(); po=ob[i:i+w[0],j:j+w[1]].sum()
            num+=(pf-po)**2; den+=pf**2+po**2; n+=1
    if den==0: return 0.0
    return 1-num/den
rng=np.random.default_rng(1)
bad=0
for H,W in itertools.product(range(1,5),range(1,5)):
    for wh in range(1,H+1):
        for ww in range(1,W+1):
            for pad in (False,True):
                for t in range(5):
                    f=rng.integers(0,2,(H,W)).astype(float); o=rng.integers(0,2,(H,W)).astype(float)
                    a=fss_2d_single_field(f,o,event_threshold=0.5,window_size=(wh,ww),zero_padding=pad)
                    b=brute(f,o,(wh,ww),0.5,pad)
                    if abs(a-b)>1e-12:
                        bad+=1
                        if bad<8: print("DIFF",H,W,wh,ww,pad,a,b,f.tolist(),o.tolist())
print("bad",bad)
