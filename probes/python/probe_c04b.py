import numpy as np, xarray as xr, operator, warnings, itertools, dask, copy
warnings.simplefilter("ignore")
src=open('probe_c04.py').read().split("for name,(fn,(F_,O_)) in cases.items():")[0]
exec(src)
cases['crps_cdf']=(lambda f,o,**k: crps_cdf(f,o,include_components=True,preserve_dims=['b','c']),(fc,o))
cases['crps_cdf_trapz']=(lambda f,o,**k: crps_cdf(f,o,integration_method='trapz',preserve_dims=['b','c']),(fc,o))
cases['crps_brier']=(lambda f,o,**k: crps_cdf_brier_decomposition(f,o,preserve_dims=['b','c']),(fc,o))
cases['roc']=(lambda f,o,**k: roc_curve_data(f,o,[0,0.25,0.5,0.75,1],check_args=False,**k),(fp,ob))
special={'crps_cdf':['threshold'],'crps_cdf_trapz':['threshold'],'crps_brier':['threshold'],'fss':['x','y'],'adjust':['threshold'],'cdf_envelope':['threshold'],'flipflop':['c'],'flipflop_ang':['t']}
def shuf(x,skip,seed):
    r=np.random.default_rng(seed)
    for d in x.dims:
        if d in skip or x.sizes[d]<2: continue
        x=x.isel({d:r.permutation(x.sizes[d])})
    return x
for name,(fn,(F_,O_)) in cases.items():
    nokw=name in('cdf_envelope','adjust','flipflop','flipflop_ang','crps_cdf','crps_cdf_trapz','crps_brier')
    kw={} if nokw else dict(reduce_dims=['a'])
    sk=special.get(name,[])
    try: base=fn(F_,O_,**kw)
    except Exception as e: print(name,'BASE EXC',type(e).__name__,str(e)[:80]); continue
    res=[]
    F0=F_.copy(deep=True); O0=O_.copy(deep=True)
    tests={'obs_shuffled':(F_,shuf(O_,sk,1)),'fcst_shuffled':(shuf(F_,sk,2),O_),
           'obsT':(F_,O_.transpose(*reversed(O_.dims))),
           'dask_nonspecific':(F_.chunk({d:1 for d in F_.dims if d not in sk}),O_.chunk({d:1 for d in O_.dims if d not in sk})),
           'dask_all':(F_.chunk({d:1 for d in F_.dims}),O_.chunk({d:1 for d in O_.dims}))}
    for vn,(fv,ov) in tests.items():
        if name=='fss' and vn.startswith('dask'): continue
        try:
            r=fn(fv,ov,**kw)
            lazy=dask.is_dask_collection(r) if vn.startswith('dask') else None
            if vn.startswith('dask'):
                with dask.config.set(scheduler='threads'): r1=r.compute()
                with dask.config.set(scheduler='synchronous'): r2=r.compute()
                ok=same(base,r1) and same(base,r2)
            else: ok=same(base,r)
            res.append((vn,ok,lazy))
        except Exception as e:
            res.append((vn,'EXC '+type(e).__name__+' '+str(e)[:50],None))
    mut = not (F0.identical(F_) and O0.identical(O_))
    # dataset
    try:
        rd=fn(xr.Dataset({'v1':F_,'v2':F_*1.0}),xr.Dataset({'v1':O_,'v2':O_*1.0}),**kw)
        dsok=same(base,rd['v1'] if not isinstance(base,xr.Dataset) else rd['v1'])
    except Exception as e: dsok='EXC '+type(e).__name__
    print(name,[r for r in res if r[1] is not True or r[2] is False],'mut' if mut else '', 'ds:',dsok)
