import numpy as np, xarray as xr, warnings, operator, itertools
warnings.simplefilter("ignore")
from scores.probability import *
from scores.categorical import *
from scores.processing import *
from scores.processing.cdf import *
from scores.continuous import flip_flop_index, isotonic_fit
from scores.continuous.flip_flop_impl import encompassing_sector_size
rng=np.random.default_rng(9)
bad={}
def chk(name,a,b,info=None):
    if not np.allclose(a,b,equal_nan=True):
        bad[name]=bad.get(name,0)+1
        if bad[name]<4: print(name,np.asarray(a),np.asarray(b),info)
for trial in range(200):
    n=5;M=int(rng.integers(1,5))
    ens=rng.integers(0,4,(n,M)).astype(float); ens[rng.random((n,M))<0.2]=np.nan
    obs=rng.integers(0,4,n).astype(float); obs[rng.random(n)<0.1]=np.nan
    fe=xr.DataArray(ens,dims=['s','m']); ob=xr.DataArray(obs,dims=['s'])
    th=[0.0,1.0,2.0,3.0]
    for fair in(True,False):
        for o1,o2 in((operator.ge,operator.lt),(operator.gt,operator.le)):
            a=brier_score_for_ensemble(fe,ob,'m',th,fair_correction=fair,event_threshold_operator=o1,preserve_dims='all')
            b=brier_score_for_ensemble(fe,ob,'m',th,fair_correction=fair,event_threshold_operator=o2,preserve_dims='all')
            chk('brier-compl',a.values,b.values,(ens,obs))
    # ROC
    p=rng.integers(0,5,12)/4.0; y=rng.integers(0,2,12).astype(float)
    if rng.random()<.3: y[rng.integers(12)]=np.nan
    pf=xr.DataArray(p,dims=['s']); yo=xr.DataArray(y,dims=['s'])
    ths=[0,0.25,0.5,0.75,1.0]
    r=roc_curve_data(pf,yo,ths)
    for i,t in enumerate(ths):
        m=ThresholdEventOperator().make_contingency_manager(pf,yo,event_threshold=t if t>0 else 1e-300,op_fn=operator.ge).transform()
        # obs event: >= t ... obs binary; for t in (0,1]: obs>=t iff obs==1
        chk('roc-pod',r.POD.values[i],float(m.probability_of_detection()),(p,y,t))
        chk('roc-pofd',r.POFD.values[i],float(m.probability_of_false_detection()),(p,y,t))
    # MW
    ths2=sorted(set([0.0]+list(p)))+[2.0]
    r2=roc_curve_data(pf,yo,ths2,check_args=False)
    ev=[a for a,b in zip(p,y) if b==1]; ne=[a for a,b in zip(p,y) if b==0]
    if ev and ne:
        mw=sum((1.0 if a>b else 0.5 if a==b else 0.0) for a in ev for b in ne)/(len(ev)*len(ne))
        chk('auc-mw',float(r2.AUC),mw,(p,y))
        if np.any(np.diff(r2.POD.values)>1e-12) or np.any(np.diff(r2.POFD.values)>1e-12): bad['mono']=bad.get('mono',0)+1
    # discretise complement
    d=xr.DataArray(rng.integers(-4,5,8)/4.0); d[rng.integers(8)]=np.nan
    tol=float(rng.choice([0,0.25,0.5]))
    for m1,m2 in(('>=','<'),('>','<='),('==','!='),(operator.ge,operator.lt),(operator.gt,operator.le),(operator.eq,operator.ne)):
        a=comparative_discretise(d,0.5,m1,abs_tolerance=tol); b=comparative_discretise(d,0.5,m2,abs_tolerance=tol)
        chk('compl',(a+b).values,np.where(np.isnan(d),np.nan,1.0))
    for s,o_ in(('>=',operator.ge),('>',operator.gt),('<=',operator.le),('<',operator.lt),('==',operator.eq),('!=',operator.ne)):
        chk('spelling',comparative_discretise(d,0.5,s,abs_tolerance=tol).values,comparative_discretise(d,0.5,o_,abs_tolerance=tol).values)
    # envelope
    k=6; c=rng.integers(0,9,(2,k))/8.0
    ca=xr.DataArray(c,dims=['s','x'],coords={'x':np.arange(k)})
    env=cdf_envelope(ca,'x')
    up=np.maximum.accumulate(c,axis=1); lo=np.minimum.accumulate(c[:,::-1],axis=1)[:,::-1]
    chk('env-up',env.sel(cdf_type='upper').values,up); chk('env-lo',env.sel(cdf_type='lower').values,lo)
    env2=cdf_envelope(ca.transpose('x','s'),'x')
    chk('env-T',env2.sel(cdf_type='upper').transpose('s','x').values,up)
    # flip flop
    seq=rng.integers(0,8,7).astype(float)
    da=xr.DataArray([seq],dims=['a','t'],coords={'t':np.arange(7)})
    ff=flip_flop_index(da,'t').values
    tv=np.abs(np.diff(seq)).sum()-(seq.max()-seq.min())
    chk('ff',ff,[tv/5])
    chk('ff-neg',flip_flop_index(-da,'t').values,ff); chk('ff-shift',flip_flop_index(da+3.5,'t').values,ff)
    chk('ff-rev',flip_flop_index(da.isel(t=slice(None,None,-1)).assign_coords(t=np.arange(7)),'t').values,ff)
    ang=rng.integers(0,16,5)*22.5
    dang=xr.DataArray([ang],dims=['a','t'],coords={'t':np.arange(5)})
    rot=float(rng.integers(0,720))+0.5
    e1=encompassing_sector_size(dang,['a']).values; e2=encompassing_sector_size((dang+rot),['a']).values
    srt=np.sort(ang%360); gaps=np.diff(np.concatenate([srt,[srt[0]+360]])); spec=360-gaps.max()
    chk('sector-spec',e1,[spec],ang); chk('sector-rot',e2,e1,(ang,rot))
    f1=flip_flop_index(dang,'t',is_angular=True).values; f2=flip_flop_index(dang+rot,'t',is_angular=True).values
    chk('ffang-rot',f2,f1,(ang,rot))
    # isotonic optimal (max-min)
    nf=8; fx=rng.integers(0,4,nf).astype(float); oy=rng.integers(0,6,nf).astype(float); wt=rng.integers(1,4,nf).astype(float)
    res=isotonic_fit(fx,oy,weight=wt)
    uf=np.unique(fx)
    W=np.array([wt[fx==u].sum() for u in uf]); Y=np.array([(wt*oy)[fx==u].sum() for u in uf])
    K=len(uf); mm=[]
    for i in range(K):
        mm.append(max(min(Y[a:b+1].sum()/W[a:b+1].sum() for b in range(i,K)) for a in range(i+1)))
    chk('iso-opt',res['regression_values'],mm,(fx,oy,wt))
    perm=rng.permutation(nf)
    chk('iso-perm',isotonic_fit(fx[perm],oy[perm],weight=wt[perm])['regression_values'],res['regression_values'])
print('bad',bad)
