import numpy as np, xarray as xr, warnings, itertools, operator
from fractions import Fraction as F
warnings.simplefilter("ignore")
from scores.probability import *
rng=np.random.default_rng(3)
def ecdf_int(xs,y):
    xs=[x for x in xs if x==x]
    if not xs or y!=y: return None
    pts=sorted(set(xs+[y])); m=len(xs); tot=F(0)
    for a,b in zip(pts,pts[1:]):
        Fv=F(sum(1 for x in xs if x<=a),m); H=1 if y<=a else 0
        tot+=F(b-a)*(Fv-H)**2
    return tot
bad=0
for trial in range(400):
    M=rng.integers(1,6); n=4
    ens=rng.integers(0,5,(n,M)).astype(float)
    ens[rng.random((n,M))<0.2]=np.nan
    obs=rng.integers(0,5,n).astype(float); obs[rng.random(n)<0.1]=np.nan
    fe=xr.DataArray(ens,dims=['s','m']); ob=xr.DataArray(obs,dims=['s'])
    r=crps_for_ensemble(fe,ob,'m',preserve_dims='all').values
    for i in range(n):
        e=ecdf_int([F(int(v)) if v==v else float('nan') for v in ens[i]], F(int(obs[i])) if obs[i]==obs[i] else float('nan'))
        if e is None:
            if not np.isnan(r[i]): bad+=1; print('nanmismatch',ens[i],obs[i],r[i])
        elif abs(float(e)-r[i])>1e-12: bad+=1; print('val',ens[i],obs[i],r[i],float(e))
    # additivity
    for method in('ecdf','fair'):
        t1,t2=1.0,3.0
        tot=crps_for_ensemble(fe,ob,'m',method=method,preserve_dims='all').values
        lo=tail_tw_crps_for_ensemble(fe,ob,'m',t1,tail='lower',method=method,preserve_dims='all').values
        mid=interval_tw_crps_for_ensemble(fe,ob,'m',t1,t2,method=method,preserve_dims='all').values
        up=tail_tw_crps_for_ensemble(fe,ob,'m',t2,tail='upper',method=method,preserve_dims='all').values
        if not np.allclose(lo+mid+up,tot,equal_nan=True): bad+=1; print('additivity',method,ens,obs,lo+mid+up,tot)
    # brier integral
    for fair in(False,True):
        pts=sorted(set([v for v in ens.flatten() if v==v]+[v for v in obs if v==v]))
        if len(pts)<2: continue
        mids=[(a+b)/2 for a,b in zip(pts,pts[1:])]; w=np.array([b-a for a,b in zip(pts,pts[1:])])
        bs=brier_score_for_ensemble(fe,ob,'m',mids,fair_correction=fair,preserve_dims='all').transpose('s','threshold').values
        integ=(bs*w).sum(axis=1)
        ref=crps_for_ensemble(fe,ob,'m',method='fair' if fair else 'ecdf',preserve_dims='all').values
        # fair with m=1: brier correction 0, crps fair NaN
        ok=np.isclose(integ,ref,equal_nan=True)|np.isnan(ref)
        if not ok.all(): bad+=1; print('brier-int',fair,ens,obs,integ,ref)
print('bad',bad)
