"""Feasibility prototype 2: FIRM kernel, contingency metric formulas, guard clauses."""
import ast, sys
from fractions import Fraction
sys.path.insert(0,'.')
import translator_prototype as T
Unsupported=T.Unsupported
# ---- extend expression translator ----
class Tr2(T.Tr):
    def expr(self,e):
        if isinstance(e,ast.Name) and self.ty.get(e.id)=='optscalar':
            return f'(opt_get {e.id})','scalar'          # only reached under `if <name>:` truthiness guard
        if isinstance(e,ast.BinOp) and isinstance(e.op,ast.Mult):
            l,lt=self.expr(e.left); r,rt=self.expr(e.right)
            l=f'(b2x {l})' if lt=='bool' else l; r=f'(b2x {r})' if rt=='bool' else r
            return f'(xmul {l} {r})','num'
        return super().expr(e)
def translate(path,func,lo,hi,params,outs,name):
    src=open(path).read(); tree=ast.parse(src)
    fn=[n for n in ast.walk(tree) if isinstance(n,ast.FunctionDef) and n.name==func][0]
    body=[s for s in fn.body if lo<=s.lineno<=hi]
    tr=Tr2(params); blk=tr.stmts(body)
    def cty(t): return {'num':'xv','scalar':'xv','str':'string','optscalar':'option xv','bool':'bx'}[t]
    args=' '.join(f'({p} : {cty(t)})' for p,t in params.items())
    return f'Definition {name} {args} :=\n{T.emit(blk,outs)}  ({", ".join(outs)}).\n'

R='/repo/src/scores/'
print(translate(R+'categorical/multicategorical_impl.py','_single_category_score',208,236,
  {'fcst':'num','obs':'num','risk_parameter':'scalar','categorical_threshold':'num','discount_distance':'optscalar','threshold_assignment':'str'},
  ['firm_score','overforecast_penalty','underforecast_penalty'],'gen_firm_single'))

# ---- contingency metric formulas: method bodies over cd[...] ----
def metric(src_tree, name):
    cls=[n for n in ast.walk(src_tree) if isinstance(n,ast.ClassDef) and n.name=='BasicContingencyManager'][0]
    fn=[n for n in cls.body if isinstance(n,ast.FunctionDef) and n.name==name][0]
    env={}
    def ex(e):
        if isinstance(e,ast.Subscript) and isinstance(e.value,ast.Name) and e.value.id in env and env[e.value.id]=='COUNTS':
            key=e.slice.value; return {'tp_count':'tp','tn_count':'tn','fp_count':'fp','fn_count':'fn','total_count':'(xadd (xadd (xadd tp tn) fp) fn)'}[key]
        if isinstance(e,ast.Name) and e.id in env: return env[e.id]
        if isinstance(e,ast.Constant): q=Fraction(str(e.value)); return f'(XFin ({q.numerator} # {q.denominator}))'
        if isinstance(e,ast.BinOp) and type(e.op) in T.BIN: return f'({T.BIN[type(e.op)]} {ex(e.left)} {ex(e.right)})'
        if isinstance(e,ast.Call) and isinstance(e.func,ast.Attribute) and isinstance(e.func.value,ast.Name) and e.func.value.id=='self' and not e.args:
            return f'(gen_metric_{e.func.attr} tp fp fn tn)'
        if isinstance(e,ast.Call) and isinstance(e.func,ast.Attribute) and isinstance(e.func.value,ast.Name) and e.func.value.id=='np' and e.func.attr=='log':
            return f'(xlog {ex(e.args[0])})'
        raise Unsupported(ast.dump(e)[:150])
    for st in fn.body:
        if isinstance(st,ast.Expr) and isinstance(st.value,ast.Constant): continue
        if isinstance(st,ast.Assign) and isinstance(st.value,ast.Attribute) and isinstance(st.value.value,ast.Name) and st.value.value.id=='self' and st.value.attr=='counts':
            env[st.targets[0].id]='COUNTS'; continue
        if isinstance(st,ast.Assign): env[st.targets[0].id]=ex(st.value); continue
        if isinstance(st,ast.Return): return f'Definition gen_metric_{name} (tp fp fn tn : xv) : xv :=\n  {ex(st.value)}.\n'
        raise Unsupported('stmt '+ast.dump(st)[:100])
tree=ast.parse(open(R+'categorical/contingency_impl.py').read())
ok=0; fail=[]
cls=[n for n in ast.walk(tree) if isinstance(n,ast.ClassDef) and n.name=='BasicContingencyManager'][0]
names=[n.name for n in cls.body if isinstance(n,ast.FunctionDef) and not n.name.startswith('_') and n.name not in('get_counts','get_table','format_table')]
outs={}
for n in names:
    try: outs[n]=metric(tree,n); ok+=1
    except Unsupported as e: fail.append((n,str(e)[:80]))
print(f'(* metrics translated: {ok}/{len(names)}; failed: {fail} *)')
for n in ('heidke_skill_score','odds_ratio','hit_rate'): print(outs[n])

# ---- guards: `if <cond>: raise E(...)` with scalar comparisons incl. chained and bool ops ----
def guard_expr(e, params):
    if isinstance(e,ast.BoolOp):
        op='orb' if isinstance(e.op,ast.Or) else 'andb'
        parts=[guard_expr(v,params) for v in e.values]
        s=parts[0]
        for p in parts[1:]: s=f'({op} {s} {p})'
        return s
    if isinstance(e,ast.UnaryOp) and isinstance(e.op,ast.Not): return f'(negb {guard_expr(e.operand,params)})'
    if isinstance(e,ast.Compare):
        terms=[e.left]+e.comparators; parts=[]
        for a,op,b in zip(terms,e.ops,terms[1:]):
            if type(op) not in T.CMP: raise Unsupported('cmp')
            parts.append(f'({T.CMP[type(op)]}_b {num(a,params)} {num(b,params)})')
        s=parts[0]
        for p in parts[1:]: s=f'(andb {s} {p})'
        return s
    raise Unsupported('guard '+ast.dump(e)[:100])
def num(e,params):
    if isinstance(e,ast.Name) and e.id in params: return e.id
    if isinstance(e,ast.Constant) and isinstance(e.value,(int,float)): q=Fraction(str(e.value)); return f'(XFin ({q.numerator} # {q.denominator}))'
    if isinstance(e,ast.BinOp) and type(e.op) in T.BIN: return f'({T.BIN[type(e.op)]} {num(e.left,params)} {num(e.right,params)})'
    raise Unsupported('num '+ast.dump(e)[:100])
def guards(path,func,params):
    tree=ast.parse(open(path).read())
    fn=[n for n in ast.walk(tree) if isinstance(n,ast.FunctionDef) and n.name==func][0]
    out=[]
    for st in fn.body:
        if isinstance(st,ast.If) and len(st.body)==1 and isinstance(st.body[0],ast.Raise) and not st.orelse:
            exc=st.body[0].exc; cls=exc.func.id if isinstance(exc,ast.Call) else getattr(exc,'id','?')
            try: out.append((st.lineno,cls,guard_expr(st.test,params)))
            except Unsupported as e: out.append((st.lineno,cls,'UNSUPPORTED '+str(e)[:60]))
    return out
for path,func,params in ((R+'continuous/quantile_loss_impl.py','quantile_score',['alpha']),
                         (R+'continuous/interval_impl.py','quantile_interval_score',['lower_qtile_level','upper_qtile_level']),
                         (R+'continuous/interval_impl.py','interval_score',['interval_range']),
                         (R+'continuous/consistent_impl.py','check_alpha',['alpha']),
                         (R+'continuous/consistent_impl.py','check_huber_param',['huber_param']),
                         (R+'continuous/murphy_impl.py','_check_murphy_inputs',['alpha','huber_a','left_limit_delta']),
                         (R+'categorical/multicategorical_impl.py','_check_firm_inputs',['risk_parameter','discount_distance']),
                         (R+'stats/statistical_tests/diebold_mariano_impl.py','diebold_mariano',['confidence_level'])):
    print(f'(* {func} *)')
    for g in guards(path,func,params): print('  ',g)
