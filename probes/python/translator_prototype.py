"""Throwaway feasibility prototype: straight-line elementwise xarray code -> Gallina (fail-closed)."""
import ast, sys, textwrap
class Unsupported(Exception): pass
BIN={ast.Add:'xadd',ast.Sub:'xsub',ast.Mult:'xmul',ast.Div:'xdiv'}
CMP={ast.Gt:'xgt',ast.GtE:'xge',ast.Lt:'xlt',ast.LtE:'xle',ast.Eq:'xeqb',ast.NotEq:'xneb'}
class Tr:
    def __init__(self, params):  # params: name -> ('num'|'scalar'|'str'|'optnum')
        self.ty=dict(params); self.lines=[]
    def num(self,e):
        s,t=self.expr(e)
        if t=='bool': return f'(b2x {s})'
        if t in('num','scalar'): return s
        raise Unsupported(f'num expected got {t}: {ast.dump(e)}')
    def boo(self,e):
        s,t=self.expr(e)
        if t!='bool': raise Unsupported(f'bool expected: {ast.dump(e)}')
        return s
    def expr(self,e):
        if isinstance(e,ast.Name):
            if e.id not in self.ty: raise Unsupported('unknown name '+e.id)
            return e.id,self.ty[e.id]
        if isinstance(e,ast.Constant) and isinstance(e.value,(int,float)) and not isinstance(e.value,bool):
            from fractions import Fraction
            q=Fraction(str(e.value)); return f'(XFin ({q.numerator} # {q.denominator}))','scalar'
        if isinstance(e,ast.BinOp) and type(e.op) in BIN:
            return f'({BIN[type(e.op)]} {self.num(e.left)} {self.num(e.right)})','num'
        if isinstance(e,ast.BinOp) and isinstance(e.op,ast.BitAnd):
            return f'(band {self.boo(e.left)} {self.boo(e.right)})','bool'
        if isinstance(e,ast.UnaryOp) and isinstance(e.op,ast.USub): return f'(xneg {self.num(e.operand)})','num'
        if isinstance(e,ast.UnaryOp) and isinstance(e.op,ast.Invert): return f'(bnot {self.boo(e.operand)})','bool'
        if isinstance(e,ast.Compare) and len(e.ops)==1 and type(e.ops[0]) in CMP:
            return f'({CMP[type(e.ops[0])]} {self.num(e.left)} {self.num(e.comparators[0])})','bool'
        if isinstance(e,ast.Call):
            f=e.func
            # xr.where(c,a,b)
            if isinstance(f,ast.Attribute) and isinstance(f.value,ast.Name) and f.value.id=='xr' and f.attr=='where' and len(e.args)==3:
                return f'(xwhere3 {self.boo(e.args[0])} {self.num(e.args[1])} {self.num(e.args[2])})','num'
            if isinstance(f,ast.Attribute) and isinstance(f.value,ast.Name) and f.value.id=='np' and f.attr in('minimum','maximum') and len(e.args)==2:
                return f'(x{f.attr[:3]} {self.num(e.args[0])} {self.num(e.args[1])})','num'
            if isinstance(f,ast.Attribute) and isinstance(f.value,ast.Name) and f.value.id=='np' and f.attr=='isnan' and len(e.args)==1:
                return f'(xisnan {self.num(e.args[0])})','bool'
            # method calls: a.where(cond[,other]) ; a.clip(min=..)
            if isinstance(f,ast.Attribute) and f.attr=='where':
                recv,t=self.expr(f.value)
                if t=='bool': recv=f'(b2x {recv})'
                cond=self.boo(e.args[0])
                other=self.num(e.args[1]) if len(e.args)>1 else 'XNaN'
                return f'(xwhere3 {cond} {recv} {other})','num'
            if isinstance(f,ast.Attribute) and f.attr=='clip' and not e.args:
                s=self.num(f.value)
                for kw in e.keywords:
                    if kw.arg=='min': s=f'(xclipmin {s} {self.num(kw.value)})'
                    elif kw.arg=='max': s=f'(xclipmax {s} {self.num(kw.value)})'
                    else: raise Unsupported('clip kw')
                return s,'num'
        raise Unsupported(ast.dump(e)[:200])
    def stmts(self,body):
        out=[]
        for st in body:
            if isinstance(st,ast.Assign) and len(st.targets)==1 and isinstance(st.targets[0],ast.Name):
                s,t=self.expr(st.value)
                v=st.targets[0].id
                out.append(('let',v,s)); self.ty[v]='num' if t in('num','scalar') else t
            elif isinstance(st,ast.If):
                # test on scalar/str params only; both branches must assign same names
                test=self.test(st.test)
                a=type(self)(self.ty); ba=a.stmts(st.body); b=type(self)(self.ty); bb=b.stmts(st.orelse)
                na=[x[1] for x in ba]; nb=[x[1] for x in bb]
                if set(na)!=set(nb): raise Unsupported('branches assign different names')
                for v in dict.fromkeys(na):
                    if a.ty[v]!=b.ty[v]: raise Unsupported('branch type mismatch '+v)
                    self.ty[v]=a.ty[v]
                out.append(('if',test,ba,bb,list(dict.fromkeys(na))))
            elif isinstance(st,ast.Expr) and isinstance(st.value,ast.Constant): pass
            else: raise Unsupported('stmt '+ast.dump(st)[:120])
        return out
    def test(self,t):
        if isinstance(t,ast.Compare) and isinstance(t.left,ast.Name) and self.ty.get(t.left.id)=='str' and isinstance(t.ops[0],ast.Eq) and isinstance(t.comparators[0],ast.Constant):
            return f'(String.eqb {t.left.id} "{t.comparators[0].value}")'
        if isinstance(t,ast.Name) and self.ty.get(t.id)=='optscalar': return f'(py_truthy {t.id})'
        raise Unsupported('test '+ast.dump(t)[:120])
def emit(block,outs,ind='  '):
    s=''
    for b in block:
        if b[0]=='let': s+=f'{ind}let {b[1]} := {b[2]} in\n'
        else:
            _,test,ba,bb,names=b
            tup='(' + ', '.join(names) + ')' if len(names)>1 else names[0]
            pat="'"+tup if len(names)>1 else tup
            s+=f'{ind}let {pat} :=\n{ind}  if {test} then\n{emit(ba,names,ind+"    ")}{ind}    {tup}\n{ind}  else\n{emit(bb,names,ind+"    ")}{ind}    {tup} in\n'
    return s
def translate(path,func,lo,hi,params,outs,name):
    src=open(path).read(); tree=ast.parse(src)
    fn=[n for n in ast.walk(tree) if isinstance(n,ast.FunctionDef) and n.name==func][0]
    body=[s for s in fn.body if lo<=s.lineno<=hi]
    tr=Tr(params); blk=tr.stmts(body)
    args=' '.join(f'({p} : {"xv" if t in("num","scalar") else "string" if t=="str" else "option xv"})' for p,t in params.items())
    tup='('+', '.join(outs)+')'
    return f'Definition {name} {args} :=\n{emit(blk,outs)}  {tup}.\n'
if __name__=='__main__':
    R='/repo/src/scores/'
    print(translate(R+'continuous/quantile_loss_impl.py','quantile_score',86,94,{'fcst':'num','obs':'num','alpha':'scalar'},['result'],'gen_quantile_score'))
    print(translate(R+'categorical/multicategorical_impl.py','_single_category_score',208,236,{'fcst':'num','obs':'num','risk_parameter':'scalar','categorical_threshold':'num','discount_distance':'optscalar','threshold_assignment':'str'},['firm_score','overforecast_penalty','underforecast_penalty'],'gen_firm_single'))
