import numpy as np, xarray as xr, operator, warnings, itertools
warnings.simplefilter("ignore")
exec(open('probe_c01.py').read().split("issues={}")[0].replace("rng=np.random.default_rng(0)","rng=np.random.default_rng(5)"))
# weights-accepting functions: check pointwise factorisation & None vs unit
w=mk(['a','b'],0,3,0.2)
wfuncs={k:v for k,v in funcs.items() if k not in ('kge','pearsonr','murphy_score','bdp','prop_exc','crps_cdf_brier','contingency_counts','contingency_pod')}
def val(r): return r[1]
for name,fn in wfuncs.items():
    r0=run(fn,preserve_dims='all') if name not in('quantile_score','quantile_interval_score','interval_score','crps_cdf') else run(fn,preserve_dims=['a','b','c'])
    kw=dict(preserve_dims='all') if name not in('quantile_score','quantile_interval_score','interval_score','crps_cdf') else dict(preserve_dims=['a','b','c'])
    rw=run(fn,weights=w,**kw)
    if r0[0]!='ok' or rw[0]!='ok':
        print(name,'EXC',r0[1] if r0[0]!='ok' else '', rw[1] if rw[0]!='ok' else ''); continue
    exp=val(r0)*w
    ratio = name in ('multiplicative_bias','pbias','pod','pofd','roc')
    try:
        e=exp.transpose(*val(rw).dims)
        ok=np.allclose(val(rw).values,e.values,equal_nan=True)
    except Exception as ex:
        ok='ERR '+str(ex)[:50]
    print(name, 'pointwise w*s:',ok, '(ratio)' if ratio else '')
