import numpy as np, xarray as xr, warnings, itertools
from fractions import Fraction as F
warnings.simplefilter("ignore")
from scores.probability import *
from scores.processing.cdf import *
rng=np.random.default_rng(7)
def interp(xs,ys,x):  # linear interp/extrap then clip
    import bisect
    if x<=xs[0]: i=0
    elif x>=xs[-1]: i=len(xs)-2
    else: i=bisect.bisect_right(xs,x)-1
    i=max(0,min(i,len(xs)-2))
    v=ys[i]+(ys[i+1]-ys[i])*F(x-xs[i])/F(xs[i+1]-xs[i])
    return min(max(v,F(0)),F(1))
def exact_oracle(xs,ys,y,extra=()):
    grid=sorted(set(list(xs)+[y]+list(extra)))
    vals=[interp(xs,ys,g) for g in grid]
    under=over=F(0)
    for (a,fa),(b,fb) in zip(zip(grid,vals),zip(grid[1:],vals[1:])):
        d=F(b-a)
        if b<=y: # H=0 on [a,b)
            m=(fb-fa)/d; under+= m*m*d**3/3+m*fa*d*d+fa*fa*d
        else:
            ga,gb=fa-1,fb-1; m=(gb-ga)/d; over+= m*m*d**3/3+m*ga*d*d+ga*ga*d
    return under,over
bad=0
for trial in range(300):
    k=rng.integers(2,6)
    xs=sorted(rng.choice(np.arange(0,10),k,replace=False).tolist())
    ys=[F(int(v),8) for v in np.sort(rng.integers(0,9,k))]
    if rng.random()<0.3: rng.shuffle(ys)  # non monotone too
    y=int(rng.integers(-2,12)) if rng.random()<0.7 else float(rng.integers(0,20))/2
    y=F(y).limit_denominator(2)
    fc=xr.DataArray([[float(v) for v in ys]],dims=['s','threshold'],coords={'s':[0],'threshold':[float(x) for x in xs]})
    ob=xr.DataArray([float(y)],dims=['s'],coords={'s':[0]})
    r=crps_cdf(fc,ob,preserve_dims=['s'],include_components=True)
    u,o=exact_oracle([F(x) for x in xs],ys,y)
    got=(float(r.underforecast_penalty[0]),float(r.overforecast_penalty[0]),float(r.total[0]))
    if not np.allclose(got,(float(u),float(o),float(u+o)),atol=1e-12):
        bad+=1; print('exact',xs,[str(v) for v in ys],y,got,(float(u),float(o)))
    # trapz vs brier decomposition
    rt=crps_cdf(fc,ob,preserve_dims=['s'],include_components=True,integration_method='trapz')
    bd=crps_cdf_brier_decomposition(fc,ob,preserve_dims=['s'])
    for a,b in (('total','total_penalty'),('underforecast_penalty','underforecast_penalty'),('overforecast_penalty','overforecast_penalty')):
        tz=bd[b].integrate('threshold')
        if not np.allclose(rt[a].values,tz.values,equal_nan=True): bad+=1; print('trapz',a,xs,ys,y,rt[a].values,tz.values)
print('bad',bad)
