import numpy as np, xarray as xr, warnings
warnings.simplefilter("ignore")
from scores.probability import *
rng=np.random.default_rng(11)
bad=0
for trial in range(300):
    k=rng.integers(2,6)
    xs=sorted(rng.choice(np.arange(0,10),k,replace=False).astype(float).tolist())
    ys=np.sort(rng.integers(0,9,k))/8
    y=float(rng.integers(-2,12))
    fc=xr.DataArray([ys],dims=['s','threshold'],coords={'s':[0],'threshold':xs})
    ob=xr.DataArray([y],dims=['s'],coords={'s':[0]})
    step=float(rng.integers(-1,11))+ (0.5 if rng.random()<0.5 else 0)
    w1=crps_step_threshold_weight(xr.DataArray([step],dims=['s'],coords={'s':[0]}),'threshold',threshold_values=xs,weight_upper=True)
    w2=crps_step_threshold_weight(xr.DataArray([step],dims=['s'],coords={'s':[0]}),'threshold',threshold_values=xs,weight_upper=False)
    for meth in('exact','trapz'):
        for comp in ('total','underforecast_penalty','overforecast_penalty'):
            try:
                a=crps_cdf(fc,ob,threshold_weight=w1,preserve_dims=['s'],integration_method=meth,include_components=True)[comp].values
                b=crps_cdf(fc,ob,threshold_weight=w2,preserve_dims=['s'],integration_method=meth,include_components=True)[comp].values
                c=crps_cdf(fc,ob,preserve_dims=["s"],integration_method=meth,include_components=True,additional_thresholds=[step])[comp].values
            except Exception as e:
                print('EXC',type(e).__name__,e); bad+=1; break
            if not np.allclose(a+b,c):
                bad+=1
                if bad<10: print(meth,comp,xs,ys,y,step,a,b,c)
print('bad',bad)
