From Coq Require Import List String Bool ZArith QArith Lqa.
Import ListNotations.
Open Scope Q_scope.

Definition dim := string.
Definition env := dim -> Z.
Definition upd (e : env) (d : dim) (z : Z) : env := fun d' => if String.eqb d' d then z else e d'.

Definition val := option Q.          (* None = NaN; infinities omitted in this probe *)
Definition omul (a b : val) : val := match a, b with Some x, Some y => Some (x * y) | _, _ => None end.
Definition oadd (a b : val) : val := match a, b with Some x, Some y => Some (x + y) | _, _ => None end.
Definition oeq (a b : val) : Prop := match a, b with Some x, Some y => x == y | None, None => True | _, _ => False end.

Fixpoint nansum (l : list val) : Q := match l with [] => 0 | None :: t => nansum t | Some x :: t => x + nansum t end.
Fixpoint nancount (l : list val) : nat := match l with [] => O | None :: t => nancount t | Some _ :: t => S (nancount t) end.
Definition nanmean (l : list val) : val :=
  match nancount l with O => None | n => Some (nansum l / inject_Z (Z.of_nat n)) end.

(* all assignments of the dims in R (coordinates from c) on top of a base env *)
Fixpoint envs (c : dim -> list Z) (R : list dim) (e : env) : list env :=
  match R with [] => [e] | d :: R' => flat_map (fun z => envs c R' (upd e d z)) (c d) end.

Record larr := { ldims : list dim; lcoord : dim -> list Z; lget : env -> val }.

Definition mem (d : dim) (l : list dim) : bool := existsb (String.eqb d) l.
Definition lreduce (agg : list val -> val) (R : list dim) (a : larr) : larr :=
  {| ldims := filter (fun d => negb (mem d R)) (ldims a); lcoord := lcoord a;
     lget := fun e => agg (map (lget a) (envs (lcoord a) R e)) |}.
Definition lzip (f : val -> val -> val) (a b : larr) : larr :=
  {| ldims := (ldims a ++ filter (fun d => negb (mem d (ldims a))) (ldims b))%list;
     lcoord := fun d => if mem d (ldims a) then (if mem d (ldims b) then filter (fun z => existsb (Z.eqb z) (lcoord b d)) (lcoord a d) else lcoord a d) else lcoord b d;
     lget := fun e => f (lget a e) (lget b e) |}.

(* generic mean-type score: kernel k on (fcst,obs) cells, optional weights, reduce R *)
Definition pointwise (k : val -> val -> val) (f o : larr) := lzip k f o.
Definition apply_weights (w : option larr) (s : larr) := match w with None => s | Some w => lzip omul s w end.
Definition mean_score k f o w R := lreduce nanmean R (apply_weights w (pointwise k f o)).

(* ---- C02 core: NaN cells drop out ---- *)
Lemma nanmean_skip l1 l2 : nanmean (l1 ++ None :: l2) = nanmean (l1 ++ l2).
Proof. unfold nanmean. assert (H: nansum (l1 ++ None :: l2) = nansum (l1 ++ l2) /\ nancount (l1 ++ None :: l2) = nancount (l1 ++ l2)).
 { induction l1 as [|[x|] t IH]; simpl; auto; destruct IH as [A B]; rewrite ?A, ?B; auto. }
 destruct H as [A B]. rewrite A, B. reflexivity. Qed.

Definition valid (v : val) := match v with Some _ => true | None => false end.
Lemma nanmean_filter l : nanmean l = nanmean (filter valid l).
Proof. unfold nanmean. assert (H : nansum l = nansum (filter valid l) /\ nancount l = nancount (filter valid l)).
 { induction l as [|[x|] t [A B]]; simpl; auto. rewrite A, B. auto. }
 destruct H as [A B]. rewrite A, B. reflexivity. Qed.

(* the value of every output cell depends only on the valid cases of its group *)
Theorem mean_score_valid_only k f o w R e :
  lget (mean_score k f o w R) e =
  nanmean (filter valid (map (lget (apply_weights w (pointwise k f o))) (envs (lcoord (apply_weights w (pointwise k f o))) R e))).
Proof. unfold mean_score. simpl. apply nanmean_filter. Qed.

(* ---- C03 core: pointwise factorisation and scaling ---- *)
Theorem weights_pointwise k f o w e :
  lget (mean_score k f o (Some w) []) e = nanmean [omul (lget (pointwise k f o) e) (lget w e)].
Proof. reflexivity. Qed.

Lemma nansum_scale c l : nansum (map (omul (Some c)) l) == c * nansum l.
Proof. induction l as [|[x|] t IH]; simpl.
 - ring.
 - rewrite IH. ring.
 - exact IH.
Qed.
Lemma nancount_scale c l : nancount (map (omul (Some c)) l) = nancount l.
Proof. induction l as [|[x|] t IH]; simpl; auto. Qed.
Theorem nanmean_scale c l : oeq (nanmean (map (omul (Some c)) l)) (omul (Some c) (nanmean l)).
Proof. unfold nanmean. rewrite nancount_scale. destruct (nancount l) eqn:E; simpl; auto.
 rewrite nansum_scale. unfold Qdiv. ring. Qed.
Print Assumptions nanmean_scale.
Print Assumptions mean_score_valid_only.
