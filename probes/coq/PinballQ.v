From Coq Require Import QArith List Lia Lqa.
Import ListNotations.
Open Scope Q_scope.

Definition val := option Q.
Definition olift2 (f : Q -> Q -> Q) (a b : val) : val :=
  match a, b with Some x, Some y => Some (f x y) | _, _ => None end.
Definition Qltb (a b : Q) : bool := negb (Qle_bool b a).

(* code-shaped pinball: xr.where(diff > 0, (1-alpha)*diff, alpha*(-diff)) *)
Definition pinball_code (alpha f o : Q) : Q :=
  let d := f - o in if Qltb 0 d then (1 - alpha) * d else alpha * (- d).
Definition Qmax0 (x : Q) : Q := if Qle_bool 0 x then x else 0.
Definition pinball_spec (alpha f o : Q) : Q :=
  alpha * Qmax0 (o - f) + (1 - alpha) * Qmax0 (f - o).

Lemma Qltb_spec a b : if Qltb a b then a < b else b <= a.
Proof. unfold Qltb. destruct (Qle_bool b a) eqn:E; simpl.
 - apply Qle_bool_iff; auto.
 - apply Qnot_le_lt. intro H. apply Qle_bool_iff in H. congruence. Qed.
Lemma Qleb_spec a b : if Qle_bool a b then a <= b else b < a.
Proof. destruct (Qle_bool a b) eqn:E.
 - apply Qle_bool_iff; auto.
 - apply Qnot_le_lt. intro H. apply Qle_bool_iff in H. congruence. Qed.

Theorem pinball_ok alpha f o : pinball_code alpha f o == pinball_spec alpha f o.
Proof.
  unfold pinball_code, pinball_spec, Qmax0.
  pose proof (Qltb_spec 0 (f - o)) as H1.
  pose proof (Qleb_spec 0 (o - f)) as H2.
  pose proof (Qleb_spec 0 (f - o)) as H3.
  destruct (Qltb 0 (f - o)), (Qle_bool 0 (o - f)), (Qle_bool 0 (f - o)); try lra.
  assert (E : f == o) by lra. nra.
Qed. 

Fixpoint nansum (l : list val) : Q * nat :=
  match l with [] => (0, O) | None :: t => nansum t
  | Some x :: t => let '(s, n) := nansum t in (x + s, S n) end.
Definition nanmean (l : list val) : val :=
  let '(s, n) := nansum l in match n with O => None | _ => Some (Qred (s / inject_Z (Z.of_nat n))) end.

Definition mean_pinball (alpha : Q) (fs os : list val) : val :=
  nanmean (map (fun p => olift2 (pinball_code alpha) (fst p) (snd p)) (combine fs os)).
