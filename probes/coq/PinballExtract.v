Require Import PinballQ.
From Coq Require Import Extraction ExtrOcamlBasic.
Extraction Language OCaml.
Set Extraction Output Directory ".".
Extraction "model.ml" mean_pinball.
