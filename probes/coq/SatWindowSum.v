From Coq Require Import ZArith Lia.
Open Scope Z_scope.

(* sum of f over k = 0 .. n-1 *)
Fixpoint zsum (n : nat) (f : nat -> Z) : Z := match n with O => 0 | S k => zsum k f + f k end.

Definition field := nat -> nat -> Z.
Definition wsum (F : field) (i j h w : nat) : Z :=
  zsum h (fun r => zsum w (fun c => F (i + r)%nat (j + c)%nat)).
(* summed-area table: rows < i, cols < j *)
Definition sat (F : field) (i j : nat) : Z := wsum F 0 0 i j.

Lemma zsum_ext n f g : (forall k, (k < n)%nat -> f k = g k) -> zsum n f = zsum n g.
Proof. induction n; simpl; intros H; auto. rewrite IHn, H; auto. Qed.
Lemma zsum_add n f g : zsum n (fun k => f k + g k) = zsum n f + zsum n g.
Proof. induction n; simpl; auto. rewrite IHn. lia. Qed.
Lemma zsum_sub n f g : zsum n (fun k => f k - g k) = zsum n f - zsum n g.
Proof. induction n; simpl; auto. rewrite IHn. lia. Qed.
Lemma zsum_split a b f : zsum (a + b) f = zsum a f + zsum b (fun k => f (a + k)%nat).
Proof. induction b; simpl.
 - rewrite Nat.add_0_r. lia.
 - rewrite Nat.add_succ_r. simpl. rewrite IHb. lia. Qed.

(* 1-D: a window is a difference of prefix sums *)
Lemma zsum_window j w f : zsum w (fun c => f (j + c)%nat) = zsum (j + w) f - zsum j f.
Proof. rewrite zsum_split. lia. Qed.

(* the summed-area-table identity the FSS code relies on: D - B - C + A *)
Theorem sat_window_sum F i j h w :
  wsum F i j h w = sat F (i + h) (j + w) - sat F i (j + w) - sat F (i + h) j + sat F i j.
Proof.
  unfold sat, wsum. simpl.
  (* rows: window over r is a difference of prefixes, for the row function of width-window sums *)
  set (rowwin := fun r => zsum w (fun c => F r (j + c)%nat)).
  assert (E1 : zsum h (fun r => zsum w (fun c => F (i + r)%nat (j + c)%nat)) = zsum (i + h) rowwin - zsum i rowwin).
  { rewrite <- (zsum_window i h rowwin). reflexivity. }
  rewrite E1. unfold rowwin.
  assert (E2 : forall n, zsum n (fun r => zsum w (fun c => F r (j + c)%nat))
                       = zsum n (fun r => zsum (j + w) (fun c => F r c)) - zsum n (fun r => zsum j (fun c => F r c))).
  { intros n. rewrite <- zsum_sub. apply zsum_ext. intros r _. apply zsum_window. }
  rewrite !E2. lia.
Qed.
Print Assumptions sat_window_sum.
