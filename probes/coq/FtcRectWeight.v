From Coq Require Import Reals Lra.
From Coquelicot Require Import Coquelicot.
Open Scope R_scope.

(* rectangular weight and its antiderivative, R-level *)
Definition w_rect (a b t : R) : R := if Rle_dec a t then (if Rlt_dec t b then 1 else 0) else 0.
Definition g_rect (a b x : R) : R :=
  if Rlt_dec x a then 0 else if Rlt_dec x b then x - a else b - a.

(* single-piece FTC: constant weight c on the open interval (x,y) *)
Lemma RInt_piece (w : R -> R) (c x y : R) :
  x <= y -> (forall t, x < t < y -> w t = c) -> is_RInt w x y (c * (y - x)).
Proof.
  intros Hxy Hw.
  apply is_RInt_ext with (f := fun _ => c).
  - intros t Ht. rewrite Rmin_left, Rmax_right in Ht by lra. symmetry; apply Hw; lra.
  - replace (c * (y - x)) with (scal (y - x) c) by (unfold scal; simpl; unfold mult; simpl; ring).
    apply (@is_RInt_const R_CompleteNormedModule).
Qed.

Lemma g_rect_FTC a b x y : a < b -> x <= y -> is_RInt (w_rect a b) x y (g_rect a b y - g_rect a b x).
Proof.
  intros Hab Hxy.
  (* split [x,y] at a and b according to position *)
  unfold g_rect.
  destruct (Rlt_dec x a) as [Hxa|Hxa], (Rlt_dec y a) as [Hya|Hya];
  destruct (Rlt_dec x b) as [Hxb|Hxb], (Rlt_dec y b) as [Hyb|Hyb]; try lra.
  - (* x<a, y<a *) replace (0 - 0) with (0 * (y - x)) by ring.
    apply RInt_piece; auto. intros t Ht. unfold w_rect. destruct (Rle_dec a t); try lra.
  - (* x<a<=y<b *) 
    replace (y - a - 0) with (plus (0 * (a - x)) (1 * (y - a))) by (unfold plus; simpl; ring).
    apply (@is_RInt_Chasles R_CompleteNormedModule) with (b := a).
    + apply RInt_piece; [lra|]. intros t Ht. unfold w_rect. destruct (Rle_dec a t); try lra.
    + apply RInt_piece; [lra|]. intros t Ht. unfold w_rect. destruct (Rle_dec a t); try lra. destruct (Rlt_dec t b); lra.
  - (* x<a, b<=y *)
    replace (b - a - 0) with (plus (0 * (a - x)) (plus (1 * (b - a)) (0 * (y - b)))) by (unfold plus; simpl; ring).
    apply (@is_RInt_Chasles R_CompleteNormedModule) with (b := a).
    + apply RInt_piece; [lra|]. intros t Ht. unfold w_rect. destruct (Rle_dec a t); try lra.
    + apply (@is_RInt_Chasles R_CompleteNormedModule) with (b := b).
      * apply RInt_piece; [lra|]. intros t Ht. unfold w_rect. destruct (Rle_dec a t); try lra. destruct (Rlt_dec t b); lra.
      * apply RInt_piece; [lra|]. intros t Ht. unfold w_rect. destruct (Rle_dec a t); try lra. destruct (Rlt_dec t b); lra.
  - (* a<=x<b, y<b *)
    replace (y - a - (x - a)) with (1 * (y - x)) by ring.
    apply RInt_piece; [lra|]. intros t Ht. unfold w_rect. destruct (Rle_dec a t); try lra. destruct (Rlt_dec t b); lra.
  - replace (b - a - (x - a)) with (plus (1 * (b - x)) (0 * (y - b))) by (unfold plus; simpl; ring).
    apply (@is_RInt_Chasles R_CompleteNormedModule) with (b := b).
    + apply RInt_piece; [lra|]. intros t Ht. unfold w_rect. destruct (Rle_dec a t); try lra. destruct (Rlt_dec t b); lra.
    + apply RInt_piece; [lra|]. intros t Ht. unfold w_rect. destruct (Rle_dec a t); try lra. destruct (Rlt_dec t b); lra.
  - replace (b - a - (b - a)) with (0 * (y - x)) by ring.
    apply RInt_piece; [lra|]. intros t Ht. unfold w_rect. destruct (Rle_dec a t); try lra. destruct (Rlt_dec t b); lra.
Qed.
Print Assumptions g_rect_FTC.
