From Coq Require Import List String Bool.
Import ListNotations.
Open Scope string_scope.

Definition dim := string.
Inductive dimspec := DNone | DStr (s : string) | DList (l : list dim).
Inductive err := ValueError | TypeError | KeyError.
Inductive result (A : Type) := Ok (a : A) | Err (e : err).
Arguments Ok {A}. Arguments Err {A}.

Definition mem (d : dim) (l : list dim) : bool := existsb (String.eqb d) l.
Definition union (a b : list dim) := (a ++ filter (fun d => negb (mem d a)) b)%list.
Definition diff (a b : list dim) := filter (fun d => negb (mem d b)) a.
Definition inter (a b : list dim) := filter (fun d => mem d b) a.
Definition subset (a b : list dim) := forallb (fun d => mem d b) a.
Definition is_empty (a : list dim) := match a with [] => true | _ => false end.

(* Python truthiness of a FlexibleDimensionTypes value *)
Definition truthy (s : dimspec) : bool :=
  match s with DNone => false | DStr s => negb (String.eqb s "") | DList l => negb (is_empty l) end.
Definition is_none (s : dimspec) := match s with DNone => true | _ => false end.
Definition is_all (s : dimspec) := match s with DStr s => String.eqb s "all" | _ => false end.
(* `[x] if isinstance(x,str) else x`, for non-None, non-"all" values *)
Definition as_list (s : dimspec) : list dim :=
  match s with DNone => [] | DStr s => [s] | DList l => l end.

(* line-by-line model of scores.utils.gather_dimensions *)
Definition gather (fcst obs : list dim) (weights : option (list dim))
                  (reduce preserve specific : dimspec) : result (list dim) :=
  let all_data := match weights with None => union fcst obs | Some w => union (union fcst obs) w end in
  if negb (is_none preserve) && negb (is_none reduce) then Err ValueError else
  let specified := if truthy preserve then preserve else reduce in      (* preserve_dims or reduce_dims *)
  let spec_named := negb (is_none specified) && negb (is_all specified) in
  let spec_l := as_list specified in
  (* score-specific checks *)
  let chk :=
    match specific with
    | DNone => Ok all_data
    | _ => let sp := as_list specific in
           if negb (subset sp fcst) then Err ValueError
           else if negb (is_empty (inter obs sp)) then Err ValueError
           else if match weights with Some w => negb (is_empty (inter w sp)) | None => false end then Err ValueError
           else if spec_named && negb (is_empty (inter spec_l sp)) then Err ValueError
           else Ok (diff all_data sp)
    end in
  match chk with Err e => Err e | Ok scoring =>
  if spec_named && negb (subset spec_l all_data) then Err ValueError else
  if negb (is_none preserve) then
    if is_all preserve then Ok [] else Ok (diff scoring (as_list preserve))
  else if is_all reduce then Ok scoring
  else match reduce with
       | DStr s => Ok [s]
       | DNone => Ok scoring
       | DList l => Ok l end
  end.

Definition seteq (a b : list dim) := forall d, mem d a = mem d b.
Definition rseteq (a b : result (list dim)) :=
  match a, b with Ok x, Ok y => seteq x y | Err e, Err f => e = f | _, _ => False end.

Lemma mem_filter d f l : mem d (filter f l) = mem d l && f d.
Proof. induction l as [|x xs IH]; simpl; auto.
 destruct (String.eqb_spec d x) as [->|N].
 - destruct (f x) eqn:E; simpl.
   + rewrite String.eqb_refl. reflexivity.
   + rewrite IH. apply andb_false_r.
 - destruct (f x) eqn:E; simpl.
   + destruct (String.eqb_spec d x); [contradiction|]. exact IH.
   + exact IH.
Qed.
Lemma mem_diff d a b : mem d (diff a b) = mem d a && negb (mem d b).
Proof. unfold diff. apply mem_filter. Qed.
Lemma subset_mem a b d : subset a b = true -> mem d a = true -> mem d b = true.
Proof. unfold subset. rewrite forallb_forall. intros H Hm. unfold mem in Hm.
 apply existsb_exists in Hm. destruct Hm as [x [Hx E]]. apply String.eqb_eq in E; subst. auto. Qed.

Theorem gather_both_err f o w r p s : r <> DNone -> p <> DNone -> gather f o w r p s = Err ValueError.
Proof. intros Hr Hp. unfold gather. destruct r, p; try congruence; reflexivity. Qed.

Theorem gather_none_is_all f o w s : gather f o w DNone DNone s = gather f o w (DStr "all") DNone s.
Proof. unfold gather; simpl. destruct s; simpl; try reflexivity;
  repeat match goal with |- context [if ?c then _ else _] => destruct c; simpl; try reflexivity end. Qed.

(* reduce=R  vs  preserve = scoring \ R, no score-specific dims, R a non-empty list inside the data dims *)
Theorem gather_reduce_preserve f o w R :
  let all_data := match w with None => union f o | Some w => union (union f o) w end in
  R <> [] -> diff all_data R <> [] -> subset R all_data = true ->
  rseteq (gather f o w (DList R) DNone DNone) (gather f o w DNone (DList (diff all_data R)) DNone).
Proof.
  intros all_data HR HP Hsub. unfold gather. fold all_data. simpl.
  destruct R as [|r0 R']; [congruence|]. cbn [is_empty negb andb as_list].
  rewrite Hsub. cbn [negb].
  destruct (diff all_data (r0 :: R')) as [|p0 P'] eqn:EP; [congruence|]. cbn [is_empty negb andb as_list].
  assert (Hs2 : subset (p0 :: P') all_data = true).
  { rewrite <- EP. unfold subset. rewrite forallb_forall. intros x Hx. unfold diff in Hx.
    apply filter_In in Hx. destruct Hx as [Hx _]. unfold mem. rewrite existsb_exists. exists x. split; auto. apply String.eqb_refl. }
  rewrite Hs2. cbn [negb]. simpl. intro d. rewrite <- EP. rewrite !mem_diff.
  destruct (mem d (r0 :: R')) eqn:E; simpl.
  - rewrite (subset_mem _ _ _ Hsub E). reflexivity.
  - rewrite andb_true_r. destruct (mem d all_data); reflexivity.
Qed.
Print Assumptions gather_reduce_preserve.
