From Coq Require Import Reals Lra List.
From Coquelicot Require Import Coquelicot.
Import ListNotations.
Open Scope R_scope.

Definition ind (a t : R) : R := if Rle_dec a t then 1 else 0.     (* 1{a <= t} *)
Fixpoint sumR (l : list R) : R := match l with [] => 0 | x :: t => x + sumR t end.

Lemma RInt_piece (w : R -> R) (c x y : R) :
  x <= y -> (forall t, x < t < y -> w t = c) -> is_RInt w x y (c * (y - x)).
Proof.
  intros Hxy Hw. apply is_RInt_ext with (f := fun _ => c).
  - intros t Ht. rewrite Rmin_left, Rmax_right in Ht by lra. symmetry; apply Hw; lra.
  - replace (c * (y - x)) with (scal (y - x) c) by (unfold scal; simpl; unfold mult; simpl; ring).
    apply (@is_RInt_const R_CompleteNormedModule).
Qed.

(* integral of the squared difference of two indicators = |a-b| *)
Lemma ind_diff_sq a b lo hi : lo <= a <= hi -> lo <= b <= hi ->
  is_RInt (fun t => (ind a t - ind b t) ^ 2) lo hi (Rabs (a - b)).
Proof.
  intros Ha Hb.
  assert (W : forall a b, lo <= a <= hi -> lo <= b <= hi -> a <= b ->
              is_RInt (fun t => (ind a t - ind b t) ^ 2) lo hi (b - a)).
  { clear. intros a b Ha Hb Hab.
    replace (b - a) with (plus (0 * (a - lo)) (plus (1 * (b - a)) (0 * (hi - b)))) by (unfold plus; simpl; ring).
    apply (@is_RInt_Chasles R_CompleteNormedModule) with (b := a).
    - apply RInt_piece; [lra|]. intros t Ht. unfold ind. destruct (Rle_dec a t), (Rle_dec b t); try lra.
    - apply (@is_RInt_Chasles R_CompleteNormedModule) with (b := b).
      + apply RInt_piece; [lra|]. intros t Ht. unfold ind. destruct (Rle_dec a t), (Rle_dec b t); try lra.
      + apply RInt_piece; [lra|]. intros t Ht. unfold ind. destruct (Rle_dec a t), (Rle_dec b t); try lra. }
  destruct (Rle_dec a b) as [Hab|Hab].
  - rewrite Rabs_left1 by lra. replace (- (a - b)) with (b - a) by ring. apply W; auto.
  - rewrite Rabs_right by lra.
    apply is_RInt_ext with (f := fun t => (ind b t - ind a t) ^ 2).
    + intros t _. simpl. ring.
    + apply W; auto; lra.
Qed.

(* linearity of is_RInt over list sums *)
Lemma is_RInt_sumR {A} (l : list A) (f : A -> R -> R) (I : A -> R) lo hi :
  (forall x, In x l -> is_RInt (f x) lo hi (I x)) ->
  is_RInt (fun t => sumR (map (fun x => f x t) l)) lo hi (sumR (map I l)).
Proof.
  induction l as [|x xs IH]; intros H; simpl.
  - assert (E : is_RInt (fun _ : R => 0) lo hi (scal (hi - lo) 0)) by apply (@is_RInt_const R_CompleteNormedModule).
    replace (scal (hi - lo) 0) with 0 in E by (unfold scal; simpl; unfold mult; simpl; ring). exact E.
  - apply (@is_RInt_plus R_CompleteNormedModule).
    + apply H; left; auto.
    + apply IH. intros y Hy. apply H; right; auto.
Qed.

(* pointwise variance identity, for arbitrary reals u_i and v *)
Lemma sum_scale c l : sumR (map (fun u => c * u) l) = c * sumR l.
Proof. induction l; simpl; [ring| rewrite IHl; ring]. Qed.
Lemma sum_plus {A} (f g : A -> R) l : sumR (map (fun x => f x + g x) l) = sumR (map f l) + sumR (map g l).
Proof. induction l; simpl; [ring| rewrite IHl; ring]. Qed.
Lemma sum_const {A} (c : R) (l : list A) : sumR (map (fun _ => c) l) = INR (length l) * c.
Proof. induction l; [simpl; ring|]. cbn [map sumR]. rewrite IHl. change (length (a :: l)) with (S (length l)). rewrite S_INR. ring. Qed.
Lemma sum_ext {A} (f g : A -> R) l : (forall x, f x = g x) -> sumR (map f l) = sumR (map g l).
Proof. intros H. induction l; simpl; auto. rewrite H, IHl. auto. Qed.

Lemma double_sum us :
  sumR (map (fun ui => sumR (map (fun uj => (ui - uj) ^ 2) us)) us)
  = 2 * INR (length us) * sumR (map (fun u => u ^ 2) us) - 2 * (sumR us) ^ 2.
Proof.
  set (m := INR (length us)). set (S1 := sumR us). set (S2 := sumR (map (fun u => u ^ 2) us)).
  assert (inner : forall ui, sumR (map (fun uj => (ui - uj) ^ 2) us) = m * ui ^ 2 - 2 * ui * S1 + S2).
  { intros ui. rewrite (sum_ext _ (fun uj => (ui ^ 2 + (-2 * ui) * uj) + uj ^ 2)) by (intros; ring).
    rewrite (sum_plus (fun uj => ui ^ 2 + -2 * ui * uj) (fun uj => uj ^ 2)).
    rewrite (sum_plus (fun _ => ui ^ 2) (fun uj => -2 * ui * uj)).
    rewrite sum_const. rewrite (sum_scale (-2 * ui)). fold m S1 S2.
    replace (sumR (map (fun u => u) us)) with S1. ring. unfold S1. rewrite map_id. auto. }
  rewrite (sum_ext _ _ us inner).
  rewrite (sum_ext _ (fun ui => (m * ui ^ 2 + (-2 * S1) * ui) + S2)) by (intros; ring).
  rewrite (sum_plus (fun ui => m * ui ^ 2 + -2 * S1 * ui) (fun _ => S2)).
  rewrite (sum_plus (fun ui => m * ui ^ 2) (fun ui => -2 * S1 * ui)).
  rewrite sum_const. rewrite (sum_scale (-2 * S1)).
  replace (sumR (map (fun ui => m * ui ^ 2) us)) with (m * S2).
  2:{ unfold S2. rewrite <- sum_scale. rewrite map_map. auto. }
  fold m S1. ring.
Qed.

Lemma variance_identity us v : us <> [] ->
  let m := INR (length us) in
  (sumR us / m - v) ^ 2
  = / m * sumR (map (fun u => (u - v) ^ 2) us)
    - / (2 * m ^ 2) * sumR (map (fun ui => sumR (map (fun uj => (ui - uj) ^ 2) us)) us).
Proof.
  intros Hne m. assert (Hm : m <> 0). { unfold m. destruct us; [congruence|]. apply not_0_INR. simpl; auto. }
  rewrite double_sum. fold m.
  rewrite (sum_ext _ (fun u => (u ^ 2 + (-2 * v) * u) + v ^ 2)) by (intros; ring).
  rewrite (sum_plus (fun u => u ^ 2 + -2 * v * u) (fun _ => v ^ 2)).
  rewrite (sum_plus (fun u => u ^ 2) (fun u => -2 * v * u)).
  rewrite sum_const, (sum_scale (-2 * v)). fold m. field. auto.
Qed.

(* the theorem: kernel form of the ensemble CRPS is the integral of (F_ens - H_y)^2 *)
Definition ecdf (xs : list R) (t : R) : R := sumR (map (fun x => ind x t) xs) / INR (length xs).
Definition crps_kernel (xs : list R) (y : R) : R :=
  let m := INR (length xs) in
  / m * sumR (map (fun x => Rabs (x - y)) xs)
  - / (2 * m ^ 2) * sumR (map (fun xi => sumR (map (fun xj => Rabs (xi - xj)) xs)) xs).

Theorem crps_ecdf_is_integral xs y lo hi :
  xs <> [] -> (forall x, In x xs -> lo <= x <= hi) -> lo <= y <= hi ->
  is_RInt (fun t => (ecdf xs t - ind y t) ^ 2) lo hi (crps_kernel xs y).
Proof.
  intros Hne Hx Hy. set (m := INR (length xs)).
  apply is_RInt_ext with
   (f := fun t => / m * sumR (map (fun x => (ind x t - ind y t) ^ 2) xs)
                  - / (2 * m ^ 2) * sumR (map (fun xi => sumR (map (fun xj => (ind xi t - ind xj t) ^ 2) xs)) xs)).
  { intros t _. unfold ecdf. fold m.
    pose proof (variance_identity (map (fun x => ind x t) xs) (ind y t)) as V.
    rewrite map_length in V. fold m in V. rewrite V.
    - rewrite !map_map. f_equal. f_equal. apply sum_ext. intros. rewrite map_map. auto.
    - destruct xs; simpl; congruence. }
  unfold crps_kernel. fold m.
  apply (@is_RInt_minus R_CompleteNormedModule).
  - apply (@is_RInt_scal R_CompleteNormedModule).
    apply (is_RInt_sumR xs (fun x t => (ind x t - ind y t) ^ 2) (fun x => Rabs (x - y))).
    intros x Hin. apply ind_diff_sq; auto.
  - apply (@is_RInt_scal R_CompleteNormedModule).
    apply (is_RInt_sumR xs (fun xi t => sumR (map (fun xj => (ind xi t - ind xj t) ^ 2) xs))
                           (fun xi => sumR (map (fun xj => Rabs (xi - xj)) xs))).
    intros xi Hi.
    apply (is_RInt_sumR xs (fun xj t => (ind xi t - ind xj t) ^ 2) (fun xj => Rabs (xi - xj))).
    intros xj Hj. apply ind_diff_sq; auto.
Qed.
Print Assumptions crps_ecdf_is_integral.
