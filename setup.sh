#!/bin/bash
# setup.sh -- build the verification framework from files on disk only (offline).
#   1. regenerate coq/gen from /repo's current source (tools/gen.py)
#   2. full .vo build of lib, gen, model, proofs (coq_makefile; never -vos)
#   3. extraction + OCaml driver
# Property theorem files (coq/props/*.v) are compiled by ./check itself so that their
# Print Assumptions output is captured per property.
set -u
cd "$(dirname "$0")"
ROOT=$(pwd)
export PATH=/usr/bin:$PATH
VERIF_REPO="${VERIF_REPO:-/repo}" python3 tools/build.py --all "$@"
