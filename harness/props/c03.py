"""C03 -- weights act as a pointwise multiplier of per-case scores before averaging."""
import numpy as np
import xarray as xr

import core
import gens
import scorelib
from scorelib import REGISTRY

ID = "C03"
LEVEL = "proof"
LEVEL_TEXT = ("Coq theorems about the weighting functional every score instantiates: pointwise factorisation (preserve_dims='all' result "
              "with w = w x unweighted result), broadcast by dimension name, unit weights, scaling by a constant, additivity in the weights "
              "under equal NaN masks (with a proved counterexample showing the hypothesis is necessary), and invariance of ratio scores "
              "under a positive constant; tied to the code by evaluating exactly these relations on every weight-accepting function.")
LEVEL_NOTE = ("functions.apply_weights is regenerated from source (site C03.aw, whole function in return style) and proved to be the cell-wise "
              "meaning of the model's weighting functional; the skipna mean is a hand model of xarray's, validated by the correspondence runs of C05; rmse is checked through rmse^2 (it is the root of the weight-linear mse, see C05)")
TECHNIQUE = "Coq proof about the weighting functional + metamorphic relations (w, c*w, w1+w2, unit, broadcast) on the implementation"
TIE_IS_SPEC = True
SITES = ["C03.aw"]
RULE = ("random labelled arrays with weights on sub/supersets of the data dims, non-negative dyadic weights with NaN; relations w vs c*w, "
        "w1+w2 (equal masks), unit weights, explicit broadcast; distinct by hash of (function, inputs, relation); non-trivial = result finite somewhere")


# counters that every complete run must have incremented (harness self-check, see core.run_check)
EXPECT_COUNTS = ['fn:', 'recipe:', 'mask_weights', 'nan_weight', 'zero_d_weight']

def recipe_weights(ctx):
    """the weight relations on every weight-accepting public function, through call recipes (implementation only)"""
    import recipes
    rng = ctx.rng
    R = [rc for rc in recipes.recipes() if rc.weights]
    for it in range(ctx.n(6, 24)):
        for rc in R:
            if not ctx.time_left():
                return
            xs = [recipes.mat(x) for x in rc.gen(rng)]
            dd = [d for d in xs[0].dims if d not in rc.nondata]
            sizes = {d: xs[0].sizes[d] for d in dd}
            wd = [d for d in dd if rng.random() < 0.6]
            w = gens.rand_da(rng, sizes, dims=wd, lo=1, hi=3, shuffle=False)
            w = w.assign_coords({d: xs[0][d] for d in wd})
            if it % 2 == 0 and wd:      # every other pass: a NaN weight at a slot where the data may be valid
                vals = w.values.copy()
                vals.flat[rng.randrange(vals.size)] = np.nan
                w = w.copy(data=vals)
                ctx.count("nan_weight")
            kw0 = {}
            if rc.dims_kw and it % 3 != 0 and rng.random() < 0.7:      # every third pass keeps the default request (reduce everything)
                sub = [d for d in dd if rng.random() < 0.5]
                kw0 = {"reduce_dims": sub} if rng.random() < 0.5 else {"preserve_dims": sub}

            def call(wt, kw=kw0):
                k = dict(kw)
                if wt is not None:
                    k["weights"] = wt
                r = core.call_impl(rc.call, xs, **k)
                if rc.name == "rmse" and r[0] == "ok":
                    r = ("ok", r[1] ** 2)
                return r
            desc = {"fn": rc.name, "inputs": [gens.da_repr(x) for x in xs], "weights": gens.da_repr(w), "kw": kw0}
            base = call(w)
            ctx.case(desc, base[0] == "ok")
            ctx.count("recipe:" + rc.name)
            if base[0] != "ok":
                ctx.violation(f"{rc.name}: valid weights raise {base[1]}", desc, "a value", base[1])
                continue
            c = rng.choice([0.5, 2.0, 3.0])
            sc = call(w * c)
            if rc.kind == "mean":
                ok, why = scorelib.same_result(sc, ("ok", base[1] * c))
                what = f"{rc.name}: weights {c}*w do not scale the score by {c}"
            else:
                ok, why = scorelib.same_result(sc, base)
                what = f"{rc.name}: ratio score is not invariant under the constant weight factor {c}"
            if not ok:
                ctx.violation(what + ": " + why, dict(desc, c=c), "scaled/invariant", why)
            ok, why = scorelib.same_result(call(xr.ones_like(w)), call(None))
            if not ok:
                ctx.violation(f"{rc.name}: unit weights change the result: {why}", desc, "same as unweighted", why)
            # a weight given as a 0-d array acts like the constant it holds
            c0 = rng.choice([0.5, 2.0, 3.0])
            r0, ru = call(xr.DataArray(c0)), call(None)
            ctx.count("zero_d_weight")
            if r0[0] == "ok" and ru[0] == "ok":
                ok, why = scorelib.same_value(r0[1], ru[1] * c0 if rc.kind == "mean" else ru[1])
                if not ok:
                    ctx.violation(f"{rc.name}: a 0-d weight array holding {c0} does not act like the constant weight {c0}: {why}", dict(desc, c=c0),
                                  "c * unweighted" if rc.kind == "mean" else "unweighted", why)
            elif r0[0] != ru[0]:
                ctx.violation(f"{rc.name}: a 0-d weight array raises {r0[1]}", desc, "a value", r0[1])
            # mask weights: one constant c where a case counts and NaN where it does not. As a pointwise multiplier this is
            # c times (mean-type) / the same as (ratio-type) the unweighted score of the inputs with those cases blanked
            if wd and w.size > 1:
                cm = rng.choice([1.0, 1.0, 2.0, 0.5])
                mv = np.full(w.shape, cm)
                for _ in range(rng.randint(1, max(1, w.size // 2))):
                    mv.flat[rng.randrange(mv.size)] = np.nan
                wm = w.copy(data=mv)
                ctx.count("mask_weights")
                xs_b = [xs[0].where(wm.notnull()).transpose(*xs[0].dims)] + list(xs[1:])
                km = dict(kw0)
                rb = core.call_impl(rc.call, xs_b, **km)
                rm = call(wm)
                if rc.name == "rmse" and rb[0] == "ok":
                    rb = ("ok", rb[1] ** 2)
                if rb[0] == "ok" and rm[0] == "ok":
                    ok, why = scorelib.same_value(rm[1], rb[1] * cm if rc.kind == "mean" else rb[1], tol=1e-9)
                    if not ok:
                        ctx.violation(f"{rc.name}: mask weights ({cm} / NaN) do not give {'%s times ' % cm if rc.kind == 'mean' else ''}the unweighted score of the inputs "
                                      f"with the NaN-weighted cases blanked: {why}", dict(desc, mask_weights=gens.da_repr(wm)), "c * unweighted on the kept cases", why)
                elif rm[0] != "ok" and rb[0] == "ok":
                    ctx.violation(f"{rc.name}: mask weights ({cm} / NaN) raise {rm[1]}", dict(desc, mask_weights=gens.da_repr(wm)), "a value", rm[1])
            if rc.kind == "mean" and rc.dims_kw:
                # "before averaging": the aggregated score is the NaN-skipping mean of the weighted pointwise scores
                pw_w = call(w, {"preserve_dims": "all"})
                if pw_w[0] == "ok":
                    red = kw0.get("reduce_dims")
                    if red is None:
                        red = [d for d in dd if d not in kw0.get("preserve_dims", [])]
                    red = [d for d in red if d in pw_w[1].dims]
                    want = pw_w[1].mean(dim=red) if red else pw_w[1]
                    ok, why = scorelib.same_value(base[1], want, tol=1e-8)
                    if not ok:
                        ctx.violation(f"{rc.name}: aggregated weighted score is not the NaN-skipping mean of the weighted pointwise scores: {why}", desc, "mean of w*pointwise", why)
            if rc.kind == "mean":
                w2 = w * 0 + gens.rand_da(rng, sizes, dims=list(w.dims), lo=0, hi=3, shuffle=False).assign_coords({d: w[d] for d in w.dims})
                r2, r12 = call(w2), call(w + w2)
                if r2[0] == r12[0] == "ok":
                    ok, why = scorelib.same_value(r12[1], base[1] + r2[1])
                    if not ok:
                        ctx.violation(f"{rc.name}: weights w1+w2 do not give the sum of the two results: {why}", dict(desc, w2=gens.da_repr(w2)), "r(w1)+r(w2)", why)
                if rc.dims_kw:
                    pw_w, pw = call(w, {"preserve_dims": "all"}), call(None, {"preserve_dims": "all"})
                    if pw_w[0] == "ok" and pw[0] == "ok":
                        ok, why = scorelib.same_value(pw_w[1], pw[1] * w)
                        if not ok:
                            ctx.violation(f"{rc.name}: preserve_dims='all' result with weights is not weights * unweighted pointwise result: {why}", desc, "w * pointwise", why)


def run(ctx):
    registry_weights(ctx)
    recipe_weights(ctx)


def registry_weights(ctx):
    rng = ctx.rng
    wfns = [n for n, f in REGISTRY.items() if f.weights]
    for it in range(ctx.n(12, 150)):
        for name in wfns:
            if not ctx.time_left():
                return
            fn = REGISTRY[name]
            arrs, w, sizes = scorelib.gen_arrays(rng, fn, weights=True)
            extra = fn.gen_extra(rng)
            rd, pd = gens.rand_dimspec(rng, list(sizes))
            sq = (lambda r: r) if name != "rmse" else (lambda r: (r[0], r[1] ** 2) if r[0] == "ok" else r)

            def call(wt, rd_=rd, pd_=pd):
                return sq(core.call_impl(fn.impl, arrs, extra, rd_, pd_, wt))
            desc = fn.describe(arrs, extra, rd, pd, w)
            base = call(w)
            ctx.case(desc, base[0] == "ok")
            ctx.count("fn:" + name)
            if it == 0:
                ctx.sample(desc, limit=4)
            # tie
            impl, m, ok, why = fn.run(ctx, arrs, extra, rd, pd, w)
            if not ok:
                ctx.tie_fail(name + " vs model (weighted): " + why, desc, str(impl[1])[:200], str(m)[:200])
            if base[0] != "ok":
                continue
            # (1) pointwise factorisation
            if fn.kind == "mean":
                pw_w, pw = call(w, None, "all"), call(None, None, "all")
                if pw_w[0] == "ok" and pw[0] == "ok":
                    ok, why = scorelib.same_value(pw_w[1], pw[1] * w)
                    if not ok:
                        ctx.violation(f"{name}: preserve_dims='all' result with weights is not weights * unweighted pointwise result: {why}", desc, "w * pointwise", why)
            # (2) scaling by a constant
            c = rng.choice([0.5, 2.0, 3.0])
            sc = call(w * c)
            if sc[0] == "ok":
                if fn.kind == "mean":
                    ok, why = scorelib.same_value(sc[1], base[1] * c)
                    what = f"{name}: weights {c}*w do not scale the score by {c}"
                else:
                    ok, why = scorelib.same_value(sc[1], base[1])
                    what = f"{name}: ratio score is not invariant under the constant weight factor {c}"
                if not ok:
                    ctx.violation(what + ": " + why, dict(desc, c=c), "scaled/invariant", why)
            # (3) unit weights change nothing
            ones = xr.ones_like(w)
            ok, why = scorelib.same_result(call(ones), call(None)) if "wx" not in w.dims else (True, "")
            if not ok:
                ctx.violation(f"{name}: unit weights change the result: {why}", desc, "same as unweighted", why)
            # (4) additivity under equal NaN masks
            if fn.kind == "mean":
                w2 = (w * 0 + gens.rand_da(rng, dict(sizes, wx=2), dims=list(w.dims), lo=0, hi=3, shuffle=False).assign_coords({d: w[d] for d in w.dims}))
                r1, r2, r12 = call(w), call(w2), call(w + w2)
                if r1[0] == r2[0] == r12[0] == "ok":
                    ok, why = scorelib.same_value(r12[1], r1[1] + r2[1])
                    if not ok:
                        ctx.violation(f"{name}: weights w1+w2 do not give the sum of the two results: {why}", dict(desc, w2=gens.da_repr(w2)), "r(w1)+r(w2)", why)
            # (5) weights broadcast by name: explicit broadcast against the data gives the same result
            template = xr.zeros_like(arrs[0].fillna(0.0))
            wbroad = w + template
            ok, why = scorelib.same_result(call(wbroad), base)
            if not ok:
                ctx.violation(f"{name}: explicitly broadcast weights give a different result: {why}", desc, "same", why)


def run_without_model(ctx):
    """used when the extracted model does not build against the current source: relations between public calls only"""
    recipe_weights(ctx)
