"""C08 -- discretisation and contingency counts classify every valid pair exactly once."""
import math
import operator
from fractions import Fraction

import numpy as np
import xarray as xr

import core
import gens
from core import enc_arr, enc_bool, enc_dimspec, enc_list, enc_num, enc_nums, enc_opt, enc_str

ID = "C08"
LEVEL = "proof"
LEVEL_TEXT = ("Coq theorems over the code regenerated from the current source -- both mode tables and the whole mode chain of "
              "comparative_discretise, its tolerance guard, the event tables of ThresholdEventOperator and the four maps of "
              "BinaryContingencyManager: for all rational data, thresholds and tolerances >= 0 each of the 6 relations in both spellings "
              "is 1 exactly where the relation holds (within tolerance = equal), NaN iff an input is NaN, complements sum to 1, spellings "
              "agree; for every threshold (0 and negatives included) and operator the event tables use the given threshold; for every list "
              "of pairs each count equals direct counting, tp+tn+fp+fn = number of pairs valid in both, and sums over groups add up. "
              "Proof is the right level because the decisive inputs are ties with the threshold / tolerance and the threshold value 0, "
              "which no sampled input hits; the array plumbing around the kernels is tied by a correspondence check on every run. The views of a "
              "manager (round 4): for a counts dict in any key order the regenerated table reports each count under its own label; the regenerated "
              "format_table is right for the key order the library builds, and for any order iff it reads by label (it reads by position: known "
              "finding format-table-by-position, proved as a refutation); the translator refuses any method other than the constructors that "
              "writes the manager's state.")
LEVEL_NOTE = ("trusted: the custom translator sites of tools/sites/c08.py + Xval/C08_aux semantics (validated by correspondence on the full tie "
              "grid), the hand model of broadcasting against the threshold dimension, squeeze, mean and NaN-skipping sums (validated by "
              "correspondence); binary64 rounding of `comparison +- abs_tolerance` is not modelled (dyadic inputs only)")
TECHNIQUE = "Coq proof over translator-regenerated discretisation/contingency kernels + extracted-model correspondence check"
SITES = ["C08.modes", "C08.discretise", "C08.maps", "C08.init", "C08.event_tables", "C08.event_manager", "C08.views"]
RULE = ("kernel: the full grid of 12 mode spellings x tolerances {None,0,1/4,1/2} x data values x thresholds on the dyadic grid k/4 chosen so "
        "that every value is on / within / outside the tolerance of some threshold, plus NaN and +-inf; arrays: 1-3 named dims of size 1-3 in "
        "shuffled dimension and coordinate order, NaN injected with p=0.15, threshold lists of 1-4 values (sorted, tied, unsorted, NaN, scalar), "
        "invalid modes and negative tolerances for the error paths; contingency: event thresholds from {None,0,-1/2,-2,1/4,1,...} x operators "
        "{None,ge,gt,le,lt,eq,ne} x every reduce/preserve spelling; a case is distinct by the hash of (function, inputs, options), non-trivial "
        "when at least one non-NaN cell exists; precision stream: float32 / float16 / float64 data whose cells sit on the threshold rounded to "
        "the storage type, one unit in the last place and 1e-12 ... 0.4 either side of 1-3 decimal thresholds those types cannot hold (0.7, 0.1, "
        "0.001, 1/3, 0.3 next to 0.1+0.2, ...), tolerances None/0/1e-8/1e-6/1e-3/1/4; contingency: the same near-threshold values around the "
        "threshold in force in 40% of the cases, non-dyadic event thresholds including the signature default 0.001; round 4: +-inf as valid "
        "forecast / observation values (12%), forecast / observation stored as (un)signed 8-64 bit integers (10% each), event tables stored as "
        "bool / uint8-64 / int8-64 / float16-32, independently for fcst and obs; BasicContingencyManager from a counts dict whose five keys are "
        "in a random permutation (0-d and 1-2-d counts, float and integer) read through get_counts / get_table / format_table; call sequences "
        "of 2-4 valid transform requests on ONE BinaryContingencyManager with its own views checked before and after each; Datasets of 2-3 "
        "variables whose NaN positions differ")
ASSUMPTIONS = ["inputs of the correspondence are dyadic rationals, so `comparison +- abs_tolerance` is exact in binary64; non-dyadic inputs are tied to "
               "the model only where nothing is added to the threshold (tolerance None / 0, event operators)",
               "with a non-zero tolerance on non-dyadic inputs the exact oracle leaves a cell undecided when its distance from the threshold is within "
               "1e-12 of the tolerance (binary64 rounding of `comparison +- abs_tolerance`)"]

# counters every complete run must have incremented (one per predicate family / input class): core.run_check reports the missing ones
EXPECT_COUNTS = ["kernel_grid_points", "binary_discretise:ok", "binary_discretise_proportion:ok", "comparative_discretise:ok", "dtype:int64", "dtype:float32",
                 "precision:dtype=float32", "precision:dtype=float16", "precision:proportion_checked", "contingency:near_threshold_values",
                 "contingency:infinite_values", "contingency:integer_storage", "contingency:pointwise_checked", "contingency:direct_count_checked",
                 "contingency:additivity_checked", "contingency:threshold=zero", "contingency:constructor_default_used", "manager_raw:ok",
                 "manager_raw:dtype=uint", "manager_raw:dtype=bool", "views:user_dict:other_order:0-d", "views:user_dict:other_order:n-d",
                 "views:format_table", "views:model_tie", "views:object_state:ThresholdEventOperator", "views:object_state:BinaryContingencyManager",
                 "views:transformed_view:kept=", "views:object_state_sequences_completed", "dataset:binary_discretise", "dataset:contingency"]

OPNAME = {operator.ge: "ge", operator.gt: "gt", operator.le: "le", operator.lt: "lt", operator.eq: "eq", operator.ne: "ne"}
STR_MODES = [">=", ">", "<=", "<", "==", "!="]
OP_MODES = [operator.ge, operator.gt, operator.le, operator.lt, operator.eq, operator.ne]
COMPLEMENT = {0: 3, 3: 0, 1: 2, 2: 1, 4: 5, 5: 4}
INF = float("inf")
NAN = float("nan")


def enc_mode(m):
    return enc_str(m) if isinstance(m, str) else OPNAME[m]


def mode_repr(m):
    return m if isinstance(m, str) else "operator." + OPNAME[m]


def P():
    import scores.processing as proc
    return proc


def model_ok(ctx):
    b = getattr(ctx, "build", None) or {}
    return bool(b.get("driver_ok")) and "C08" not in (b.get("excluded_models") or [])


def views_model_ok(ctx):
    b = getattr(ctx, "build", None) or {}
    return bool(b.get("driver_ok")) and "C08_views" not in (b.get("excluded_models") or [])


def py_rel(k, x, c, tol):
    """independent oracle of `x <relation k> c` with absolute tolerance tol >= 0 (within tolerance = equal): 1.0 / 0.0 / nan.
    x, c: Fraction or float (nan, +-inf allowed); tol: Fraction"""
    for v in (x, c):
        if isinstance(v, float) and math.isnan(v):
            return NAN
    xi, ci = isinstance(x, float) and math.isinf(x), isinstance(c, float) and math.isinf(c)
    if xi or ci:
        # an infinite value is within tolerance of the threshold only if it is the same infinity
        near = xi and ci and x == c
        fx, fc = (x if xi else 0.0), (c if ci else 0.0)
        gt, lt = (not near) and fx > fc, (not near) and fx < fc
    else:
        x, c = Fraction(x), Fraction(c)
        near = abs(x - c) <= tol
        gt, lt = x > c, x < c
    r = [gt or near, gt and not near, lt or near, lt and not near, near, not near][k]
    return 1.0 if r else 0.0


# ----------------------------------------------------------------------------------------------
# kernel grid
# ----------------------------------------------------------------------------------------------
def kernel_grid(ctx, use_model=True):
    proc = P()
    data_vals = [Fraction(k, 4) for k in range(-6, 7)] + [NAN, INF, -INF]
    thr_vals = [Fraction(-1), Fraction(-1, 4), Fraction(0), Fraction(1, 2), Fraction(1), NAN, INF, -INF]
    tols = [None, Fraction(0), Fraction(1, 4), Fraction(1, 2)]
    if ctx.tier == "thorough" or ctx.scale > 1:
        tols += [Fraction(1, 8), Fraction(3, 4), Fraction(2)]
    data = xr.DataArray([float(v) for v in data_vals], dims="x")
    n = 0
    for tol in tols:
        for c in thr_vals:
            impl = {}
            for k in range(6):
                for m in (STR_MODES[k], OP_MODES[k]):
                    st, v = core.call_impl(proc.comparative_discretise, data, float(c), m, abs_tolerance=None if tol is None else float(tol))
                    impl[(k, isinstance(m, str))] = None if st == "err" else [float(z) for z in v.values]
            for i, d in enumerate(data_vals):
                for k in range(6):
                    vals = {}
                    for m in (STR_MODES[k], OP_MODES[k]):
                        key = (k, isinstance(m, str))
                        case = {"fn": "comparative_discretise", "data": d, "comparison": c, "mode": mode_repr(m), "abs_tolerance": tol}
                        ctx.case(("k", d, c, key, tol))
                        n += 1
                        if impl[key] is None:
                            ctx.violation("comparative_discretise raises for a valid mode", case, "0/1/nan", "exception")
                            continue
                        x = impl[key][i]
                        vals[key] = x
                        finite = not (isinstance(d, float) and math.isinf(d)) and not (isinstance(c, float) and math.isinf(c))
                        exp = py_rel(k, d, c, tol if tol is not None else Fraction(0))
                        if not core.close(x, exp):
                            ctx.violation("discretised value differs from `data <relation> threshold` (within tolerance = equal)", case, exp, x)
                        if use_model:
                            gen, spec = ctx.model("c08_discretise_k", enc_list([enc_num(d), enc_num(c), enc_mode(m), enc_num(tol if tol is not None else 0)]))
                            if core.is_err(gen) or not core.close(x, core.dec_num(gen)):
                                ctx.tie_fail("gen_comparative_discretise vs implementation", case, x, gen)
                            if finite and not core.close(exp, core.dec_num(spec)):
                                ctx.tie_fail("proved specification vs the harness oracle", case, exp, spec)
                        isn = (isinstance(d, float) and math.isnan(d)) or (isinstance(c, float) and math.isnan(c))
                        if math.isnan(x) != isn:
                            ctx.violation("result is NaN although no input is NaN / not NaN although one is", case, "nan" if isn else "0/1", x)
                    # spellings agree
                    if len(vals) == 2:
                        a, b = vals[(k, True)], vals[(k, False)]
                        if not ((math.isnan(a) and math.isnan(b)) or a == b):
                            ctx.violation("string and operator spelling disagree", {"data": d, "comparison": c, "mode": STR_MODES[k], "abs_tolerance": tol}, a, b)
                # complementary relations sum to one where neither input is NaN
                for k in (0, 1, 4):
                    a, b = impl[(k, True)], impl[(COMPLEMENT[k], True)]
                    if a is None or b is None or math.isnan(a[i]) or math.isnan(b[i]):
                        continue
                    if a[i] + b[i] != 1.0:
                        both_inf = isinstance(d, float) and isinstance(c, float) and d == c and math.isinf(d)
                        ctx.violation("complementary relations do not sum to 1",
                                      {"fn": "comparative_discretise", "data": d, "comparison": c, "modes": [STR_MODES[k], STR_MODES[COMPLEMENT[k]]],
                                       "abs_tolerance": tol}, 1.0, a[i] + b[i],
                                      finding_key="discretise-eq-inf" if (both_inf and k == 4) else None)
    ctx.count("kernel_grid_points", n)


# ----------------------------------------------------------------------------------------------
# binary_discretise / proportion on arrays
# ----------------------------------------------------------------------------------------------
def rand_thresholds(rng):
    r = rng.random()
    if r < 0.12:
        return float(gens.grid_value(rng, 4, 2)), True
    k = rng.randint(1, 4)
    ts = sorted(gens.grid_value(rng, 4, 2) for _ in range(k))
    if r < 0.2 and k > 1:
        rng.shuffle(ts)
    ts = [float(t) for t in ts]
    if r > 0.95:
        ts[rng.randrange(k)] = NAN
    return ts, False


def rand_mode(rng):
    r = rng.random()
    if r < 0.06:
        return rng.choice(["=>", "ge", "", "=", "<>"])
    return rng.choice(STR_MODES + OP_MODES)


def oracle_discretise(ctx, data, ts, scalar, mode, tol, sq, out, desc, band=None):
    """binary_discretise output against the per-cell oracle (valid mode, sorted finite thresholds).
    The oracle is exact (fractions of the values the data holds, whatever its storage type, and of the thresholds as passed).
    `band`: with a non-zero tolerance on non-dyadic inputs `comparison +- abs_tolerance` is rounded in binary64; cells whose distance
    from the threshold is within `band` of the tolerance are not decided by the oracle (never needed for tolerance None / 0).
    -> list of per-threshold expectation arrays (NaN where undecided / missing) or None after a violation"""
    k = STR_MODES.index(mode) if isinstance(mode, str) else OP_MODES.index(mode)
    tl = [ts] if scalar else list(ts)
    squeezed = (scalar or sq) and len(tl) == 1
    dv = np.asarray(data.values, float)
    ftol = Fraction(tol or 0)
    exps = []
    for j, t in enumerate(tl):
        got = out if squeezed else out.isel(threshold=j)
        got = np.asarray(got.transpose(*data.dims).values, float)
        exp = np.array([py_rel(k, float(v) if (np.isnan(v) or np.isinf(v)) else Fraction(float(v)), Fraction(t), ftol)
                        for v in dv.ravel()]).reshape(dv.shape)
        decided = np.ones(dv.shape, bool)
        if band is not None and ftol != 0:
            decided = np.array([not np.isfinite(v) or abs(abs(Fraction(float(v)) - Fraction(t)) - ftol) > band for v in dv.ravel()]).reshape(dv.shape)
        if not np.array_equal(np.where(decided, got, 0.0), np.where(decided, exp, 0.0), equal_nan=True):
            ctx.violation("binary_discretise differs from `data <relation> threshold` cell by cell", dict(desc, threshold=t), exp.tolist(), got.tolist())
            return None
        exps.append(exp if decided.all() else None)
    if (not squeezed) and list(np.asarray(out["threshold"].values, float)) != [float(t) for t in tl]:
        ctx.violation("threshold coordinate of binary_discretise is not the threshold list", desc, tl, out["threshold"].values.tolist())
        return None
    return exps


def discretise_arrays(ctx, i, use_model=True):
    proc = P()
    rng = ctx.rng
    names = ["a", "b", "c", "threshold"] if rng.random() < 0.06 else ["a", "b", "c"]
    sizes = gens.rand_sizes(rng, names=names)
    data = gens.rand_da(rng, sizes, den=4, bound=2, nan_p=0.15 if rng.random() < 0.5 else 0.0)
    r = rng.random()
    if r < 0.15:      # integer-typed data (thresholds stay fractional)
        data = gens.rand_da(rng, sizes, values=[-2, -1, 0, 1, 2]).astype("int64")
    elif r < 0.3:     # single precision data
        data = data.astype("float32")
    ts, scalar = rand_thresholds(rng)
    mode = rand_mode(rng)
    tol = rng.choice([None, None, 0.0, 0.25, 0.5, 1.0, -0.25])
    sq = rng.random() < 0.4
    kw = {"abs_tolerance": tol, "autosqueeze": sq}
    args = [enc_arr(data), enc_nums([ts] if scalar else ts), enc_bool(scalar), enc_mode(mode) if isinstance(mode, str) or mode in OPNAME else "'?",
            enc_opt(tol, enc_num), enc_bool(sq)]
    desc = {"data": gens.da_repr(data), "thresholds": ts, "mode": mode_repr(mode), "abs_tolerance": tol, "autosqueeze": sq}
    which = rng.random()
    if which < 0.5:
        impl = core.call_impl(proc.binary_discretise, data, ts, mode, **kw)
        m = ctx.model("c08_binary_discretise", enc_list(args)) if use_model else None
        desc["fn"] = "binary_discretise"
        desc["dtype"] = str(data.dtype)
        valid_call = (isinstance(mode, str) and mode in STR_MODES or mode in OP_MODES) and (tol is None or tol >= 0) and "threshold" not in sizes \
            and all(math.isfinite(t) for t in ([ts] if scalar else ts)) and (scalar or list(ts) == sorted(ts))
        if valid_call:
            if impl[0] != "ok":
                ctx.violation("binary_discretise raises on valid arguments", desc, "0/1/nan array", impl[1])
            else:
                oracle_discretise(ctx, data, ts, scalar, mode, tol, sq, impl[1], desc)
    else:
        rd, pd = gens.rand_dimspec(rng, [d for d in sizes], allow_bad=True)
        if rd is not None:
            kw["reduce_dims"] = rd
        if pd is not None:
            kw["preserve_dims"] = pd
        with np.errstate(all="ignore"):
            impl = core.call_impl(proc.binary_discretise_proportion, data, ts, mode, **kw)
        m = ctx.model("c08_proportion", enc_list(args + [enc_dimspec(rd), enc_dimspec(pd)])) if use_model else None
        desc.update({"fn": "binary_discretise_proportion", "reduce_dims": rd, "preserve_dims": pd, "dtype": str(data.dtype)})
        # proportion = NaN-skipping mean of binary_discretise over the same dims (relation between two public calls)
        if impl[0] == "ok":
            st2, disc = core.call_impl(proc.binary_discretise, data, ts, mode, abs_tolerance=tol, autosqueeze=sq)
            if st2 == "ok":
                red = [d for d in data.dims if d not in impl[1].dims]
                with np.errstate(all="ignore"):
                    exp = disc.mean(dim=red) if red else disc
                if not np.allclose(np.asarray(exp.transpose(*impl[1].dims).values, float), np.asarray(impl[1].values, float), rtol=1e-12, atol=0, equal_nan=True):
                    ctx.violation("proportion is not the mean of the discretised data over the reduced dims", desc,
                                  np.asarray(exp.values).tolist(), np.asarray(impl[1].values).tolist())
    ctx.case(desc, impl[0] == "ok" and bool(np.isfinite(np.asarray(impl[1], dtype=float)).any()))
    ctx.count(desc["fn"] + ":" + ("ok" if impl[0] == "ok" else impl[1]))
    ctx.count("dtype:" + str(data.dtype))
    if i < 2:
        ctx.sample(desc)
    if use_model:
        ok, why = core.compare_result(impl, m)
        if not ok:
            ctx.tie_fail(desc["fn"] + " vs model: " + why, desc, str(impl[1])[:300], str(m)[:300])
    # comparative_discretise against an array comparison with its own dims
    if use_model and which < 0.25 and "threshold" not in sizes:
        cd = gens.sub_dims(rng, sizes, p_drop=0.5)
        comp = gens.rand_da(rng, sizes, dims=cd, den=4, bound=2, nan_p=0.1)
        impl = core.call_impl(proc.comparative_discretise, data, comp, mode, abs_tolerance=tol)
        m = ctx.model("c08_comparative_discretise", enc_list([enc_arr(data), enc_arr(comp), args[3], enc_opt(tol, enc_num)]))
        ok, why = core.compare_result(impl, m)
        d2 = {"fn": "comparative_discretise", "data": gens.da_repr(data), "comparison": gens.da_repr(comp), "mode": mode_repr(mode), "abs_tolerance": tol}
        ctx.case(d2, impl[0] == "ok")
        ctx.count("comparative_discretise:" + ("ok" if impl[0] == "ok" else impl[1]))
        if not ok:
            ctx.tie_fail("comparative_discretise vs model: " + why, d2, str(impl[1])[:300], str(m)[:300])


# ----------------------------------------------------------------------------------------------
# round 3: the relation is a statement about the VALUES held by the data and the thresholds as passed -- not about the storage
# type of the data: single / half precision data, thresholds those types cannot hold, data on the rounded threshold, one unit in
# the last place and a few decimal places away from it
# ----------------------------------------------------------------------------------------------
DECIMAL_THRESHOLDS = [0.7, 0.1, 0.4, 1.3, -0.3, 0.001, 0.3, 0.1 + 0.2, -1.5, 2.6, 1 / 3, 0.5, 1.0, 0.0, 17.3, -0.05, 0.9, 1e-5, 1234.56]
OFFSETS = [1e-12, 4e-10, 3e-9, 4e-9, 4e-7, 4e-4, 0.04, 0.4]
BAND = Fraction(1, 10 ** 12)


def near_values(t, dtype):
    """values exactly representable in `dtype`: the threshold rounded to that type, its two neighbours in that type, and the
    threshold moved by 1e-12 ... 0.4 (every decimal place a rounding step could work at); the first three are the 'on it' group"""
    ty = np.dtype(dtype).type
    with np.errstate(all="ignore"):
        c = ty(t)
        out = [c, np.nextafter(c, ty(np.inf)), np.nextafter(c, ty(-np.inf))]
        for d in OFFSETS:
            out += [ty(t + d), ty(t - d)]
    return [float(v) for v in out if np.isfinite(v)]


def inject_near(rng, da, thresholds, dtype, p=0.5):
    """replace a random subset of the non-NaN cells by values on / next to / near one of the thresholds"""
    pools = [near_values(t, dtype) for t in thresholds]
    vals = np.asarray(da.values, float).copy().ravel()
    for n in range(vals.size):
        if not np.isnan(vals[n]) and rng.random() < p:
            pool = rng.choice(pools)
            vals[n] = rng.choice(pool[:3]) if rng.random() < 0.55 else rng.choice(pool)
    out = da.copy()
    out.values = vals.reshape(da.shape)
    return out


INT_DTYPES = ["uint8", "uint16", "uint32", "uint64", "int8", "int16", "int32", "int64"]
EVENT_DTYPES = INT_DTYPES + ["bool", "float32", "float16"]


def inject_inf(rng, da, p=0.25):
    """replace a random subset of the non-NaN cells by +inf / -inf (valid data, not missing data)"""
    vals = np.asarray(da.values, float).copy().ravel()
    for n in range(vals.size):
        if not np.isnan(vals[n]) and rng.random() < p:
            vals[n] = rng.choice([INF, -INF])
    return da.copy(data=vals.reshape(da.shape))


def discretise_precision(ctx, i, use_model=True):
    proc = P()
    rng = ctx.rng
    dtype = rng.choice(["float32", "float32", "float32", "float16", "float64", "float64"])
    ts = sorted(set(rng.sample(DECIMAL_THRESHOLDS, rng.randint(1, 3))))
    scalar = len(ts) == 1 and rng.random() < 0.3
    sizes = gens.rand_sizes(rng, names=["a", "b", "c"])
    data = gens.rand_da(rng, sizes, den=4, bound=2, nan_p=0.12 if rng.random() < 0.5 else 0.0)
    data = inject_near(rng, data, ts, dtype, p=0.6).astype(dtype)
    if scalar:
        ts = ts[0]
    mode = rng.choice(STR_MODES + OP_MODES)
    tol = rng.choice([None, None, None, 0.0, 1e-8, 1e-6, 1e-3, 0.25])
    sq = rng.random() < 0.4
    desc = {"fn": "binary_discretise", "dtype": dtype, "data": gens.da_repr(data), "thresholds": ts, "mode": mode_repr(mode),
            "abs_tolerance": tol, "autosqueeze": sq}
    st, out = core.call_impl(proc.binary_discretise, data, ts, mode, abs_tolerance=tol, autosqueeze=sq)
    ctx.case(desc, bool(np.isfinite(np.asarray(data.values, float)).any()))
    ctx.count("precision:dtype=" + dtype)
    ctx.count("precision:tolerance=" + ("none/0" if not tol else "positive"))
    if i < 1:
        ctx.sample(desc)
    if st != "ok":
        ctx.violation("binary_discretise raises on valid arguments", desc, "0/1/nan array", out)
        return
    exps = oracle_discretise(ctx, data, ts, scalar, mode, tol, sq, out, desc, band=BAND)
    # the same values stored in double precision are classified identically
    st64, out64 = core.call_impl(proc.binary_discretise, data.astype("float64"), ts, mode, abs_tolerance=tol, autosqueeze=sq)
    if st64 != "ok" or not np.array_equal(np.asarray(out.values, float), np.asarray(out64.values, float), equal_nan=True):
        ctx.violation("binary_discretise classifies the same values differently when they are stored as " + dtype + " / float64", desc,
                      np.asarray(out64.values, float).tolist() if st64 == "ok" else out64, np.asarray(out.values, float).tolist())
    # comparative_discretise against the scalar threshold directly
    t0 = ts if scalar else ts[0]
    stc, cd = core.call_impl(proc.comparative_discretise, data, t0, mode, abs_tolerance=tol)
    if stc != "ok":
        ctx.violation("comparative_discretise raises on valid arguments", dict(desc, fn="comparative_discretise", comparison=t0), "0/1/nan array", cd)
    else:
        oracle_discretise(ctx, data, t0, True, mode, tol, True, cd, dict(desc, fn="comparative_discretise", comparison=t0), band=BAND)
    # the proportion over all dims = (valid data for which the relation holds) / (valid data), by exact counting
    if exps is not None and all(e is not None for e in exps):
        with np.errstate(all="ignore"):
            stp, prop = core.call_impl(proc.binary_discretise_proportion, data, ts, mode, abs_tolerance=tol, autosqueeze=sq)
        if stp != "ok":
            ctx.violation("binary_discretise_proportion raises on valid arguments", dict(desc, fn="binary_discretise_proportion"), "fractions", prop)
        else:
            exp = []
            for e in exps:
                v = e[~np.isnan(e)]
                exp.append(float(Fraction(int(v.sum()), v.size)) if v.size else NAN)
            got = np.asarray(prop.values, float).ravel().tolist()
            if len(got) != len(exp) or not all((math.isnan(a) and math.isnan(b)) or abs(a - b) <= 1e-12 for a, b in zip(got, exp)):
                ctx.violation("proportion is not (valid data for which the relation holds) / (valid data)", dict(desc, fn="binary_discretise_proportion"), exp, got)
        ctx.count("precision:proportion_checked")
    # tie with the model where binary64 arithmetic is exact (no tolerance added to the threshold)
    if use_model and not tol:
        m = ctx.model("c08_binary_discretise", enc_list([enc_arr(data), enc_nums([ts] if scalar else ts), enc_bool(scalar), enc_mode(mode),
                                                        enc_opt(tol, enc_num), enc_bool(sq)]))
        ok, why = core.compare_result((st, out), m)
        if not ok:
            ctx.tie_fail("binary_discretise vs model (non-dyadic thresholds): " + why, desc, str(out.values.tolist())[:300], str(m)[:300])


# ----------------------------------------------------------------------------------------------
# contingency managers
# ----------------------------------------------------------------------------------------------
COUNT_KEYS = ["tp_count", "tn_count", "fp_count", "fn_count", "total_count"]
NPOP = {"ge": np.greater_equal, "gt": np.greater, "le": np.less_equal, "lt": np.less, "eq": np.equal, "ne": np.not_equal}


def direct_counts(fcst, obs, t, opname, keep):
    """independent oracle: count, per kept cell, the pairs valid in both by event status"""
    f, o = xr.broadcast(fcst, obs)
    o = o.transpose(*f.dims)
    fv, ov = np.asarray(f.values, float), np.asarray(o.values, float)
    valid = ~np.isnan(fv) & ~np.isnan(ov)
    with np.errstate(invalid="ignore"):
        ef, eo = NPOP[opname](fv, t), NPOP[opname](ov, t)
    axes = tuple(i for i, d in enumerate(f.dims) if d not in keep)
    kept = [d for d in f.dims if d in keep]

    def cnt(mask):
        return xr.DataArray((valid & mask).sum(axis=axes).astype(float), dims=kept, coords={d: f[d] for d in kept})
    return {"tp_count": cnt(ef & eo), "tn_count": cnt(~ef & ~eo), "fp_count": cnt(ef & ~eo), "fn_count": cnt(~ef & eo),
            "total_count": cnt(np.ones_like(valid))}


def like(b, a):
    """b re-indexed to the labels and dimension order of a"""
    if not a.dims:
        return b
    return b.sel({d: a[d] for d in a.dims}).transpose(*a.dims)


def contingency(ctx, i, use_model=True):
    from scores.categorical import ThresholdEventOperator
    rng = ctx.rng
    sizes = gens.rand_sizes(rng)
    fdims = gens.sub_dims(rng, sizes, p_drop=0.15, keep_at_least=1)
    fcst = gens.rand_da(rng, sizes, dims=fdims, den=4, bound=2, nan_p=0.15 if rng.random() < 0.5 else 0.0)
    odims = gens.sub_dims(rng, sizes, p_drop=0.2)
    obs = gens.rand_da(rng, sizes, dims=odims, den=4, bound=2, nan_p=0.15 if rng.random() < 0.5 else 0.0)
    if rng.random() < 0.4:
        obs = gens.force_ties(rng, fcst, obs)
    if rng.random() < 0.2 and fcst.dims:      # a whole slice missing: its kept counts are 0, not NaN
        d = rng.choice(list(fcst.dims))
        fcst = fcst.where(fcst[d] != fcst[d].values[rng.randrange(fcst.sizes[d])])
    # infinite values are valid data: an event for `>= t`, never missing
    if rng.random() < 0.12:
        fcst, obs = inject_inf(rng, fcst), inject_inf(rng, obs)
        ctx.count("contingency:infinite_values")
    # constructor arguments (None = not passed); the per-call arguments default to them
    ctor_t = rng.choice([None, None, None, 0, 0.0, 0.5, -1.0, 0.0, 0.3, 0.001])
    ctor_op = rng.choice([None, None, None, operator.gt, operator.lt, operator.ge])
    t = rng.choice([None, None, None, 0.0, 0.0, 0, -0.5, -2.0, 0.25, 1.0, 0.5, -0.25, 2.0, 0.001, 0.3, 0.1 + 0.2, -1.5, 0.7])
    if ctor_t is not None and rng.random() < 0.6:
        t = None
    op = rng.choice([None, operator.ge, operator.gt, operator.le, operator.lt, operator.ge, operator.gt, operator.eq, operator.ne])
    if ctor_op is not None and rng.random() < 0.5:
        op = None
    ckw = {}
    if ctor_t is not None:
        ckw["default_event_threshold"] = ctor_t
    if ctor_op is not None:
        ckw["default_op_fn"] = ctor_op
    dt = 0.001 if ctor_t is None else ctor_t          # documented signature defaults: 0.001, operator.ge
    dop = operator.ge if ctor_op is None else ctor_op
    teo = ThresholdEventOperator(**ckw)
    # values on the threshold in force, one unit in the last place and 1e-12 ... 0.4 away from it (either side): the event status of a
    # value is decided by the value itself, however close to the threshold it is
    if rng.random() < 0.4:
        t_eff = dt if t is None else t
        fcst, obs = inject_near(rng, fcst, [t_eff], "float64"), inject_near(rng, obs, [t_eff], "float64")
        ctx.count("contingency:near_threshold_values")
        if t is None and ctor_t is None and use_model and (bool((fcst.values == t_eff).any()) or bool((obs.values == t_eff).any())):
            # the model holds the signature default as the rational 1/1000, the code as the double nearest to it: a value equal to that
            # double is a tie for the code only; the predicates below (numpy on the doubles) decide such cases
            use_model = False
            ctx.count("contingency:tie_with_signature_default(model not consulted)")
    # integer storage (signed, unsigned, narrow): the event status only compares, so the values decide, not their storage type
    for name in ("fcst", "obs"):
        arr = fcst if name == "fcst" else obs
        v = np.asarray(arr.values, float)
        if rng.random() < 0.1 and np.isfinite(v).all():
            sty = rng.choice(INT_DTYPES)
            lo = 0 if sty.startswith("u") else -2
            arr = arr.copy(data=np.array([rng.randint(lo, 3) for _ in range(v.size)]).reshape(v.shape).astype(sty))
            fcst, obs = (arr, obs) if name == "fcst" else (fcst, arr)
            ctx.count("contingency:integer_storage")
            ctx.count("contingency:dtype=" + sty)
    rd, pd = gens.rand_dimspec(rng, sorted(set(fcst.dims) | set(obs.dims)), allow_bad=True)
    kw = {}
    if rd is not None:
        kw["reduce_dims"] = rd
    if pd is not None:
        kw["preserve_dims"] = pd
    which = "tables" if rng.random() < 0.3 else "manager"
    desc = {"fn": "ThresholdEventOperator.make_contingency_manager" if which == "manager" else "ThresholdEventOperator.make_event_tables",
            "fcst": gens.da_repr(fcst), "obs": gens.da_repr(obs), "event_threshold": t, "op_fn": None if op is None else OPNAME[op],
            "constructor": {"default_event_threshold": ctor_t, "default_op_fn": None if ctor_op is None else OPNAME[ctor_op]},
            "reduce_dims": rd, "preserve_dims": pd, "fcst_dtype": str(fcst.dtype), "obs_dtype": str(obs.dtype)}
    m = ctx.model("c08_threshold_operator", enc_list([enc_str(which), enc_opt(ctor_t, enc_num), "none" if ctor_op is None else OPNAME[ctor_op],
                                                      enc_arr(fcst), enc_arr(obs), enc_opt(t, enc_num), "none" if op is None else OPNAME[op],
                                                      enc_dimspec(rd), enc_dimspec(pd)])) if use_model else None
    ekw = {"event_threshold": t, "op_fn": op}
    if which == "tables":
        st, ev = core.call_impl(teo.make_event_tables, fcst, obs, **ekw)
        fe, oe = ev if st == "ok" else (None, None)
    else:
        st, mgr = core.call_impl(teo.make_contingency_manager, fcst, obs, **ekw)
        fe, oe = (mgr.fcst_events, mgr.obs_events) if st == "ok" else (None, None)
    ctx.case(desc, st == "ok" and bool((~np.isnan(np.asarray(fe.values, float))).any()))
    ctx.count(f"contingency:threshold={'none' if t is None else ('zero' if t == 0 else ('neg' if t < 0 else 'pos'))}")
    ctx.count(f"contingency:op={'none' if op is None else OPNAME[op]}")
    if t is None and ctor_t is not None:
        ctx.count("contingency:constructor_default_used" + (":zero" if ctor_t == 0 else ""))
    if i < 2:
        ctx.sample(desc)
    if st != "ok":
        ctx.violation("event operator raises", desc, "event tables", fe)
        return
    for name, arr, k in (("fcst_events", fe, 0), ("obs_events", oe, 1)):
        if not use_model:
            break
        mt = m[0][k]
        ok, why = core.compare_result(("ok", arr.astype(float)), mt)
        if not ok:
            ctx.tie_fail(f"{name} vs model: {why}", desc, str(arr.values.tolist())[:300], str(mt)[:300])
    # events respect the threshold actually given (property predicate on the implementation, independent of the model)
    tt = dt if t is None else t
    oo = OPNAME[dop] if op is None else OPNAME[op]
    with np.errstate(invalid="ignore"):
        for name, src, arr in (("fcst", fcst, fe), ("obs", obs, oe)):
            exp = np.where(np.isnan(src.values), np.nan, NPOP[oo](src.values, tt).astype(float))
            if not np.array_equal(exp, np.asarray(arr.values, float), equal_nan=True):
                ctx.violation(f"{name} events are not `{name} {oo} {tt}` (NaN kept)", desc, exp.tolist(), np.asarray(arr.values, float).tolist(),
                              finding_key=None)
    if which == "tables":
        from scores.categorical import BinaryContingencyManager
        mgr = BinaryContingencyManager(fe, oe)
    stc, basic = core.call_impl(lambda: mgr.transform(**kw))
    mc = m[1] if use_model else None
    if use_model and (stc == "err" or core.is_err(mc)):
        if not (stc == "err" and basic == mc):
            ctx.tie_fail("transform: error behaviour differs from the model", desc, basic if stc == "err" else "counts", str(mc)[:200])
        return
    if stc == "err":
        return
    counts = basic.get_counts()
    for key, mt in zip(COUNT_KEYS, mc or []):
        ok, why = core.compare_result(("ok", counts[key]), mt)
        if not ok:
            ctx.tie_fail(f"{key} vs model: {why}", desc, str(np.asarray(counts[key].values).tolist())[:300], str(mt)[:300])
    # ---- property predicates on the implementation ----
    keep = set(counts["tp_count"].dims)
    reduced = (set(fcst.dims) | set(obs.dims)) - keep
    if not reduced:
        # nothing reduced: a pair valid in both has exactly one of the four maps equal to 1 and total 1; any other pair is NaN everywhere
        f, o = xr.broadcast(fcst, obs)
        valid = like((f.notnull() & o.notnull()), counts["tp_count"]).values
        four = np.stack([np.asarray(counts[k].values, float) for k in COUNT_KEYS[:4]])
        tot = np.asarray(counts["total_count"].values, float)
        ok_valid = ((four == 0) | (four == 1)).all(axis=0) & (four.sum(axis=0) == 1) & (tot == 1)
        ok_invalid = np.isnan(four).all(axis=0) & np.isnan(tot)
        if not np.where(valid, ok_valid, ok_invalid).all():
            ctx.violation("with no dimension reduced a pair is not classified exactly once (valid) / not NaN in every map (invalid)", desc,
                          "one-hot on valid pairs, NaN elsewhere", {k: np.asarray(counts[k].values).tolist() for k in COUNT_KEYS})
        ctx.count("contingency:pointwise_checked")
    if reduced:
        exp = direct_counts(fcst, obs, tt, oo, keep)
        for key in COUNT_KEYS:
            a, b = counts[key], like(exp[key], counts[key])
            if not np.array_equal(np.asarray(a.values, float), np.asarray(b.values, float)):
                ctx.violation(f"{key} differs from direct counting of the pairs valid in both", desc, np.asarray(b.values).tolist(), np.asarray(a.values).tolist())
        s = counts["tp_count"] + counts["tn_count"] + counts["fp_count"] + counts["fn_count"]
        if not np.array_equal(np.asarray(s.values, float), np.asarray(counts["total_count"].values, float)):
            ctx.violation("tp+tn+fp+fn differs from total", desc, np.asarray(counts["total_count"].values).tolist(), np.asarray(s.values).tolist())
        ctx.count("contingency:direct_count_checked")
        # additivity: counts kept along one more dimension sum to these counts
        d = rng.choice(sorted(reduced))
        if len(reduced) > 1:
            fine = mgr.transform(preserve_dims=sorted(keep | {d})).get_counts()
            for key in COUNT_KEYS:
                b = counts[key]
                a = like(fine[key].sum(dim=d), b)
                if not np.array_equal(np.asarray(a.values, float), np.asarray(b.values, float)):
                    ctx.violation(f"{key} kept along '{d}' does not sum to the reduced count", desc, np.asarray(b.values).tolist(), np.asarray(a.values).tolist())
            ctx.count("contingency:additivity_checked")


def manager_raw(ctx, use_model=True):
    """BinaryContingencyManager on given event arrays, values outside {0,1} included"""
    from scores.categorical import BinaryContingencyManager
    rng = ctx.rng
    sizes = gens.rand_sizes(rng)
    vals = [0.0, 1.0, 0.0, 1.0, 2.0, 0.5] if rng.random() < 0.3 else [0.0, 1.0]
    fe = gens.rand_da(rng, sizes, values=vals, nan_p=0.2 if rng.random() < 0.6 else 0.0)
    oe = gens.rand_da(rng, sizes, dims=gens.sub_dims(rng, sizes, p_drop=0.2), values=vals, nan_p=0.2 if rng.random() < 0.6 else 0.0)
    # binary event tables are often stored compactly (bool / unsigned 8-bit masks ...): fcst and obs independently, so mixed too
    dts = []
    for arr in (fe, oe):
        v = np.asarray(arr.values, float)
        dt = "float64"
        if rng.random() < 0.45 and not np.isnan(v).any() and (v == np.floor(v)).all():
            dt = rng.choice(EVENT_DTYPES if set(v.ravel().tolist()) <= {0.0, 1.0} else [d for d in EVENT_DTYPES if d != "bool"])
        dts.append(dt)
        ctx.count("manager_raw:dtype=" + dt)
    fe, oe = fe.astype(dts[0]), oe.astype(dts[1])
    rd, pd = gens.rand_dimspec(rng, list(sizes), allow_bad=True)
    kw = {}
    if rd is not None:
        kw["reduce_dims"] = rd
    if pd is not None:
        kw["preserve_dims"] = pd
    desc = {"fn": "BinaryContingencyManager.transform", "fcst_events": gens.da_repr(fe), "obs_events": gens.da_repr(oe), "reduce_dims": rd, "preserve_dims": pd,
            "fcst_events_dtype": dts[0], "obs_events_dtype": dts[1]}
    st, basic = core.call_impl(lambda: BinaryContingencyManager(fe, oe).transform(**kw))
    mc = ctx.model("c08_manager_counts", enc_list([enc_arr(fe), enc_arr(oe), enc_dimspec(rd), enc_dimspec(pd)])) if use_model else None
    ctx.case(desc, st == "ok")
    ctx.count("manager_raw:" + ("ok" if st == "ok" else basic))
    if st == "ok":
        # independent oracle: a pair counts in a class iff both events are non-NaN and carry exactly that pattern of 0 / 1
        c0 = basic.get_counts()
        keep = set(c0["tp_count"].dims)
        if (set(fe.dims) | set(oe.dims)) - keep:
            f, o = xr.broadcast(fe, oe)
            o = o.transpose(*f.dims)
            fv, ov = np.asarray(f.values, float), np.asarray(o.values, float)
            valid = ~np.isnan(fv) & ~np.isnan(ov)
            axes = tuple(k for k, d in enumerate(f.dims) if d not in keep)
            kept = [d for d in f.dims if d in keep]
            pats = {"tp_count": (1, 1), "tn_count": (0, 0), "fp_count": (1, 0), "fn_count": (0, 1)}
            tot = 0
            for key, (a, b) in pats.items():
                e = xr.DataArray((valid & (fv == a) & (ov == b)).sum(axis=axes).astype(float), dims=kept, coords={d: f[d] for d in kept})
                tot = tot + e
                if not np.array_equal(np.asarray(like(e, c0[key]).values, float), np.asarray(c0[key].values, float)):
                    ctx.violation(f"{key} of BinaryContingencyManager differs from direct counting", desc, np.asarray(e.values).tolist(), np.asarray(c0[key].values).tolist())
            if not np.array_equal(np.asarray(like(tot, c0["total_count"]).values, float), np.asarray(c0["total_count"].values, float)):
                ctx.violation("total_count differs from tp+tn+fp+fn counted directly", desc, np.asarray(tot.values).tolist(), np.asarray(c0["total_count"].values).tolist())
    if not use_model:
        return
    if st == "err" or core.is_err(mc):
        if not (st == "err" and basic == mc):
            ctx.tie_fail("BinaryContingencyManager.transform: error behaviour differs from the model", desc, basic if st == "err" else "counts", str(mc)[:200])
        return
    counts = basic.get_counts()
    for key, mt in zip(COUNT_KEYS, mc):
        ok, why = core.compare_result(("ok", counts[key]), mt)
        if not ok:
            ctx.tie_fail(f"{key} vs model: {why}", desc, str(np.asarray(counts[key].values).tolist())[:300], str(mt)[:300])


# ----------------------------------------------------------------------------------------------
# round 4: the views of ONE manager (get_counts, get_table, format_table, its metrics) report the same counts under the same
# labels -- whatever the key order of a user-supplied counts dict -- and stay what they were after other calls on the object
# ----------------------------------------------------------------------------------------------
FORMAT_CELLS = [("Positive Forecast", "Positive Observed", "tp_count"), ("Positive Forecast", "Negative Observed", "fp_count"),
                ("Negative Forecast", "Positive Observed", "fn_count"), ("Negative Forecast", "Negative Observed", "tn_count")]


def expected_keep(all_dims, rd, pd):
    """dimensions a valid reduce_dims / preserve_dims request keeps (the documented rule, restated independently)"""
    if pd is not None:
        return set(all_dims) if pd == "all" else ({pd} if isinstance(pd, str) else set(pd))
    if rd is None or rd == "all":
        return set()
    return set(all_dims) - ({rd} if isinstance(rd, str) else set(rd))


def same_count(a, e):
    """count array a (implementation) equals the expected e: same dims (as sets), same labels, same values (NaN = NaN)"""
    if not isinstance(a, xr.DataArray) or set(a.dims) != set(e.dims):
        return False
    try:
        return bool(np.array_equal(np.asarray(a.values, float), np.asarray(like(e, a).values, float), equal_nan=True))
    except (KeyError, ValueError):
        return False


def vals(a):
    return np.asarray(a.values, float).tolist() if isinstance(a, xr.DataArray) else repr(a)[:200]


def check_views(ctx, mgr, exp, desc, when, key_order=None):
    """get_counts(), get_table() and -- for a single table -- format_table() of the manager `mgr` report the count exp[label] under
    every label.  -> True when all views agree"""
    desc = dict(desc, when=when)
    st, counts = core.call_impl(mgr.get_counts)
    st2, table = core.call_impl(mgr.get_table)
    if st != "ok" or st2 != "ok":
        ctx.violation("get_counts() / get_table() raises", desc, "counts", counts if st != "ok" else table)
        return False
    ok = True
    labels = [str(x) for x in np.asarray(table["contingency"].values).tolist()] if "contingency" in table.coords else None
    if labels is None or sorted(labels) != sorted(COUNT_KEYS):
        ctx.violation("the 'contingency' coordinate of get_table() is not the five count labels", desc, sorted(COUNT_KEYS), labels)
        return False
    for key in COUNT_KEYS:
        if key not in counts or not same_count(counts[key], exp[key]):
            ctx.violation(f"get_counts()['{key}'] of the manager is not the count of that class ({when})", desc, vals(exp[key]),
                          {"dims": list(getattr(counts.get(key), "dims", [])), "values": vals(counts.get(key))})
            ok = False
        cell = table.sel(contingency=key, drop=True)
        if not same_count(cell, exp[key]):
            ctx.violation(f"get_table() reports under the label '{key}' something else than the count of that class ({when})", desc, vals(exp[key]),
                          {"dims": list(cell.dims), "values": vals(cell), "labels_in_table_order": labels})
            ok = False
    if all(exp[k].ndim == 0 for k in COUNT_KEYS) and bool(np.isfinite([float(exp[k]) for k in COUNT_KEYS]).all()):
        import warnings
        with warnings.catch_warnings():
            warnings.simplefilter("ignore")
            st, df = core.call_impl(mgr.format_table)
        ctx.count("views:format_table")
        if st != "ok" or not hasattr(df, "loc"):
            ctx.violation("format_table() of a single table does not return the 2x2 frame", desc, "DataFrame", df if st != "ok" else type(df).__name__)
            return False
        got = {key: float(df.loc[r, c]) for r, c, key in FORMAT_CELLS}
        got["total_count"] = float(df.loc["Total", "Total"])
        want = {key: float(exp[key]) for key in COUNT_KEYS}
        if got != want:
            # known finding (unchanged code): format_table reads the table by POSITION (entries 0, 2, 3, 1 of the dict's own order), assuming
            # the key order of _get_counts.  Only exactly that frame, for a dict in another key order, is the known deviation.
            known = None
            if key_order is not None and list(key_order[:4]) != COUNT_KEYS[:4]:
                pos = {"tp_count": float(exp[key_order[0]]), "fp_count": float(exp[key_order[2]]), "fn_count": float(exp[key_order[3]]),
                       "tn_count": float(exp[key_order[1]])}
                pos["total_count"] = pos["tp_count"] + pos["fp_count"] + pos["fn_count"] + pos["tn_count"]
                if got == pos:
                    known = "format-table-by-position"
            ctx.violation(f"format_table() shows counts in the wrong cell of the 2x2 table ({when})", dict(desc, key_order=key_order), want, got, finding_key=known)
            ok = False
    return ok


def user_dict_views(ctx, i, use_model=True):
    """BasicContingencyManager built through its public constructor from a user's counts dict, keys in ANY order"""
    from scores.categorical import BasicContingencyManager
    rng = ctx.rng
    keys = rng.sample(COUNT_KEYS, 5) if rng.random() < 0.85 else list(COUNT_KEYS)
    dtype = rng.choice(["float64", "float64", "int64", "int32"])
    if rng.random() < 0.55:
        sizes, dims = {}, []
    else:
        sizes = gens.rand_sizes(rng, maxdims=2)
        dims = list(sizes)
    cells = {}
    for k in COUNT_KEYS[:4]:
        # four different magnitudes, so that no two cells of a table coincide by accident
        a = gens.rand_da(rng, sizes, dims=list(dims), values=list(range(0, 60)))
        cells[k] = a.astype(dtype)
    cells["total_count"] = cells["tp_count"] + cells["tn_count"] + cells["fp_count"] + cells["fn_count"]
    desc = {"fn": "BasicContingencyManager(counts)", "key_order": keys, "dtype": dtype,
            "counts": {k: gens.da_repr(cells[k]) if dims else float(cells[k]) for k in COUNT_KEYS}}
    st, mgr = core.call_impl(lambda: BasicContingencyManager({k: cells[k].copy() for k in keys}))
    ctx.case(desc)
    ctx.count("views:user_dict:" + ("canonical_order" if keys == COUNT_KEYS else "other_order") + (":0-d" if not dims else ":n-d"))
    if i < 1:
        ctx.sample(desc)
    if st != "ok":
        ctx.violation("BasicContingencyManager raises on a counts dict", desc, "manager", mgr)
        return
    check_views(ctx, mgr, cells, desc, "manager built from a counts dict", key_order=keys)
    # tie: the regenerated _make_xr_table / format_table (site C08.views) on the dict's item list against the real table and frame
    if use_model and not dims:
        m = ctx.model("c08_views", enc_list([enc_list([enc_str(k), enc_num(float(cells[k]))]) for k in keys]))
        table = mgr.get_table()
        got = {"labels": [str(x) for x in table["contingency"].values], "values": [float(x) for x in np.asarray(table.values, float)]}
        exp = {"labels": [core.dec_str(x) for x in m[0]], "values": [float(core.dec_num(x)) for x in m[1]]}
        if got != exp:
            ctx.tie_fail("gen_table_of_counts vs get_table()", desc, got, exp)
        import warnings
        with warnings.catch_warnings():
            warnings.simplefilter("ignore")
            st, df = core.call_impl(mgr.format_table)
        if st == "ok" and hasattr(df, "loc"):
            gotc = [float(df.loc[r, c]) for r, c, _ in FORMAT_CELLS]
            expc = [None if x == "none" else float(core.dec_num(x)) for x in m[2]]
            if gotc != expc:
                ctx.tie_fail("gen_format_cells vs format_table()", desc, gotc, expc)
        if [core.dec_str(x) for x in m[3]] != COUNT_KEYS:
            ctx.tie_fail("key order of _get_counts vs the harness", desc, COUNT_KEYS, m[3])
        ctx.count("views:model_tie")
    # the metrics read the counts by key: accuracy = (tp + tn) / total on these very counts
    with np.errstate(all="ignore"):
        st, acc = core.call_impl(mgr.accuracy)
        exp = (cells["tp_count"] + cells["tn_count"]) / cells["total_count"]
    if st != "ok" or not same_count(acc, exp):
        ctx.violation("accuracy() of a manager built from a counts dict is not (tp + tn) / total of those counts", desc, vals(exp), vals(acc) if st == "ok" else acc)


STATE_METRICS = ["accuracy", "probability_of_detection", "frequency_bias", "threat_score"]


def rand_valid_request(rng, all_dims):
    while True:
        rd, pd = gens.rand_dimspec(rng, sorted(all_dims))
        if not (rd is not None and pd is not None):
            return rd, pd


def direct_counts_masked(fcst, obs, t, opname, keep):
    """direct_counts; with NO dimension reduced the five maps are NaN at a pair that is not valid in both (nothing was counted)"""
    exp = direct_counts(fcst, obs, t, opname, keep)
    if not ((set(fcst.dims) | set(obs.dims)) - set(keep)):
        f, o = xr.broadcast(fcst, obs)
        valid = (f.notnull() & o.notnull())
        exp = {k: v.where(like(valid, v)) for k, v in exp.items()}
    return exp


def object_state(ctx, i):
    """a call sequence on ONE BinaryContingencyManager: its own counts / table / metrics are the fully reduced ones before and after
    every transform(...), each transformed view equals direct counting for its own request, views sum to the manager's counts, and a
    repeated request gives the same answer"""
    from scores.categorical import BinaryContingencyManager, ThresholdEventOperator
    rng = ctx.rng
    sizes = gens.rand_sizes(rng, mindims=2)
    fdims = gens.sub_dims(rng, sizes, p_drop=0.1, keep_at_least=1)
    odims = gens.sub_dims(rng, sizes, p_drop=0.15)
    nan_p = 0.15 if rng.random() < 0.5 else 0.0
    via = "ThresholdEventOperator" if rng.random() < 0.65 else "BinaryContingencyManager"
    if via == "ThresholdEventOperator":
        fcst = gens.rand_da(rng, sizes, dims=fdims, den=4, bound=2, nan_p=nan_p)
        obs = gens.rand_da(rng, sizes, dims=odims, den=4, bound=2, nan_p=nan_p)
        t = rng.choice([0.0, 0, 0.5, -0.5, 1.0, 0.25])
        op = rng.choice([operator.ge, operator.gt, operator.le, operator.lt])
        tt, oo = t, OPNAME[op]
        st, mgr = core.call_impl(lambda: ThresholdEventOperator(default_event_threshold=t, default_op_fn=op).make_contingency_manager(fcst, obs))
    else:
        fcst = gens.rand_da(rng, sizes, dims=fdims, values=[0.0, 1.0], nan_p=nan_p)
        obs = gens.rand_da(rng, sizes, dims=odims, values=[0.0, 1.0], nan_p=nan_p)
        if nan_p == 0.0 and rng.random() < 0.5:
            fcst, obs = fcst.astype(rng.choice(EVENT_DTYPES)), obs.astype(rng.choice(EVENT_DTYPES))
        tt, oo = 1, "eq"      # on 0/1 tables: event <=> value == 1
        st, mgr = core.call_impl(lambda: BinaryContingencyManager(fcst, obs))
    all_dims = set(fcst.dims) | set(obs.dims)
    steps = [rand_valid_request(rng, all_dims) for _ in range(rng.randint(1, 3))]
    steps.append(steps[0])       # the first request once more at the end
    desc = {"fn": via, "fcst": gens.da_repr(fcst), "obs": gens.da_repr(obs), "fcst_dtype": str(fcst.dtype), "obs_dtype": str(obs.dtype),
            "event": f"x {oo} {tt}", "calls": [{"reduce_dims": rd, "preserve_dims": pd} for rd, pd in steps]}
    ctx.case(desc)
    ctx.count("views:object_state:" + via)
    if i < 1:
        ctx.sample(desc)
    if st != "ok":
        ctx.violation("the manager cannot be built", desc, "manager", mgr)
        return
    full = direct_counts(fcst, obs, tt, oo, set())
    if not check_views(ctx, mgr, full, desc, "fresh manager"):
        return

    def metrics():
        out = {}
        with np.errstate(all="ignore"):
            for m in STATE_METRICS:
                s, v = core.call_impl(getattr(mgr, m))
                out[m] = ("err", v) if s != "ok" else (tuple(v.dims), np.asarray(v.values, float).tolist())
        return out

    tp, fp, fn, tn = (float(full[k]) for k in ("tp_count", "fp_count", "fn_count", "tn_count"))
    with np.errstate(all="ignore"):
        want = {"accuracy": np.float64(tp + tn) / np.float64(tp + fp + fn + tn), "probability_of_detection": np.float64(tp) / np.float64(tp + fn),
                "frequency_bias": np.float64(tp + fp) / np.float64(tp + fn), "threat_score": np.float64(tp) / np.float64(tp + fp + fn)}
    m0 = metrics()
    for m in STATE_METRICS:
        if m0[m][0] != () or not core.close(m0[m][1], float(want[m])):
            ctx.violation(f"{m}() of the manager is not the score of its fully reduced table", desc, float(want[m]), m0[m])
            return
    maps0 = {k: np.asarray(getattr(mgr, k).values, float).copy() for k in ("tp", "tn", "fp", "fn")}
    first = None
    for n, (rd, pd) in enumerate(steps):
        kw = {}
        if rd is not None:
            kw["reduce_dims"] = rd
        if pd is not None:
            kw["preserve_dims"] = pd
        when = "transform(" + ", ".join(f"{k}={v!r}" for k, v in kw.items()) + ")"
        stv, view = core.call_impl(lambda: mgr.transform(**kw))
        if stv != "ok":
            ctx.violation("transform raises on a valid request", dict(desc, call=when), "a table", view)
            return
        keep = expected_keep(all_dims, rd, pd)
        exp = direct_counts_masked(fcst, obs, tt, oo, keep)
        if not check_views(ctx, view, exp, desc, "view returned by call %d: %s" % (n + 1, when)):
            return
        ctx.count("views:transformed_view:" + ("kept=" + str(len(keep)) if keep else "fully_reduced"))
        # what the manager itself reports has not changed
        if not check_views(ctx, mgr, full, desc, "the manager itself after call %d: %s" % (n + 1, when)):
            return
        m1 = metrics()
        if m1 != m0 and not all((m1[m] == m0[m]) or (m1[m][0] == m0[m][0] and np.array_equal(m1[m][1], m0[m][1], equal_nan=True)) for m in STATE_METRICS):
            ctx.violation("the scores of the manager itself change after " + when, desc, m0, m1)
            return
        for k, v in maps0.items():
            if not np.array_equal(np.asarray(getattr(mgr, k).values, float), v, equal_nan=True):
                ctx.violation(f"the {k} map of the manager changes after " + when, desc, v.tolist(), np.asarray(getattr(mgr, k).values, float).tolist())
                return
        # additivity against the manager: the view's counts summed over what it kept are the manager's own counts
        vc, own = view.get_counts(), mgr.get_counts()
        for key in COUNT_KEYS:
            s = vc[key].sum(dim=list(vc[key].dims)) if vc[key].dims else vc[key]
            if not same_count(own[key], s):
                ctx.violation(f"{key} of the view ({when}) does not sum to the manager's own {key}", desc, vals(s), vals(own[key]))
                return
        if n == 0:
            first = {k: vc[k].copy() for k in COUNT_KEYS}
        elif n == len(steps) - 1:
            for key in COUNT_KEYS:
                if not same_count(vc[key], first[key]):
                    ctx.violation(f"the same transform request gives another {key} when repeated after other calls", desc, vals(first[key]), vals(vc[key]))
                    return
    ctx.count("views:object_state_sequences_completed")


# ----------------------------------------------------------------------------------------------
# round 4: Dataset inputs with several variables whose NaN positions differ: every variable is treated as it is alone
# ----------------------------------------------------------------------------------------------
def dataset_inputs(ctx, i):
    from scores.categorical import ThresholdEventOperator
    proc = P()
    rng = ctx.rng
    sizes = gens.rand_sizes(rng)
    names = ["u", "v", "w"][:rng.randint(2, 3)]

    def mk():
        out = {}
        for n in names:
            a = gens.rand_da(rng, sizes, den=4, bound=2, nan_p=rng.choice([0.0, 0.2, 0.4]), shuffle=False)
            out[n] = inject_inf(rng, a, 0.15) if rng.random() < 0.2 else a
        return xr.Dataset(out)
    data = mk()
    which = rng.choice(["binary_discretise", "binary_discretise_proportion", "contingency"])
    desc = {"fn": which + " on a Dataset", "variables": {n: gens.da_repr(data[n]) for n in names}}
    ctx.count("dataset:" + which)
    if which != "contingency":
        ts, scalar = rand_thresholds(rng)
        if not all(math.isfinite(t) for t in ([ts] if scalar else ts)) or not (scalar or list(ts) == sorted(ts)):
            ts, scalar = [0.0, 0.5], False
        mode = rng.choice(STR_MODES + OP_MODES)
        tol = rng.choice([None, 0.0, 0.25])
        kw = {"abs_tolerance": tol, "autosqueeze": rng.random() < 0.4}
        if which == "binary_discretise_proportion":
            rd, pd = rand_valid_request(rng, set(sizes))
            if rd is not None:
                kw["reduce_dims"] = rd
            if pd is not None:
                kw["preserve_dims"] = pd
        desc.update({"thresholds": ts, "mode": mode_repr(mode), **kw})
        fn = getattr(proc, which)
        with np.errstate(all="ignore"):
            st, out = core.call_impl(fn, data, ts, mode, **kw)
        ctx.case(desc, st == "ok")
        if st != "ok":
            ctx.violation(which + " raises on a Dataset with valid arguments", desc, "Dataset", out)
            return
        for n in names:
            with np.errstate(all="ignore"):
                st1, one = core.call_impl(fn, data[n], ts, mode, **kw)
            if st1 != "ok" or n not in out or set(out[n].dims) != set(one.dims) or \
                    not np.array_equal(np.asarray(out[n].transpose(*one.dims).values, float), np.asarray(one.values, float), equal_nan=True):
                ctx.violation(f"{which}: variable '{n}' of a Dataset is not treated as it is alone (as a DataArray)", desc,
                              vals(one) if st1 == "ok" else one, vals(out[n]) if n in out else None)
                return
        return
    other = mk()
    t = rng.choice([0.0, 0.5, -0.5, 1.0])
    op = rng.choice([operator.ge, operator.gt, operator.lt])
    rd, pd = rand_valid_request(rng, set(sizes))
    kw = {}
    if rd is not None:
        kw["reduce_dims"] = rd
    if pd is not None:
        kw["preserve_dims"] = pd
    desc.update({"obs_variables": {n: gens.da_repr(other[n]) for n in names}, "event_threshold": t, "op_fn": OPNAME[op], **kw})
    teo = ThresholdEventOperator()
    st, counts = core.call_impl(lambda: teo.make_contingency_manager(data, other, event_threshold=t, op_fn=op).transform(**kw).get_counts())
    ctx.case(desc, st == "ok")
    if st != "ok":
        ctx.violation("the contingency manager raises on Datasets", desc, "counts", counts)
        return
    keep = expected_keep(set(sizes), rd, pd)
    for n in names:
        exp = direct_counts_masked(data[n], other[n], t, OPNAME[op], keep)
        for key in COUNT_KEYS:
            got = counts[key][n] if n in counts[key] else None
            if got is None or not same_count(got, exp[key]):
                ctx.violation(f"{key} of variable '{n}' of a Dataset differs from direct counting of that variable's own valid pairs", desc,
                              vals(exp[key]), vals(got) if got is not None else None)
                return


def body(ctx, use_model):
    kernel_grid(ctx, use_model)
    ctx.exhaustive = True    # the 12 spellings x tolerance x value grid is swept completely
    for i in range(ctx.n(250, 3000)):
        if not ctx.time_left():
            break
        discretise_arrays(ctx, i, use_model)
    for i in range(ctx.n(120, 1500)):
        if not ctx.time_left():
            break
        discretise_precision(ctx, i, use_model)
    for i in range(ctx.n(300, 3000)):
        if not ctx.time_left():
            break
        contingency(ctx, i, use_model)
    for i in range(ctx.n(80, 800)):
        if not ctx.time_left():
            break
        manager_raw(ctx, use_model)
    for i in range(ctx.n(120, 1200)):
        if not ctx.time_left():
            break
        user_dict_views(ctx, i, use_model and views_model_ok(ctx))
    for i in range(ctx.n(90, 900)):
        if not ctx.time_left():
            break
        object_state(ctx, i)
    for i in range(ctx.n(90, 900)):
        if not ctx.time_left():
            break
        dataset_inputs(ctx, i)


def run(ctx):
    body(ctx, model_ok(ctx))


def run_without_model(ctx):
    """the property predicates that need no model: implementation against independent oracles and against itself"""
    body(ctx, False)
