"""C13 -- Brier scores equal their definitions, including the fair ensemble correction."""
import itertools
import operator
from fractions import Fraction

import numpy as np
import xarray as xr

import core
import gens
from core import enc_arr, enc_bool, enc_dimspec, enc_list, enc_num, enc_nums, enc_opt, enc_str

ID = "C13"
LEVEL = "proof"
LEVEL_TEXT = ("Coq theorems, for every ensemble size and all rational/NaN/infinite values, that the per-case formula regenerated from "
              "brier_impl.py, fed with list-fold member counts, equals (i/m - y)^2 minus the fair correction i(m-i)/(m^2(m-1)) exactly when "
              "requested and m > 1 (m = 1: no correction, m = 0: NaN; NaN members never counted), that complementary operators give the same "
              "score, and that brier_score is its argument checks followed by the MSE of the regenerated squared-error kernel. Proof is the "
              "right level: the deciding inputs (a member or the observation equal to the threshold, a single valid member, all-NaN "
              "ensembles) are measure-zero for sampling, while the case split of the proof must visit them.")
LEVEL_NOTE = ("trusted: translator + Xval semantics, the hand models of member counting / binary_discretise / dims rule / weighted NaN-skipping "
              "mean (all validated on every run by the correspondence check against the real functions), extraction, harness; binary64 "
              "rounding is not modelled (tolerance 1e-9)")
TECHNIQUE = "Coq proof over translator-regenerated per-case formulas + extracted-model correspondence check (exhaustive tie grid)"
SITES = ["C13.brier_ens_cell", "C13.sqerr"]
RULE = ("(a) exhaustive cell grid: every ensemble of 0-3 members over {1,2,3,NaN} and every ensemble of 1-3 slots over {2,NaN,+inf,-inf} with an "
        "infinite member (valid members above / below every threshold) x obs in {1,2,3,NaN,+inf,-inf} x thresholds {1,2,3} x 4 operators x "
        "fair on/off (a member/obs equal to the threshold in most cells); (a') large ensembles of 32..2100 members (sizes around 2^15, 2^16, "
        "2^31, 2^32 for m^2(m-1) and i(m-i), 2^7/2^8 for the counts), six missing-member patterns, thresholds sweeping i from 0 to m, 4 "
        "operators x fair on/off, cell by cell against the exact oracle; (b) random full calls: 1-3 extra dims of size 1-3, ensemble size 1-4 "
        "(12%: 33-100 members; 15%: +inf / -inf members and observations), "
        "obs/weights on random dim subsets (weights possibly with an extra dim), shuffled coordinate order, values on the grid k/2 (|k|<=4), NaN "
        "injected into members (whole ensembles too), obs and weights, 1-3 increasing thresholds or a scalar, all request spellings, and a "
        "malformed stream (bad operator, threshold_dim clashes, decreasing thresholds, ensemble dim missing / in obs / named in the request); "
        "(c) brier_score on probability grids k/8 with out-of-range and non-binary values injected, check_args on/off; (d) defaults: every "
        "subset of the optional arguments of brier_score_for_ensemble / brier_score omitted, in 9 / 8 configurations, against the exact oracle "
        "at the documented defaults and against the call with the defaults written out. A case is distinct by the "
        "hash of (function, inputs, options) and non-trivial when at least one output cell is finite.")
ASSUMPTIONS = ["thresholds are finite numbers (the documented contract: increasing, no NaN); a NaN threshold is modelled but not generated in lists"]
TRUSTED = ["hand models in coq/model/C13.v (member counting as list folds, binary_discretise at tolerance 0, threshold dimension, guards): tied by correspondence only"]

OPS = {"ge": operator.ge, "gt": operator.gt, "le": operator.le, "lt": operator.lt}
NAN = float("nan")
INF = float("inf")
# harness self-check (core.run_check): counters every complete run must have incremented, one per predicate family / input class
EXPECT_COUNTS = ["corpus_cases", "ens_defaults_calls", "brier_defaults_calls", "brier_boundary_probes", "brier_dataset_probes", "oracle_probes", "dtype_probes", "infinite_member_probes",
                 "large_ensemble_cells", "large_ensemble_infinite_member_cells", "cell_grid_points", "cell_grid_infinite_member",
                 "cell_grid_ties_member_eq_threshold", "cell_grid_single_valid_member", "cell_grid_no_valid_member",
                 "ens:ok", "ens:err:ValueError", "ens:weights", "ens:large_ensemble(>=33 members)", "ens:infinite_member", "ens:oracle_checked",
                 "ens:mean_of_cases_checked", "ens:complement_checked", "ens:custom_threshold_dim", "brier:ok", "brier:err:ValueError",
                 "brier:invalid=", "brier:oracle_checked", "brier:vs_mse_checked"]


def S():
    import scores.probability as P
    import scores.continuous as C
    return P, C


# ------------------------------------------------------------------------------------------
def frac(x):
    x = float(x)
    return None if np.isnan(x) else (x if np.isinf(x) else Fraction(x))


def brier_cell_oracle(members, obs, t, opn, fair):
    """independent exact-rational oracle of one (case, threshold) cell: (i/m - y)^2 - [fair and m > 1] i(m-i)/(m^2(m-1)); NaN for m = 0 / NaN obs"""
    rel = OPS[opn]
    valid = [x for x in members if not np.isnan(x)]
    m = len(valid)
    if m == 0 or np.isnan(obs) or np.isnan(t):
        return NAN
    i = sum(1 for x in valid if rel(x, t))
    y = 1 if rel(obs, t) else 0
    r = (Fraction(i, m) - y) ** 2
    if fair and m > 1:
        r -= Fraction(i * (m - i), m * m * (m - 1))
    return r


def cell_grid(ctx, use_model=True):
    """exhaustive tie grid at cell level: implementation vs exact oracle, vs regenerated formula, vs proved specification; complementarity"""
    P, _ = S()
    vals = [1.0, 2.0, 3.0, NAN]
    ens = []
    for n in range(0, 4):
        ens += [list(c) for c in itertools.product(vals, repeat=n)]
    # +inf / -inf members are VALID members (above / below every threshold): counted in m, and in i when they meet the relation
    for n in range(1, 4):
        ens += [list(c) for c in itertools.product([2.0, NAN, INF, -INF], repeat=n) if any(np.isinf(x) for x in c)]
    obs_vals = [1.0, 2.0, 3.0, NAN, INF, -INF]
    thresholds = [1.0, 2.0, 3.0]
    # ensembles of a given size share one implementation call (case dim); size 0 is an all-NaN ensemble of size 1 and 2 for the impl
    results = {}
    for n in range(1, 4):
        group = [e for e in ens if len(e) == n]
        cases = [(e, o) for e in group for o in obs_vals]
        f = xr.DataArray(np.array([c[0] for c in cases], dtype=float), dims=["case", "ens"], coords={"case": range(len(cases))})
        o = xr.DataArray(np.array([c[1] for c in cases], dtype=float), dims=["case"], coords={"case": range(len(cases))})
        for opn, op in OPS.items():
            for fair in (True, False):
                st, r = core.call_impl(P.brier_score_for_ensemble, f, o, "ens", thresholds, preserve_dims="all", fair_correction=fair,
                                       event_threshold_operator=op)
                if st != "ok":
                    ctx.violation("brier_score_for_ensemble raises on valid inputs (cell grid)", {"ensemble_size": n, "operator": opn, "fair_correction": fair,
                                                                                                  "thresholds": thresholds}, "values", r)
                    return
                r = r.transpose("case", "threshold")
                for k, (e, ov) in enumerate(cases):
                    for j, t in enumerate(thresholds):
                        results[(tuple(map(repr, e)), repr(ov), t, opn, fair)] = (e, ov, float(r.values[k, j]))
    n_spec = n_tie = 0
    for (ek, ok, t, opn, fair), (e, ov, impl) in results.items():
        case = {"members": e, "obs": ov, "threshold": t, "operator": opn, "fair_correction": fair}
        ctx.case(("cell", ek, ok, t, opn, fair), nontrivial=not np.isnan(impl))
        orc = brier_cell_oracle(e, ov, t, opn, fair)
        if not core.close(impl, orc):
            ctx.violation("brier_score_for_ensemble differs from (i/m - y)^2 - [fair, m>1] i(m-i)/(m^2(m-1)) (exact oracle)", case, orc, impl)
        comp = {"ge": "lt", "lt": "ge", "gt": "le", "le": "gt"}[opn]
        other = results[(ek, ok, t, comp, fair)][2]
        if not (core.close(impl, other) or (np.isnan(impl) and np.isnan(other))):
            ctx.violation(f"complementary operators disagree: {opn} vs {comp}", case, impl, other)
        if not use_model:
            continue
        gen, spec, i, m = ctx.model("c13_brier_ens_case", enc_list([enc_nums(e), enc_num(ov), enc_num(t), enc_str(opn), enc_bool(fair)]))
        gen, spec = core.dec_num(gen), core.dec_num(spec)
        if not core.close(impl, spec):
            ctx.violation("brier_score_for_ensemble differs from (i/m - y)^2 - [fair, m>1] i(m-i)/(m^2(m-1))", dict(case, i=i, m=m), spec, impl)
            n_spec += 1
        if not core.close(impl, gen):
            ctx.tie_fail("per-case model (counts + gen_brier_ens_cell) vs implementation", case, impl, gen)
            n_tie += 1
    ctx.count("cell_grid_points", len(results))
    ctx.count("cell_grid_ties_member_eq_threshold", sum(1 for (ek, ok, t, *_), v in results.items() if t in v[0]))
    ctx.count("cell_grid_single_valid_member", sum(1 for k, v in results.items() if sum(1 for x in v[0] if not np.isnan(x)) == 1))
    ctx.count("cell_grid_no_valid_member", sum(1 for k, v in results.items() if all(np.isnan(x) for x in v[0])))
    ctx.count("cell_grid_infinite_member", sum(1 for k, v in results.items() if any(np.isinf(x) for x in v[0])))
    ctx.exhaustive = True


# ------------------------------------------------------------------------------------------
def gen_ens_case(ctx, malformed):
    rng = ctx.rng
    sizes = gens.rand_sizes(rng, names=["a", "b", "c"], maxdims=2, maxsize=3, mindims=0 if rng.random() < 0.15 else 1)
    sizes_f = dict(sizes)
    sizes_f["ens"] = rng.randint(1, 4)
    if rng.random() < 0.12:            # operational-size ensembles: the counts and the fair correction beyond the 16-bit range
        sizes_f["ens"] = rng.choice([33, 34, 40, 51, 64, 100])
    grid = [Fraction(k, 2) for k in range(-4, 5)]
    fcst = gens.rand_da(rng, sizes_f, values=grid, nan_p=rng.choice([0.0, 0.15, 0.5]))
    inf_members = rng.random() < 0.15
    if inf_members:      # +inf / -inf members: valid values above / below every threshold (an overflowed or ratio-type quantity)
        v = fcst.values.copy().reshape(-1)
        for _ in range(rng.randint(1, max(1, v.size // 3))):
            v[rng.randrange(v.size)] = rng.choice([INF, -INF])
        fcst = fcst.copy(data=v.reshape(fcst.shape))
    if rng.random() < 0.3 and sizes:
        # a whole ensemble missing at one position
        d = rng.choice(list(sizes))
        fcst = fcst.copy()
        fcst.loc[{d: int(fcst[d].values[0])}] = NAN
    odims = gens.sub_dims(rng, sizes, p_drop=0.25)
    sizes_o = dict(sizes)
    if rng.random() < 0.1:
        sizes_o["z"] = 2
        odims = odims + ["z"]
    obs = gens.rand_da(rng, sizes_o, dims=odims, values=grid, nan_p=rng.choice([0.0, 0.2]))
    if inf_members and obs.size and rng.random() < 0.5:
        v = obs.values.copy().reshape(-1)
        v[rng.randrange(v.size)] = rng.choice([INF, -INF])
        obs = obs.copy(data=v.reshape(obs.shape))
    w = None
    all_sizes = dict(sizes_o)
    all_sizes.update(sizes)
    if rng.random() < 0.4:
        ws = dict(all_sizes)
        wd = gens.sub_dims(rng, all_sizes, p_drop=0.5)
        if rng.random() < 0.15:
            ws["q"] = 2
            wd = wd + ["q"]
        w = gens.rand_da(rng, ws, dims=wd, lo=0, hi=3, nan_p=0.1 if rng.random() < 0.3 else 0.0)
    k = rng.randint(1, 3)
    ts = sorted(rng.sample(grid, k)) if rng.random() < 0.8 else sorted(rng.choice(grid) for _ in range(k))
    ts = [float(t) for t in ts]
    scalar = k == 1 and rng.random() < 0.5
    opn = rng.choice(list(OPS))
    fair = rng.random() < 0.6
    data_dims = sorted(set(sizes) | set(odims) | (set(w.dims) if w is not None else set()))
    rd, pd = gens.rand_dimspec(rng, data_dims, allow_bad=malformed)
    tdim = "threshold"
    ens = "ens"
    bad = None
    if malformed:
        bad = rng.choice(["op", "tdim_f", "tdim_o", "tdim_w", "decr", "ens_missing", "ens_in_obs", "ens_in_req", "thr_in_req", "none"])
        if bad == "op":
            opn = "eq"
        elif bad == "tdim_f" and sizes:
            tdim = rng.choice(list(sizes))
        elif bad == "tdim_o" and odims:
            tdim = rng.choice(odims)
        elif bad == "tdim_w" and w is not None and w.dims:
            tdim = rng.choice(list(w.dims))
        elif bad == "decr" and len(set(ts)) > 1:
            ts = list(reversed(ts))
        elif bad == "ens_missing":
            ens = "member"
        elif bad == "ens_in_obs":
            obs = obs.expand_dims(ens=range(sizes_f["ens"]))
        elif bad == "ens_in_req":
            rd, pd = (["ens"], None) if rng.random() < 0.5 else (None, ["ens"])
        elif bad == "thr_in_req":
            rd, pd = (["threshold"], None) if rng.random() < 0.5 else (None, ["threshold"])
    return dict(fcst=fcst, obs=obs, w=w, ts=ts, scalar=scalar, opn=opn, fair=fair, rd=rd, pd=pd, tdim=tdim, ens=ens, bad=bad)


def call_ens(P, c, tdim=None):
    kw = {}
    if c["rd"] is not None:
        kw["reduce_dims"] = c["rd"]
    if c["pd"] is not None:
        kw["preserve_dims"] = c["pd"]
    if c["w"] is not None:
        kw["weights"] = c["w"]
    op = OPS.get(c["opn"], operator.eq)
    thr = c["ts"][0] if c["scalar"] else c["ts"]
    return core.call_impl(P.brier_score_for_ensemble, c["fcst"], c["obs"], c["ens"], thr, fair_correction=c["fair"],
                          event_threshold_operator=op, threshold_dim=tdim or c["tdim"], **kw)


def model_ens(ctx, c, use_spec, tdim=None):
    return ctx.model("c13_brier_ens", enc_list([
        enc_arr(c["fcst"]), enc_arr(c["obs"]), enc_str(c["ens"]), enc_nums(c["ts"]), enc_dimspec(c["rd"]), enc_dimspec(c["pd"]),
        enc_opt(c["w"], enc_arr), enc_bool(c["fair"]), enc_str(c["opn"]), enc_str(tdim or c["tdim"]), enc_bool(use_spec)]))


def desc_ens(c):
    return {"fn": "brier_score_for_ensemble", "fcst": gens.da_repr(c["fcst"]), "obs": gens.da_repr(c["obs"]), "weights": gens.da_repr(c["w"]),
            "ensemble_member_dim": c["ens"], "event_thresholds": c["ts"][0] if c["scalar"] else c["ts"], "operator": c["opn"],
            "fair_correction": c["fair"], "reduce_dims": c["rd"], "preserve_dims": c["pd"], "threshold_dim": c["tdim"]}


def ens_oracle_array(c):
    """per-case (other dims..., threshold) scores from the exact oracle, as a DataArray"""
    f, o = xr.broadcast(c["fcst"], c["obs"])
    other = [d for d in f.dims if d != "ens"]
    f = f.transpose(*other, "ens")
    o = o.isel(ens=0, drop=True).transpose(*other)
    fv = np.asarray(f.values, dtype=float).reshape(-1, f.sizes["ens"])
    ov = np.asarray(o.values, dtype=float).reshape(-1)
    out = np.array([[float(brier_cell_oracle(list(fv[k]), ov[k], t, c["opn"], c["fair"])) for t in c["ts"]] for k in range(len(ov))])
    shape = [f.sizes[d] for d in other] + [len(c["ts"])]
    coords = {d: f[d].values for d in other if d in f.coords}
    coords["threshold"] = c["ts"]
    return xr.DataArray(out.reshape(shape), dims=other + ["threshold"], coords=coords)


def compare_with_oracle(ctx, what, oracle_pc, weights, result, desc):
    """reduced implementation result vs NaN-skipping mean of weight * exact per-case oracle over the dims the result no longer has"""
    x = oracle_pc if weights is None else oracle_pc * weights
    red = [d for d in x.dims if d not in result.dims]
    exp = x.mean(dim=red) if red else x
    try:
        exp = exp.transpose(*result.dims)
        r2, exp = xr.align(result, exp, join="inner")      # same label order
        ok = r2.shape == result.shape and bool(np.allclose(np.asarray(r2, dtype=float), np.asarray(exp, dtype=float), rtol=0, atol=1e-9, equal_nan=True))
        result = r2
    except ValueError:
        ok = False
    if not ok:
        ctx.violation(what, desc, str(np.asarray(exp).tolist())[:200], str(np.asarray(result).tolist())[:200])
    return ok


def oracle_probes(ctx):
    """deterministic oracle cases: non-unit weights with the fair correction; exactly two valid members of which one meets the relation"""
    P, _ = S()
    f = xr.DataArray([[1.0, 3.0], [2.0, 2.0], [0.0, NAN], [3.0, 1.0]], dims=["t", "ens"], coords={"t": [0, 1, 2, 3]})
    o = xr.DataArray([2.0, 1.0, 3.0, 2.0], dims=["t"], coords={"t": [0, 1, 2, 3]})
    w = xr.DataArray([2.0, 0.5, 3.0, 1.0], dims=["t"], coords={"t": [0, 1, 2, 3]})
    for opn in OPS:
        for fair in (True, False):
            for weights in (None, w):
                for pd in ("all", None):
                    c = dict(fcst=f, obs=o, w=weights, ts=[1.0, 2.0, 3.0], scalar=False, opn=opn, fair=fair, rd=None, pd=pd, tdim="threshold", ens="ens")
                    impl = call_ens(P, c)
                    ctx.case(("oracle_probe", opn, fair, weights is not None, pd))
                    if impl[0] != "ok":
                        ctx.violation("brier_score_for_ensemble raises on a valid call", desc_ens(c), "values", impl[1])
                        continue
                    compare_with_oracle(ctx, "brier_score_for_ensemble differs from the weighted mean of (i/m - y)^2 - fair correction (exact oracle; "
                                        "weights multiply the corrected score)", ens_oracle_array(c), weights, impl[1], desc_ens(c))
    ctx.count("oracle_probes", 32)
    # +inf / -inf members are valid (non-missing) members: counted in m, and in i when they meet the relation (inf >= t, -inf < t);
    # a single valid member that is infinite; an infinite observation; with weights and reduced over the cases
    fi = xr.DataArray([[INF, 0.0, 1.0, 2.0], [-INF, 0.5, 3.0, NAN], [0.0, 1.0, 2.0, 3.0], [INF, NAN, NAN, NAN], [-INF, INF, NAN, 2.5], [-INF, -INF, NAN, NAN]],
                      dims=["t", "ens"], coords={"t": range(6)})
    oi = xr.DataArray([0.0, 2.0, 1.0, 5.0, -INF, INF], dims=["t"], coords={"t": range(6)})
    wi = xr.DataArray([2.0, 0.5, 3.0, 1.0, 1.5, 1.0], dims=["t"], coords={"t": range(6)})
    n = 0
    for opn in OPS:
        for fair in (True, False):
            for weights in (None, wi):
                for pd in ("all", None):
                    c = dict(fcst=fi, obs=oi, w=weights, ts=[1.0, 2.5], scalar=False, opn=opn, fair=fair, rd=None, pd=pd, tdim="threshold", ens="ens")
                    impl = call_ens(P, c)
                    ctx.case(("infinite_member_probe", opn, fair, weights is not None, pd))
                    n += 1
                    if impl[0] != "ok":
                        ctx.violation("brier_score_for_ensemble raises on a valid call (infinite members)", desc_ens(c), "values", impl[1])
                        continue
                    compare_with_oracle(ctx, "brier_score_for_ensemble with +inf / -inf members differs from (i/m - y)^2 - fair correction with m = number of "
                                        "non-missing members, infinite ones included (exact oracle)", ens_oracle_array(c), weights, impl[1], desc_ens(c))
    ctx.count("infinite_member_probes", n)
    # ensembles stored as integers / float32 with thresholds that are not representable in that dtype: the comparison must be
    # made on the values, not after casting the threshold to the ensemble's dtype
    o2 = xr.DataArray([2.0, 0.7, 3.0], dims=["t"], coords={"t": [0, 1, 2]})
    f32 = np.float32(0.7)
    ens = {
        "int64": xr.DataArray(np.array([[1, 2, 3], [0, 1, 1], [2, 2, 3]], dtype=np.int64), dims=["t", "ens"], coords={"t": [0, 1, 2]}),
        "int32": xr.DataArray(np.array([[1, 2, 3], [0, 1, 1], [2, 2, 3]], dtype=np.int32), dims=["t", "ens"], coords={"t": [0, 1, 2]}),
        "float32": xr.DataArray(np.array([[f32, 1.5, 2.5], [f32, f32, 0.25], [0.5, 2.5, f32]], dtype=np.float32), dims=["t", "ens"], coords={"t": [0, 1, 2]}),
        # unsigned storage (counts, oktas): the function only compares and counts, so the scores are those of the values
        "uint8": xr.DataArray(np.array([[1, 2, 3], [0, 1, 1], [2, 2, 3]], dtype=np.uint8), dims=["t", "ens"], coords={"t": [0, 1, 2]}),
        "uint16": xr.DataArray(np.array([[1, 2, 3], [0, 1, 1], [2, 2, 3]], dtype=np.uint16), dims=["t", "ens"], coords={"t": [0, 1, 2]}),
    }
    for dt, fx in ens.items():
        for ts in ([0.7], [0.5, 1.5, 2.5], [0.7, 2.0]):
            for opn in OPS:
                for fair in (True, False):
                    c = dict(fcst=fx, obs=o2, w=None, ts=ts, scalar=False, opn=opn, fair=fair, rd=None, pd="all", tdim="threshold", ens="ens")
                    impl = call_ens(P, c)
                    ctx.case(("dtype_probe", dt, str(ts), opn, fair))
                    d = dict(desc_ens(c), fcst_dtype=dt)
                    if impl[0] != "ok":
                        ctx.violation("brier_score_for_ensemble raises on a valid " + dt + " ensemble", d, "values", impl[1])
                        continue
                    compare_with_oracle(ctx, "brier_score_for_ensemble on a " + dt + " ensemble differs from the exact oracle (members and thresholds "
                                        "compared by value)", ens_oracle_array(dict(c, fcst=fx.astype(float))), None, impl[1], d)
    ctx.count("dtype_probes", 120)


LARGE_SIZES = [32, 33, 41, 51, 64, 100, 128, 182, 256, 257, 363, 1000, 1291, 1626, 2100]


def large_ensemble_probe(ctx, sizes=None):
    """operational-size ensembles (33 ... 2100 members, some missing): the member counts i, m and every intermediate of the fair correction
    i(m-i)/(m^2(m-1)) (m^2(m-1) passes 2^15 at m = 33, 2^16 at 41, 2^31 at 1291, 2^32 at 1626; i(m-i) passes 2^15 at m = 363; the counts
    themselves pass 2^7 / 2^8 at 128 / 256 and the float16 integers at 2049) must be evaluated without wrap-around or rounding beyond
    binary64: implementation vs the exact-rational oracle, per (case, threshold) cell, all four operators, fair on/off"""
    P, _ = S()
    rng = ctx.rng
    sizes = list(sizes or LARGE_SIZES)
    npts = 0
    for M in sizes:
        if not ctx.time_left():
            break
        base = np.arange(M, dtype=float)
        rows = [base.copy(),                                              # i sweeps 0..m with the thresholds below
                base[::-1] / 2.0,                                          # halves, decreasing order, ties with the thresholds
                np.where(np.arange(M) % 5 == 0, NAN, base),                # every fifth member missing
                np.where(np.arange(M) < M - 33, NAN, base),                # exactly 33 (or all, if fewer) valid members
                np.where(np.arange(M) < M - 1, NAN, base),                 # a single valid member: no correction
                np.array([float(rng.randint(0, 8)) for _ in range(M)]),    # few distinct values: many members equal to a threshold
                # +inf / -inf members (valid: above / below every threshold) next to missing ones
                np.where(np.arange(M) % 7 == 0, INF, np.where(np.arange(M) % 7 == 3, -INF, np.where(np.arange(M) % 11 == 5, NAN, base)))]
        k = rng.randrange(M)
        rows[5][k] = NAN
        f = xr.DataArray(np.array(rows), dims=["case", "ens"], coords={"case": range(len(rows)), "ens": np.arange(M)})
        o = xr.DataArray([float(M // 2), 0.0, NAN, float(M), float(M - 1), 4.0, float(M // 3)], dims=["case"], coords={"case": range(len(rows))})
        ts = sorted({0.0, 4.0, float(M // 4) + 0.5, float(M // 2), float(M - 1)})
        for opn in OPS:
            for fair in (True, False):
                c = dict(fcst=f, obs=o, w=None, ts=ts, scalar=False, opn=opn, fair=fair, rd=None, pd="all", tdim="threshold", ens="ens")
                impl = call_ens(P, c)
                ctx.case(("large_ensemble", M, opn, fair, k))
                if impl[0] != "ok":
                    ctx.violation("brier_score_for_ensemble raises on a valid call (large ensemble)", {"ensemble_size": M, "operator": opn, "fair_correction": fair,
                                                                                                        "event_thresholds": ts}, "values", impl[1])
                    continue
                r = impl[1].transpose("case", "threshold")
                for a, row in enumerate(rows):
                    valid = [x for x in row if not np.isnan(x)]
                    for b, t in enumerate(ts):
                        exp = brier_cell_oracle(list(row), float(o.values[a]), t, opn, fair)
                        got = float(r.values[a, b])
                        npts += 1
                        if a == 6:
                            ctx.count("large_ensemble_infinite_member_cells")
                        if not core.close(got, exp):
                            i = sum(1 for x in valid if OPS[opn](x, t))
                            ctx.violation("brier_score_for_ensemble of a large ensemble differs from (i/m - y)^2 - [fair, m>1] i(m-i)/(m^2(m-1)) (exact oracle)",
                                          {"ensemble_size": M, "valid_members_m": len(valid), "members_meeting_the_relation_i": i,
                                           "members": "row %d of large_ensemble_probe(M=%d): %s" % (a, M, ["arange(M)", "arange(M)[::-1]/2", "arange(M), every 5th NaN",
                                                                                                         "arange(M), all but the last 33 NaN", "arange(M), all but the last NaN",
                                                                                                         str(row.tolist())[:400],
                                                                                                         "arange(M) with +inf at k%7==0, -inf at k%7==3, NaN at k%11==5"][a]),
                                           "obs": float(o.values[a]), "threshold": t, "operator": opn, "fair_correction": fair}, exp, got)
                # reduced over the cases (default request) = plain NaN-skipping mean of the per-case oracle
                red = call_ens(P, dict(c, pd=None))
                if red[0] == "ok":
                    compare_with_oracle(ctx, "brier_score_for_ensemble (large ensemble, all cases reduced) differs from the mean of the exact per-case oracle",
                                        ens_oracle_array(c), None, red[1], {"ensemble_size": M, "operator": opn, "fair_correction": fair, "event_thresholds": ts})
    ctx.count("large_ensemble_cells", npts)
    ctx.count("large_ensemble_sizes", len(sizes))


def full_ens(ctx, use_model=True):
    P, _ = S()
    rng = ctx.rng
    for i in range(ctx.n(220, 2500)):
        if not ctx.time_left():
            break
        malformed = rng.random() < 0.2 and use_model
        c = gen_ens_case(ctx, malformed)
        impl = call_ens(P, c)
        desc = desc_ens(c)
        nontrivial = impl[0] == "ok" and bool(np.isfinite(np.asarray(impl[1])).any())
        ctx.case(desc, nontrivial)
        ctx.count("ens:" + ("ok" if impl[0] == "ok" else impl[1]))
        ctx.count("ens:op=" + c["opn"])
        if c["bad"]:
            ctx.count("ens:malformed=" + c["bad"])
        if c["w"] is not None:
            ctx.count("ens:weights")
        if c["fcst"].sizes.get("ens", 0) >= 33:
            ctx.count("ens:large_ensemble(>=33 members)")
        if bool(np.isinf(c["fcst"].values).any()):
            ctx.count("ens:infinite_member")
        if i < 2:
            ctx.sample(desc)
        if impl[0] == "ok" and not c["bad"] and "z" not in c["obs"].dims:
            ctx.count("ens:oracle_checked")
            compare_with_oracle(ctx, "brier_score_for_ensemble differs from the weighted NaN-skipping mean of the exact per-case oracle",
                                ens_oracle_array(c), c["w"], impl[1], desc)
        if use_model:
            m = model_ens(ctx, c, False)
            ok, why = core.compare_result(impl, m)
            if not ok:
                ctx.tie_fail("brier_score_for_ensemble vs model: " + why, desc, str(impl[1])[:300], str(m)[:300])
            ms = model_ens(ctx, c, True)
            ok, why = core.compare_result(impl, ms)
            if not ok:
                ctx.violation("brier_score_for_ensemble differs from the proved specification: " + why, desc, str(ms)[:300], str(impl[1])[:300])
        if impl[0] != "ok":
            continue
        # complementary operator on the implementation
        c2 = dict(c, opn={"ge": "lt", "lt": "ge", "gt": "le", "le": "gt"}[c["opn"]])
        impl2 = call_ens(P, c2)
        ctx.count("ens:complement_checked")
        if impl2[0] != "ok" or not np.allclose(np.asarray(impl[1]), np.asarray(impl2[1].transpose(*impl[1].dims)), rtol=0, atol=1e-9, equal_nan=True):
            ctx.violation(f"complementary operators disagree: {c['opn']} vs {c2['opn']}", desc, str(impl[1].values.tolist())[:200],
                          str(impl2[1])[:200])
        # the reduced score is the NaN-skipping mean of weight * per-case score over the reduced dims
        if c["rd"] is not None or c["pd"] is not None or c["w"] is not None:
            pc = call_ens(P, dict(c, rd=None, pd="all", w=None))
            if pc[0] == "ok":
                ctx.count("ens:mean_of_cases_checked")
                check_mean_of_cases(ctx, "brier_score_for_ensemble", pc[1], c["w"], impl[1], desc)
        # custom name of the threshold dimension: same numbers under the other name
        if rng.random() < 0.3 and use_model:
            check_threshold_dim_name(ctx, P, c, desc)


def check_mean_of_cases(ctx, fn, per_case, weights, result, desc):
    x = per_case if weights is None else per_case * weights
    red = [d for d in x.dims if d not in result.dims]
    exp = x.mean(dim=red) if red else x
    try:
        exp = exp.transpose(*result.dims)
        ok = bool(np.allclose(np.asarray(result), np.asarray(exp), rtol=0, atol=1e-9, equal_nan=True))
    except ValueError:
        ok = False
    if not ok:
        ctx.violation(fn + ": reduced result is not the NaN-skipping mean of weight * per-case score over the reduced dimensions", desc,
                      str(np.asarray(exp).tolist())[:200], str(np.asarray(result).tolist())[:200])


def check_threshold_dim_name(ctx, P, c, desc):
    name = "thr"
    if c["rd"] == ["threshold"] or c["pd"] == ["threshold"]:
        return
    impl = call_ens(P, c, tdim=name)
    m = model_ens(ctx, c, True, tdim=name)
    ok, why = core.compare_result(impl, m)
    ctx.count("ens:custom_threshold_dim")
    if ok:
        return
    d = dict(desc, threshold_dim=name)
    ctx.violation("brier_score_for_ensemble with a custom threshold_dim differs from the specification: " + why, d, str(m)[:300], str(impl[1])[:300])


# ------------------------------------------------------------------------------------------
def brier_boundaries(ctx):
    """range / binary checks of brier_score at their boundaries, incl. marginally negative forecasts that a single-reduction test would absorb"""
    P, _ = S()
    o = xr.DataArray([0.0, 1.0, 1.0], dims=["x"])
    probes = [(0.0, False), (1.0, False), (5e-324, False), (1.0 - 2 ** -53, False), (-1e-17, True), (-1e-300, True), (0.3 - 3 * 0.1, True), (-5e-324, True),
              (1.0 + 2 ** -52, True), (1.0000001, True), (-1e-9, True), (float("inf"), True), (-float("inf"), True)]
    for v, must_raise in probes:
        for pos in (0, 2):
            vals = [0.25, 0.5, 0.75]
            vals[pos] = v
            got = core.call_impl(P.brier_score, xr.DataArray(vals, dims=["x"]), o)
            ctx.case(("brier_boundary", repr(v), pos))
            if (got[0] == "err") != must_raise or (must_raise and got[1] != "err:ValueError"):
                ctx.violation("brier_score range check at its boundary (forecasts must lie in [0,1])", {"fcst": vals, "obs": [0, 1, 1]},
                              "err:ValueError" if must_raise else "a value", str(got[1])[:80])
    for v, must_raise in ((0.0, False), (1.0, False), (NAN, False), (0.5, True), (1e-300, True), (-1.0, True), (1.0 + 2 ** -52, True)):
        got = core.call_impl(P.brier_score, xr.DataArray([0.25, 0.5, 0.75], dims=["x"]), xr.DataArray([0.0, v, 1.0], dims=["x"]))
        ctx.case(("brier_boundary_obs", repr(v)))
        if (got[0] == "err") != must_raise or (must_raise and got[1] != "err:ValueError"):
            ctx.violation("brier_score binary check of the observations", {"fcst": [0.25, 0.5, 0.75], "obs": [0.0, v, 1.0]},
                          "err:ValueError" if must_raise else "a value", str(got[1])[:80])
    ctx.count("brier_boundary_probes", 33)
    # Dataset inputs: every variable is checked, and each variable scores as its DataArray
    fa = xr.DataArray([0.25, 0.5, 1.0], dims=["x"])
    fb = xr.DataArray([0.0, 0.75, 0.5], dims=["x"])
    oa = xr.DataArray([0.0, 1.0, 1.0], dims=["x"])
    ob = xr.DataArray([1.0, 0.0, NAN], dims=["x"])
    good = core.call_impl(P.brier_score, xr.Dataset({"a": fa, "b": fb, "c": fa}), xr.Dataset({"a": oa, "b": ob, "c": ob}))
    ctx.case(("brier_dataset", "valid"))
    if good[0] != "ok" or not all(np.allclose(float(good[1][v]), float(P.brier_score(fx, ox))) for v, fx, ox in (("a", fa, oa), ("b", fb, ob), ("c", fa, ob))):
        ctx.violation("brier_score on Dataset inputs must score every variable as its DataArray", {"variables": ["a", "b", "c"]}, "per-variable scores", str(good[1])[:150])
    bad_o = xr.DataArray([0.0, 0.5, 1.0], dims=["x"])
    bad_f = xr.DataArray([0.25, 1.5, 1.0], dims=["x"])
    neg_f = xr.DataArray([0.25, -1e-17, 1.0], dims=["x"])
    for pos in ("a", "b", "c"):
        for kind, fds, ods in (("obs", {"a": fa, "b": fb, "c": fa}, {"a": oa, "b": oa, "c": oa, pos: bad_o}),
                               ("fcst", {"a": fa, "b": fb, "c": fa, pos: bad_f}, {"a": oa, "b": oa, "c": oa}),
                               ("fcst_neg", {"a": fa, "b": fb, "c": fa, pos: neg_f}, {"a": oa, "b": oa, "c": oa})):
            got = core.call_impl(P.brier_score, xr.Dataset(fds), xr.Dataset(ods))
            ctx.case(("brier_dataset", kind, pos))
            if got != ("err", "err:ValueError"):
                ctx.violation("brier_score(check_args=True) on Dataset inputs must validate every variable (invalid " + kind + " value in variable '" + pos + "' of a, b, c)",
                              {"invalid_variable": pos, "kind": kind, "obs_value": 0.5, "fcst_value": 1.5 if kind == "fcst" else -1e-17}, "err:ValueError", str(got[1])[:100])
    ctx.count("brier_dataset_probes", 10)


def full_brier(ctx, use_model=True):
    P, C = S()
    rng = ctx.rng
    pgrid = [Fraction(k, 8) for k in range(0, 9)]
    for i in range(ctx.n(150, 1500)):
        if not ctx.time_left():
            break
        sizes = gens.rand_sizes(rng, names=["a", "b", "c"], maxdims=3, maxsize=3)
        fcst = gens.rand_da(rng, sizes, values=pgrid + [Fraction(0), Fraction(1)] * 3, nan_p=rng.choice([0.0, 0.15]))
        odims = gens.sub_dims(rng, sizes, p_drop=0.25)
        obs = gens.rand_da(rng, sizes, dims=odims, values=[0, 1], nan_p=rng.choice([0.0, 0.2]))
        bad = None
        r = rng.random()
        if r < 0.12:
            bad = "fcst"
            fcst = poke(rng, fcst, rng.choice([Fraction(9, 8), Fraction(-1, 8), 2.0, float("inf"), -float("inf")]))
        elif r < 0.24:
            bad = "obs"
            obs = poke(rng, obs, rng.choice([Fraction(1, 2), 2.0, -1.0, Fraction(1, 8)]))
        elif r < 0.27:
            bad = "allnan"
            fcst = fcst * NAN
        w = None
        if rng.random() < 0.4:
            wd = gens.sub_dims(rng, sizes, p_drop=0.4)
            w = gens.rand_da(rng, sizes, dims=wd, lo=0, hi=3, nan_p=0.1 if rng.random() < 0.3 else 0.0)
        rd, pd = gens.rand_dimspec(rng, list(sizes), allow_bad=rng.random() < 0.2)
        chk = rng.random() < 0.75
        kw = {}
        if rd is not None:
            kw["reduce_dims"] = rd
        if pd is not None:
            kw["preserve_dims"] = pd
        if w is not None:
            kw["weights"] = w
        impl = core.call_impl(P.brier_score, fcst, obs, check_args=chk, **kw)
        margs = [enc_arr(fcst), enc_arr(obs), enc_dimspec(rd), enc_dimspec(pd), enc_opt(w, enc_arr), enc_bool(chk)]
        if use_model:
            m = ctx.model("c13_brier_score", enc_list(margs + [enc_bool(False)]))
            msp = ctx.model("c13_brier_score", enc_list(margs + [enc_bool(True)]))
        desc = {"fn": "brier_score", "fcst": gens.da_repr(fcst), "obs": gens.da_repr(obs), "weights": gens.da_repr(w), "reduce_dims": rd,
                "preserve_dims": pd, "check_args": chk}
        nontrivial = impl[0] == "ok" and bool(np.isfinite(np.asarray(impl[1])).any())
        ctx.case(desc, nontrivial)
        ctx.count("brier:" + ("ok" if impl[0] == "ok" else impl[1]))
        if bad:
            ctx.count("brier:invalid=" + bad + (":checked" if chk else ":unchecked"))
        if i < 2:
            ctx.sample(desc)
        if use_model:
            ok, why = core.compare_result(impl, m)
            if not ok:
                ctx.tie_fail("brier_score vs model: " + why, desc, str(impl[1])[:300], str(m)[:300])
            ok, why = core.compare_result(impl, msp)
            if not ok:
                ctx.violation("brier_score differs from the (weighted, NaN-skipping) mean squared difference: " + why, desc, str(msp)[:300], str(impl[1])[:300])
        if impl[0] == "ok" and bad in (None, "allnan"):
            fb, ob = xr.broadcast(fcst, obs)
            sq = xr.apply_ufunc(np.vectorize(lambda a, b: float("nan") if (np.isnan(a) or np.isnan(b)) else float((Fraction(float(a)) - Fraction(float(b))) ** 2)),
                                fb, ob)
            ctx.count("brier:oracle_checked")
            compare_with_oracle(ctx, "brier_score differs from the weighted NaN-skipping mean of (f - o)^2 (exact oracle)", sq, w, impl[1], desc)
        # property: rejects exactly the invalid inputs (when checking), otherwise equals mse
        invalid = bad in ("fcst", "obs")
        mse = core.call_impl(C.mse, fcst, obs, **kw)
        if chk and invalid:
            if impl != ("err", "err:ValueError"):
                ctx.violation("brier_score(check_args=True) accepted an out-of-range forecast / non-binary observation", desc, "err:ValueError", str(impl[1])[:200])
        else:
            ctx.count("brier:vs_mse_checked")
            same = (impl[0] == mse[0]) and (impl[1] == mse[1] if impl[0] == "err" else
                                            np.allclose(np.asarray(impl[1]), np.asarray(mse[1]), rtol=0, atol=1e-12, equal_nan=True))
            if not same:
                ctx.violation("brier_score differs from mse on valid inputs", desc, str(mse[1])[:200], str(impl[1])[:200])


def poke(rng, da, v):
    da = da.copy()
    flat = da.values.reshape(-1)
    flat[rng.randrange(flat.size)] = float(v)
    da.values = flat.reshape(da.shape)
    return da


# ------------------------------------------------------------------------------------------
# documented defaults of the optional arguments (signature and docstring of brier_impl.py)
ENS_DEFAULTS = {"reduce_dims": None, "preserve_dims": None, "weights": None, "fair_correction": True, "event_threshold_operator": "ge",
                "threshold_dim": "threshold"}
BRIER_DEFAULTS = {"reduce_dims": None, "preserve_dims": None, "weights": None, "check_args": True}


def expected_dims(data_dims, cfg, extra=()):
    """the dims rule: preserve_dims='all' keeps everything, a list keeps those; reduce_dims drops those; neither: everything is reduced"""
    if cfg["preserve_dims"] is not None:
        keep = list(data_dims) if cfg["preserve_dims"] == "all" else [d for d in data_dims if d in cfg["preserve_dims"]]
    elif cfg["reduce_dims"] is not None:
        keep = [d for d in data_dims if d not in cfg["reduce_dims"]]
    else:
        keep = []
    return set(keep) | set(extra)


def same_result(a, b):
    return set(a.dims) == set(b.dims) and bool(np.array_equal(np.asarray(a, dtype=float), np.asarray(b.transpose(*a.dims), dtype=float), equal_nan=True))


def defaults_probe(ctx):
    """every optional argument of brier_score_for_ensemble and brier_score OMITTED vs written out: for a list of configurations (each
    optional argument at its documented default and at another value) and EVERY subset of the optional arguments left out of the call,
    the result must (1) have the dims of, and equal, the exact oracle evaluated with the DOCUMENTED default in place of every omitted
    argument (fair_correction=True, operator.ge, threshold_dim='threshold', weights=None, reduce everything; check_args=True), and
    (2) be identical to the call in which those defaults are written out.  A changed default in the signature, or a keyword that is
    accepted but no longer forwarded, is invisible to calls that always pass (or never pass) the argument."""
    P, _ = S()
    idx = {"t": [0, 1, 2, 3], "s": [10, 20]}
    # ensembles with m > 1 and 0 < i < m (the fair correction is non-zero), a missing member, a single valid member, an all-NaN ensemble
    f = xr.DataArray([[[0.0, 2.0, 3.0, 5.0], [1.0, 1.5, 0.5, NAN]], [[4.0, NAN, NAN, NAN], [0.5, 1.0, 2.0, 2.5]],
                      [[2.0, 2.0, 1.0, 0.0], [NAN, NAN, NAN, NAN]], [[1.0, 3.0, NAN, 0.0], [2.5, 0.0, 1.0, 1.0]]], dims=["t", "s", "ens"], coords=idx)
    o = xr.DataArray([[0.5, 2.0], [3.0, 1.0], [2.0, 1.0], [NAN, 2.5]], dims=["t", "s"], coords=idx)
    w = xr.DataArray([2.0, 0.5, 3.0, 1.0], dims=["t"], coords={"t": idx["t"]})
    configs = [{}, {"fair_correction": False}, {"event_threshold_operator": "lt"}, {"weights": w}, {"preserve_dims": "all"}, {"reduce_dims": ["t"]},
               {"threshold_dim": "thr"}, {"preserve_dims": ["s"], "weights": w, "fair_correction": False, "event_threshold_operator": "gt", "threshold_dim": "thr"},
               {"reduce_dims": ["s"], "weights": w, "event_threshold_operator": "le"}]
    names = list(ENS_DEFAULTS)
    subsets = [s for r in range(len(names) + 1) for s in itertools.combinations(names, r)]
    n = 0
    for thr in ([1.0, 2.0], 1.0):
        ts = thr if isinstance(thr, list) else [thr]
        for cfg in configs:
            full = dict(ENS_DEFAULTS, **cfg)
            cache = {}
            for omit in subsets:
                eff = dict(full, **{k: ENS_DEFAULTS[k] for k in omit})
                if (eff["reduce_dims"] is not None and eff["preserve_dims"] is not None):
                    continue
                kw = {k: (OPS[v] if k == "event_threshold_operator" else v) for k, v in full.items() if k not in omit}
                got = core.call_impl(P.brier_score_for_ensemble, f, o, "ens", thr, **kw)
                c = dict(fcst=f, obs=o, w=eff["weights"], ts=ts, scalar=not isinstance(thr, list), opn=eff["event_threshold_operator"], fair=eff["fair_correction"],
                         rd=eff["reduce_dims"], pd=eff["preserve_dims"], tdim=eff["threshold_dim"], ens="ens")
                desc = dict(desc_ens(c), omitted_arguments=list(omit), passed_explicitly=sorted(kw),
                            documented_defaults={k: ENS_DEFAULTS[k] for k in omit})
                ctx.case(("ens_defaults", str(thr), str(sorted(cfg)), omit))
                n += 1
                if got[0] != "ok":
                    ctx.violation("brier_score_for_ensemble raises on a valid call with optional arguments omitted", desc, "values", got[1])
                    continue
                want = expected_dims(["t", "s"], eff, extra=[eff["threshold_dim"]])
                if set(got[1].dims) != want:
                    ctx.violation("brier_score_for_ensemble with optional arguments omitted: result dims differ from those of the documented defaults", desc,
                                  sorted(want), sorted(got[1].dims))
                    continue
                compare_with_oracle(ctx, "brier_score_for_ensemble with optional arguments omitted differs from the exact oracle evaluated at the DOCUMENTED "
                                    "defaults of the omitted arguments (fair_correction=True, operator.ge, threshold_dim='threshold', weights=None, all dims reduced)",
                                    ens_oracle_array(c).rename(threshold=eff["threshold_dim"]), eff["weights"], got[1], desc)
                key = repr(sorted((k, id(v) if isinstance(v, xr.DataArray) else v) for k, v in eff.items()))
                if key not in cache:
                    cache[key] = core.call_impl(P.brier_score_for_ensemble, f, o, "ens", thr,      # every optional argument written out
                                                **{k: (OPS[v] if k == "event_threshold_operator" else v) for k, v in eff.items()})
                ref = cache[key]
                if ref[0] != "ok" or not same_result(got[1], ref[1]):
                    ctx.violation("brier_score_for_ensemble: the call with optional arguments omitted differs from the call with their documented defaults "
                                  "written out", desc, str(np.asarray(ref[1]).tolist())[:200], str(np.asarray(got[1]).tolist())[:200])
    ctx.count("ens_defaults_calls", n)
    # brier_score
    fb = xr.DataArray([[0.875, 0.25], [0.5, 1.0], [0.0, 0.125], [0.75, NAN]], dims=["t", "s"], coords=idx)
    ob = xr.DataArray([[1.0, 0.0], [1.0, 0.0], [NAN, 1.0], [0.0, 1.0]], dims=["t", "s"], coords=idx)
    sq = xr.apply_ufunc(np.vectorize(lambda a, b: NAN if (np.isnan(a) or np.isnan(b)) else float((Fraction(float(a)) - Fraction(float(b))) ** 2)), fb, ob)
    configs = [{}, {"weights": w}, {"preserve_dims": "all"}, {"reduce_dims": ["t"]}, {"check_args": False},
               {"preserve_dims": ["s"], "weights": w, "check_args": False}, {"reduce_dims": ["s"], "weights": w}, {"preserve_dims": "all", "weights": w}]
    names = list(BRIER_DEFAULTS)
    subsets = [s for r in range(len(names) + 1) for s in itertools.combinations(names, r)]
    n = 0
    for cfg in configs:
        full = dict(BRIER_DEFAULTS, **cfg)
        for omit in subsets:
            eff = dict(full, **{k: BRIER_DEFAULTS[k] for k in omit})
            if (eff["reduce_dims"] is not None and eff["preserve_dims"] is not None):
                continue
            kw = {k: v for k, v in full.items() if k not in omit}
            desc = {"fn": "brier_score", "fcst": gens.da_repr(fb), "obs": gens.da_repr(ob), "omitted_arguments": list(omit),
                    "passed_explicitly": {k: (gens.da_repr(v) if isinstance(v, xr.DataArray) else v) for k, v in kw.items()},
                    "documented_defaults": {k: BRIER_DEFAULTS[k] for k in omit}}
            got = core.call_impl(P.brier_score, fb, ob, **kw)
            ctx.case(("brier_defaults", str(sorted(cfg)), omit))
            n += 1
            if got[0] != "ok":
                ctx.violation("brier_score raises on a valid call with optional arguments omitted", desc, "values", got[1])
                continue
            want = expected_dims(["t", "s"], eff)
            if set(got[1].dims) != want:
                ctx.violation("brier_score with optional arguments omitted: result dims differ from those of the documented defaults", desc, sorted(want), sorted(got[1].dims))
                continue
            compare_with_oracle(ctx, "brier_score with optional arguments omitted differs from the weighted NaN-skipping mean of (f - o)^2 evaluated at the "
                                "DOCUMENTED defaults of the omitted arguments (weights=None, all dims reduced) (exact oracle)", sq, eff["weights"], got[1], desc)
            ref = core.call_impl(P.brier_score, fb, ob, **eff)
            if ref[0] != "ok" or not same_result(got[1], ref[1]):
                ctx.violation("brier_score: the call with optional arguments omitted differs from the call with their documented defaults written out", desc,
                              str(np.asarray(ref[1]).tolist())[:200], str(np.asarray(got[1]).tolist())[:200])
            # check_args defaults to True: an out-of-range forecast / a non-binary observation is rejected unless check_args=False is passed
            for what, f2, o2 in (("fcst 1.125", fb.where(fb != 0.875, 1.125), ob), ("obs 0.5", fb, ob.where(ob != 0.0, 0.5))):
                bad = core.call_impl(P.brier_score, f2, o2, **kw)
                if eff["check_args"] and bad != ("err", "err:ValueError"):
                    ctx.violation("brier_score without check_args=False must reject an out-of-range forecast / non-binary observation (check_args defaults to True)",
                                  dict(desc, invalid_value=what), "err:ValueError", str(bad[1])[:100])
                elif not eff["check_args"] and bad[0] != "ok":
                    ctx.violation("brier_score(check_args=False) must not validate its inputs", dict(desc, invalid_value=what), "values", bad[1])
    ctx.count("brier_defaults_calls", n)


def corpus(ctx):
    """deterministic repro of the defect repaired in /repo by 528852a (known_findings.d/C13.json, status fixed)"""
    P, _ = S()
    f = xr.DataArray([[1.0, 2, 3], [2, 3, 4]], dims=["t", "ens"])
    o = xr.DataArray([2.0, 3.0], dims=["t"])
    ref = core.call_impl(P.brier_score_for_ensemble, f, o, "ens", [2.0, 3.0], preserve_dims="all")
    got = core.call_impl(P.brier_score_for_ensemble, f, o, "ens", [2.0, 3.0], threshold_dim="thr", preserve_dims="all")
    ctx.case(("corpus", "brier-ens-threshold-dim-name"))
    ok = ref[0] == "ok" and got[0] == "ok" and set(got[1].dims) == {"t", "thr"} and \
        np.allclose(got[1].transpose("t", "thr").values, ref[1].transpose("t", "threshold").values, equal_nan=True)
    if not ok:
        ctx.violation("brier_score_for_ensemble(threshold_dim='thr') must return the same scores under the requested dimension name (regression of 528852a)",
                      {"fcst": [[1, 2, 3], [2, 3, 4]], "obs": [2, 3], "event_thresholds": [2.0, 3.0], "threshold_dim": "thr"},
                      "dims ('t','thr')", "dims " + str(getattr(got[1], "dims", got[1])))
    ctx.count("corpus_cases", 1)


def run(ctx):
    corpus(ctx)
    brier_boundaries(ctx)
    defaults_probe(ctx)
    oracle_probes(ctx)
    large_ensemble_probe(ctx)
    cell_grid(ctx)
    full_ens(ctx)
    full_brier(ctx)


def run_without_model(ctx):
    """used when a site no longer translates / the extracted model does not build: the same specification predicates, evaluated
    with the independent exact-rational oracle and relations between public calls only"""
    corpus(ctx)
    brier_boundaries(ctx)
    defaults_probe(ctx)
    oracle_probes(ctx)
    large_ensemble_probe(ctx)
    cell_grid(ctx, use_model=False)
    full_ens(ctx, use_model=False)
    full_brier(ctx, use_model=False)
