"""C14 -- ROC points are POD/POFD of 'forecast >= threshold'; AUC is the trapezoid area."""
import itertools
import math
import operator
from fractions import Fraction

import numpy as np
import xarray as xr

import core
import gens
from core import enc_arr, enc_bool, enc_dimspec, enc_list, enc_num, enc_nums, enc_opt

ID = "C14"
LEVEL = "proof"
LEVEL_TEXT = ("Coq theorems about a model assembled from kernels regenerated from the current source (the `>=` branch of "
              "comparative_discretise with tolerance 0, the hit/miss/false-alarm/correct-negative maps and the final ratios of the standalone "
              "POD/POFD): for every list of (forecast, observation, weight) triples and every threshold the ROC point is the weighted fraction "
              "of events / non-events with forecast >= t (a forecast equal to t is an event), both coordinates are non-increasing in t for "
              "non-negative weights and equal 1 at t = 0, the trapezoid AUC lies in [0,1], and (unweighted, thresholds containing 0, every "
              "distinct forecast and a value above the maximum) it equals the Mann-Whitney probability with ties counted one half. Proof is the "
              "right level: the deciding inputs are forecasts exactly equal to a threshold, which the example tests never use.")
LEVEL_NOTE = ("trusted: translator sites C08.* / C09.pod* + Xval semantics; the hand model of roc_curve_data's plumbing (argument checks, threshold "
              "dimension, call structure, numpy trapezoid as a fold) is validated by the correspondence check; dask inputs belong to C04")
TECHNIQUE = "Coq proof over translator-regenerated kernels + extracted-model correspondence check + independent rank-statistic oracle"
SITES = ["C08.modes", "C08.discretise", "C09.pod", "C09.pofd", "C09.pod_ratio", "C09.pofd_ratio"]
RULE = ("forecasts on the grid k/8 in [0,1] and thresholds drawn from the same grid (so forecast == threshold ties occur in most cases), 1-3 named "
        "dims of size 1-3 in shuffled order, observations in {0,1} on a random subset of the dims, NaN injected with p=0.15 in fcst / obs / weights, "
        "non-negative weights on sub-dims, every reduce/preserve spelling, check_args on and off, malformed stream (forecast or threshold outside "
        "[0,1], unsorted / NaN thresholds, non-binary obs, weights-only dimension, 'threshold' data dimension); a case is distinct by the hash of its "
        "inputs and non-trivial when at least one POD or POFD value is finite; round 4: weights multiplied by a positive constant from "
        "2^-40 ... 2^40 or 1e-12 ... 1e8 in half of the weighted cases (so weighted totals <= 1e-8 occur in ~6% of all cases) plus a second call "
        "with another such factor for every weighted case, constant weights of any magnitude in 40% of the Mann-Whitney cases, observations "
        "stored as bool / uint8 / uint16 / int8-64 / float32 in 20% of the NaN-free cases")
ASSUMPTIONS = ["the rank statistic (Mann-Whitney) used as oracle is computed by the harness with exact fractions, independently of model and implementation"]


# counters every complete run must have incremented (one per predicate family / input class): core.run_check reports the missing ones
EXPECT_COUNTS = ["ok", "err:ValueError:malformed=", "fcst_dtype:float32", "fcst_dtype:int64", "obs_only_dim", "has_fcst_eq_threshold_tie", "cells_checked",
                 "manager_agreement_checked", "weights:scaled", "weights:tiny_total", "weights:mixed_kept_and_reduced_dims", "weight_scale_invariance_checked",
                 "obs_storage:", "mann_whitney:defined", "mann_whitney:empty_class", "mann_whitney:near_ties", "mann_whitney:constant_weights"]
# positive constant factors of the weights: powers of two (exact in binary64) from 2^-40 to 2^40, and decimal ones
WEIGHT_SCALES = [2.0 ** k for k in (-40, -36, -33, -30, -27, -20, -10, -1, 1, 10, 20, 30, 40)] + [1e-10, 1e-12, 1e-9, 3e-9, 1e-6, 1e8, 7.0]
OBS_DTYPES = ["bool", "uint8", "uint8", "uint16", "int8", "int32", "int64", "float32"]


def model_ok(ctx):
    b = getattr(ctx, "build", None) or {}
    return bool(b.get("driver_ok")) and not ({"C08", "C09", "C14"} & set(b.get("excluded_models") or []))


def expected_keep(all_dims, rd, pd):
    """dimensions a valid reduce_dims / preserve_dims request keeps (the documented rule, restated independently)"""
    if pd is not None:
        return set(all_dims) if pd == "all" else ({pd} if isinstance(pd, str) else set(pd))
    if rd is None or rd == "all":
        return set()
    return set(all_dims) - ({rd} if isinstance(rd, str) else set(rd))


def ieee_ratio(a, b):
    if b == 0:
        return float("nan") if a == 0 else (float("inf") if a > 0 else float("-inf"))
    return a / b


def spec_point(cells, t, k):
    """weighted fraction of the valid cells with observation k whose forecast is >= t (exact)"""
    num = den = Fraction(0)
    for f, o, w in cells:
        if math.isnan(f) or math.isnan(o) or math.isnan(w) or o != k:
            continue
        den += Fraction(w)
        if Fraction(f) >= Fraction(t):
            num += Fraction(w)
    return ieee_ratio(num, den)


def roc():
    from scores.probability import roc_curve_data
    return roc_curve_data


def rand_thresholds(rng, bad):
    k = rng.randint(1, 6)
    ts = sorted(Fraction(rng.randint(0, 8), 8) for _ in range(k))
    if rng.random() < 0.5:
        ts = sorted(set(ts) | {Fraction(0)})
    if rng.random() < 0.3:
        ts = sorted(set(ts) | {Fraction(1)})
    ts = [float(t) for t in ts]
    if bad == "unsorted" and len(ts) > 1:
        ts[0], ts[-1] = ts[-1], ts[0]
    if bad == "thr_range":
        ts[-1] = 1.25
    if bad == "thr_neg":
        ts[0] = -0.125
    if bad == "thr_nan":
        ts[rng.randrange(len(ts))] = float("nan")
    return ts


def gen_case(ctx):
    rng = ctx.rng
    bad = rng.choice(["unsorted", "thr_range", "thr_neg", "thr_nan", "fcst_range", "fcst_neg", "obs", "wdim", "thrdim"]) if rng.random() < 0.12 else None
    names = ["a", "b", "threshold"] if bad == "thrdim" else ["a", "b", "c"]
    sizes = gens.rand_sizes(rng, names=names)
    if bad == "thrdim" and "threshold" not in sizes:
        sizes["threshold"] = 2
    grid = [k / 8 for k in range(9)]
    near = rng.random() < 0.35        # forecasts a hair below / above a grid value: not ties, must not be treated as ties
    if near:
        grid = grid + [0.7 - 0.4, 0.1 + 0.2, 0.5 - 3e-9, 0.25 - 5e-10, 0.75 + 2e-9, 0.375 - 1e-12]
    fdims = gens.sub_dims(rng, sizes, p_drop=0.2, keep_at_least=1) if bad != "thrdim" else list(sizes)   # obs may have a dim fcst lacks
    fcst = gens.rand_da(rng, sizes, dims=fdims, values=grid + ([1.5] if bad == "fcst_range" else []) + ([-0.25] if bad == "fcst_neg" else []),
                        nan_p=0.15 if rng.random() < 0.4 else 0.0)
    r = rng.random()
    if bad is None and not near and r < 0.12:      # integer forecasts (0 / 1) against fractional thresholds
        fcst = gens.rand_da(rng, sizes, dims=fdims, values=[0, 1]).astype("int64")
    elif bad is None and not near and r < 0.25:    # single precision forecasts (k/8 is exact in float32)
        fcst = fcst.astype("float32")
    odims = gens.sub_dims(rng, sizes, p_drop=0.15)
    obs = gens.rand_da(rng, sizes, dims=odims, values=[0.0, 1.0] + ([2.0, 0.5] if bad == "obs" else []), nan_p=0.15 if rng.random() < 0.4 else 0.0)
    w = None
    if rng.random() < 0.4 or bad == "wdim":
        wsizes = dict(sizes)
        wd = gens.sub_dims(rng, sizes, p_drop=0.4)
        if bad == "wdim":
            wsizes["z"] = 2
            wd = wd + ["z"]
        w = gens.rand_da(rng, wsizes, dims=wd, lo=0, hi=3, nan_p=0.1 if rng.random() < 0.3 else 0.0)
        # POD / POFD / AUC are ratios: the magnitude of the weights is the user's business (cell share of a huge domain, weights normalised over
        # a big grid, any positive constant factor 2^-40 ... 2^40): a weighted total far below 1e-8 is not 'no cases'
        if rng.random() < 0.5:
            w = w * rng.choice(WEIGHT_SCALES)
            ctx.count("weights:scaled")
    # binary observations stored compactly (bool / unsigned 8-bit masks / integers): nothing but comparisons with 0 and 1 is needed
    if bad is None and rng.random() < 0.2 and not bool(np.isnan(obs.values).any()):
        obs = obs.astype(rng.choice(OBS_DTYPES))
        ctx.count("obs_storage:" + str(obs.dtype))
    ts = rand_thresholds(rng, bad)
    if near and bad is None:
        ts = sorted(set(ts) | set(rng.sample([0.3, 0.5, 0.25, 0.75, 0.375, 0.5 + 1e-9, 0.3 - 1e-10], 3)))
    rd, pd = gens.rand_dimspec(rng, sorted(set(fcst.dims) | set(obs.dims)), allow_bad=True)
    ca = rng.random() < 0.8
    return fcst, obs, ts, rd, pd, w, ca, bad


def call(fcst, obs, ts, rd, pd, w, ca):
    kw = {"check_args": ca}
    if rd is not None:
        kw["reduce_dims"] = rd
    if pd is not None:
        kw["preserve_dims"] = pd
    if w is not None:
        kw["weights"] = w
    with np.errstate(all="ignore"):
        return core.call_impl(roc(), fcst, obs, ts, **kw)


def cells_of(fcst, obs, w, keep, sel):
    """(f, o, w) triples of the output cell `sel` (dict dim -> label) in a fixed order"""
    arrs = [fcst, obs] + ([w] if w is not None else [])
    b = xr.broadcast(*arrs)
    b = [x.sel({d: v for d, v in sel.items() if d in x.dims}) for x in b]
    f = np.asarray(b[0].values, float).ravel()
    o = np.asarray(b[1].transpose(*b[0].dims).values, float).ravel()
    ww = np.asarray(b[2].transpose(*b[0].dims).values, float).ravel() if w is not None else np.ones_like(f)
    return list(zip(f.tolist(), o.tolist(), ww.tolist()))


def mann_whitney(ev, ne):
    """P(random event forecast > random non-event forecast) + P(tie)/2, exact"""
    if not ev or not ne:
        return None
    s = Fraction(0)
    for a in ev:
        for b in ne:
            s += 1 if a > b else (Fraction(1, 2) if a == b else 0)
    return s / (len(ev) * len(ne))


def predicates(ctx, fcst, obs, ts, w, ds, desc, use_model=True, rd=None, pd=None, valid_request=False):
    """property predicates on the implementation's output `ds`"""
    pod, pofd, auc = ds["POD"], ds["POFD"], ds["AUC"]
    if valid_request:
        exp_keep = expected_keep(set(fcst.dims) | set(obs.dims), rd, pd)
        if set(auc.dims) != exp_keep or set(pod.dims) != exp_keep | {"threshold"} or set(pofd.dims) != exp_keep | {"threshold"}:
            ctx.violation("the result does not keep exactly the requested dimensions (plus 'threshold' for POD / POFD)", desc,
                          sorted(exp_keep), {"AUC": list(auc.dims), "POD": list(pod.dims), "POFD": list(pofd.dims)})
            return
    keep = [d for d in auc.dims]
    labels = [list(auc[d].values) for d in keep]
    nonneg = w is None or bool((np.nan_to_num(np.asarray(w.values, float)) >= 0).all())
    in_range = bool((np.nan_to_num(np.asarray(fcst.values, float)) >= 0).all())     # "= 1 at t = 0" speaks about forecasts in [0,1]
    for combo in itertools.product(*labels):
        sel = dict(zip(keep, combo))
        cells = cells_of(fcst, obs, w, keep, sel)
        p = np.asarray(pod.sel(sel).transpose("threshold").values, float)
        q = np.asarray(pofd.sel(sel).transpose("threshold").values, float)
        a = float(auc.sel(sel).values)
        c2 = dict(desc, cell=sel)
        finite_ts = all(math.isfinite(t) for t in ts)
        if finite_ts:
            spod, spofd = [spec_point(cells, t, 1) for t in ts], [spec_point(cells, t, 0) for t in ts]
            if not (core.close_list(p, spod) and core.close_list(q, spofd)):
                ctx.violation("ROC point differs from the weighted fraction of events / non-events with forecast >= t", c2,
                              {"POD": spod, "POFD": spofd}, {"POD": p.tolist(), "POFD": q.tolist()})
        # AUC is the (negated) trapezoid sum of exactly the returned points
        with np.errstate(all="ignore"):
            area = -float(sum((q[j + 1] - q[j]) * (p[j + 1] + p[j]) / 2.0 for j in range(len(ts) - 1))) if len(ts) > 1 else 0.0
        if not ((math.isnan(area) and math.isnan(a)) or abs(area - a) <= 1e-12):
            ctx.violation("AUC is not the trapezoid area under the returned (POFD, POD) points", c2, area, a)
        if use_model:
            m = ctx.model("c14_roc_cells", enc_list([enc_list([enc_nums(c) for c in cells]), enc_nums(ts)]))
            mpod, mpofd, mspod, mspofd = (core.dec_nums(x) for x in m[:4])
            mauc = core.dec_num(m[4])
            if not (core.close_list(p, mpod) and core.close_list(q, mpofd) and core.close(a, mauc)):
                ctx.tie_fail("list-level ROC model vs implementation", c2, {"POD": p.tolist(), "POFD": q.tolist(), "AUC": a},
                             {"POD": mpod, "POFD": mpofd, "AUC": mauc})
            if finite_ts and not (core.close_list([float(v) for v in spod], mspod) and core.close_list([float(v) for v in spofd], mspofd)):
                ctx.tie_fail("proved specification vs the harness oracle", c2, {"POD": spod, "POFD": spofd}, {"POD": mspod, "POFD": mspofd})
        if nonneg:
            for name, v in (("POD", p), ("POFD", q)):
                fin = v[~np.isnan(v)]
                if len(fin) not in (0, len(v)) or (len(fin) > 1 and (np.diff(fin) > 1e-12).any()):
                    ctx.violation(f"{name} is not non-increasing in the threshold", c2, "non-increasing", v.tolist())
                if len(fin) and ts[0] == 0 and in_range and abs(fin[0] - 1) > 1e-12:
                    ctx.violation(f"{name} is not 1 at threshold 0", c2, 1.0, float(fin[0]))
            if not math.isnan(a) and not (-1e-12 <= a <= 1 + 1e-12):
                ctx.violation("AUC outside [0,1]", c2, "[0,1]", a)
        ctx.count("cells_checked")


def scale_invariance(ctx, fcst, obs, ts, rd, pd, w, ca, ds, desc):
    """multiplying all weights by a positive constant changes nothing: bitwise for a power of two (every product and sum scales exactly),
    up to rounding for any other factor"""
    c = ctx.rng.choice(WEIGHT_SCALES)
    st, ds2 = call(fcst, obs, ts, rd, pd, w * c, ca)
    exact = math.frexp(c)[0] == 0.5
    if st != "ok":
        ctx.violation(f"roc_curve_data raises when all weights are multiplied by the positive constant {c!r}", desc, "dataset", ds2)
        return
    for name in ("POD", "POFD", "AUC"):
        a, b = ds[name], ds2[name]
        good = set(a.dims) == set(b.dims)
        if good:
            x, y = np.asarray(a.values, float), np.asarray(b.transpose(*a.dims).values, float)
            good = bool(np.array_equal(x, y, equal_nan=True)) if exact else bool(np.allclose(x, y, rtol=1e-11, atol=1e-13, equal_nan=True))
        if not good:
            ctx.violation(f"{name} changes when all weights are multiplied by the positive constant {c!r}", dict(desc, factor=c),
                          np.asarray(a.values, float).tolist(), np.asarray(b.values, float).tolist())
    ctx.count("weight_scale_invariance_checked")


def manager_agreement(ctx, fcst, obs, ts, rd, pd, ds, desc):
    """POD / POFD equal those of the contingency manager for the binary forecast `fcst >= t` (unweighted)"""
    from scores.categorical import BinaryContingencyManager
    kw = {}
    if rd is not None:
        kw["reduce_dims"] = rd
    if pd is not None:
        kw["preserve_dims"] = pd
    for i, t in enumerate(ts):
        fb = (fcst >= t).where(~np.isnan(fcst))
        with np.errstate(all="ignore"):
            b = BinaryContingencyManager(fb, obs).transform(**kw)
            for name, meth in (("POD", "probability_of_detection"), ("POFD", "probability_of_false_detection")):
                exp = getattr(b, meth)()
                got = ds[name].isel(threshold=i, drop=True)
                if set(exp.dims) != set(got.dims):
                    ctx.violation(f"{name} keeps other dimensions than the contingency manager for the same request", dict(desc, threshold=t),
                                  list(exp.dims), list(got.dims))
                    return
                if exp.dims:
                    exp = exp.sel({d: got[d] for d in got.dims}).transpose(*got.dims)
                if not np.allclose(np.asarray(got.values, float), np.asarray(exp.values, float), rtol=1e-12, atol=0, equal_nan=True):
                    ctx.violation(f"{name} differs from the contingency manager's {meth} of `fcst >= t`", dict(desc, threshold=t),
                                  np.asarray(exp.values).tolist(), np.asarray(got.values).tolist())
    ctx.count("manager_agreement_checked")


def mann_whitney_case(ctx, use_model=True):
    """unweighted, everything reduced, thresholds = {0} + distinct forecasts + a value above the maximum"""
    rng = ctx.rng
    n = rng.randint(2, 12)
    den = rng.choice([2, 4, 8])
    f = [Fraction(rng.randint(0, den), den) for _ in range(n)]
    if rng.random() < 0.5:       # near-ties: distinct values closer than any sensible tolerance, and non-dyadic ones
        for k in range(n):
            r = rng.random()
            if r < 0.25 and f[k] > 0:
                f[k] = Fraction(float(f[k]) - rng.choice([3e-9, 1e-10, 5e-9]))
            elif r < 0.35:
                f[k] = Fraction(rng.choice([0.7 - 0.4, 0.1 + 0.2, 0.3]))
        ctx.count("mann_whitney:near_ties")
    o = [rng.randint(0, 1) for _ in range(n)]
    fa = np.array([float(x) for x in f])
    oa = np.array(o, dtype=float)
    for k in range(n):
        if rng.random() < 0.1:
            (fa if rng.random() < 0.5 else oa)[k] = np.nan
    top = max(f) + Fraction(1, 8)
    ts = sorted({Fraction(0)} | set(f) | {top})
    if rng.random() < 0.3:      # extra thresholds do not change the area
        ts = sorted(set(ts) | {Fraction(rng.randint(0, 16), 16) for _ in range(3)})
    fcst = xr.DataArray(fa, dims="x")
    obs = xr.DataArray(oa, dims="x")
    w = None
    if rng.random() < 0.4:      # constant weights of any magnitude: the same statistic as without weights
        w = xr.DataArray(np.full(n, rng.choice(WEIGHT_SCALES + [1.0, 0.25])), dims="x")
        ctx.count("mann_whitney:constant_weights")
    st, ds = call(fcst, obs, [float(t) for t in ts], None, None, w, top <= 1)
    valid = [(x, y) for x, y, xa, ya in zip(f, o, fa, oa) if not (np.isnan(xa) or np.isnan(ya))]
    ev = [x for x, y in valid if y == 1]
    ne = [x for x, y in valid if y == 0]
    u = mann_whitney(ev, ne)
    desc = {"fn": "roc_curve_data", "fcst": fa.tolist(), "obs": oa.tolist(), "thresholds": [float(t) for t in ts],
            "weights": None if w is None else "constant %r" % float(w.values[0])}
    ctx.case(desc, u is not None)
    ctx.count("mann_whitney:" + ("defined" if u is not None else "empty_class"))
    if st != "ok":
        ctx.violation("roc_curve_data raises on a valid input", desc, "dataset", ds)
        return
    a = float(ds["AUC"].values)
    if u is None:
        if not math.isnan(a):
            ctx.violation("AUC is not NaN although a class is empty", desc, "nan", a)
        return
    if not core.close(a, u):
        ctx.violation("AUC differs from the Mann-Whitney probability (ties one half)", desc, u, a)
    if not use_model:
        return
    mu = core.dec_num(ctx.model("c14_mann_whitney", enc_list([enc_nums(ev), enc_nums(ne)])))
    if mu != u:
        ctx.tie_fail("model's Mann-Whitney statistic vs the harness oracle", desc, u, mu)


def body(ctx, use_model):
    for i in range(ctx.n(220, 2500)):
        if not ctx.time_left():
            break
        fcst, obs, ts, rd, pd, w, ca, bad = gen_case(ctx)
        impl = call(fcst, obs, ts, rd, pd, w, ca)
        desc = {"fn": "roc_curve_data", "fcst": gens.da_repr(fcst), "fcst_dtype": str(fcst.dtype), "obs": gens.da_repr(obs), "obs_dtype": str(obs.dtype), "thresholds": ts,
                "reduce_dims": rd, "preserve_dims": pd, "weights": gens.da_repr(w), "check_args": ca}
        nontrivial = impl[0] == "ok" and bool(np.isfinite(np.asarray(impl[1]["POD"])).any() or np.isfinite(np.asarray(impl[1]["POFD"])).any())
        ctx.case(desc, nontrivial)
        ctx.count(("ok" if impl[0] == "ok" else impl[1]) + (":malformed=" + bad if bad else ""))
        ctx.count("fcst_dtype:" + str(fcst.dtype))
        if set(obs.dims) - set(fcst.dims):
            ctx.count("obs_only_dim")
        if i < 2:
            ctx.sample(desc)
        if use_model:
            m = ctx.model("c14_roc_curve_data", enc_list([enc_arr(fcst), enc_arr(obs), enc_nums(ts), enc_dimspec(rd), enc_dimspec(pd),
                                                           enc_opt(w, enc_arr), enc_bool(ca)]))
            ok, why = core.compare_dataset(impl, m, ["POD", "POFD", "AUC"])
            if not ok:
                ctx.tie_fail("roc_curve_data vs model: " + why, desc, str(impl[1])[:300], str(m)[:300])
        # a request naming only existing dimensions, one of reduce / preserve: the result must keep exactly what was asked for
        all_dims = set(fcst.dims) | set(obs.dims)
        named = set() if (rd in (None, "all") and pd in (None, "all")) else set([rd] if isinstance(rd, str) else (rd or [])) | set([pd] if isinstance(pd, str) else (pd or []))
        named -= {"all"}
        valid_request = bad is None and not (rd is not None and pd is not None) and named <= all_dims
        if valid_request and impl[0] != "ok" and (w is None or set(w.dims) <= all_dims):
            ctx.violation("roc_curve_data raises on a valid request", desc, "dataset", impl[1])
        if impl[0] == "ok":
            ties = int(np.isin(np.asarray(fcst.values, float), ts).sum())
            ctx.count("has_fcst_eq_threshold_tie" if ties else "no_tie")
            predicates(ctx, fcst, obs, ts, w, impl[1], desc, use_model, rd, pd, valid_request)
            if w is not None:
                wv = np.asarray(w.values, float)
                if bool((np.nan_to_num(wv) > 0).any()) and float(np.nansum(wv)) <= 1e-8:
                    ctx.count("weights:tiny_total")
                kept = set(impl[1]["AUC"].dims)
                if set(w.dims) & kept and set(w.dims) - kept:
                    ctx.count("weights:mixed_kept_and_reduced_dims")
                scale_invariance(ctx, fcst, obs, ts, rd, pd, w, ca, impl[1], desc)
            if w is None and bad is None:
                manager_agreement(ctx, fcst, obs, ts, rd, pd, impl[1], desc)
    for _ in range(ctx.n(150, 2000)):
        if not ctx.time_left():
            break
        mann_whitney_case(ctx, use_model)


def run(ctx):
    body(ctx, model_ok(ctx))


def run_without_model(ctx):
    """implementation against the exact oracles (weighted fractions, Mann-Whitney statistic, trapezoid of the returned points) and the manager"""
    body(ctx, False)
