"""C20 -- out-of-domain parameters are rejected at the documented boundary, not scored."""
from fractions import Fraction

import numpy as np
import xarray as xr

import core
from core import enc_list, enc_num, enc_opt, enc_str

ID = "C20"
LEVEL = "proof"
LEVEL_TEXT = ("For every validated scalar (and element-wise array) parameter whose guard the translator can read, a Coq theorem states that the "
              "guard clauses regenerated from the public function's own body let a value through if and only if it lies strictly inside the "
              "documented domain - for every rational value, hence exactly on and arbitrarily close to the boundary; the regenerated guards "
              "are tied to the code by boundary probing of the real functions, which also covers the guards outside the translator's "
              "vocabulary (thresholds increasing, window sizes, h < length, binary observations, probability range).")
LEVEL_NOTE = ("translator + Xval comparison semantics trusted (validated by the probes); guards on array properties (monotone coordinates, "
              "pd.unique-based binary check, shapes) are decided by probing only; NaN parameters are outside the property's quantifier")
TECHNIQUE = "Coq proof that regenerated guard clauses = complement of the documented domain + boundary probing of the implementation"
SITES = ["C20.quantile_score", "C20.qis", "C20.interval_score", "C20.consistent_expectile", "C20.consistent_quantile", "C20.consistent_huber",
         "C20.tw_quantile", "C20.tw_expectile", "C20.tw_huber", "C20.murphy_score", "C20.murphy_thetas", "C20.firm", "C20.discretise",
         "C20.round_values", "C20.observed_cdf", "C20.fill_cdf", "C20.adjust_fcst", "C20.nan_decreasing", "C20.isoreg", "C20.dm",
         "C20.crps_ensemble", "C20.tail_tw", "C20.isoreg_weight", "C20.crps_cdf_weight"]
RULE = ("each validated parameter x {just inside, exactly on, just outside} each boundary (offsets 2^-30 and 1e-9, plus mid-domain and far-outside "
        "values) x {Python float, int where exact, numpy float64, numpy float32 where exact, array with a single offending element where allowed}; "
        "a probe is distinct by (parameter, value, representation) and non-trivial when it lies within 1e-6 of a boundary")

EPS = [2.0 ** -30, 1e-9]


# counters that every complete run must have incremented (harness self-check, see core.run_check)
EXPECT_COUNTS = ['probe:', 'structural_probe', 'tw_interval_probe']

def S():
    import scores
    return scores


def accept(dom, v):
    kind = dom[0]
    if kind == "open":
        return dom[1] < v < dom[2]
    if kind == "pos":
        return v > 0
    if kind == "nonneg":
        return v >= 0
    if kind == "ge":
        return v >= dom[1]
    raise ValueError(kind)


def boundary_values(dom):
    kind = dom[0]
    bs = [dom[1], dom[2]] if kind == "open" else ([0] if kind in ("pos", "nonneg") else [dom[1]])
    vals = []
    for b in bs:
        vals.append(float(b))
        for e in EPS:
            vals += [b - e, b + e]
    if kind == "open":
        vals += [(dom[1] + dom[2]) / 2, dom[1] - 1.0, dom[2] + 1.0]
    else:
        vals += [bs[0] + 1.0, bs[0] - 1.0, bs[0] + 0.5]
    return vals


def representations(v):
    out = [("float", float(v)), ("np.float64", np.float64(v))]
    if float(v).is_integer():
        out.append(("int", int(v)))
    if float(v * 4).is_integer():     # float32 only for values far from needing more than 24 bits in later arithmetic
        out.append(("np.float32", np.float32(v)))
    return out


def base():
    f = xr.DataArray([1.0, 2.0, 3.0, 4.0], dims="x")
    o = xr.DataArray([2.0, 2.0, 1.0, 5.0], dims="x")
    return f, o


def scalar_probes():
    """(name, call(value), domain, model entry, model args(value))"""
    Sc = S()
    C, P, PR = Sc.continuous, Sc.probability, Sc.processing
    from scores.processing.cdf import round_values, observed_cdf
    from scores.stats.statistical_tests import diebold_mariano
    from scores.processing.isoreg_impl import isotonic_fit
    f, o = base()
    ident = lambda x: x  # noqa: E731
    cdf = xr.DataArray([[0.0, 0.5, 1.0]], dims=["s", "threshold"], coords={"threshold": [0.0, 1.0, 2.0]})
    ob1 = xr.DataArray([1.0], dims=["s"])
    ts = xr.DataArray([[1.0, 2.0, 0.0, 1.0, 3.0]], dims=["l", "t"], coords={"l": [1], "h": ("l", [1])})
    one = lambda v: enc_list([enc_num(v)])  # noqa: E731
    return [
        ("quantile_score.alpha", lambda v: C.quantile_score(f, o, v), ("open", 0, 1), "g_quantile_score", one),
        ("interval_score.interval_range", lambda v: C.interval_score(f, f + 1, o, v), ("open", 0, 1), "g_interval_score", one),
        ("quantile_interval_score.lower(upper=0.75)", lambda v: C.quantile_interval_score(f, f + 1, o, v, 0.75), ("open", 0, 0.75), "g_qis",
         lambda v: enc_list([enc_num(v), enc_num(0.75)])),
        ("quantile_interval_score.upper(lower=0.25)", lambda v: C.quantile_interval_score(f, f + 1, o, 0.25, v), ("open", 0.25, 1), "g_qis",
         lambda v: enc_list([enc_num(0.25), enc_num(v)])),
        ("consistent_expectile_score.alpha", lambda v: C.consistent_expectile_score(f, o, v, lambda x: x ** 2, lambda x: 2 * x), ("open", 0, 1), "g_consistent_expectile", one),
        ("consistent_quantile_score.alpha", lambda v: C.consistent_quantile_score(f, o, v, ident), ("open", 0, 1), "g_consistent_quantile", one),
        ("consistent_huber_score.huber_param", lambda v: C.consistent_huber_score(f, o, v, lambda x: x ** 2, lambda x: 2 * x), ("pos",), "g_consistent_huber", one),
        ("tw_quantile_score.alpha", lambda v: C.tw_quantile_score(f, o, v, (0, 1)), ("open", 0, 1), "g_tw_quantile", one),
        ("tw_expectile_score.alpha", lambda v: C.tw_expectile_score(f, o, v, (0, 1)), ("open", 0, 1), "g_tw_expectile", one),
        ("tw_huber_loss.huber_param", lambda v: C.tw_huber_loss(f, o, v, (0, 1)), ("pos",), "g_tw_huber", one),
        ("murphy_score.alpha", lambda v: C.murphy_score(f, o, [1.0], functional="quantile", alpha=v), ("open", 0, 1), "g_murphy_score",
         lambda v: enc_list([enc_num(v), enc_str("quantile"), "none"])),
        ("murphy_score.huber_a", lambda v: C.murphy_score(f, o, [1.0], functional="huber", alpha=0.5, huber_a=v), ("pos",), "g_murphy_score",
         lambda v: enc_list([enc_num(0.5), enc_str("huber"), enc_num(v)])),
        ("murphy_thetas.huber_a", lambda v: C.murphy_thetas([f], o, "huber", huber_a=v), ("pos",), "g_murphy_thetas",
         lambda v: enc_list([enc_str("huber"), enc_num(v), "none"])),
        ("murphy_thetas.left_limit_delta", lambda v: C.murphy_thetas([f], o, "huber", huber_a=1.0, left_limit_delta=v), ("nonneg",), "g_murphy_thetas",
         lambda v: enc_list([enc_str("huber"), enc_num(1.0), enc_num(v)])),
        ("firm.risk_parameter", lambda v: Sc.categorical.firm(f, o, v, [1], [1]), ("open", 0, 1), "g_firm",
         lambda v: enc_list([enc_num(v), enc_num(0), enc_str("upper")])),
        ("firm.discount_distance", lambda v: Sc.categorical.firm(f, o, 0.5, [1], [1], discount_distance=v), ("nonneg",), "g_firm",
         lambda v: enc_list([enc_num(0.5), enc_num(v), enc_str("upper")])),
        ("firm.threshold_weights[scalar]", lambda v: Sc.categorical.firm(f, o, 0.5, [1], [v]), ("pos",), None, None),
        ("firm.threshold_weights[array, one bad element]",
         lambda v: Sc.categorical.firm(f, o, 0.5, [1], [xr.DataArray([1.0, 1.0, float(v), 1.0], dims="x")]), ("pos",), None, None),
        ("comparative_discretise.abs_tolerance", lambda v: PR.comparative_discretise(f, 1.0, ">=", abs_tolerance=v), ("nonneg",), "g_discretise", one),
        ("binary_discretise.abs_tolerance", lambda v: PR.binary_discretise(f, [1.0, 2.0], ">=", abs_tolerance=v), ("nonneg",), "g_discretise", one),
        ("round_values.rounding_precision", lambda v: round_values(f, v), ("nonneg",), "g_round_values", one),
        ("observed_cdf.precision", lambda v: observed_cdf(o, "thr", precision=v), ("nonneg",), "g_observed_cdf", one),
        ("adjust_fcst_for_crps.decreasing_tolerance", lambda v: P.adjust_fcst_for_crps(cdf, "threshold", ob1, decreasing_tolerance=v), ("nonneg",), "g_adjust_fcst", one),
        ("decreasing_cdfs.tolerance", lambda v: Sc.processing.cdf.decreasing_cdfs(cdf, "threshold", v), ("nonneg",), "g_nan_decreasing", one),
        ("isotonic_fit.quantile_level", lambda v: isotonic_fit(f.values, o.values, functional="quantile", quantile_level=v), ("open", 0, 1), "g_iso",
         lambda v: enc_list([enc_str("quantile"), enc_num(v), enc_num(0.9)])),
        ("isotonic_fit.confidence_level", lambda v: isotonic_fit(f.values, o.values, bootstraps=2, confidence_level=v), ("open", 0, 1), None, None),
        ("isotonic_fit.weight[array, one bad element]", lambda v: isotonic_fit(f.values, o.values, weight=np.array([1.0, float(v), 1.0, 1.0])), ("pos",), "g_iso_weight",
         lambda v: enc_list([enc_list([enc_num(1), enc_num(v), enc_num(1), enc_num(1)])])),
        ("diebold_mariano.confidence_level", lambda v: diebold_mariano(ts, "l", "h", confidence_level=v, method="HLN"), ("open", 0, 1), "g_dm",
         lambda v: enc_list([enc_num(v), enc_str("HLN"), enc_str("normal")])),
        ("crps_cdf.threshold_weight[array, one bad element]",
         lambda v: P.crps_cdf(cdf, ob1, threshold_weight=xr.DataArray([1.0, float(v), 1.0], dims=["threshold"], coords={"threshold": [0.0, 1.0, 2.0]})),
         ("nonneg_le1",), "g_crps_cdf_inputs", lambda v: enc_list([enc_list([enc_num(1), enc_num(v), enc_num(1)]), enc_str("linear"), enc_str("exact")])),
    ]


def structural_probes():
    """guards outside the translator's vocabulary: (name, thunk, expected 'ok'|'rej')"""
    Sc = S()
    P, PR, C = Sc.probability, Sc.processing, Sc.continuous
    from scores.spatial import fss_2d_single_field
    from scores.stats.statistical_tests import diebold_mariano
    from scores.emerging import risk_matrix_score, matrix_weights_to_array
    from scores.processing.isoreg_impl import isotonic_fit
    f, o = base()
    p = xr.DataArray([0.0, 0.5, 1.0], dims="x")
    pb = xr.DataArray([0.0, 1.0, 1.0], dims="x")
    cdf = xr.DataArray([[0.0, 0.5, 1.0]], dims=["s", "threshold"], coords={"threshold": [0.0, 1.0, 2.0]})
    ob1 = xr.DataArray([1.0], dims=["s"])
    fld = np.ones((3, 4))
    ts = xr.DataArray([[1.0, 2.0, 0.0, 1.0, 3.0]], dims=["l", "t"])
    dw = xr.DataArray([[1.0, 2.0]], dims=["pt", "sev"], coords={"pt": [0.5], "sev": [0, 1]})
    rf = xr.DataArray([[0.0, 1.0]], dims=["s", "sev"], coords={"sev": [0, 1]})
    ens = xr.DataArray([[1.0, 2.0]], dims=["s", "m"])
    out = [
        ("quantile_interval_score lower==upper level", lambda: C.quantile_interval_score(f, f + 1, o, 0.5, 0.5), "rej"),
        ("quantile_interval_score lower>upper level", lambda: C.quantile_interval_score(f, f + 1, o, 0.6, 0.5), "rej"),
        ("quantile_interval_score fcst_lower>fcst_upper (one element)", lambda: C.quantile_interval_score(f + xr.DataArray([0, 0, 1e-9, 0], dims="x"), f, o, 0.1, 0.5), "rej"),
        ("quantile_interval_score fcst_lower==fcst_upper", lambda: C.quantile_interval_score(f, f, o, 0.1, 0.5), "ok"),
        ("tw interval a==b", lambda: C.tw_squared_error(f, o, (1, 1)), "rej"),
        ("tw interval a>b", lambda: C.tw_squared_error(f, o, (2, 1)), "rej"),
        ("tw interval a<b", lambda: C.tw_squared_error(f, o, (1, 1 + 1e-9)), "ok"),
        ("tw trapezoid a==b finite", lambda: C.tw_squared_error(f, o, (1, 2), interval_where_positive=(1, 3)), "rej"),
        ("tw trapezoid ok", lambda: C.tw_squared_error(f, o, (1, 2), interval_where_positive=(0, 3)), "ok"),
        ("interval_tw_crps lower==upper", lambda: P.interval_tw_crps_for_ensemble(ens, ob1, "m", 1.0, 1.0), "rej"),
        ("interval_tw_crps lower<upper", lambda: P.interval_tw_crps_for_ensemble(ens, ob1, "m", 1.0, 1.0 + 1e-9), "ok"),
        ("brier_score p on [0,1] boundary", lambda: P.brier_score(p, pb), "ok"),
        ("brier_score p=1+eps (one element)", lambda: P.brier_score(p + xr.DataArray([0, 0, 1e-9], dims="x"), pb), "rej"),
        ("brier_score p=-eps (one element)", lambda: P.brier_score(p - xr.DataArray([1e-9, 0, 0], dims="x"), pb), "rej"),
        ("brier_score non-binary obs", lambda: P.brier_score(p, p), "rej"),
        ("brier_score p=-1e-17 (one element)", lambda: P.brier_score(p - xr.DataArray([1e-17, 0, 0], dims="x"), pb), "rej"),
        ("brier_score p=-1e-300 (one element)", lambda: P.brier_score(p - xr.DataArray([1e-300, 0, 0], dims="x"), pb), "rej"),
        ("brier_score p=0.3-3*0.1 (one element)", lambda: P.brier_score(xr.DataArray([0.3 - 3 * 0.1, 0.5, 1.0], dims="x"), pb), "rej"),
        ("brier_score p=1+2.3e-16 (one element)", lambda: P.brier_score(xr.DataArray([0.0, 0.5, 1.0 + 2.3e-16], dims="x"), pb), "rej"),
        ("roc_curve_data p=-1e-300 (one element)", lambda: P.roc_curve_data(p - xr.DataArray([1e-300, 0, 0], dims="x"), pb, [0, 0.5, 1]), "rej"),
        ("roc thresholds 1+eps", lambda: P.roc_curve_data(p, pb, [0, 1 + 1e-9]), "rej"),
        ("roc thresholds decreasing", lambda: P.roc_curve_data(p, pb, [0.5, 0.2]), "rej"),
        ("roc thresholds equal", lambda: P.roc_curve_data(p, pb, [0.5, 0.5]), "ok"),
        ("roc fcst 1+eps", lambda: P.roc_curve_data(p + xr.DataArray([0, 0, 1e-9], dims="x"), pb, [0, 0.5, 1]), "rej"),
        ("binary_discretise thresholds decreasing", lambda: PR.binary_discretise(p, [0.5, 0.5 - 1e-9], ">="), "rej"),
        ("binary_discretise thresholds equal", lambda: PR.binary_discretise(p, [0.5, 0.5], ">="), "ok"),
        ("crps_cdf threshold coords not increasing", lambda: P.crps_cdf(cdf.assign_coords(threshold=[0.0, 1.0, 1.0]), ob1), "rej"),
        ("crps_cdf single threshold", lambda: P.crps_cdf(cdf.isel(threshold=[0]), ob1), "rej"),
        ("crps_cdf cdf value 1+eps", lambda: P.crps_cdf(cdf + 1e-9, xr.DataArray([1.5], dims=["s"])), "rej"),
        ("adjust_fcst tolerance 0", lambda: P.adjust_fcst_for_crps(cdf, "threshold", ob1, decreasing_tolerance=0), "ok"),
        ("risk_matrix fcst 1+eps", lambda: risk_matrix_score(rf + 1e-9, rf, dw, "sev", "pt"), "rej"),
        ("isotonic bootstraps 0", lambda: isotonic_fit(f.values, o.values, bootstraps=0), "rej"),
        ("isotonic bootstraps 1", lambda: isotonic_fit(f.values, o.values, bootstraps=1), "ok"),
    ]
    # guards must look at labelled values: inputs stored in a different coordinate order / containing NaN elsewhere
    lo = xr.DataArray([1.0, 2.0, 3.0, 4.0], dims="x", coords={"x": [0, 1, 2, 3]})
    up_rev = (lo + 1).isel(x=[3, 2, 1, 0])                       # same labels, reversed storage: a valid interval everywhere
    up_cross = (lo + xr.DataArray([1.0, 1.0, -0.5, 1.0], dims="x", coords={"x": [0, 1, 2, 3]})).isel(x=[3, 2, 1, 0])   # crossed at label 2
    ob = xr.DataArray([2.0, 2.0, 1.0, 5.0], dims="x", coords={"x": [0, 1, 2, 3]})
    nanp = xr.DataArray([0.1, float("nan"), 0.6, 0.2, 1.3, 0.4], dims="x")
    nanpb = xr.DataArray([0.0, 1.0, 1.0, 0.0, 1.0, 0.0], dims="x")
    nancdf = xr.DataArray([[0.0, float("nan"), 1.0], [0.0, 0.5, 1.3]], dims=["s", "threshold"], coords={"threshold": [0.0, 1.0, 2.0]})
    out += [
        ("quantile_interval_score valid interval stored in reversed coordinate order", lambda: C.quantile_interval_score(lo, up_rev, ob, 0.1, 0.9), "ok"),
        ("quantile_interval_score crossed at one label, stored in reversed coordinate order", lambda: C.quantile_interval_score(lo, up_cross, ob, 0.1, 0.9), "rej"),
        ("brier_score fcst with a NaN and a value 1.3", lambda: P.brier_score(nanp, nanpb), "rej"),
        ("roc_curve_data fcst with a NaN and a value 1.3", lambda: P.roc_curve_data(nanp, nanpb, [0, 0.5, 1]), "rej"),
        ("crps_cdf cdf with a NaN and a value 1.3", lambda: P.crps_cdf(nancdf, xr.DataArray([1.0, 1.0], dims=["s"])), "rej"),
        ("risk_matrix_score fcst with a NaN and a value 1.3",
         lambda: risk_matrix_score(xr.DataArray([[float("nan"), 1.0], [1.3, 0.5]], dims=["s", "sev"], coords={"sev": [0, 1]}),
                                   xr.DataArray([[0.0, 1.0], [1.0, 0.0]], dims=["s", "sev"], coords={"sev": [0, 1]}), dw, "sev", "pt"), "rej"),
        ("roc_curve_data fcst with NaN inside [0,1]", lambda: P.roc_curve_data(nanp.where(nanp <= 1, 0.5), nanpb, [0, 0.5, 1]), "ok"),
    ]
    # Dataset inputs: every variable is validated
    from scores.processing.cdf import fill_cdf
    good = xr.DataArray([0.0, 1.0, 1.0], dims="x")
    badv = xr.DataArray([0.0, 0.5, 1.0], dims="x")
    for order in (("bad", "good"), ("good", "bad"), ("good", "bad", "good2")):
        obs_ds = xr.Dataset({k: (badv if k == "bad" else good) for k in order})
        fc_ds = xr.Dataset({k: p for k in order})
        out.append((f"brier_score Dataset obs, non-binary variable in position {order.index('bad')} of {len(order)}", lambda o_=obs_ds, f_=fc_ds: P.brier_score(f_, o_), "rej"))
        out.append((f"probability_of_detection Dataset fcst, non-binary variable in position {order.index('bad')} of {len(order)}",
                    lambda o_=obs_ds: Sc.categorical.probability_of_detection(o_, xr.Dataset({k: good for k in o_.data_vars})), "rej"))
    out.append(("brier_score Dataset inputs, all variables valid", lambda: P.brier_score(xr.Dataset({"a": p, "b": p}), xr.Dataset({"a": good, "b": good})), "ok"))
    # fill_cdf: min_nonnan boundary for each method
    cdf1 = xr.DataArray([[0.0, float("nan"), 1.0]], dims=["s", "threshold"], coords={"threshold": [0.0, 1.0, 2.0]})
    for meth, lo_ok in (("linear", 2), ("step", 1), ("forward", 1), ("backward", 1)):
        out.append((f"fill_cdf method={meth} min_nonnan={lo_ok - 1}", lambda m=meth, n=lo_ok - 1: fill_cdf(cdf1, "threshold", m, n), "rej"))
        out.append((f"fill_cdf method={meth} min_nonnan={lo_ok}", lambda m=meth, n=lo_ok: fill_cdf(cdf1, "threshold", m, n), "ok"))
    # murphy: the Huber parameter is validated for every accepted spelling of the functional
    for spelling in ("huber", "Huber", "HUBER"):
        for ha, e in ((0.0, "rej"), (-1.0, "rej"), (1e-9, "ok")):
            out.append((f"murphy_score functional={spelling!r} huber_a={ha}", lambda sp=spelling, h=ha: C.murphy_score(f, o, [1.0], functional=sp, alpha=0.5, huber_a=h), e))
    # every window (h, w) with 0 <= h <= 5, 0 <= w <= 6 on a 3x4 field, for the three public entry points and both padding
    # modes: accepted exactly when 1 <= h <= 3 and 1 <= w <= 4 (each side checked on its own)
    from scores.spatial import fss_2d, fss_2d_binary
    fld_da = xr.DataArray(fld, dims=["y", "x"])
    for h_ in range(0, 6):
        for w_ in range(0, 7):
            e = "ok" if (1 <= h_ <= 3 and 1 <= w_ <= 4) else "rej"
            for pad in (False, True):
                out.append((f"fss_2d_single_field window_size=({h_}, {w_}) zero_padding={pad} on a 3x4 field",
                            lambda w=(h_, w_), p=pad: fss_2d_single_field(fld, fld, event_threshold=0.5, window_size=w, zero_padding=p), e))
                out.append((f"fss_2d window_size=({h_}, {w_}) zero_padding={pad} on a 3x4 field",
                            lambda w=(h_, w_), p=pad: fss_2d(fld_da, fld_da, event_threshold=0.5, window_size=w, spatial_dims=("y", "x"), zero_padding=p), e))
                out.append((f"fss_2d_binary window_size=({h_}, {w_}) zero_padding={pad} on a 3x4 field",
                            lambda w=(h_, w_), p=pad: fss_2d_binary(fld_da > 0.5, fld_da > 0.5, window_size=w, spatial_dims=("y", "x"), zero_padding=p), e))
    for h, e in ((0, "rej"), (1, "ok"), (4, "ok"), (5, "rej"), (1.5, "rej"), (-1, "rej")):
        out.append((f"diebold_mariano h={h} (series length 5)", lambda h=h: diebold_mariano(ts.assign_coords(l=[1], h=("l", [h])), "l", "h", method="HLN"), e))
    # the lead time h is an array (one per series): a single offending element must be enough to reject
    ts3 = xr.DataArray([[1.0, 2.0, 0.0, 1.0, 3.0], [0.5, 1.0, 2.0, 0.0, 1.0], [2.0, 0.0, 1.0, 3.0, 1.5]], dims=["l", "t"])
    for hs, e in (([1, 2, 3], "ok"), ([1.0, 2.0, 3.0], "ok"), ([1, 2.5, 3], "rej"), ([2.5, 1, 2], "rej"), ([1, 2, 3.000001], "rej"), ([1.5, 2.5, 3.5], "rej"),
                  ([1, 0, 2], "rej"), ([1, 2, -1], "rej"), ([1, 2, 5], "rej"), ([5, 1, 1], "rej"), ([1, 2, 4], "ok"), ([1, float("nan"), 2], "rej")):
        for meth in ("HLN", "HG"):
            out.append((f"diebold_mariano h={hs} method={meth} (three series of length 5)",
                        lambda hs=hs, m=meth: diebold_mariano(ts3.assign_coords(l=[1, 2, 3], h=("l", hs)), "l", "h", method=m), e))
    for ptv, e in ((0.0, "rej"), (1.0, "rej"), (1e-9, "ok"), (1 - 1e-9, "ok")):
        out.append((f"risk_matrix_score probability threshold={ptv}", lambda ptv=ptv: risk_matrix_score(rf, rf, dw.assign_coords(pt=[ptv]), "sev", "pt"), e))
        out.append((f"matrix_weights_to_array probability threshold={ptv}", lambda ptv=ptv: matrix_weights_to_array(np.array([[1.0, 2.0]]), "sev", [0, 1], "pt", [ptv]), e))
    # threshold coordinates must be strictly increasing wherever a CDF is consumed: ties and decreases are rejected
    from scores.processing.cdf import decreasing_cdfs
    cdf4 = xr.DataArray([[0.0, 0.4, 0.6, 1.0]], dims=["s", "threshold"], coords={"threshold": [0.0, 1.0, 2.0, 3.0]})
    for label, coords, e in (("strictly increasing", [0.0, 1.0, 2.0, 3.0], "ok"), ("a tie", [0.0, 1.0, 1.0, 2.0], "rej"), ("a tie at the end", [0.0, 1.0, 2.0, 2.0], "rej"),
                             ("a decrease", [0.0, 2.0, 1.0, 3.0], "rej"), ("decreasing", [3.0, 2.0, 1.0, 0.0], "rej")):
        c4 = cdf4.assign_coords(threshold=coords)
        out.append((f"decreasing_cdfs threshold coordinates with {label}", lambda c=c4: decreasing_cdfs(c, "threshold", 0.1), e))
        out.append((f"adjust_fcst_for_crps threshold coordinates with {label}", lambda c=c4: P.adjust_fcst_for_crps(c, "threshold", ob1, decreasing_tolerance=0.1), e))
        out.append((f"crps_cdf threshold coordinates with {label}", lambda c=c4: P.crps_cdf(c, ob1), e))
        out.append((f"crps_cdf_brier_decomposition threshold coordinates with {label}", lambda c=c4: P.crps_cdf_brier_decomposition(c, ob1), e))
    return out


def tw_interval_probes(ctx):
    """every ordering of the four end points of a trapezoidal threshold weight (values from -inf, 0..3, +inf), for the five
    tw_* scores: accepted exactly when  one = (b, c) with b < c,  positive = (a, d) with a < b (or a = b = -inf) and
    c < d (or c = d = +inf), an outer end point infinite only where the inner one is -- the documented domain; plus the rectangular case"""
    import itertools
    Sc = S()
    C = Sc.continuous
    f, o = base()
    inf = float("inf")
    vals = [-inf, 0.0, 1.0, 2.0, 3.0, inf]
    fns = {"tw_squared_error": lambda *a, **k: C.tw_squared_error(f, o, *a, **k), "tw_absolute_error": lambda *a, **k: C.tw_absolute_error(f, o, *a, **k),
           "tw_quantile_score": lambda *a, **k: C.tw_quantile_score(f, o, 0.3, *a, **k), "tw_expectile_score": lambda *a, **k: C.tw_expectile_score(f, o, 0.3, *a, **k),
           "tw_huber_loss": lambda *a, **k: C.tw_huber_loss(f, o, 1.5, *a, **k)}
    combos = list(itertools.product(vals, repeat=4))
    rng = ctx.rng
    for name, fn in fns.items():
        pick = combos if ctx.tier == "thorough" else rng.sample(combos, 120 if name == "tw_squared_error" else 50)
        # the full-line weight with every trapezoid: the cheapest thing to special-case
        pick = pick + [(a, -inf, inf, d) for a in vals for d in vals]
        for a, b, c, d in pick:
            want = (b < c) and (a < b or (a == b and a == -inf)) and (c < d or (c == d and d == inf)) \
                and not (abs(a) == inf and a != b) and not (abs(d) == inf and d != c)     # an infinite outer end only with an infinite inner end
            r = core.call_impl(fn, (b, c), interval_where_positive=(a, d))
            ctx.case(("tw-trap", name, a, b, c, d))
            ctx.count("tw_interval_probe")
            if (r[0] == "ok") != want or (r[0] != "ok" and r[1] not in REJECT):
                ctx.violation(f"{name}: interval_where_one=({b}, {c}), interval_where_positive=({a}, {d}): expected {'acceptance' if want else 'ValueError'}, got "
                              f"{'a result' if r[0] == 'ok' else r[1]}", {"fn": name, "interval_where_one": [b, c], "interval_where_positive": [a, d]},
                              "ok" if want else "rejection", "ok" if r[0] == "ok" else r[1])
        for b, c in itertools.product(vals, repeat=2):
            r = core.call_impl(fn, (b, c))
            ctx.case(("tw-rect", name, b, c))
            ctx.count("tw_interval_probe")
            if (r[0] == "ok") != (b < c) or (r[0] != "ok" and r[1] not in REJECT):
                ctx.violation(f"{name}: interval_where_one=({b}, {c}): expected {'acceptance' if b < c else 'ValueError'}, got {'a result' if r[0] == 'ok' else r[1]}",
                              {"fn": name, "interval_where_one": [b, c]}, "ok" if b < c else "rejection", "ok" if r[0] == "ok" else r[1])


REJECT = {"err:ValueError", "err:TypeError"}


def run(ctx, use_model=True):
    near = 0
    for name, call, dom, entry, margs in scalar_probes():
        vals = boundary_values(("nonneg",) if dom[0] == "nonneg_le1" else dom)
        if dom[0] == "nonneg_le1":       # weights above 1 are rejected by a different documented check: stay in [.., 1]
            vals = [v for v in vals if v <= 1]
        for v in vals:
            want_ok = accept(("nonneg",) if dom[0] == "nonneg_le1" else dom, v)
            for rep, pv in representations(v):
                if "array" in name and rep != "float":
                    continue
                r = core.call_impl(call, pv)
                got_ok = r[0] == "ok"
                key = (name, repr(v), rep)
                nt = any(abs(v - b) < 1e-6 for b in (dom[1:] if dom[0] == "open" else [0]))
                ctx.case(key, nt)
                near += nt
                ctx.count("probe:" + name.split("[")[0].split("(")[0])
                case = {"parameter": name, "value": float(v), "representation": rep, "domain": dom}
                if got_ok != want_ok or (not got_ok and r[1] not in REJECT):
                    ctx.violation(f"{name}={v!r} ({rep}): expected {'acceptance' if want_ok else 'ValueError/TypeError'}, got {'a result' if got_ok else r[1]}",
                                  case, "ok" if want_ok else "rejection", "ok" if got_ok else r[1])
                if use_model and entry is not None and rep == "float":
                    m = ctx.model(entry, margs(Fraction(float(v))))
                    m_ok = (m == "ok")
                    if m_ok != got_ok:
                        ctx.tie_fail(f"regenerated guard {entry} vs implementation", case, "ok" if got_ok else r[1], m)
        if len(ctx.samples) < 5:
            ctx.sample({"parameter": name, "domain": dom, "values": vals[:7]})
    for name, thunk, want in structural_probes():
        r = core.call_impl(thunk)
        got_ok = r[0] == "ok"
        ctx.case(("struct", name))
        ctx.count("structural_probe")
        if got_ok != (want == "ok") or (not got_ok and r[1] not in REJECT):
            ctx.violation(f"{name}: expected {want}, got {'a result' if got_ok else r[1]}", {"probe": name}, want, "ok" if got_ok else r[1])
    tw_interval_probes(ctx)
    ctx.exhaustive = True
    ctx.note(f"{near} probes lie within 1e-6 of a boundary; NaN parameters are outside the property's quantifier and are not probed")


def run_without_model(ctx):
    """the regenerated guards do not build against the current source: every probe of the implementation still runs"""
    run(ctx, use_model=False)
