"""C15 -- isotonic regression returns the optimal monotone fit, independent of input order."""
from fractions import Fraction

import numpy as np
import xarray as xr

import core
import gens
from core import enc_bool, enc_list, enc_num, enc_nums, enc_opt, enc_str

ID = "C15"
LEVEL = "proof"
LEVEL_TEXT = ("Coq theorems about an executable model of isotonic_fit: the PAV state machine that mirrors _contiguous_ir's merge order "
              "terminates within its fuel, returns a non-decreasing fit whose blocks have strictly increasing values and each equal the "
              "solver applied to the block's observations (any solver), pools tied forecasts; for the mean functional the fit lies between "
              "min and max observation, preserves the weighted mean and minimises the weighted squared error among all non-decreasing "
              "sequences (hence is unique and independent of the order of the input pairs); counts sum to the number of valid pairs; the "
              "linear-interpolation quantile is monotone in its level (lower band <= upper band). The model is tied to isoreg_impl.py by a "
              "correspondence check on every run (numpy/xarray inputs, ties, NaN, weights, quantile levels, custom solvers, bootstrap "
              "resampling replayed from the numpy seed) and an exact rational max-min oracle. Proof is the right level: optimality and "
              "order-independence quantify over all inputs and all competing monotone sequences.")
LEVEL_NOTE = ("external and only tied by correspondence: scipy.optimize.isotonic_regression (modelled by PAV with the weighted mean), np.quantile, "
              "np.interp/interp1d, np.lexsort; bootstrap reproducibility under a fixed numpy seed is runtime behaviour observed by the harness (partial)")
TECHNIQUE = "Coq proof over an executable PAV model + extracted-model correspondence check + exact max-min oracle"
SITES = []
RULE = ("forecast/observation/weight arrays of 1-14 pairs in 1-3-d shapes, forecasts from 1-5 levels (heavy ties), observations on the grid k/2, "
        "NaN injected in any of the three arrays, weights from {1/2,1,2,3}, functional mean / quantile (dyadic levels) / seven custom solvers, numpy and "
        "xarray containers (dims transposed, coordinates shuffled), integer dtype; integer-valued pairs with fcst / obs / weight held independently in "
        "int64 / int32 / int16 / uint8 / uint16 / uint32 / uint64 / float32 arrays (numpy and xarray; unsigned values also near the top of the type's range) "
        "plus a deterministic dtype corpus; +inf / -inf as VALID data: forecasts (every functional, numpy / xarray / bootstrap), observations where the "
        "functional defines the result (solvers max / min, quantile blocks that read finite order statistics only, mean with infinities of one sign), "
        "weights for solvers that ignore them; bootstrap cases replay np.random.seed; every optional argument omitted vs written out at its documented "
        "default (functional='mean', bootstraps=None, confidence_level=0.9, min_non_nan=1, report_bootstrap_results=False ...); a separate malformed stream covers every _iso_arg_checks branch "
        "incl. the dtype checks. A case is distinct by the hash of (function, inputs, options), non-trivial when the fit has >= 2 pairs")
ASSUMPTIONS = ["an infinite observation is inside the domain only where the functional defines the block values: solvers max / min, quantile blocks whose "
               "interpolation reads finite order statistics (np.quantile returns NaN otherwise), the mean with infinities of one sign; bootstrap bands "
               "with infinite observations are outside (see docs/C15.md)",
               "custom solvers are deterministic functions of the block's (observation, weight) sequence",
               "bootstrap resampling uses numpy's global RNG: np.random.randint(0, n, n) per bootstrap, replayed by the harness from the same seed"]
TRUSTED = ["scipy.optimize.isotonic_regression, np.quantile, np.interp (scipy interp1d), np.lexsort, np.unique: modelled, tied by correspondence only",
           "numpy global RNG (bootstrap): observed, not modelled"]

# counters every complete run must have incremented: one per predicate family / input class (core.run_check reports a family
# that silently never ran)
EXPECT_COUNTS = ["known_corpus", "dtype_corpus", "pav_sequences", "functional:mean", "functional:quantile", "functional:solver:", "weighted", "unweighted",
                 "with_nan", "fit:ok", "dtype:fcst:int", "dtype:fcst:uint", "dtype:fcst:float32", "dtype:obs:uint", "dtype:weight:uint", "inf:fcst",
                 "inf:obs:max-min", "inf:obs:quantile", "inf:obs:mean-one-sided", "inf:weight", "relation:inf-standin", "relation:nan-deleted",
                 "relation:permuted", "oracle_fit_cases", "xarray", "xarray:typed", "xarray:inf-fcst", "bootstrap", "bootstrap:inf-fcst", "nanquantile", "nanquantile:infinite-values",
                 "malformed:", "malformed:dtype:", "defaults:fit", "defaults:bootstrap"]

NAN = float("nan")
INF = float("inf")
FINDING_INT = "integer-obs-truncated"


def I():
    import scores.processing.isoreg_impl as m
    return m


# ------------------------------------------------------------------------------------------
# solvers (python side) and their model names
# ------------------------------------------------------------------------------------------
def py_solver(name, p=None):
    def mean(y, w=None):
        return float(np.mean(y)) if w is None else float(np.average(y, weights=w))

    def smax(y, w=None):
        return float(np.max(y))

    def smin(y, w=None):
        return float(np.min(y))

    def fml(y, w=None):
        return float(y[0] - len(y))

    def sol(y, w=None):
        return float(np.sum(y if w is None else w * y) / len(y))

    def quant(y, w=None):
        with np.errstate(invalid="ignore"):
            return float(np.quantile(y, float(p)))

    def const(y, w=None):
        return float(p)
    return {"mean": mean, "max": smax, "min": smin, "first_minus_len": fml, "sum_over_len": sol, "quantile": quant, "const": const}[name]


def enc_solver(name, p=None):
    return enc_list([enc_str(name), enc_num(p) if p is not None else "none"])


SOLVERS = [("mean", None), ("max", None), ("min", None), ("first_minus_len", None), ("sum_over_len", None),
           ("quantile", Fraction(1, 2)), ("quantile", Fraction(1, 4)), ("quantile", Fraction(5, 8)), ("const", Fraction(-3, 2))]
SYMMETRIC = [s for s in SOLVERS if s[0] != "first_minus_len"]


def enc_args(fsh, osh, wsh, f, o, w, functional, solver, q, boot, conf, intobs):
    return enc_list([enc_list([str(x) for x in fsh]), enc_list([str(x) for x in osh]),
                     "none" if wsh is None else enc_list([str(x) for x in wsh]),
                     enc_nums(f), enc_nums(o), "none" if w is None else enc_nums(w),
                     "none" if functional is None else enc_str(functional),
                     "none" if solver is None else enc_solver(*solver),
                     "none" if q is None else enc_num(q),
                     "none" if boot is None else str(int(boot)),
                     "none" if conf is None else enc_num(conf), enc_bool(intobs)])


# ------------------------------------------------------------------------------------------
# generators
# ------------------------------------------------------------------------------------------
def gen_pairs(rng, nmax=14):
    n = rng.randint(1, nmax)
    levels = sorted({Fraction(rng.randint(-8, 8), 2) for _ in range(rng.randint(1, 5))})
    f = [float(rng.choice(levels)) for _ in range(n)]
    r = rng.random()
    if r < 0.3:
        o = [float(Fraction(rng.randint(0, 4), 1)) for _ in range(n)]          # very heavy ties
    elif r < 0.5:
        o = [float(1 if rng.random() < 0.5 else 0) for _ in range(n)]          # binary outcomes
    else:
        o = [float(Fraction(rng.randint(-12, 12), 2)) for _ in range(n)]
    w = None
    if rng.random() < 0.45:
        w = [float(rng.choice([Fraction(1, 2), Fraction(1), Fraction(2), Fraction(3)])) for _ in range(n)]
    for arr, p in ((f, 0.08), (o, 0.08), (w, 0.08)):
        if arr is not None and rng.random() < 0.4:
            for i in range(n):
                if rng.random() < p:
                    arr[i] = NAN
    return f, o, w


def rand_shape(rng, n):
    shapes = [(n,)]
    for a in range(2, n):
        if n % a == 0:
            shapes.append((a, n // a))
            for b in range(2, n // a):
                if (n // a) % b == 0:
                    shapes.append((a, b, n // a // b))
    return rng.choice(shapes)


def rand_functional(rng, weighted):
    r = rng.random()
    if r < 0.4:
        return "mean", None, None
    if r < 0.6 and not weighted:
        return "quantile", None, rng.choice([Fraction(1, 2), Fraction(1, 4), Fraction(3, 4), Fraction(1, 8), Fraction(5, 8)])
    return None, rng.choice(SOLVERS), None


def kwargs(functional, solver, q, w):
    kw = {"functional": functional}
    if solver is not None:
        kw["solver"] = py_solver(*solver)
    if q is not None:
        kw["quantile_level"] = float(q)
    if w is not None:
        kw["weight"] = w
    return kw


# storage dtypes: signed and UNSIGNED integers, float32.  The function only sorts, compares and averages after casting fcst and
# obs to float64 (/repo ad3fbe5, 3166ae9), so the result must not depend on the storage type of the numbers.  bool / str / complex /
# object are refused (malformed stream).
UNSIGNED = ("uint8", "uint16", "uint32", "uint64")
DTYPES = ["int64", "int32", "int16", "float32", "float64", "uint8", "uint16", "uint32", "uint64"]
# the top of each unsigned type's range (a cast to the signed type of the same width, or `-x`, wraps there); 2**40 for uint64: the
# values AND every weighted sum of up to 14 of them (weights <= 4) stay below 2**53, i.e. exact in binary64
UTOP = {"uint8": 255, "uint16": 65535, "uint32": 4294967295, "uint64": 2 ** 40}


def typed_offset(rng, dtype, span):
    """unsigned storage: values start at 0, or (30 %) end at the top of the type's range"""
    if dtype in UNSIGNED and rng.random() < 0.3:
        return float(UTOP[dtype] - span)
    return 0.0


def gen_typed_pairs(rng, nmax=14):
    """integer-valued pairs with heavy ties; fcst, obs and weight get a storage dtype each, independently (signed / unsigned
    integers, float32, float64); values are non-negative where the dtype is unsigned; NaN only where the dtype can hold it"""
    n = rng.randint(1, nmax)
    weighted = rng.random() < 0.5
    while True:
        dts = [rng.choice(DTYPES) for _ in range(3)]
        if any(d != "float64" for d in (dts if weighted else dts[:2])):
            break
    uf, uo = dts[0] in UNSIGNED, dts[1] in UNSIGNED
    off = typed_offset(rng, dts[0], 8)
    levels = sorted({rng.randint(0 if uf else -6, 8) for _ in range(rng.randint(1, 4))})
    f = [off + float(rng.choice(levels)) for _ in range(n)]
    r = rng.random()
    off = typed_offset(rng, dts[1], 16)
    if r < 0.3:
        o = [off + float(rng.randint(0, 4)) for _ in range(n)]
    elif r < 0.5:
        o = [off + float(rng.randint(0, 1)) for _ in range(n)]
    else:
        o = [off + float(rng.randint(0 if uo else -8, 16 if uo else 8)) for _ in range(n)]
    w = [float(rng.choice([1, 1, 2, 3, 4])) for _ in range(n)] if weighted else None
    for arr, d in ((f, dts[0]), (o, dts[1]), (w, dts[2])):
        if arr is not None and d.startswith("float") and rng.random() < 0.3:
            for i in range(n):
                if rng.random() < 0.1:
                    arr[i] = NAN
    return f, o, w, tuple(dts)


def typed(vals, shape, dtype):
    """list of python floats -> numpy array of the storage dtype (values are integers wherever the dtype is an integer one)"""
    a = np.array(vals, dtype=float).reshape(shape)
    return a if dtype is None else a.astype(dtype)


def wide_solver(fn):
    """the harness's solvers compute in binary64 whatever the storage dtype of the block they are handed (np.mean of a
    float32 block would return a float32: the precision of a user-supplied solver is not the library's business)"""
    def g(y, w=None):
        y = np.asarray(y, dtype=np.float64)
        return fn(y) if w is None else fn(y, np.asarray(w, dtype=np.float64))
    return g


def typed_kwargs(functional, solver, q, w):
    kw = kwargs(functional, solver, q, w)
    if "solver" in kw:
        kw["solver"] = wide_solver(kw["solver"])
    return kw


# ------------------------------------------------------------------------------------------
# +inf / -inf as valid data.  Only a pair containing a NaN is missing.  An infinite forecast is the largest / smallest
# explanatory value; an infinite observation is inside the domain where the functional defines the block values (max / min:
# always; quantile: blocks whose interpolation reads finite order statistics -- np.quantile returns NaN otherwise; mean:
# infinities of one sign); an infinite weight where the solver never reads the weights.
# ------------------------------------------------------------------------------------------
ORDER_SOLVERS = ("max", "min")                                                # commute with every increasing map of the observations
WEIGHT_BLIND = ("max", "min", "first_minus_len", "quantile", "const")         # custom solvers of this harness that never read `w`


class Undefined(Exception):
    """np.quantile interpolates between an infinite and another order statistic: inf - inf / 0 * inf, NaN by IEEE"""


def o_quantile(level):
    """exact linear-interpolation quantile; Undefined where numpy's lerp reads an infinite order statistic"""
    def sv(y):
        srt = sorted(y)
        pos = (len(srt) - 1) * Fraction(level)
        lo = pos.numerator // pos.denominator
        hi = min(lo + 1, len(srt) - 1)
        if np.isinf(float(srt[lo])) or np.isinf(float(srt[hi])):
            raise Undefined()
        return Fraction(srt[lo]) + (Fraction(srt[hi]) - Fraction(srt[lo])) * (pos - lo)
    return sv


def o_solver(name, p):
    return {"max": max, "min": min}[name] if name in ORDER_SOLVERS else o_quantile(p)


def o_tidy(f, o, w):
    """the documented tidy step: pairs without NaN, by forecast ascending then observation descending (stable)"""
    rows = [(f[k], o[k], None if w is None else w[k]) for k in range(len(f))
            if not (np.isnan(f[k]) or np.isnan(o[k]) or (w is not None and np.isnan(w[k])))]
    rows.sort(key=lambda r: (r[0], -r[1]))
    return rows


def o_pav(y, sv):
    """pool-adjacent-violators in the merge order the docstring's reference (sklearn's _inplace_contiguous_isotonic_regression)
    prescribes, over exact values (Fractions, +-inf as floats); sv = block solver of the observations"""
    n = len(y)
    out = list(y)
    target = list(range(n))
    index = 0
    while index < n:
        nxt = target[index] + 1
        if nxt == n:
            break
        if out[index] < out[nxt]:
            index = nxt
            continue
        while True:
            prev = out[nxt]
            nxt = target[nxt] + 1
            if nxt == n or prev < out[nxt]:
                target[index] = nxt - 1
                target[nxt - 1] = index
                out[index] = sv(y[index:nxt])
                if index > 0:
                    index = target[index - 1]
                break
    index = 0
    while index < n:
        nxt = target[index] + 1
        for k in range(index + 1, nxt):
            out[k] = out[index]
        index = nxt
    return out


def o_fit(f, o, w, name, p):
    """exact fit for the order solvers / the quantile: ([distinct forecasts], [counts], [values]); raises Undefined"""
    rows = o_tidy(f, o, w)
    y = [r[1] if np.isinf(r[1]) else Fraction(float(r[1])) for r in rows]
    fit = o_pav(y, o_solver(name, p))
    keys, cnt, vals = [], [], []
    for r, v in zip(rows, fit):
        if keys and keys[-1] == r[0]:
            cnt[-1] += 1
            vals[-1] = v
        else:
            keys.append(r[0]); cnt.append(1); vals.append(v)
    return keys, cnt, vals


def inject_inf(ctx, rng, f, o, w, functional, solver, q, p_fcst=0.22, obs=True):
    """in place: some forecasts / observations / weights become +-inf where that is inside the domain (see above)"""
    n = len(f)
    name = solver[0] if solver else functional
    if rng.random() < p_fcst:
        signs = rng.choice([(INF,), (-INF,), (INF, -INF)])
        for k in rng.sample(range(n), min(n, rng.randint(1, 3))):
            f[k] = rng.choice(signs)
        ctx.count("inf:fcst")
    if w is not None and solver is not None and solver[0] in WEIGHT_BLIND and rng.random() < 0.25:
        w[rng.randrange(n)] = INF
        ctx.count("inf:weight")
    if obs and name in ORDER_SOLVERS + ("quantile",) and rng.random() < 0.35:
        o0 = list(o)
        for k in rng.sample(range(n), min(n, rng.randint(1, 2))):
            o[k] = rng.choice([INF, -INF])
        if name == "quantile":
            try:
                o_fit(f, o, w, name, q if functional == "quantile" else solver[1])
                ctx.count("inf:obs:quantile")
            except Undefined:
                o[:] = o0
                ctx.count("inf:obs:quantile:undefined-by-np.quantile(left finite)")
        else:
            ctx.count("inf:obs:max-min")
    if obs and functional == "mean" and rng.random() < 0.3:
        sign = rng.choice([INF, -INF])
        for k in rng.sample(range(n), min(n, rng.randint(1, 2))):
            o[k] = sign
        ctx.count("inf:obs:mean-one-sided")


def has_inf(xs):
    return xs is not None and any(np.isinf(x) for x in xs)


def standin(vals):
    """+-inf replaced by +-m, m beyond every finite value"""
    fin = [abs(v) for v in vals if np.isfinite(v)]
    m = (max(fin) if fin else 0.0) + 1.0
    return [m if v == INF else (-m if v == -INF else v) for v in vals], m


def unstand(arr, m):
    return np.array([INF if v == m else (-INF if v == -m else v) for v in np.asarray(arr, float)])


def inf_standin_relation(ctx, M, res, f, o, w, functional, solver, q, shape, case):
    """relation between public calls: pairs whose forecast is +-inf are pairs at a forecast beyond all finite ones (the fit depends
    on the forecasts through their order only: C15_fit_depends_on_forecast_order_only); likewise for observations under max / min /
    finite-reading quantile blocks; an infinite weight is any positive weight for a solver that ignores the weights"""
    name = solver[0] if solver else functional
    o_in = has_inf(o) and name != "mean"
    if not (has_inf(f) or o_in or has_inf(w)):
        return
    f2, mf = standin(f)
    o2, mo = standin(o) if o_in else (o, None)
    w2 = None if w is None else [1.0 if x == INF else x for x in w]
    with np.errstate(invalid="ignore"):
        r2 = M.isotonic_fit(np.array(f2).reshape(shape), np.array(o2).reshape(shape),
                            **kwargs(functional, solver, q, None if w2 is None else np.array(w2).reshape(shape)))
    ctx.case(("inf-standin", repr(case)))
    ctx.count("relation:inf-standin")
    v2 = unstand(r2["regression_values"], mo) if o_in else r2["regression_values"]
    if not (np.array_equal(unstand(r2["fcst_sorted"], mf), res["fcst_sorted"]) and np.array_equal(r2["fcst_counts"], res["fcst_counts"])
            and len(v2) == len(res["regression_values"]) and all(near(a, b) for a, b in zip(res["regression_values"], v2))):
        ctx.violation("pairs with an infinite forecast / observation / weight are not treated as valid pairs: the fit differs from the fit with "
                      "the infinities replaced by finite values beyond all others (mapped back)", dict(case, standin_fcst=f2, standin_obs=o2, standin_weight=w2),
                      {"fcst_sorted": unstand(r2["fcst_sorted"], mf).tolist(), "fcst_counts": r2["fcst_counts"].tolist(), "regression_values": np.asarray(v2, float).tolist()},
                      summary_str(res))


# ------------------------------------------------------------------------------------------
# comparisons
# ------------------------------------------------------------------------------------------
def near(a, b, tol=1e-9):
    """two floats agree: NaN with NaN, an infinity only with itself, otherwise relative tolerance"""
    a, b = float(a), float(b)
    if np.isnan(a) or np.isnan(b):
        return bool(np.isnan(a) and np.isnan(b))
    if np.isinf(a) or np.isinf(b):
        return a == b
    return abs(a - b) <= tol * max(1.0, abs(b))


def summary_matches(res, tree):
    uf, cnt, vals = tree
    return (core.close_list(res["fcst_sorted"], core.dec_nums(uf)) and [int(c) for c in res["fcst_counts"]] == [int(c) for c in cnt]
            and core.close_list(res["regression_values"], core.dec_nums(vals)))


def summary_str(res):
    return {"fcst_sorted": res["fcst_sorted"].tolist(), "fcst_counts": res["fcst_counts"].tolist(), "regression_values": res["regression_values"].tolist()}


def block_check(ctx, res, f, o, w, functional, solver, q, case):
    """property predicates on the implementation's own output"""
    fa, oa = np.asarray(f, float).ravel(), np.asarray(o, float).ravel()
    wa = None if w is None else np.asarray(w, float).ravel()
    ok = ~(np.isnan(fa) | np.isnan(oa)) if wa is None else ~(np.isnan(fa) | np.isnan(oa) | np.isnan(wa))
    fa, oa = fa[ok], oa[ok]
    wa = None if wa is None else wa[ok]
    order = np.lexsort((-oa, fa))
    fa, oa = fa[order], oa[order]
    wa = None if wa is None else wa[order]
    uf, vals, cnt = res["fcst_sorted"], res["regression_values"], res["fcst_counts"]
    if int(np.sum(cnt)) != len(fa):
        ctx.violation("fcst_counts does not sum to the number of valid pairs", case, len(fa), int(np.sum(cnt)))
    if len(uf) == len(cnt) and any(int(c) != int(np.sum(fa == x)) for x, c in zip(uf, cnt)):
        ctx.violation("fcst_counts is not the number of valid pairs per forecast", case, [int(np.sum(fa == x)) for x in uf], [int(c) for c in cnt])
    if len(uf) != len(set(fa.tolist())) or any(a >= b for a, b in zip(uf, uf[1:])):
        ctx.violation("unique forecasts are not the sorted distinct valid forecasts", case, sorted(set(fa.tolist())), uf.tolist())
    if any(b < a - 1e-9 for a, b in zip(vals, vals[1:])):
        ctx.violation("regression values are not non-decreasing", case, "non-decreasing", vals.tolist())
    if np.any(np.isnan(np.asarray(vals, float))) and not np.any(np.isnan(oa)):
        ctx.violation("regression values contain NaN although every remaining pair is NaN-free", case, "finite values", np.asarray(vals, float).tolist())
    # maximal constant blocks of the fit = solver applied to the block's observations
    sv = py_solver("mean") if functional == "mean" else (py_solver("quantile", q) if functional == "quantile" else py_solver(*solver))
    i = 0
    while i < len(uf):
        j = i
        while j + 1 < len(uf) and near(vals[j + 1], vals[i], 1e-12):
            j += 1
        sel = (fa >= uf[i]) & (fa <= uf[j])
        # a never-merged single observation keeps its value (the code copies y; the theorem assumes solver [y] = y)
        expect = float(oa[sel][0]) if int(sel.sum()) == 1 else (sv(oa[sel]) if wa is None else sv(oa[sel], wa[sel]))
        if not near(vals[i], expect):
            ctx.violation("a maximal constant block of the fit differs from the solver applied to the block's observations",
                          dict(case, block_forecasts=uf[i:j + 1].tolist(), block_obs=oa[sel].tolist()), expect, float(vals[i]))
        i = j + 1
    if functional == "mean" and len(oa):
        fin = np.abs(oa[np.isfinite(oa)])
        tol = 1e-9 * max(1.0, float(fin.max()) if len(fin) else 1.0)                 # relative to the magnitude of the observations
        if vals.min() < oa.min() - tol or vals.max() > oa.max() + tol:
            ctx.violation("mean fit leaves [min obs, max obs]", case, [float(oa.min()), float(oa.max())], vals.tolist())
        ww = np.ones_like(oa) if wa is None else wa
        per_pair = np.array([vals[list(uf).index(x)] for x in fa])
        if not near(np.sum(ww * per_pair), np.sum(ww * oa)):
            ctx.violation("mean fit does not preserve the weighted mean", case, float(np.sum(ww * oa)), float(np.sum(ww * per_pair)))


def fit_case(ctx, M, rng, i):
    f, o, w = gen_pairs(rng)
    n = len(f)
    functional, solver, q = rand_functional(rng, w is not None)
    shape = rand_shape(rng, n)
    inject_inf(ctx, rng, f, o, w, functional, solver, q, obs=functional != "mean")       # mean with infinite obs: oracle stream only (no rational model)
    intobs = rng.random() < 0.12 and not any(np.isnan(o)) and all(float(x).is_integer() for x in o)
    check_fit(ctx, M, rng, i, f, o, w, functional, solver, q, shape, intobs)


def func_at_forecasts(ctx, res, F, case):
    """the fitted function read at the forecasts AS STORED (their dtype) returns the regression value of each forecast"""
    x = F.ravel()
    x = x[~np.isnan(x.astype(float))]
    uf = [float(v) for v in res["fcst_sorted"]]
    x = x[np.isin(x.astype(float), uf)]
    if not len(x):
        return
    got = np.asarray(res["regression_func"](x), float)
    want = np.array([float(res["regression_values"][uf.index(float(v))]) for v in x])
    if not np.allclose(got, want, rtol=1e-9, atol=1e-12, equal_nan=True):
        ctx.violation("regression_func evaluated at the forecasts differs from regression_values", dict(case, x=x.tolist()), want.tolist(), got.tolist())


def typed_fit_case(ctx, M, rng, i):
    """the same values held in int64 / int32 / int16 / float32 arrays (fcst, obs, weight independently): exact model and oracles"""
    f, o, w, dts = gen_typed_pairs(rng)
    functional, solver, q = rand_functional(rng, w is not None)
    check_fit(ctx, M, rng, i, f, o, w, functional, solver, q, rand_shape(rng, len(f)), False, dtypes=dts)


def check_fit(ctx, M, rng, i, f, o, w, functional, solver, q, shape, intobs, dtypes=None):
    n = len(f)
    df, do, dw = dtypes or (None, None, None)
    kwargs_ = typed_kwargs if dtypes else kwargs
    F, O = typed(f, shape, df), typed(o, shape, do)
    if intobs:
        O = O.astype(int)
    W = None if w is None else typed(w, shape, dw)
    case = {"fn": "isotonic_fit", "shape": list(shape), "fcst": f, "obs": o, "weight": w, "functional": functional,
            "solver": solver, "quantile_level": q, "int_obs": intobs}
    if dtypes:
        case["dtypes"] = list(dtypes)
        ctx.count("dtype:fcst:" + df)
        ctx.count("dtype:obs:" + do)
        if w is not None:
            ctx.count("dtype:weight:" + dw)
    with np.errstate(invalid="ignore"):
        impl = core.call_impl(M.isotonic_fit, F, O, **kwargs_(functional, solver, q, W))
    a = enc_args(shape, shape, None if w is None else shape, f, o, w, functional, solver, q, None, Fraction(9, 10), False)
    m = ctx.model("c15_fit", a)
    ctx.count("functional:" + (functional or "solver:" + solver[0]))
    ctx.count("weighted" if w is not None else "unweighted")
    if any(np.isnan(x) for x in f + o + (w or [])):
        ctx.count("with_nan")
    if i < 3:
        ctx.sample(case)
    if impl[0] == "err" or core.is_err(m):
        ctx.case(case, False)
        ctx.count("fit:" + (impl[1] if impl[0] == "err" else "ok"))
        if not (impl[0] == "err" and impl[1] == m):
            ctx.tie_fail("isotonic_fit error behaviour vs model", case, str(impl[1])[:200], str(m))
            if impl[0] == "err" and not core.is_err(m):
                ctx.violation("isotonic_fit raises on valid input (integer or float arrays of equal shape, positive weights, a pair without NaN)",
                              case, "a fit", str(impl[1])[:200])
        return
    res = impl[1]
    ctx.case(case, int(np.sum(res["fcst_counts"])) >= 2)
    ctx.count("fit:ok")
    tie_ok = summary_matches(res, m)
    if not tie_ok:
        if intobs and functional != "mean":
            mt = ctx.model("c15_fit", enc_args(shape, shape, None if w is None else shape, f, o, w, functional, solver, q, None, Fraction(9, 10), True))
            if summary_matches(res, mt):
                ctx.violation("integer-typed obs: block values are truncated (each block must equal the solver applied to its observations)",
                              case, str(m[2]), res["regression_values"].tolist(), finding_key=FINDING_INT)
                return
        ctx.tie_fail("isotonic_fit vs model", case, summary_str(res), str(m))
    else:
        # the interpolating function: at, between and outside the forecasts, and at -inf / +inf (not at finite points between a
        # finite and an infinite forecast, nor between forecasts when a fitted value may be infinite: interpolation there is numpy's
        # business and is not invariant under relabelling)
        uf = [float(x) for x in res["fcst_sorted"]]
        with np.errstate(invalid="ignore"):
            xs = set(uf + [uf[0] - 1, uf[-1] + 0.5, INF, -INF] + [(a + b) / 2 for a, b in zip(uf, uf[1:])])

        def askable(x):
            if np.isnan(x):
                return False
            lo = max([u for u in uf if u <= x], default=None)
            hi = min([u for u in uf if u >= x], default=None)
            return lo is None or hi is None or lo == x or hi == x or (np.isfinite(lo) and np.isfinite(hi) and not has_inf(o))
        xs = sorted(x for x in xs if askable(x))
        got = res["regression_func"](np.array(xs))
        mf = core.dec_nums(ctx.model("c15_func", enc_list([a, enc_nums(xs)])))
        if not core.close_list(got, mf):
            ctx.tie_fail("regression_func vs model", dict(case, x=xs), got.tolist(), [str(v) for v in mf])
    # ---- property predicates on the implementation (evaluated whether or not the tie holds) ----
    try:
        block_check(ctx, res, f, o, w, functional, solver, q, case)
        func_at_forecasts(ctx, res, F, case)
    except Exception as ex:  # noqa: BLE001  (a broken implementation may return arrays the predicates cannot index)
        ctx.violation("result dictionary is inconsistent (" + type(ex).__name__ + ")", case, "consistent fcst_sorted / fcst_counts / regression_values", summary_str(res))
    inf_standin_relation(ctx, M, res, f, o, w, functional, solver, q, shape, case)
    if functional == "mean":
        # exact oracles: max over j<=i of min over k>=i of the weighted average of (pooled groups | tidied items) j..k
        muf, mm, mi = ctx.model("c15_maxmin", enc_list([enc_nums(f), enc_nums(o), "none" if w is None else enc_nums(w)]))
        for name, vals in (("pooled groups", mm), ("tidied sequence (proved: C15_pav_mean_is_maxmin)", mi)):
            if not (core.close_list(res["fcst_sorted"], core.dec_nums(muf)) and core.close_list(res["regression_values"], core.dec_nums(vals))):
                ctx.violation("mean-functional fit differs from the max-min of block averages over " + name, case,
                              [str(v) for v in core.dec_nums(vals)], res["regression_values"].tolist())
    # pairs with a NaN are ignored: same fit as with those pairs deleted (relation between public calls)
    valid = [k for k in range(n) if not (np.isnan(f[k]) or np.isnan(o[k]) or (w is not None and np.isnan(w[k])))]
    if len(valid) < n and valid and not intobs:
        r3 = M.isotonic_fit(typed([f[k] for k in valid], -1, df), typed([o[k] for k in valid], -1, do),
                            **kwargs_(functional, solver, q, None if w is None else typed([w[k] for k in valid], -1, dw)))
        ctx.case(("nan-deleted", repr(case)))
        ctx.count("relation:nan-deleted")
        if not (np.array_equal(r3["fcst_sorted"], res["fcst_sorted"]) and np.array_equal(r3["fcst_counts"], res["fcst_counts"])
                and np.allclose(r3["regression_values"], res["regression_values"], rtol=1e-9, atol=1e-12, equal_nan=True)):
            ctx.violation("pairs containing a NaN are not ignored: the fit differs from the fit with those pairs deleted", case, summary_str(r3), summary_str(res))
    # order / shape independence on the implementation (symmetric solvers)
    if functional is not None or solver in SYMMETRIC:
        perm = list(range(n))
        rng.shuffle(perm)
        shape2 = rand_shape(rng, n)
        F2, O2 = typed([f[k] for k in perm], shape2, df), typed([o[k] for k in perm], shape2, do)
        if intobs:
            O2 = O2.astype(int)
        W2 = None if w is None else typed([w[k] for k in perm], shape2, dw)
        r2 = M.isotonic_fit(F2, O2, **kwargs_(functional, solver, q, W2))
        same = (np.allclose(r2["fcst_sorted"], res["fcst_sorted"]) and np.array_equal(r2["fcst_counts"], res["fcst_counts"])
                and np.allclose(r2["regression_values"], res["regression_values"], rtol=1e-9, atol=1e-12))
        ctx.case(("perm", repr(case), tuple(perm), shape2))
        ctx.count("relation:permuted")
        if not same:
            ctx.violation("fit changes when the input pairs are permuted / reshaped", dict(case, permutation=perm, shape2=list(shape2)),
                          summary_str(res), summary_str(r2))


def pav_case(ctx, M, rng):
    n = rng.randint(1, 10)
    y = [float(Fraction(rng.randint(0, 10), 2)) if rng.random() < 0.7 else float(rng.randint(0, 3)) for _ in range(n)]
    w = [float(rng.choice([Fraction(1, 2), Fraction(1), Fraction(2), Fraction(3)])) for _ in range(n)] if rng.random() < 0.5 else None
    check_pav(ctx, M, y, w, SOLVERS)
    ctx.count("pav_sequences")


def check_pav(ctx, M, y, w, solvers):
    n = len(y)
    for name, p in solvers:
        got = M._contiguous_ir(np.array(y), py_solver(name, p), weight=None if w is None else np.array(w))
        m = core.dec_nums(ctx.model("c15_pav", enc_list([enc_nums(y), "none" if w is None else enc_nums(w), enc_solver(name, p)])))
        ctx.case(("pav", tuple(y), None if w is None else tuple(w), name, p), n >= 2)
        case = {"fn": "_contiguous_ir", "y": y, "weight": w, "solver": [name, p]}
        if not core.close_list(got, m):
            ctx.tie_fail("_contiguous_ir vs PAV state machine", case, got.tolist(), [str(v) for v in m])
        # property predicates on the implementation: non-decreasing; each maximal constant block = solver(block)
        if any(b < a - 1e-9 for a, b in zip(got, got[1:])):
            ctx.violation("_contiguous_ir: the fit is not non-decreasing", case, "non-decreasing", got.tolist())
        if name in ("mean", "max", "min", "quantile"):       # solver [y] = y
            sv = py_solver(name, p)
            i = 0
            while i < n:
                j = i
                while j + 1 < n and abs(got[j + 1] - got[i]) <= 1e-9 * max(1.0, abs(got[i])):
                    j += 1
                ya = np.array(y[i:j + 1])
                expect = sv(ya) if w is None else sv(ya, np.array(w[i:j + 1]))
                if abs(expect - got[i]) > 1e-9 * max(1.0, abs(expect)):
                    ctx.violation("_contiguous_ir: a maximal constant block differs from the solver applied to the block's observations",
                                  dict(case, block=[i, j]), expect, float(got[i]))
                    break
                i = j + 1


def xarray_case(ctx, M, rng):
    sizes = gens.rand_sizes(rng, names=["x", "y", "z"], maxdims=3, maxsize=3)
    dts = None
    if rng.random() < 0.3:
        # integer-valued DataArrays held in int64 / int32 / int16 / float32 (NaN only in the float ones)
        dts = [rng.choice(DTYPES) for _ in range(3)]
        nanp = [(0.1 if d.startswith("float") and rng.random() < 0.4 else 0.0) for d in dts]
        off = typed_offset(rng, dts[0], 8)
        levels = [off + float(rng.randint(0 if dts[0] in UNSIGNED else -6, 8)) for _ in range(rng.randint(1, 4))]
        fc = gens.rand_da(rng, sizes, values=levels, nan_p=nanp[0]).astype(dts[0])
        off = typed_offset(rng, dts[1], 12)
        ob = gens.rand_da(rng, sizes, values=[off + v for v in range(0 if dts[1] in UNSIGNED else -6, 13 if dts[1] in UNSIGNED else 7)], nan_p=nanp[1]).astype(dts[1])
        wt = gens.rand_da(rng, sizes, values=[1.0, 2.0, 3.0, 4.0], nan_p=nanp[2]).astype(dts[2]) if rng.random() < 0.5 else None
        ctx.count("xarray:typed")
        for d in dts[:2] + ([dts[2]] if wt is not None else []):
            if d in UNSIGNED:
                ctx.count("xarray:typed:unsigned")
    else:
        levels = [float(Fraction(rng.randint(-6, 6), 2)) for _ in range(rng.randint(1, 4))]
        if rng.random() < 0.25:
            levels += list(rng.choice([(INF,), (-INF,), (INF, -INF)]))           # infinite forecasts are valid explanatory values
            ctx.count("xarray:inf-fcst")
        fc = gens.rand_da(rng, sizes, values=levels, nan_p=0.1 if rng.random() < 0.4 else 0.0)
        ob = gens.rand_da(rng, sizes, den=2, bound=6, nan_p=0.1 if rng.random() < 0.4 else 0.0)
        wt = gens.rand_da(rng, sizes, values=[0.5, 1.0, 2.0, 3.0], nan_p=0.1 if rng.random() < 0.3 else 0.0) if rng.random() < 0.4 else None
    functional, solver, q = rand_functional(rng, wt is not None)
    kwargs_ = typed_kwargs if dts else kwargs
    if solver is not None and solver not in SYMMETRIC:
        solver = ("max", None)
    bad = rng.random() < 0.08
    if bad:
        ob = ob.rename({ob.dims[0]: "other"})
    case = {"fn": "isotonic_fit[xarray]", "fcst": gens.da_repr(fc), "obs": gens.da_repr(ob), "weight": gens.da_repr(wt),
            "functional": functional, "solver": solver, "quantile_level": q}
    if dts:
        case["dtypes"] = dts
    impl = core.call_impl(M.isotonic_fit, fc, ob, **kwargs_(functional, solver, q, wt))
    ctx.count("xarray")
    if bad:
        ctx.case(case, False)
        if impl != ("err", "err:ValueError"):
            ctx.tie_fail("xarray inputs with different dims must raise ValueError", case, str(impl[1])[:200], "err:ValueError")
        return
    # pairs matched by coordinate label, in the forecast's layout
    dims = list(fc.dims)
    o2 = ob.transpose(*dims).sel({d: fc[d] for d in dims})
    w2 = None if wt is None else wt.transpose(*dims).sel({d: fc[d] for d in dims})
    f, o = fc.values.ravel().tolist(), o2.values.ravel().tolist()
    w = None if w2 is None else w2.values.ravel().tolist()
    sh = fc.shape
    m = ctx.model("c15_fit", enc_args(sh, sh, None if w is None else sh, f, o, w, functional, solver, q, None, Fraction(9, 10), False))
    if impl[0] == "err" or core.is_err(m):
        ctx.case(case, False)
        if not (impl[0] == "err" and impl[1] == m):
            ctx.tie_fail("isotonic_fit[xarray] error behaviour vs model", case, str(impl[1])[:200], str(m))
            if impl[0] == "err" and not core.is_err(m):
                ctx.violation("isotonic_fit raises on valid xarray input (integer or float DataArrays over the same dimensions)", case, "a fit", str(impl[1])[:200])
        return
    ctx.case(case, int(np.sum(impl[1]["fcst_counts"])) >= 2)
    if not summary_matches(impl[1], m):
        ctx.tie_fail("isotonic_fit[xarray] vs model", case, summary_str(impl[1]), str(m))
    # container / layout independence (relation between public calls): same pairs as plain numpy arrays, matched by label
    rn = M.isotonic_fit(np.asarray(fc.values), np.asarray(o2.values), **kwargs_(functional, solver, q, None if w2 is None else np.asarray(w2.values)))
    if not (np.array_equal(rn["fcst_sorted"], impl[1]["fcst_sorted"]) and np.array_equal(rn["fcst_counts"], impl[1]["fcst_counts"])
            and np.allclose(rn["regression_values"], impl[1]["regression_values"], rtol=1e-9, atol=1e-12, equal_nan=True)):
        ctx.violation("xarray inputs (dims transposed, coordinates shuffled) give a different fit than the same pairs as numpy arrays",
                      case, summary_str(rn), summary_str(impl[1]))


def boot_case(ctx, M, rng, i):
    f, o, w = gen_pairs(rng, nmax=9)
    functional, solver, q = rand_functional(rng, w is not None)
    if rng.random() < 0.15:
        # infinite forecasts in every resample: rows = fits of the resampled triples (relation between public calls); the model
        # tie is skipped (a row is read BETWEEN resampled forecasts, and next to an infinite one that is numpy's interpolation)
        signs = rng.choice([(INF,), (-INF,), (INF, -INF)])
        for k in rng.sample(range(len(f)), min(len(f), rng.randint(1, 3))):
            f[k] = rng.choice(signs)
        ctx.count("bootstrap:inf-fcst")
    B = rng.randint(1, 7)
    conf = rng.choice([Fraction(1, 2), Fraction(3, 4), Fraction(7, 8), Fraction(9, 10), Fraction(1, 4)])
    mnn = rng.choice([1, 1, 1, 2, 3])
    seed = rng.randint(0, 2 ** 31 - 1)
    check_boot(ctx, M, i, f, o, w, functional, solver, q, B, conf, mnn, seed)


def check_boot(ctx, M, i, f, o, w, functional, solver, q, B, conf, mnn, seed):
    n = len(f)
    kw = dict(kwargs(functional, solver, q, None if w is None else np.array(w)), bootstraps=B, confidence_level=float(conf), min_non_nan=mnn,
              report_bootstrap_results=True)
    case = {"fn": "isotonic_fit[bootstrap]", "fcst": f, "obs": o, "weight": w, "functional": functional, "solver": solver, "quantile_level": q,
            "bootstraps": B, "confidence_level": conf, "min_non_nan": mnn, "numpy_seed": seed}
    np.random.seed(seed)
    impl = core.call_impl(M.isotonic_fit, np.array(f), np.array(o), **kw)
    ctx.count("bootstrap")
    if impl[0] == "err":
        ctx.case(case, False)
        m = ctx.model("c15_fit", enc_args([n], [n], None if w is None else [n], f, o, w, functional, solver, q, B, conf, False))
        if impl[1] != m:
            ctx.tie_fail("isotonic_fit[bootstrap] error behaviour vs model", case, impl[1], str(m))
        return
    res = impl[1]
    nv = int(np.sum(res["fcst_counts"]))
    np.random.seed(seed)
    sels = [np.random.randint(0, nv, nv).tolist() for _ in range(B)]
    ctx.case(case, nv >= 2)
    if i < 2:
        ctx.sample(case)
    got_rows = res["bootstrap_results"]
    if has_inf(f):
        # no model tie (see boot_case); the pairs with an infinite forecast are valid pairs: one column per valid pair
        nvalid = len(o_tidy(f, o, w))
        if nv != nvalid or got_rows.shape != (B, nvalid):
            ctx.violation("bootstrap: pairs with an infinite forecast are valid pairs (one column of bootstrap_results per valid pair)", case,
                          [B, nvalid], list(got_rows.shape))
            return
    else:
        a = enc_args([n], [n], None if w is None else [n], f, o, w, functional, solver, q, B, conf, False)
        m = ctx.model("c15_boot", enc_list([a, enc_list([enc_list([str(k) for k in s]) for s in sels]), str(mnn)]))
        rows, lo, up = m
        ok = len(rows) == got_rows.shape[0] and all(core.close_list(got_rows[k], core.dec_nums(rows[k])) for k in range(len(rows)))
        ok = ok and core.close_list(res["confidence_band_lower_values"], core.dec_nums(lo)) and core.close_list(res["confidence_band_upper_values"], core.dec_nums(up))
        if not ok:
            ctx.tie_fail("bootstrap results / confidence band vs model (resampling replayed from the numpy seed)", case,
                         {"rows": got_rows.tolist(), "lower": res["confidence_band_lower_values"].tolist(), "upper": res["confidence_band_upper_values"].tolist()}, str(m)[:600])
    # each bootstrap row is the fit of the resampled (fcst, obs, weight) triples, read at the tidied forecasts
    # (relation between public calls; resampling replayed from the numpy seed)
    base = M.isotonic_fit(np.array(f), np.array(o), **kwargs(functional, solver, q, None if w is None else np.array(w)))
    fa, oa = np.array(f), np.array(o)
    wa = None if w is None else np.array(w)
    keep = ~(np.isnan(fa) | np.isnan(oa)) if wa is None else ~(np.isnan(fa) | np.isnan(oa) | np.isnan(wa))
    fa, oa = fa[keep], oa[keep]
    wa = None if wa is None else wa[keep]
    order = np.lexsort((-oa, fa))
    fa, oa = fa[order], oa[order]
    wa = None if wa is None else wa[order]
    if functional is not None or solver in SYMMETRIC:
        for k, sel in enumerate(sels):
            sel = np.array(sel)
            rk = M.isotonic_fit(fa[sel], oa[sel], **kwargs(functional, solver, q, None if wa is None else wa[sel]))
            row = rk["regression_func"](fa)
            if not np.allclose(row, got_rows[k], rtol=1e-9, atol=1e-12, equal_nan=True):
                ctx.violation("a bootstrap row is not the fit of the resampled (fcst, obs, weight) triples", dict(case, row=k, resample=sel.tolist()),
                              row.tolist(), got_rows[k].tolist())
                break
    lo_i, up_i = res["confidence_band_lower_values"], res["confidence_band_upper_values"]
    both = ~(np.isnan(lo_i) | np.isnan(up_i))
    if np.any(lo_i[both] > up_i[both] + 1e-12):
        ctx.violation("confidence band: lower > upper", case, "lower <= upper", {"lower": lo_i.tolist(), "upper": up_i.tolist()})
    if np.any(np.isnan(lo_i) != np.isnan(up_i)):
        ctx.violation("confidence band: lower and upper are not NaN at the same forecasts", case, "same mask", {"lower": lo_i.tolist(), "upper": up_i.tolist()})
    if tuple(res["confidence_band_levels"]) != ((1 - float(conf)) / 2, 1 - (1 - float(conf)) / 2):
        ctx.violation("confidence_band_levels", case, ((1 - float(conf)) / 2, 1 - (1 - float(conf)) / 2), res["confidence_band_levels"])
    # reproducibility with a fixed numpy seed (runtime behaviour, observed)
    np.random.seed(seed)
    again = M.isotonic_fit(np.array(f), np.array(o), **kw)
    if not (np.array_equal(again["confidence_band_lower_values"], lo_i, equal_nan=True) and np.array_equal(again["confidence_band_upper_values"], up_i, equal_nan=True)):
        ctx.violation("bootstrap bands are not reproducible for a fixed numpy seed", case, lo_i.tolist(), again["confidence_band_lower_values"].tolist())


# ------------------------------------------------------------------------------------------
# the optional arguments both OMITTED and EXPLICIT at their documented defaults (weight=None, functional="mean", bootstraps=None,
# quantile_level=None, solver=None, confidence_level=0.9, min_non_nan=1, report_bootstrap_results=False): a default changed in the
# signature is invisible to calls that always write the argument out.  Model-free (relations between public calls + python oracles).
# ------------------------------------------------------------------------------------------
DEFAULTS = {"weight": None, "functional": "mean", "bootstraps": None, "quantile_level": None, "solver": None, "confidence_level": 0.9,
            "min_non_nan": 1, "report_bootstrap_results": False}
ARRAY_KEYS = ("fcst_sorted", "fcst_counts", "regression_values", "confidence_band_lower_values", "confidence_band_upper_values")


def same_result(a, b, grid):
    """two result dictionaries are the same: keys, arrays (None or bitwise equal, NaN = NaN), levels, the three functions on a grid"""
    if set(a) != set(b) or tuple(a["confidence_band_levels"]) != tuple(b["confidence_band_levels"]):
        return False
    for k in ARRAY_KEYS + (("bootstrap_results",) if "bootstrap_results" in a else ()):
        if (a[k] is None) != (b[k] is None) or (a[k] is not None and not np.array_equal(a[k], b[k], equal_nan=True)):
            return False
    return all(np.array_equal(a[k](grid), b[k](grid), equal_nan=True)
               for k in ("regression_func", "confidence_band_lower_func", "confidence_band_upper_func"))


def defaults_case(ctx, M, rng):
    f, o, w = gen_pairs(rng, nmax=9)
    F, O = np.array(f), np.array(o)
    W = None if w is None else np.array(w)
    valid = [k for k in range(len(f)) if not (np.isnan(f[k]) or np.isnan(o[k]) or (w is not None and np.isnan(w[k])))]
    if not valid:
        return
    grid = np.array(sorted({x for x in f if not np.isnan(x)} | {-5.25, 0.25, 5.25}))
    case = {"fn": "isotonic_fit[defaults]", "fcst": f, "obs": o, "weight": w}
    ctx.case(("defaults", repr(case)), len(valid) >= 2)
    ctx.count("defaults:fit")
    wk = {} if W is None else {"weight": W}
    # 1. the plain fit: nothing but the data (and the weights) written out == every documented default written out == the oracle
    omitted = core.call_impl(M.isotonic_fit, F, O, **wk)
    explicit = core.call_impl(M.isotonic_fit, F, O, **dict(DEFAULTS, weight=W))
    if omitted[0] != "ok" or explicit[0] != "ok":
        ctx.violation("isotonic_fit raises on valid input (optional arguments omitted / written out at their documented defaults)", case,
                      "a fit", [omitted[1] if omitted[0] != "ok" else "ok", explicit[1] if explicit[0] != "ok" else "ok"])
        return
    if not same_result(omitted[1], explicit[1], grid):
        ctx.violation("isotonic_fit with the optional arguments omitted differs from the call with the documented defaults written out "
                      "(functional='mean', bootstraps=None, confidence_level=0.9, min_non_nan=1, report_bootstrap_results=False ...)", case,
                      summary_str(explicit[1]), summary_str(omitted[1]))
        return
    res = omitted[1]
    keys, vals = o_maxmin(f, o, w)
    if not (core.close_list(res["fcst_sorted"], keys) and core.close_list(res["regression_values"], vals)):
        ctx.violation("isotonic_fit with `functional` omitted is not the mean-functional fit (max-min of block averages, python oracle)", case,
                      [str(v) for v in vals], res["regression_values"].tolist())
    if (res["confidence_band_lower_values"] is not None or res["confidence_band_upper_values"] is not None or "bootstrap_results" in res
            or tuple(res["confidence_band_levels"]) != (None, None)):
        ctx.violation("isotonic_fit with `bootstraps` omitted returns a confidence band / bootstrap results", case, "none", summary_str(res))
    # 2. bootstrap: confidence_level / min_non_nan / report_bootstrap_results omitted == 0.9 / 1 / False written out (same numpy
    #    seed); the band is the 0.05 / 0.95 quantile of the non-NaN values of each column of the reported bootstrap results,
    #    NaN only where a column has no value at all
    B = rng.randint(2, 6)
    seed = rng.randint(0, 2 ** 31 - 1)
    functional, solver, q = rand_functional(rng, w is not None)
    kw = kwargs(functional, solver, q, W)
    if functional == "mean" and rng.random() < 0.5:
        del kw["functional"]
    case = dict(case, functional=functional, solver=solver, quantile_level=q, bootstraps=B, numpy_seed=seed, keywords_passed=sorted(kw))
    runs = []
    for extra in ({}, {"confidence_level": 0.9, "min_non_nan": 1, "report_bootstrap_results": False},
                  {"confidence_level": 0.9, "min_non_nan": 1, "report_bootstrap_results": True}):
        np.random.seed(seed)
        runs.append(core.call_impl(M.isotonic_fit, F, O, bootstraps=B, **kw, **extra))
    ctx.count("defaults:bootstrap")
    if any(r[0] != "ok" for r in runs):
        ctx.violation("isotonic_fit[bootstrap] raises on valid input (confidence_level / min_non_nan / report_bootstrap_results omitted or "
                      "written out at 0.9 / 1 / False)", case, "a fit", [r[1] if r[0] != "ok" else "ok" for r in runs])
        return
    a, b, c = (r[1] for r in runs)
    if not same_result(a, b, grid):
        ctx.violation("isotonic_fit[bootstrap] with confidence_level / min_non_nan / report_bootstrap_results omitted differs from the call "
                      "with 0.9 / 1 / False written out (same numpy seed)", case,
                      {"levels": b["confidence_band_levels"], "lower": b["confidence_band_lower_values"].tolist(), "upper": b["confidence_band_upper_values"].tolist(), "keys": sorted(b)},
                      {"levels": a["confidence_band_levels"], "lower": a["confidence_band_lower_values"].tolist(), "upper": a["confidence_band_upper_values"].tolist(), "keys": sorted(a)})
        return
    if "bootstrap_results" in a or "bootstrap_results" not in c:
        ctx.violation("bootstrap_results is reported exactly when report_bootstrap_results=True (default False)", case, "absent / present",
                      ["bootstrap_results" in a, "bootstrap_results" in c])
        return
    lv = a["confidence_band_levels"]
    if not (abs(lv[0] - 0.05) < 1e-12 and abs(lv[1] - 0.95) < 1e-12):
        ctx.violation("confidence_band_levels with confidence_level omitted: (0.05, 0.95)", case, (0.05, 0.95), lv)
    rows = c["bootstrap_results"]
    if has_inf(f) or rows.shape[1] != len(valid):
        return
    # columns of bootstrap_results follow the tidied (sorted) forecasts; the band is reported at the distinct ones
    fs = sorted(f[k] for k in valid)
    for j, x in enumerate(a["fcst_sorted"]):
        col = [float(v) for v in rows[:, fs.index(float(x))]]
        for name, level in (("confidence_band_lower_values", Fraction(1, 20)), ("confidence_band_upper_values", Fraction(19, 20))):
            want = o_nanquantile_col(col, level)
            got = float(a[name][j])
            if has_inf(col) and want is not None and not core.close(got, want):
                continue                       # recorded finding nanquantile-infinite-values (its own stream decides it)
            if (want is None and has_inf(col)):
                continue
            if not (np.isnan(got) if want is None else core.close(got, want)):
                ctx.violation("confidence band with confidence_level / min_non_nan omitted is not the 0.05 / 0.95 quantile of the non-NaN "
                              "bootstrap values of the column (NaN only for a column without any value: min_non_nan=1)",
                              dict(case, forecast=float(x), column=col, band=name), "nan" if want is None else str(want), got)
                return


FINDING_NQ = "nanquantile-infinite-values"


def o_nanquantile_col(col, quant):
    """np.nanquantile (linear) of one column over the extended reals: the order statistic itself where the position is an
    integer, floor * (1 - frac) + ceil * frac by IEEE otherwise; None where that is inf - inf"""
    srt = sorted(v for v in col if not np.isnan(v))
    if not srt:
        return None
    pos = (len(srt) - 1) * Fraction(quant)
    lo = pos.numerator // pos.denominator
    if pos == lo:
        return srt[lo]
    a, b = srt[lo], srt[lo + 1]
    if np.isinf(a) or np.isinf(b):
        return None if (np.isinf(a) and np.isinf(b) and a != b) else (a if np.isinf(a) else b)
    return Fraction(a) + (Fraction(b) - Fraction(a)) * (pos - lo)


def infinite_quantile_case(ctx, M, rng):
    """bootstrap values may be infinite (an infinite observation under max / min / quantile): only NaN is missing in `_nanquantile`"""
    r, c = rng.randint(2, 6), rng.randint(1, 3)
    mat = [[NAN if rng.random() < 0.2 else float(Fraction(rng.randint(-8, 8), 2)) for _ in range(c)] for _ in range(r)]
    for _ in range(rng.randint(1, 3)):
        mat[rng.randrange(r)][rng.randrange(c)] = rng.choice([INF, -INF])
    quant = rng.choice([Fraction(1, 4), Fraction(1, 2), Fraction(1, 20), Fraction(19, 20), Fraction(1, 8), Fraction(7, 8), Fraction(1, 3)])
    with np.errstate(invalid="ignore"):
        got = M._nanquantile(np.array(mat, dtype=float), float(quant))
    case = {"fn": "_nanquantile", "arr": mat, "quant": quant}
    ctx.case(case)
    ctx.count("nanquantile:infinite-values")
    for j in range(c):
        want = o_nanquantile_col([row[j] for row in mat], quant)
        if want is not None and not core.close(got[j], want):
            ctx.violation("_nanquantile differs from the linear-interpolation quantile of the non-NaN values when a value is infinite "
                          "(an infinite value is counted as missing but still sorted into the column)", dict(case, column=j), str(want), float(got[j]),
                          finding_key=FINDING_NQ)
            return


def quantile_case(ctx, M, rng):
    r, c = rng.randint(1, 6), rng.randint(1, 4)
    mat = [[NAN if rng.random() < 0.3 else float(Fraction(rng.randint(-8, 8), 2)) for _ in range(c)] for _ in range(r)]
    if rng.random() < 0.1:
        mat = [[NAN] * c for _ in range(r)]
    quant = rng.choice([Fraction(1, 4), Fraction(1, 2), Fraction(1, 20), Fraction(19, 20), Fraction(1, 8), Fraction(7, 8), Fraction(1, 3)])
    enc_rows = enc_list([enc_nums(row) for row in mat])
    got = M._nanquantile(np.array(mat, dtype=float), float(quant))
    m = core.dec_nums(ctx.model("c15_nanquantile", enc_list([enc_rows, enc_num(quant)])))
    case = {"fn": "_nanquantile", "arr": mat, "quant": quant}
    ctx.case(case)
    cols_valid = [any(not np.isnan(mat[i][j]) for i in range(r)) for j in range(c)]
    if not all(core.close(g, v) for g, v, ok in zip(got, m, cols_valid) if ok) or len(got) != len(m):
        ctx.tie_fail("_nanquantile vs model", case, got.tolist(), [str(v) for v in m])
    if any(cols_valid):
        ref = np.nanquantile(np.array(mat, dtype=float), float(quant), axis=0)
        if not all(abs(g - x) <= 1e-9 * max(1, abs(x)) for g, x, ok in zip(got, ref, cols_valid) if ok):
            ctx.violation("_nanquantile differs from the linear-interpolation quantile of the non-NaN values", case, ref.tolist(), got.tolist())
    conf = rng.choice([Fraction(1, 2), Fraction(3, 4), Fraction(9, 10)])
    mnn = rng.choice([1, 2, 3])
    lo, up = M._confidence_band(np.array(mat, dtype=float), float(conf), mnn)
    mlo, mup = ctx.model("c15_band", enc_list([enc_rows, enc_num(conf), str(mnn)]))
    if not (core.close_list(lo, core.dec_nums(mlo)) and core.close_list(up, core.dec_nums(mup))):
        ctx.tie_fail("_confidence_band vs model", dict(case, confidence_level=conf, min_non_nan=mnn), [lo.tolist(), up.tolist()], str([mlo, mup]))
    ctx.count("nanquantile")


def malformed_case(ctx, M, rng):
    """every branch of _iso_arg_checks, mostly one defect at a time"""
    f, o, w = gen_pairs(rng, nmax=6)
    n = len(f)
    fsh = osh = (n,)
    wsh = None if w is None else (n,)
    functional, solver, q = rand_functional(rng, w is not None)
    boot, conf = None, Fraction(9, 10)
    kind = rng.choice(["shape", "wshape", "wneg", "wzero", "functional", "qlevel", "qnone", "qweight", "bothnone", "both", "boot0", "bootneg",
                       "conf0", "conf1", "confbig", "allnan", "ok", "dtype"])
    F, O = np.array(f), np.array(o)
    W = None if w is None else np.array(w)
    if kind == "dtype":
        # entries that are not integers or floats are refused (documented ValueError); no rational model of a dtype: predicate only
        which = rng.choice(["fcst", "obs", "weight"])
        bad = rng.choice(["bool", "str", "complex", "object", "datetime64[s]"])
        if which == "weight" and W is None:
            W = np.ones(n)
        conv = (lambda a: np.nan_to_num(a, nan=1.0).astype(bad))
        F, O, W = (conv(F) if which == "fcst" else F), (conv(O) if which == "obs" else O), (conv(W) if which == "weight" else W)
        case = {"fn": "isotonic_fit[malformed]", "kind": kind, "which": which, "dtype": bad, "fcst": f, "obs": o, "weight": w, "functional": functional,
                "solver": solver, "quantile_level": q}
        impl = core.call_impl(M.isotonic_fit, F, O, **kwargs(functional, solver, q, W))
        ctx.case(case, False)
        ctx.count("malformed:dtype:" + which + ":" + bad)
        if impl != ("err", "err:ValueError"):
            ctx.violation("documented ValueError not raised: entries of `" + which + "` are not integers or floats", case, "err:ValueError", str(impl[1])[:120])
        return
    if kind == "shape" and n > 1:
        O = O[:-1]; osh = (n - 1,); o = o[:-1]
    elif kind == "wshape" and w is not None and n > 1:
        W = W[:-1]; wsh = (n - 1,); w = w[:-1]
    elif kind in ("wneg", "wzero") and w is not None:
        w = list(w); w[rng.randrange(n)] = rng.choice([-1.0, -1.0, -INF]) if kind == "wneg" else 0.0; W = np.array(w)
    elif kind == "functional":
        functional = rng.choice(["median", "Mean", ""])
    elif kind == "qlevel":
        functional, solver = "quantile", None
        q = rng.choice([Fraction(0), Fraction(1), Fraction(-1, 2), Fraction(3, 2)])
    elif kind == "qnone":
        functional, solver, q = "quantile", None, None
    elif kind == "qweight":
        functional, solver, q = "quantile", None, Fraction(1, 2)
        if w is None:
            w = [1.0] * n; W = np.array(w); wsh = (n,)
    elif kind == "bothnone":
        functional, solver = None, None
    elif kind == "both":
        functional, solver = "mean", ("max", None)
    elif kind in ("boot0", "bootneg"):
        boot = 0 if kind == "boot0" else -2
    elif kind in ("conf0", "conf1", "confbig"):
        boot = 2
        conf = {"conf0": Fraction(0), "conf1": Fraction(1), "confbig": Fraction(3, 2)}[kind]
    elif kind == "allnan":
        f = [NAN] * n; F = np.array(f)
    kw = kwargs(functional, solver, q, W)
    if boot is not None:
        kw["bootstraps"] = boot
        kw["confidence_level"] = float(conf)
    case = {"fn": "isotonic_fit[malformed]", "kind": kind, "fcst": f, "obs": o, "weight": w, "functional": functional, "solver": solver,
            "quantile_level": q, "bootstraps": boot, "confidence_level": conf}
    np.random.seed(0)
    impl = core.call_impl(M.isotonic_fit, F, O, **kw)
    m = ctx.model("c15_fit", enc_args(fsh, osh, wsh, f, o, w, functional, solver, q, boot, conf, False))
    ctx.case(case, False)
    ctx.count("malformed:" + kind + ":" + (impl[1] if impl[0] == "err" else "ok"))
    agree = (impl[0] == "err" and impl[1] == m) or (impl[0] == "ok" and not core.is_err(m))
    if not agree:
        ctx.tie_fail("isotonic_fit argument checks vs model", case, str(impl[1])[:200], str(m)[:200])
    # the docstring's Raises section (ValueError): positive weights, 0 < quantile_level < 1, 0 < confidence_level < 1,
    # bootstraps a positive integer, exactly one of functional/solver, no pair left
    documented = {"wneg": w is not None, "wzero": w is not None, "qlevel": True, "qweight": True, "bothnone": True, "both": True,
                  "boot0": True, "bootneg": True, "conf0": True, "conf1": True, "confbig": True, "allnan": True, "functional": True}
    if documented.get(kind) and kind not in ("shape", "wshape") and impl != ("err", "err:ValueError"):
        # (a NaN-free negative/zero weight is only present when the mutated slot was not NaN)
        if not (kind in ("wneg", "wzero") and not any(x <= 0 for x in w if not np.isnan(x))):
            ctx.violation("documented ValueError not raised (" + kind + ")", case, "err:ValueError", str(impl[1])[:120])


# ------------------------------------------------------------------------------------------
# model-free predicates (exact python oracle + relations between public calls)
# ------------------------------------------------------------------------------------------
def o_maxmin(f, o, w):
    """exact max-min of pooled block averages: ([forecasts], [values]) over the NaN-free pairs.  Forecasts may be +-inf (they are
    only ordered); observations may contain infinities of ONE sign (the average of a segment holding one is that infinity)"""
    groups = {}
    for k in range(len(f)):
        if np.isnan(f[k]) or np.isnan(o[k]) or (w is not None and np.isnan(w[k])):
            continue
        wk = Fraction(1) if w is None else Fraction(float(w[k]))
        g = groups.setdefault(float(f[k]), [Fraction(0), Fraction(0), 0.0])
        g[0] += wk
        if np.isinf(o[k]):
            assert g[2] in (0.0, float(o[k]))
            g[2] = float(o[k])
        else:
            g[1] += wk * Fraction(float(o[k]))
    keys = sorted(groups)
    out = []
    for i in range(len(keys)):
        best = None
        for j in range(i + 1):
            sw = swy = Fraction(0)
            inf = 0.0
            lo = None
            for k in range(j, len(keys)):
                sw += groups[keys[k]][0]
                swy += groups[keys[k]][1]
                inf = inf or groups[keys[k]][2]
                if k >= i:
                    a = inf if inf else swy / sw
                    lo = a if lo is None or a < lo else lo
            best = lo if best is None or lo > best else best
        out.append(best)
    return [x if np.isinf(x) else Fraction(x) for x in keys], out


def oracle_fit_case(ctx, M, rng, with_dtypes=False):
    f, o, w, dts = gen_typed_pairs(rng) if with_dtypes else (gen_pairs(rng) + (None,))
    functional, solver, q = rand_functional(rng, w is not None)
    if not with_dtypes:
        inject_inf(ctx, rng, f, o, w, functional, solver, q, p_fcst=0.3)
    oracle_fit(ctx, M, rng, f, o, w, dts, functional, solver, q)


def oracle_fit(ctx, M, rng, f, o, w, dts, functional=None, solver=None, q=None, shape=None):
    n = len(f)
    if functional is None and solver is None:
        functional, solver, q = rand_functional(rng, w is not None)
    shape = shape or rand_shape(rng, n)
    df, do, dw = dts or (None, None, None)
    kwargs_ = typed_kwargs if dts else kwargs
    case = {"fn": "isotonic_fit", "shape": list(shape), "fcst": f, "obs": o, "weight": w, "functional": functional,
            "solver": solver, "quantile_level": q, "int_obs": False}
    if dts:
        case["dtypes"] = list(dts)
    F = typed(f, shape, df)
    if dts:
        for d in (df, do) + ((dw,) if w is not None else ()):
            ctx.count("oracle:dtype:" + d)
    with np.errstate(invalid="ignore"):
        impl = core.call_impl(M.isotonic_fit, F, typed(o, shape, do),
                              **kwargs_(functional, solver, q, None if w is None else typed(w, shape, dw)))
    valid = [k for k in range(n) if not (np.isnan(f[k]) or np.isnan(o[k]) or (w is not None and np.isnan(w[k])))]
    ctx.case(("oracle-fit", repr(case)), len(valid) >= 2)
    if impl[0] == "err":
        if valid or impl[1] != "err:ValueError":
            ctx.violation("isotonic_fit raises on valid input (or not a ValueError when no pair is left)", case, "a fit", impl[1])
        return
    res = impl[1]
    try:
        block_check(ctx, res, f, o, w, functional, solver, q, case)
        func_at_forecasts(ctx, res, F, case)
    except Exception as ex:  # noqa: BLE001
        ctx.violation("result dictionary is inconsistent (" + type(ex).__name__ + ")", case, "consistent arrays", summary_str(res))
    if functional == "mean":
        keys, vals = o_maxmin(f, o, w)
        if not (core.close_list(res["fcst_sorted"], keys) and core.close_list(res["regression_values"], vals)):
            ctx.violation("mean-functional fit differs from the max-min of block averages (python oracle)", case, [str(v) for v in vals],
                          res["regression_values"].tolist())
    name = solver[0] if solver else functional
    if not dts and name in ORDER_SOLVERS + ("quantile",) and (has_inf(f) or has_inf(o) or has_inf(w)):
        # exact reference fit (pool-adjacent-violators over exact values) where infinities take part
        keys, cnt, vals = o_fit(f, o, w, name, q if functional == "quantile" else solver[1])
        if not (core.close_list(res["fcst_sorted"], keys) and [int(c) for c in res["fcst_counts"]] == cnt and core.close_list(res["regression_values"], vals)):
            ctx.violation("fit differs from the exact pool-adjacent-violators fit of the valid pairs (infinite values are valid data)", case,
                          {"fcst_sorted": keys, "fcst_counts": cnt, "regression_values": [str(v) for v in vals]}, summary_str(res))
    if not dts:
        inf_standin_relation(ctx, M, res, f, o, w, functional, solver, q, shape, case)
    if functional is not None or solver in SYMMETRIC:
        perm = list(range(n))
        rng.shuffle(perm)
        shape2 = rand_shape(rng, n)
        r2 = M.isotonic_fit(typed([f[k] for k in perm], shape2, df), typed([o[k] for k in perm], shape2, do),
                            **kwargs_(functional, solver, q, None if w is None else typed([w[k] for k in perm], shape2, dw)))
        if not (np.allclose(r2["fcst_sorted"], res["fcst_sorted"]) and np.array_equal(r2["fcst_counts"], res["fcst_counts"])
                and np.allclose(r2["regression_values"], res["regression_values"], rtol=1e-9, atol=1e-12)):
            ctx.violation("fit changes when the input pairs are permuted / reshaped", dict(case, permutation=perm, shape2=list(shape2)),
                          summary_str(res), summary_str(r2))
    if len(valid) < n and valid:
        r3 = M.isotonic_fit(typed([f[k] for k in valid], -1, df), typed([o[k] for k in valid], -1, do),
                            **kwargs_(functional, solver, q, None if w is None else typed([w[k] for k in valid], -1, dw)))
        if not (np.array_equal(r3["fcst_sorted"], res["fcst_sorted"]) and np.array_equal(r3["fcst_counts"], res["fcst_counts"])
                and np.allclose(r3["regression_values"], res["regression_values"], rtol=1e-9, atol=1e-12, equal_nan=True)):
            ctx.violation("pairs containing a NaN are not ignored: the fit differs from the fit with those pairs deleted", case, summary_str(r3), summary_str(res))


def oracle_pav_case(ctx, M, rng):
    n = rng.randint(1, 10)
    y = [float(Fraction(rng.randint(0, 10), 2)) if rng.random() < 0.7 else float(rng.randint(0, 3)) for _ in range(n)]
    w = [float(rng.choice([Fraction(1, 2), Fraction(1), Fraction(2), Fraction(3)])) for _ in range(n)] if rng.random() < 0.5 else None
    for name, p in SOLVERS:
        if name not in ("mean", "max", "min", "quantile"):
            continue
        got = M._contiguous_ir(np.array(y), py_solver(name, p), weight=None if w is None else np.array(w))
        case = {"fn": "_contiguous_ir", "y": y, "weight": w, "solver": [name, p]}
        ctx.case(("oracle-pav", tuple(y), None if w is None else tuple(w), name, p), n >= 2)
        if any(b < a - 1e-9 for a, b in zip(got, got[1:])):
            ctx.violation("_contiguous_ir: the fit is not non-decreasing", case, "non-decreasing", got.tolist())
        sv = py_solver(name, p)
        i = 0
        while i < n:
            j = i
            while j + 1 < n and abs(got[j + 1] - got[i]) <= 1e-9 * max(1.0, abs(got[i])):
                j += 1
            ya = np.array(y[i:j + 1])
            expect = sv(ya) if w is None else sv(ya, np.array(w[i:j + 1]))
            if abs(expect - got[i]) > 1e-9 * max(1.0, abs(expect)):
                ctx.violation("_contiguous_ir: a maximal constant block differs from the solver applied to the block's observations",
                              dict(case, block=[i, j]), expect, float(got[i]))
                break
            i = j + 1


def run_without_model(ctx):
    """used when the extracted model does not build against the current source: oracle and relations between public calls only"""
    M = I()
    rng = ctx.rng
    for _ in range(ctx.n(300, 4000)):
        if not ctx.time_left():
            break
        oracle_pav_case(ctx, M, rng)
    dtype_corpus(ctx, M, rng, model=False)
    for _ in range(ctx.n(200, 4000)):
        if not ctx.time_left():
            break
        defaults_case(ctx, M, rng)
    for k in range(ctx.n(900, 12000)):
        if not ctx.time_left():
            break
        oracle_fit_case(ctx, M, rng, with_dtypes=(k % 3 == 2))


def known_cases(ctx, M):
    """recorded defect (known_findings.d/C15.json): integer obs with a non-mean functional"""
    f, o = [1, 2], [3, 0]
    res = M.isotonic_fit(np.array(f), np.array(o), functional="quantile", quantile_level=0.5)
    m = ctx.model("c15_fit", enc_args([2], [2], None, f, o, None, "quantile", None, Fraction(1, 2), None, Fraction(9, 10), False))
    ctx.case(("known", "int-obs"))
    ctx.count("known_corpus")
    if not summary_matches(res, m):
        ctx.violation("integer-typed obs: block values are truncated (each block must equal the solver applied to its observations)",
                      {"fcst": f, "obs": o, "dtype": "int", "functional": "quantile", "quantile_level": 0.5}, str(m[2]), res["regression_values"].tolist(),
                      finding_key=FINDING_INT)


# repro of the repaired defect isotonic-int32-tied-fcst (/repo ad3fbe5): tied forecasts held in a 32-bit (or narrower) integer
# array gave regression_values [nan, 2.667, 3.0] instead of [2.5, 2.667, 3.0] (scipy interp1d's integer path divides by x_hi - x_lo = 0)
REPRO_I32 = ([2.0, 0.0, 0.0, 2.0, 3.0, 0.0], [4.0, 2.0, 0.0, 0.0, 3.0, 4.0], [2.0, 1.0, 1.0, 1.0, 2.0, 2.0])
# repro of the repaired defect isotonic-unsigned-obs-ties (/repo 3166ae9): `-obs` in the lexsort tie ordering wrapped for unsigned
# observations, so tied forecasts were pooled in the wrong order: fcst [.5,.5,.5,.5,.7], uint8 obs [0,1,0,1,1] fitted 1.0 at 0.5 (correct 0.5)
REPRO_UOBS = ([0.5, 0.5, 0.5, 0.5, 0.7], [0.0, 1.0, 0.0, 1.0, 1.0], [1.0, 2.0, 3.0, 1.0, 1.0])
# whole-percent forecasts packed as uint8, case counts as weights (uint16), one missing observation (float obs)
PERCENT_U8 = ([10.0, 30.0, 30.0, 70.0, 90.0, 10.0, 70.0, 50.0], [0.0, 1.0, 0.0, 0.0, 1.0, 1.0, 1.0, NAN], [3.0, 1.0, 2.0, 4.0, 1.0, 1.0, 2.0, 5.0])
# infinite forecasts (inf = "unlimited ceiling"; -inf = logit of probability 0): valid pairs at the largest / smallest forecast
INF_CEILING = ([500.0, 1500.0, INF, 3000.0, INF, 800.0, 3000.0, 1500.0], [600.0, 1000.0, 9000.0, 2500.0, 7000.0, 900.0, NAN, 2000.0], None)
INF_LOGIT = ([-INF, -1.0, 0.0, -INF, 2.0, INF], [0.0, 1.0, 0.0, 1.0, 1.0, 0.0], [1.0, 2.0, 1.0, 1.0, 3.0, 1.0])
FOUR = (("mean", None, None, True), ("mean", None, None, False), ("quantile", None, Fraction(1, 2), False), (None, ("max", None), None, True))


def dtype_corpus(ctx, M, rng, model=True):
    """deterministic corpus: the repros in every storage dtype of fcst x (obs, weight) dtypes x functional, unsigned storage, infinite
    forecasts; a regression is a VIOLATION"""
    runs = []
    for df in ("int32", "int16", "int64", "float32", "uint8", "uint16", "uint32", "uint64"):
        for do, dw in (("int64", "int64"), (df, df), ("float64", "float64")):
            runs += [(REPRO_I32, (df, do, dw), fn, (6,)) for fn in FOUR]
    for do in UNSIGNED:
        for dw in (do, "float64"):
            runs += [(REPRO_UOBS, ("float64", do, dw), fn, (5,)) for fn in FOUR]
    for dw in ("uint16", "uint32", "int64"):
        runs += [(PERCENT_U8, ("uint8", "float64", dw), fn, (2, 4)) for fn in FOUR]
        runs += [(PERCENT_U8, ("int64", "float32", dw), fn, (2, 4)) for fn in FOUR[:2]]
    runs += [(INF_CEILING, None, fn, (2, 4)) for fn in FOUR] + [(INF_LOGIT, None, fn, (6,)) for fn in FOUR]
    for (f, o, w), dts, (functional, solver, q, weighted), shape in runs:
        ww = list(w) if (weighted and w is not None) else None
        if model:
            check_fit(ctx, M, rng, 9, list(f), list(o), ww, functional, solver, q, shape, False, dtypes=dts)
        else:
            oracle_fit(ctx, M, rng, list(f), list(o), ww, dts, functional, solver, q, shape)
    ctx.count("dtype_corpus", len(runs))


def _num(x):
    if x is None:
        return None
    if isinstance(x, str):
        return float(x) if x in ("nan", "inf", "-inf") else float(Fraction(x))
    return float(x)


def _frac(x):
    return None if x is None else Fraction(str(x))


def replay(ctx, obj):
    """re-evaluate the recorded failing input(s) of a replay file on the current tree"""
    import random
    M = I()
    vs = obj.get("all_violations") or ([obj["violation"]] if "violation" in obj else [])
    vs = vs + [c for c in (obj.get("no_longer_checks") or {}).get("correspondence", []) if "case" in c]
    for v in vs:
        c = v["case"]
        fn = c.get("fn") if isinstance(c, dict) else None
        solver = None if not isinstance(c, dict) or c.get("solver") is None else (c["solver"][0], _frac(c["solver"][1]))
        if fn == "_contiguous_ir":
            check_pav(ctx, M, [_num(x) for x in c["y"]], None if c["weight"] is None else [_num(x) for x in c["weight"]], [solver])
        elif fn == "isotonic_fit":
            f, o = [_num(x) for x in c["fcst"]], [_num(x) for x in c["obs"]]
            w = None if c["weight"] is None else [_num(x) for x in c["weight"]]
            check_fit(ctx, M, random.Random(0), 9, f, o, w, c["functional"], solver, _frac(c["quantile_level"]), tuple(c["shape"]), bool(c.get("int_obs")),
                      dtypes=tuple(c["dtypes"]) if c.get("dtypes") else None)
        elif fn == "isotonic_fit[bootstrap]":
            f, o = [_num(x) for x in c["fcst"]], [_num(x) for x in c["obs"]]
            w = None if c["weight"] is None else [_num(x) for x in c["weight"]]
            check_boot(ctx, M, 9, f, o, w, c["functional"], solver, _frac(c["quantile_level"]), int(c["bootstraps"]), _frac(c["confidence_level"]),
                       int(c["min_non_nan"]), int(c["numpy_seed"]))
        else:
            ctx.note("replay: case kind not replayable individually (" + str(fn) + "); running the full check instead")
            run(ctx)
            return


def run(ctx):
    M = I()
    rng = ctx.rng
    known_cases(ctx, M)
    dtype_corpus(ctx, M, rng)
    for _ in range(ctx.n(200, 8000)):
        if not ctx.time_left():
            break
        pav_case(ctx, M, rng)
    for i in range(ctx.n(700, 30000)):
        if not ctx.time_left():
            break
        fit_case(ctx, M, rng, i)
    for i in range(ctx.n(250, 8000)):
        if not ctx.time_left():
            break
        typed_fit_case(ctx, M, rng, 9)
    for k in range(ctx.n(150, 6000)):
        if not ctx.time_left():
            break
        oracle_fit_case(ctx, M, rng, with_dtypes=(k % 3 == 2))
    ctx.count("oracle_fit_cases", ctx.n(150, 6000))
    for _ in range(ctx.n(150, 6000)):
        if not ctx.time_left():
            break
        xarray_case(ctx, M, rng)
    for i in range(ctx.n(150, 6000)):
        if not ctx.time_left():
            break
        boot_case(ctx, M, rng, i)
    for _ in range(ctx.n(120, 4000)):
        if not ctx.time_left():
            break
        defaults_case(ctx, M, rng)
    for _ in range(ctx.n(200, 8000)):
        if not ctx.time_left():
            break
        quantile_case(ctx, M, rng)
    for _ in range(ctx.n(60, 2000)):
        if not ctx.time_left():
            break
        infinite_quantile_case(ctx, M, rng)
    for _ in range(ctx.n(300, 8000)):
        if not ctx.time_left():
            break
        malformed_case(ctx, M, rng)
