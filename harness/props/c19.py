"""C19 -- Diebold-Mariano statistics follow the published estimators and sign symmetry."""
import math
from fractions import Fraction

import numpy as np
import xarray as xr

import core
from core import enc_list, enc_num, enc_nums, enc_str

ID = "C19"
LEVEL = "proof"
LEVEL_TEXT = ("Coq theorems about an executable rational model of the per-series computation (NaN removed): the HLN statistic satisfies "
              "stat^2 * V_hat = mean^2 * factor with the sign of the mean, V_hat uses exactly the direct biased autocovariances of lags 0..h-1, "
              "negating a series negates the statistic, positive rescaling leaves it unchanged, the reported interval brackets the mean with "
              "half-width q*|mean/stat| for every finite non-zero statistic and provably degenerates to NaN for an exactly-zero mean (known "
              "finding); R-level lemmas give confidence_gt_0(-s) = 1 - confidence_gt_0(s) for any symmetric distribution function and the sign "
              "symmetry of the HG statistic relative to the external least-squares fit. The model is tied to the code by a correspondence run over "
              "several series per call with NaN, ties, exact zero mean, all h below the series length, both methods and distributions. Proof is the "
              "right level for the symmetry/scale/interval relations (universally quantified over series); the numerical kernels outside Q "
              "(sqrt, norm/t cdf and ppf, FFT, least_squares) are evaluated by the host and compared.")
LEVEL_NOTE = ("the HLN correction factor and the ci_upper / ci_lower expressions are regenerated from source (sites C19.hln, C19.ci) and proved equal to the model's; partial: sqrt, scipy.stats norm/t cdf and ppf, numpy FFT and scipy.optimize.least_squares are outside the model; the model returns the "
              "exact signed square of the statistic / the exact autocovariances and the harness applies the host functions to them (trusted)")
TECHNIQUE = "Coq proof over an exact rational model of the estimators + extracted-model correspondence with host evaluation of sqrt/cdf/fit"
SITES = ["C19.hln", "C19.ci"]
RULE = ("1-4 series per call, each 2-10 valid values on the dyadic grid k/2 (|k|<=6) drawn as random / exactly-zero-mean / all-zero / constant / "
        "two-valued (ties) / alternating, integer-dtype series, the same series in several units (x1e-6..x1e6) in one call, NaN cells inserted at random positions (series of different valid length in one call), the h "
        "coordinate drawn from 1..len-1 (a sweep entry uses every h below the length), method in {HLN,HG}, distribution in {normal,t}, "
        "confidence level in {0.5,0.8,0.9,0.95,0.99}, ts_dim first or second; each optional argument whose value is the documented default (HG, 0.95, normal) "
        "is left out of the call in half of the cases and all eight left-out subsets are run on 5 (60 thorough) inputs; unsigned-integer storage; one infinite "
        "value in one series of an HLN call; the input array is compared with a copy after every call; a case is distinct by (series, h, method, distribution, level) and "
        "non-trivial when at least one series has a finite statistic")
ASSUMPTIONS = ["math.sqrt, scipy.stats.norm/t (cdf, ppf), numpy.fft and scipy.optimize.least_squares are evaluated by the host on the model's exact outputs",
               "binary64 cancellation in V_hat is bounded by a condition-number dependent tolerance (1e-9 + 1e-13 * n * sum|gamma_k| / |V_hat n^2|)"]
TRUSTED = ["host evaluation of sqrt / norm.cdf / t.cdf / ppf / least_squares on model outputs (C19)"]

# counters every complete run (quick or thorough, any seed) must have incremented: one per predicate family / input class
EXPECT_COUNTS = [
    "left_out:method", "left_out:confidence_level", "left_out:statistic_distribution", "defaults_matrix:left_out=0", "defaults_matrix:left_out=1",
    "defaults_matrix:left_out=2", "defaults_matrix:left_out=3", "infinite_member", "input_unchanged", "with_nan", "ts_dim_second", "h_as_float",
    "method:HG", "method:HLN", "dist:normal", "dist:t",
    "kind:all_zero", "kind:alternating", "kind:constant", "kind:random", "kind:small", "kind:two_valued", "kind:zero_mean", "kind:int_dtype", "kind:units:",
    "dtype:int", "dtype:uint", "stat:finite", "stat:nan", "stat:zero", "ci:brackets", "ci:zero_mean_nan", "boundary:vhat_exactly_zero",
    "relation:negation", "relation:scale", "relation:independence", "sweep:all_h", "tiny_exhaustive:len=", "units_call",
    "acovf:len<=10", "acovf:len=", "err",
] + ["malformed:" + k for k in ("h_frac", "h_zero", "h_neg", "h_ge_len", "h_eq_len", "method", "dist", "cl0", "cl1", "clneg", "h_nan")]

FINDING = "dm-ci-zero-mean"
LEVELS = [0.5, 0.8, 0.9, 0.95, 0.99]


def dm():
    from scores.stats.statistical_tests import diebold_mariano
    return diebold_mariano


# ------------------------------------------------------------------------------------------
# generators
# ------------------------------------------------------------------------------------------
def gen_series(rng, n, kind=None):
    kind = kind or rng.choice(["random", "random", "random", "zero_mean", "all_zero", "constant", "two_valued", "alternating", "small"])
    g = lambda: rng.randint(-12, 12) / 2.0  # noqa: E731
    if kind == "all_zero":
        v = [0.0] * n
    elif kind == "constant":
        c = rng.choice([x for x in range(-6, 7) if x]) / 2.0
        v = [c] * n
    elif kind == "two_valued":
        a, b = g(), g()
        v = [rng.choice([a, b]) for _ in range(n)]
    elif kind == "alternating":
        a = rng.randint(1, 6) / 2.0
        v = [a if i % 2 == 0 else -a for i in range(n)]
        if rng.random() < 0.5:
            v[-1] = g()
    elif kind == "zero_mean":
        v = [g() for _ in range(n - 1)]
        v.append(-sum(v))
        rng.shuffle(v)
    elif kind == "small":
        v = [rng.randint(-1, 1) / 2.0 for _ in range(n)]
    else:
        v = [g() for _ in range(n)]
    return kind, v


def pad_with_nan(rng, v, L):
    """insert L - len(v) NaN cells at random positions"""
    out = list(v)
    for _ in range(L - len(v)):
        out.insert(rng.randint(0, len(out)), float("nan"))
    return out


def build_da(rng, rows, hs, transpose=False, h_float=False, dtype=None):
    k = len(rows)
    labels = list(range(10, 10 + k))
    data = np.array(rows, dtype=float)
    if dtype:
        data = data.astype(dtype)          # integer-dtype time series (no NaN possible)
    hvals = [float(h) for h in hs] if h_float else list(hs)
    da = xr.DataArray(data, dims=["lead", "t"], coords={"lead": labels, "t": list(range(data.shape[1])), "h": ("lead", hvals)})
    return da.transpose("t", "lead") if transpose else da


def gen_call(ctx, nseries=None):
    rng = ctx.rng
    k = nseries or rng.choice([1, 2, 2, 3, 4])
    series, kinds, hs = [], [], []
    for _ in range(k):
        n = rng.randint(2, 10)
        kind, v = gen_series(rng, n)
        series.append(v)
        kinds.append(kind)
        hs.append(rng.randint(1, n - 1))
    L = max(len(v) for v in series) + rng.choice([0, 0, 1, 2])
    rows = [pad_with_nan(rng, v, L) for v in series]
    return rows, hs, kinds


# ------------------------------------------------------------------------------------------
# host-side evaluation of what is outside Q
# ------------------------------------------------------------------------------------------
def signed_sqrt(q):
    if isinstance(q, float):
        return q  # nan
    return math.copysign(math.sqrt(abs(float(q))), float(q)) if q != 0 else 0.0


def host_cdf(dist, stat, n):
    import scipy.stats
    return scipy.stats.norm.cdf(stat) if dist == "normal" else scipy.stats.t.cdf(stat, n - 1)


def host_quantile(dist, cl, n):
    import scipy.stats
    p = 1 - (1 - cl) / 2
    return float(scipy.stats.norm.ppf(p)) if dist == "normal" else float(scipy.stats.t.ppf(p, n - 1))


def host_hg(mean, n, sample_acov):
    """the HG statistic from the sample autocovariances (scipy least_squares is external to the model)"""
    from scipy.optimize import least_squares
    acv = np.asarray(sample_acov, dtype=float)
    lag = np.arange(len(acv))
    with np.errstate(all="ignore"):
        par = least_squares(lambda p, l, a: (p[0] ** 2) * np.exp(-3 * l / p[1]) - a, [1, 1], args=(lag, acv), bounds=(0, np.inf)).x
        all_lags = np.arange(n)
        mod = (par[0] ** 2) * np.exp(-3 * all_lags / par[1])
        dens = mod[0] + 2 * np.sum(mod[1:])
        return float(mean / np.sqrt(dens / n))


def close_f(x, y, rel=1e-9, ab=1e-12):
    if math.isnan(x) or math.isnan(y):
        return math.isnan(x) and math.isnan(y)
    if math.isinf(x) or math.isinf(y):
        return x == y
    return abs(x - y) <= ab + rel * max(abs(x), abs(y))


def exact_constant(vals):
    """a constant series whose binary64 mean is exactly that constant: every deviation is exactly 0.0, so V_hat is exactly 0 in
    binary64 too and the statistic must be NaN (for other V_hat == 0 series rounding decides)"""
    return len(set(vals)) == 1 and float(np.mean(np.array(vals, dtype=float))) == vals[0]


def dec_row(t):
    return {"mean": core.dec_num(t[0]), "stat_sq": core.dec_num(t[1]), "len": int(t[2]), "se_sq": core.dec_num(t[3]),
            "all_zero": t[4] == "true", "gammas": core.dec_nums(t[5]), "hg_sample": core.dec_nums(t[6])}


def py_rows(rows, hs):
    """exact-rational evaluation of the documented estimators in Python; used only when the extracted model cannot be built
    (run_without_model) to keep searching for a failing input"""
    out = []
    for r, h in zip(rows, hs):
        d = [Fraction(x) for x in r if not math.isnan(x)]
        n, h = len(d), int(h)
        m = sum(d) / n
        g = [sum((d[t] - m) * (d[t - k] - m) for t in range(k, n)) for k in range(n)]
        v = (g[0] + 2 * sum(g[1:h])) / n ** 2
        fac = (n + 1 - 2 * h + Fraction(h * (h - 1), n)) / n
        allz = all(x == 0 for x in d)
        nan = float("nan")
        ok = v > 0 and not allz
        ml = min(max((n - 1) // 2, h), n)
        out.append({"mean": m, "stat_sq": (m * abs(m) * fac / v) if ok else nan, "len": n, "se_sq": (v / fac) if ok else nan, "all_zero": allz,
                    "gammas": g, "hg_sample": [x / n for x in g[:ml]]})
    return out


def no_model(ctx):
    return getattr(ctx, "no_model", False)


def ci_formula(ctx, mean, q, stat):
    if no_model(ctx):
        with np.errstate(all="ignore"):
            m, qq, s = np.float64(mean), np.float64(q), np.float64(stat)
            return float(m * (1 + qq / s)), float(m * (1 - qq / s))
    fm = ctx.model("c19_ci", enc_list([enc_num(mean), enc_num(q), enc_num(stat)]))
    return core.dec_num(fm[0]), core.dec_num(fm[1])


def model_call(ctx, rows, hs, method, cl, dist):
    if no_model(ctx):
        return py_rows(rows, hs)
    t = ctx.model("c19_dm", enc_list([enc_list([enc_nums(r) for r in rows]), enc_nums(hs), enc_str(method), enc_num(cl), enc_str(dist)]))
    if core.is_err(t):
        return t
    return [dec_row(r) for r in t]


def vhat_condition(row, h):
    """(V_hat * n^2, sum of |terms|) from the exact gammas"""
    g = row["gammas"]
    v = g[0] + 2 * sum(g[1:h])
    a = abs(g[0]) + 2 * sum(abs(x) for x in g[1:h])
    return v, a


# ------------------------------------------------------------------------------------------
# one call: correspondence + property predicates
# ------------------------------------------------------------------------------------------
DEFAULTS = {"method": "HG", "confidence_level": 0.95, "statistic_distribution": "normal"}       # as documented


def rand_left_out(rng, method, cl, dist):
    """the optional arguments that are not written in the call: only one whose intended value is the documented default can be left
    out (method="HG", confidence_level=0.95, statistic_distribution="normal"), and is in half of the cases"""
    vals = {"method": method, "confidence_level": cl, "statistic_distribution": dist}
    return sorted(k for k, v in vals.items() if v == DEFAULTS[k] and rng.random() < 0.5)


def dm_kwargs(method, cl, dist, left_out=()):
    vals = {"method": method, "confidence_level": cl, "statistic_distribution": dist}
    for k in left_out:
        assert vals[k] == DEFAULTS[k], "only a default can be left out"
    return {k: v for k, v in vals.items() if k not in left_out}


def same_input(before, after):
    return before.dims == after.dims and before.dtype == after.dtype and np.array_equal(before.values, after.values, equal_nan=before.dtype.kind == "f") \
        and all(np.array_equal(before[c].values, after[c].values, equal_nan=before[c].dtype.kind == "f") for c in before.coords)


def check_call(ctx, rows, hs, method, cl, dist, transpose=False, h_float=False, kinds=None, sample=False, dtype=None, left_out=None):
    rng = ctx.rng
    da = build_da(rng, rows, hs, transpose, h_float, dtype)
    if left_out is None:
        left_out = rand_left_out(rng, method, cl, dist)
    for k in left_out:
        ctx.count("left_out:" + k)
    if any(math.isnan(x) for r in rows for x in r if isinstance(x, float)):
        ctx.count("with_nan")
    if transpose:
        ctx.count("ts_dim_second")
    if h_float:
        ctx.count("h_as_float")
    before = da.copy(deep=True)
    impl = core.call_impl(dm(), da, "lead", "h", **dm_kwargs(method, cl, dist, left_out))
    m = model_call(ctx, rows, hs, method, Fraction(cl), dist)
    desc = {"fn": "diebold_mariano", "series": [[None if math.isnan(x) else x for x in r] for r in rows], "h": list(hs), "method": method,
            "confidence_level": cl, "statistic_distribution": dist, "dtype": dtype or "float64", "arguments_left_out": list(left_out)}
    if not same_input(before, da):
        ctx.violation("diebold_mariano modifies the array it is given", desc, before.values.tolist(), da.values.tolist())
    ctx.count("input_unchanged")
    if core.is_err(m) or impl[0] == "err":
        ok = impl[0] == "err" and core.is_err(m) and impl[1] == m
        ctx.case(desc, False)
        ctx.count("err" if ok else "err_mismatch")
        if not ok and impl[0] == "err" and not core.is_err(m):
            # a valid call (the model returns values) that raises: the statistics are not what the property states
            ctx.violation("diebold_mariano raises on a valid input", desc, "values", str(impl[1])[:200])
        elif not ok:
            ctx.tie_fail("diebold_mariano: error behaviour differs", desc, str(impl[1])[:200], str(m)[:200])
        return None
    ds = impl[1]
    finite_any = False
    for i, row in enumerate(m):
        h = int(hs[i])
        n = row["len"]
        sd = dict(desc, series_index=i)
        im = {k: float(ds[k].values[i]) for k in ("mean", "dm_test_stat", "confidence_gt_0", "ci_upper", "ci_lower")}
        ilen = int(ds["timeseries_len"].values[i])
        if kinds:
            ctx.count("kind:" + kinds[i])
        # --- tie: mean, length ---
        if ilen != n:
            ctx.violation("timeseries_len is not the number of non-NaN values", sd, n, ilen)
        if not core.close(im["mean"], row["mean"]):
            ctx.tie_fail("mean differs", sd, im["mean"], row["mean"])
        mean = float(row["mean"])
        stat = im["dm_test_stat"]
        # --- tie: the statistic ---
        vn2, vabs = vhat_condition(row, h)
        boundary = False
        if method == "HLN":
            exp_stat = signed_sqrt(row["stat_sq"])
            illcond = vn2 != 0 and 1e-13 * n * float(vabs / abs(vn2)) > 1e-4
            if illcond:
                # V_hat is zero up to the rounding of the inputs (e.g. a rescaled series whose exact V_hat is 0): nothing to compare
                boundary = True
                ctx.count("boundary:vhat_ill_conditioned")
            elif vn2 == 0 and not row["all_zero"] and not exact_constant([x for x in rows[i] if not math.isnan(x)]):
                # V_hat is exactly zero (e.g. a constant series): binary64 rounding of the mean decides between NaN and a huge value
                boundary = True
                ctx.count("boundary:vhat_exactly_zero")
                if not (math.isnan(stat) or abs(stat) > 1e5 or stat == 0.0):
                    ctx.tie_fail("HLN statistic at V_hat == 0", sd, stat, "nan or huge")
            else:
                rel = 1e-9 + (1e-13 * n * float(vabs / abs(vn2)) if vn2 != 0 else 0.0)
                if not close_f(stat, exp_stat, rel=rel):
                    ctx.violation("HLN statistic differs from mean / sqrt(V_hat) * sqrt(factor)", sd, exp_stat, stat)
        else:
            from scores.stats.statistical_tests.acovf import acovf
            d = np.array([x for x in rows[i] if not math.isnan(x)], dtype=float)
            if row["all_zero"]:
                exp_stat = float("nan")
            else:
                ac = acovf(d)
                exp_stat = host_hg(float(np.mean(d)), n, ac[0:len(row["hg_sample"])])
                loose = host_hg(mean, n, [float(x) for x in row["hg_sample"]])
                if math.isfinite(exp_stat) and math.isfinite(loose) and not close_f(exp_stat, loose, rel=1e-3, ab=1e-6):
                    ctx.count("hg:fit_sensitive_to_1e-16")
            if not (close_f(stat, exp_stat, rel=1e-9) or (not math.isfinite(stat) and not math.isfinite(exp_stat))):
                ctx.violation("HG statistic differs from mean / sqrt(density(fit(acovf[0:max_lag])) / n)", sd, exp_stat, stat)
        if math.isfinite(stat):
            finite_any = True
        ctx.count("stat:" + ("nan" if math.isnan(stat) else "zero" if stat == 0 else "finite" if math.isfinite(stat) else "inf"))
        if boundary:
            continue
        # --- confidence_gt_0 is the cdf at the statistic ---
        ec = float(host_cdf(dist, stat, n))
        if not close_f(im["confidence_gt_0"], ec, rel=1e-9, ab=1e-12):
            ctx.violation("confidence_gt_0 is not the reference cdf at dm_test_stat", sd, ec, im["confidence_gt_0"])
        # --- confidence interval ---
        q = host_quantile(dist, cl, n)
        up, lo = ci_formula(ctx, im["mean"], q, stat)
        faithful = core.close(im["ci_upper"], up, 1e-9) and core.close(im["ci_lower"], lo, 1e-9)   # = mean * (1 +- q / stat), IEEE-style
        if math.isfinite(stat):
            brackets = im["ci_lower"] <= im["mean"] <= im["ci_upper"]       # False when an end point is NaN
            if method == "HLN" and not isinstance(row["se_sq"], float):
                half = q * math.sqrt(float(row["se_sq"]))
            elif stat != 0:
                half = q * abs(im["mean"] / stat)
            else:
                half = None
            width_ok = half is None or (close_f(im["ci_upper"] - im["mean"], half, rel=1e-6, ab=1e-9)
                                        and close_f(im["mean"] - im["ci_lower"], half, rel=1e-6, ab=1e-9))
            if brackets and width_ok:
                ctx.count("ci:brackets")
            else:
                # the recorded deviation: exactly-zero mean, statistic 0, and the code equals the faithful formula (0 * inf = NaN)
                zero_mean = (im["mean"] == 0.0 and stat == 0.0 and faithful and math.isnan(im["ci_upper"]) and math.isnan(im["ci_lower"]))
                ctx.violation("finite statistic but the interval does not bracket the mean with half-width q*|mean/stat|", sd,
                              {"mean": im["mean"], "half_width": half}, {"ci_lower": im["ci_lower"], "ci_upper": im["ci_upper"], "stat": stat},
                              finding_key=FINDING if zero_mean else None)
                ctx.count("ci:zero_mean_nan" if zero_mean else "ci:violation")
        elif not faithful:
            ctx.tie_fail("ci end points for a non-finite statistic differ from mean * (1 +- q / stat)", sd, [im["ci_upper"], im["ci_lower"]], [str(up), str(lo)])
    ctx.case(desc, finite_any)
    if sample:
        ctx.sample(desc)
    return ds


SCALES = [2.0, 0.5, 4.0, 3.0, 0.1, 1e-3, 1e-5, 1e-6, 1e3, 1e6]


def relations(ctx, rows, hs, method, cl, dist, dtype=None):
    """sign symmetry, scale invariance and series independence on the implementation"""
    rng = ctx.rng
    f = dm()
    kw = dm_kwargs(method, cl, dist, rand_left_out(rng, method, cl, dist))
    base = core.call_impl(f, build_da(rng, rows, hs, dtype=dtype), "lead", "h", **kw)
    if base[0] != "ok":
        return
    b = base[1]
    desc = {"series": [[None if math.isnan(x) else x for x in r] for r in rows], "h": list(hs), "method": method, "confidence_level": cl,
            "statistic_distribution": dist, "dtype": dtype or "float64", "arguments_left_out": sorted(set(DEFAULTS) - set(kw))}
    # the negated series of an unsigned-integer array is stored as a signed one (the values themselves cannot be negated in place)
    ndtype = dtype.replace("uint", "int") if dtype and dtype.startswith("uint") and dtype != "uint64" else ("int64" if dtype == "uint64" else dtype)
    neg = core.call_impl(f, build_da(rng, [[-x for x in r] for r in rows], hs, dtype=ndtype), "lead", "h", **kw)
    if neg[0] != "ok":
        ctx.violation("negated series raises", desc, "ok", neg[1])
        return
    ng = neg[1]
    for i in range(len(rows)):
        s, s2 = float(b["dm_test_stat"].values[i]), float(ng["dm_test_stat"].values[i])
        c, c2 = float(b["confidence_gt_0"].values[i]), float(ng["confidence_gt_0"].values[i])
        ok = close_f(s2, -s, rel=1e-9) and (close_f(c2, 1 - c, rel=1e-9, ab=1e-12))
        ok = ok and close_f(float(ng["mean"].values[i]), -float(b["mean"].values[i])) and int(ng["timeseries_len"].values[i]) == int(b["timeseries_len"].values[i])
        if not ok:
            ctx.violation("negating a series does not negate the statistic / complement confidence_gt_0", dict(desc, series_index=i),
                          {"stat": -s, "confidence": 1 - c}, {"stat": s2, "confidence": c2})
    ctx.count("relation:negation")
    if method == "HLN":
        c = rng.choice(SCALES)
        sc = core.call_impl(f, build_da(rng, [[c * x for x in r] for r in rows], hs), "lead", "h", **kw)
        if sc[0] != "ok":
            ctx.violation("rescaled series raises", desc, "ok", sc[1])
        else:
            m = model_call(ctx, rows, hs, method, Fraction(cl), dist)
            for i in range(len(rows)):
                s, s2 = float(b["dm_test_stat"].values[i]), float(sc[1]["dm_test_stat"].values[i])
                vn2, vabs = vhat_condition(m[i], int(hs[i]))
                if vn2 == 0 or 1e-13 * m[i]["len"] * float(vabs / abs(vn2)) > 1e-5:
                    # V_hat exactly zero: NaN for a constant series (checked in check_call); otherwise binary64 cancellation
                    # (which a non-power-of-two rescaling changes) decides between NaN and a huge value
                    ctx.count("boundary:vhat_exactly_zero(scale)")
                    continue
                if not close_f(s2, s, rel=1e-8 + 1e-12 * m[i]["len"] * float(vabs / abs(vn2))):
                    ctx.violation("positive rescaling changes the HLN statistic", dict(desc, series_index=i, scale=c), s, s2)
        ctx.count("relation:scale")
    # each series is treated independently of the others in the call
    if len(rows) > 1:
        i = rng.randrange(len(rows))
        one = core.call_impl(f, build_da(rng, [rows[i]], [hs[i]], dtype=dtype), "lead", "h", **kw)
        if one[0] == "ok":
            for k in ("mean", "dm_test_stat", "confidence_gt_0", "ci_upper", "ci_lower", "timeseries_len"):
                if not close_f(float(one[1][k].values[0]), float(b[k].values[i]), rel=1e-12):
                    ctx.violation("a series' result depends on the other series of the call", dict(desc, series_index=i, variable=k),
                                  float(one[1][k].values[0]), float(b[k].values[i]))
        ctx.count("relation:independence")


def acovf_cases(ctx, n):
    """acovf (FFT) equals the direct biased estimator at every lag"""
    from scores.stats.statistical_tests.acovf import acovf
    rng = ctx.rng
    for i in range(n):
        ln = rng.choice([1, 2, 3, 4, 5, 6, 7, 8, 9, 10, 12, 13, 16, 17, 20, 21, 22, 31, 36, 37, 40])
        kind, v = gen_series(rng, ln)
        ac = acovf(np.array(v, dtype=float))
        if ln == 1:
            exp = [Fraction(0)]          # a single value: lag-0 autocovariance 0 (the public function rejects h >= length)
        else:
            m = model_call(ctx, [v], [1], "HLN", Fraction(1, 2), "normal")
            exp = [g / ln for g in m[0]["gammas"]]
        scale = max(1.0, max(abs(float(e)) for e in exp))
        ctx.case(("acovf", tuple(v)))
        if len(ac) != ln or any(abs(float(a) - float(e)) > 1e-9 * scale for a, e in zip(ac, exp)):
            ctx.violation("acovf differs from the direct biased autocovariance estimator", {"fn": "acovf", "x": v}, [float(e) for e in exp],
                          [float(a) for a in ac])
        ctx.count("acovf:len=%d" % ln if ln > 10 else "acovf:len<=10")


MALFORMED_KINDS = ["h_frac", "h_zero", "h_neg", "h_ge_len", "h_eq_len", "method", "dist", "cl0", "cl1", "clneg", "h_nan"]


def malformed(ctx, n):
    rng = ctx.rng
    for idx in range(n):
        rows, hs, kinds = gen_call(ctx)
        method, cl, dist = "HLN", 0.9, "normal"
        kind = MALFORMED_KINDS[idx % len(MALFORMED_KINDS)]          # every kind in every run
        i = rng.randrange(len(rows))
        nvalid = sum(1 for x in rows[i] if not math.isnan(x))
        hf = False
        if kind == "h_frac":
            hs[i] = hs[i] + 0.5
            hf = True
        elif kind == "h_nan":
            hs[i] = float("nan")
            hf = True
        elif kind == "h_zero":
            hs[i] = 0
        elif kind == "h_neg":
            hs[i] = -1
        elif kind == "h_ge_len":
            hs[i] = nvalid + rng.randint(1, 2)
        elif kind == "h_eq_len":
            hs[i] = nvalid
        elif kind == "method":
            method = rng.choice(["hln", "DM", ""])
        elif kind == "dist":
            dist = rng.choice(["Normal", "chi2"])
        elif kind == "cl0":
            cl = 0.0
        elif kind == "cl1":
            cl = 1.0
        else:
            cl = -0.5
        check_call(ctx, rows, hs, method, cl, dist, h_float=hf, left_out=[])
        ctx.count("malformed:" + kind)


def known_reproduction(ctx):
    """deterministic reproduction of finding 7: exactly-zero mean, finite statistic 0, NaN interval"""
    rows = [[1.0, -1.0, 1.0, -1.0, float("nan")], [2.0, 1.0, -3.0, -1.0, 0.0]]
    check_call(ctx, rows, [1, 3], "HLN", 0.95, "normal", sample=True)
    check_call(ctx, rows, [1, 3], "HG", 0.95, "t")


def tiny_exhaustive(ctx, maxlen, methods):
    """every series over {-1/2, 0, 1/2} of length 2..maxlen x every h below the length: all tie / zero-mean / constant patterns"""
    import itertools
    vals = (-0.5, 0.0, 0.5)
    for n in range(2, maxlen + 1):
        allser = [list(t) for t in itertools.product(vals, repeat=n)]
        for h in range(1, n):
            for method in methods:
                for k in range(0, len(allser), 27):
                    if not ctx.time_left():
                        return False
                    chunk = allser[k:k + 27]
                    check_call(ctx, chunk, [h] * len(chunk), method, 0.9, "t" if (n + h) % 2 else "normal")
        ctx.count("tiny_exhaustive:len=%d" % n)
    return True


def units_cases(ctx, n):
    """the same series expressed in different units within one call (x1, x1e-3, x1e-5, x1e3, x1e6): each row against the exact model
    (the model receives the binary64 values as exact rationals) and the statistics of all rows against each other"""
    rng = ctx.rng
    for _ in range(n):
        if not ctx.time_left():
            return
        ln = rng.randint(3, 10)
        kind, v = gen_series(rng, ln, rng.choice(["random", "random", "two_valued", "small", "alternating"]))
        h = rng.randint(1, ln - 1)
        scales = [1.0] + rng.sample([1e-3, 1e-5, 1e-6, 1e3, 1e6, 0.1, 7.0], 3)
        rows = [[c * x for x in v] for c in scales]
        method = rng.choice(["HLN", "HLN", "HG"])
        ds = check_call(ctx, rows, [h] * len(rows), method, rng.choice(LEVELS), rng.choice(["normal", "t"]), kinds=["units:" + kind] * len(rows))
        ctx.count("units_call")
        if ds is None or method != "HLN":
            continue
        m = model_call(ctx, [v], [h], method, Fraction(1, 2), "normal")[0]
        vn2, vabs = vhat_condition(m, h)
        if vn2 == 0 or 1e-13 * ln * float(vabs / abs(vn2)) > 1e-5:
            continue
        st = [float(x) for x in ds["dm_test_stat"].values]
        for c, x in zip(scales[1:], st[1:]):
            if not close_f(x, st[0], rel=1e-8 + 1e-12 * ln * float(vabs / abs(vn2))):
                ctx.violation("positive rescaling changes the HLN statistic", {"fn": "diebold_mariano", "series": rows, "h": [h] * len(rows), "method": "HLN",
                                                                                "scale": c}, st[0], x)


def int_dtype_cases(ctx, n):
    """integer-dtype time series (no NaN): the statistics are real numbers whatever the dtype of the input"""
    rng = ctx.rng
    for i in range(n):
        if not ctx.time_left():
            return
        k = rng.choice([1, 2, 3])
        ln = rng.randint(2, 10)
        # unsigned storage (counts, categories; the function takes means and differences from the mean, never differences of cells)
        dt = rng.choice(["int64", "int32", "uint8", "uint16", "uint64"])
        lo = 0 if dt.startswith("uint") else -4
        rows = [[float(rng.randint(lo, 6)) for _ in range(ln)] for _ in range(k)]
        hs = [rng.randint(1, ln - 1) for _ in range(k)]
        method, dist, cl = rng.choice(["HLN", "HLN", "HG"]), rng.choice(["normal", "t"]), rng.choice(LEVELS)
        check_call(ctx, rows, hs, method, cl, dist, transpose=rng.random() < 0.3, kinds=["int_dtype"] * k, dtype=dt)
        if i % 3 == 0:
            relations(ctx, rows, hs, method, cl, dist, dtype=dt)
        ctx.count("dtype:" + dt)


def defaults_matrix(ctx, n):
    """every subset of the optional arguments left out: a left-out argument means the documented default (method="HG",
    confidence_level=0.95, statistic_distribution="normal"); the written ones take the default or another value"""
    import itertools
    rng = ctx.rng
    keys = sorted(DEFAULTS)
    for _ in range(n):
        if not ctx.time_left():
            return
        rows, hs, kinds = gen_call(ctx, nseries=rng.choice([2, 3]))
        for r in range(len(keys) + 1):
            for left in itertools.combinations(keys, r):
                method = "HG" if ("method" in left or rng.random() < 0.3) else "HLN"
                cl = 0.95 if ("confidence_level" in left or rng.random() < 0.3) else rng.choice([0.5, 0.8, 0.9, 0.99])
                dist = "normal" if ("statistic_distribution" in left or rng.random() < 0.3) else "t"
                check_call(ctx, rows, hs, method, cl, dist, kinds=kinds, left_out=list(left))
                ctx.count("defaults_matrix:left_out=%d" % len(left))


def infinite_member(ctx, n):
    """an infinite score difference in one series (HLN; the HG fit of scipy refuses non-finite residuals for the whole call): it is a
    value, not a missing one -- it counts in timeseries_len, the mean is that infinity, the statistic is not a finite number -- and the
    other series of the call are not touched by it"""
    rng = ctx.rng
    for _ in range(n):
        if not ctx.time_left():
            return
        rows, hs, kinds = gen_call(ctx, nseries=rng.choice([2, 3, 4]))
        i = rng.randrange(len(rows))
        pos = [j for j, x in enumerate(rows[i]) if not math.isnan(x)]
        inf = rng.choice([float("inf"), float("-inf")])
        rows2 = [list(r) for r in rows]
        rows2[i][rng.choice(pos)] = inf
        dist, cl = rng.choice(["normal", "t"]), rng.choice(LEVELS)
        kw = dm_kwargs("HLN", cl, dist, rand_left_out(rng, "HLN", cl, dist))
        a = core.call_impl(dm(), build_da(rng, rows, hs), "lead", "h", **kw)
        b = core.call_impl(dm(), build_da(rng, rows2, hs), "lead", "h", **kw)
        desc = {"fn": "diebold_mariano", "series": [[None if math.isnan(x) else x for x in r] for r in rows2], "h": list(hs), "method": "HLN",
                "confidence_level": cl, "statistic_distribution": dist, "infinite_value_in_series": i}
        ctx.case(desc, True)
        ctx.count("infinite_member")
        if a[0] != "ok":
            continue
        if b[0] != "ok":
            ctx.violation("an infinite value in one series makes the HLN call raise", desc, "values", str(b[1])[:200])
            continue
        nvalid = sum(1 for x in rows2[i] if not math.isnan(x))
        got = {k: float(b[1][k].values[i]) for k in ("mean", "dm_test_stat", "timeseries_len")}
        if int(got["timeseries_len"]) != nvalid or got["mean"] != inf or math.isfinite(got["dm_test_stat"]):
            ctx.violation("an infinite value is not treated as a value of the series (timeseries_len counts non-NaN values, the mean is that "
                          "infinity, the statistic is not finite)", desc, {"timeseries_len": nvalid, "mean": inf, "dm_test_stat": "nan"}, got)
        for j in range(len(rows)):
            if j == i:
                continue
            for k in ("mean", "dm_test_stat", "confidence_gt_0", "ci_upper", "ci_lower", "timeseries_len"):
                if not close_f(float(a[1][k].values[j]), float(b[1][k].values[j]), rel=1e-12):
                    ctx.violation("an infinite value in one series changes the result of another series", dict(desc, series_index=j, variable=k),
                                  float(a[1][k].values[j]), float(b[1][k].values[j]))


def run_without_model(ctx):
    """the extracted model is unavailable: the same predicates with the documented estimators evaluated in exact Python rationals"""
    ctx.no_model = True
    run(ctx)


def replay(ctx, rec):
    import scores.stats.statistical_tests  # noqa: F401
    v = rec.get("violation") or {}
    c = v.get("case") or {}
    if c.get("fn") == "acovf" or "series" not in c:
        return run(ctx)
    rows = [[float("nan") if x is None else float(x) for x in r] for r in c["series"]]
    hs = [float("nan") if isinstance(h, str) else h for h in c["h"]]
    dt = c.get("dtype") if "int" in str(c.get("dtype")) else None
    if "infinite_value_in_series" in c:
        return run(ctx)
    # files written before round 4 do not say which arguments were left out: all written, then every default left out
    outs = [c["arguments_left_out"]] if "arguments_left_out" in c else \
        [[], [k for k, v in (("method", c["method"]), ("confidence_level", float(c["confidence_level"])),
                             ("statistic_distribution", c["statistic_distribution"])) if v == DEFAULTS[k]]]
    for left in outs:
        check_call(ctx, rows, hs, c["method"], float(c["confidence_level"]), c["statistic_distribution"],
                   h_float=any(isinstance(h, float) for h in hs), dtype=dt, left_out=left)
    relations(ctx, rows, hs, c["method"], float(c["confidence_level"]), c["statistic_distribution"], dtype=dt)


def run(ctx):
    import scores.stats.statistical_tests  # noqa: F401
    rng = ctx.rng
    thorough = ctx.tier == "thorough"
    known_reproduction(ctx)
    done = tiny_exhaustive(ctx, 5 if thorough else 4, ("HLN", "HG") if thorough else ("HLN",))
    ctx.note("all series over {-1/2,0,1/2} of length 2..%d x all h enumerated completely (%s); longer / richer series sampled"
             % (5 if thorough else 4, "HLN and HG" if thorough else "HLN"))
    ctx.exhaustive = bool(done)
    # sweep: every h below the series length, both methods
    for _ in range(ctx.n(15, 150)):
        n = rng.randint(2, 9)
        kind, v = gen_series(rng, n)
        hs = list(range(1, n))
        for method in ("HLN", "HG"):
            check_call(ctx, [list(v) for _ in hs], hs, method, rng.choice(LEVELS), rng.choice(["normal", "t"]), kinds=[kind] * len(hs))
        ctx.count("sweep:all_h")
    for i in range(ctx.n(300, 6000)):
        if not ctx.time_left():
            break
        rows, hs, kinds = gen_call(ctx)
        method = rng.choice(["HLN", "HLN", "HG"])
        dist = rng.choice(["normal", "t"])
        cl = rng.choice(LEVELS)
        ctx.count("method:" + method)
        ctx.count("dist:" + dist)
        check_call(ctx, rows, hs, method, cl, dist, transpose=rng.random() < 0.3, h_float=rng.random() < 0.2, kinds=kinds, sample=(i < 2))
        if i % 3 == 0:
            relations(ctx, rows, hs, method, cl, dist)
    defaults_matrix(ctx, ctx.n(5, 60))
    infinite_member(ctx, ctx.n(40, 600))
    units_cases(ctx, ctx.n(40, 800))
    int_dtype_cases(ctx, ctx.n(40, 800))
    acovf_cases(ctx, ctx.n(100, 2000))
    if not no_model(ctx):
        malformed(ctx, ctx.n(60, 600))
